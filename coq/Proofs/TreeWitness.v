(* C03 for routes WITH parameters: on every tree reached by a history of registrations, removals,
   cleans and middleware applications whose registered patterns the tokenizer accepts
   ([hist_tokens]), the request built from a live route by putting a "simple" value in the place of
   every parameter is never answered 404 (C03_simple_witness_served); the chain's own child accepts
   exactly the value at every step (C03_simple_witness_own_child); and when no earlier parameter
   sibling accepts the text, the route's own node answers with exactly the parameters bound
   (C03_simple_witness_exact).
   Two new invariants over histories are needed and proved here:
   - the first-byte index of a node is never longer than its number of literal children
     (so the parameter children are all tried by the loop after the index);
   - a parameter node whose label ends with its closing brace has no children.
   Theorems are re-exported by Props/C03witness.v. *)
From Coq Require Import String Permutation.
From Mux Require Import Model.Bytes Model.Regex Model.Context Model.Syntax Model.Tree
  Proofs.BytesFacts Proofs.MatchSound Proofs.TreeSafe Proofs.TreeOrder Proofs.MatchOrder.
From Mux Require Spec.Table Proofs.Misc1 Proofs.TreeText Proofs.TreeOnion Proofs.TreeNames Proofs.TokensSplit Proofs.TreeFind.
From Mux Require Import Proofs.TreeLit.

Local Open Scope nat_scope.

Notation NB := TokensSplit.NB.
Notation isparam := TreeNames.isparam.

(* ================================================================ Part A : parameter labels *)

(* the end-point flag of whatever new_segment returns *)
Lemma new_segment_endpoint : forall ic v s, new_segment ic v = Ok s ->
  s = string_seg v \/ (styp s = TRegexp /\ sendpoint s = false) \/
  (styp s <> TRegexp /\ sendpoint s = ends_with v 125%N).
Proof.
  intros ic v s H. unfold new_segment in H.
  destruct (N.ltb max_int16 (N.of_nat (length v))); [discriminate H|].
  destruct (index_byte v 123) as [start|]; [|injection H as <-; now left].
  destruct (index_byte v 125) as [end_|]; [|injection H as <-; now left].
  right.
  destruct (Nat.ltb end_ start || Nat.eqb (S start) end_ || _); [discriminate H|].
  cbv zeta in H.
  repeat TreeText.res_step H; injection H as <-; cbn [styp sendpoint];
    try (left; split; reflexivity); right; (split; [discriminate | reflexivity]).
Qed.

(* a parameter label of a reachable tree: the token, then the suffix; the end-point flag *)
Lemma param_label : forall ic s, nbseg ic s -> isparam s = true ->
  exists body suf, sval s = 123%N :: body ++ 125%N :: suf /\ NB body /\ NB suf /\ ssuffix s = suf /\
    (suf = [] -> sendpoint s = true \/ styp s = TRegexp) /\ (suf <> [] -> sendpoint s = false).
Proof.
  intros ic s [Hn [_ [_ Hp]]] P. destruct (Hp P) as [body [suf [E [Hb Hs]]]].
  exists body, suf. split; [exact E|]. split; [exact Hb|]. split; [exact Hs|].
  assert (I5 : index_byte (sval s) 125%N = Some (S (length body))).
  { rewrite E. cbn [index_byte]. destruct (N.eqb_spec 123 125) as [X|_]; [discriminate X|].
    now rewrite (TokensSplit.ib_app_notin body 125%N suf (proj2 Hb)). }
  assert (Hsuf : ssuffix s = suf).
  { destruct (TreeText.new_segment_inv _ _ _ Hn) as [Es | [st [en [_ [I2 [_ [_ [Sf _]]]]]]]].
    - rewrite Es in P. discriminate P.
    - rewrite I5 in I2. injection I2 as <-. rewrite Sf, E.
      replace (123%N :: body ++ 125%N :: suf) with ((123%N :: body ++ [125%N]) ++ suf)
        by (cbn [app]; now rewrite <- app_assoc).
      apply TokensSplit.skipn_len_app. cbn [length]. rewrite app_length. cbn [length]. lia. }
  split; [exact Hsuf|].
  destruct (new_segment_endpoint _ _ _ Hn) as [Es | [[T Ep] | [T Ep]]].
  - rewrite Es in P. discriminate P.
  - split; [intros _; now right | intros _; exact Ep].
  - rewrite Ep, E. split.
    + intros ->. left. change (123%N :: body ++ [125%N]) with ((123%N :: body) ++ [125%N]).
      apply TokensSplit.ends_with_snoc.
    + intro Hne. exact (TokensSplit.ends_with_chunk (body, suf) (conj Hb Hs) Hne).
Qed.

Definition closed (s : segment) : Prop := isparam s = true /\ ssuffix s = [].
Definition open (s : segment) : Prop := isparam s = true -> ssuffix s <> [].

Lemma open_lit : forall s, isparam s = false -> open s.
Proof. intros s H P. congruence. Qed.

(* the first split point of [v ++ suffix ++ rest] is after [v] when [v] shares no byte with the suffix *)
Lemma find_split_exact : forall m suffix v pre rest, suffix <> [] ->
  (forall b, In b v -> ~ In b suffix) -> m (rev pre ++ v) = true ->
  find_split m suffix pre (v ++ suffix ++ rest) = Some (rev pre ++ v, rest).
Proof.
  intros m suffix v. induction v as [|c v IH]; intros pre rest Hne Hd Hm.
  - cbn [app] in *. rewrite find_split_unfold, has_prefix_app. rewrite app_nil_r in Hm. rewrite Hm.
    cbn [andb]. rewrite app_nil_r. now rewrite TreeFind.skipn_len_app.
  - cbn [app]. rewrite find_split_unfold.
    assert (HP : has_prefix (c :: v ++ suffix ++ rest) suffix = false).
    { destruct suffix as [|s0 sf]; [now elim Hne|]. cbn [has_prefix].
      destruct (N.eqb_spec s0 c) as [->|_]; [|reflexivity].
      exfalso. apply (Hd c); now left. }
    rewrite HP. cbn [andb].
    replace (rev pre ++ c :: v) with (rev (c :: pre) ++ v) in * by (cbn [rev]; now rewrite <- app_assoc).
    apply IH; [exact Hne | | exact Hm]. intros b Ib. apply Hd. now right.
Qed.

(* the parameters after a label has accepted the value [v] *)
Definition bind1 (s : segment) (v : bytes) (ps : params) : params :=
  if isparam s then (if signore s then ps else ctx_set ps (sname s) v) else ps.

(* the text a label contributes to the request *)
Definition wpiece (s : segment) (v : bytes) : bytes :=
  if isparam s then v ++ ssuffix s else sval s.

Lemma isparam_styp : forall s, isparam s = true -> styp s <> TString.
Proof. intros s. apply TreeNames.isparam_true. Qed.

(* a parameter label accepts exactly [v] on [v ++ suffix ++ rest] ([rest] empty for a closed label) *)
Lemma param_match : forall ic s v rest ps, nbseg ic s -> isparam s = true ->
  smatch s v = true -> (forall b, In b v -> ~ In b (ssuffix s)) -> (closed s -> rest = []) ->
  seg_match s (v ++ ssuffix s ++ rest) ps = Some (rest, if signore s then ps else ctx_set ps (sname s) v).
Proof.
  intros ic s v rest ps Hs P Hm Hd Hc.
  destruct (param_label ic s Hs P) as [body [suf [_ [_ [_ [Hsuf [He Ho]]]]]]].
  pose proof (isparam_styp s P) as T. unfold seg_match.
  destruct suf as [|s0 sf].
  - rewrite Hsuf in *. rewrite (Hc (conj P Hsuf)). cbn [app]. rewrite app_nil_r.
    assert (Hcond : sendpoint s || (stype_eqb (styp s) TRegexp && true) = true).
    { destruct (He eq_refl) as [-> | ->]; [reflexivity | apply orb_true_r]. }
    destruct (styp s); [now elim T | | |]; rewrite Hcond, Hm; reflexivity.
  - rewrite Hsuf in *. rewrite (Ho ltac:(discriminate)).
    assert (F : find_split (smatch s) (s0 :: sf) [] (v ++ (s0 :: sf) ++ rest) = Some (v, rest)).
    { apply (find_split_exact (smatch s) (s0 :: sf) v [] rest); [discriminate | exact Hd | exact Hm]. }
    destruct (styp s); [now elim T | | |]; cbn [orb andb]; rewrite ?andb_false_r; cbn [orb];
      rewrite F; reflexivity.
Qed.

(* ================================================================ Part B : longest_prefix never stops right after '}' *)

Lemma lp_loop_close : forall s1 s2 i st en b, ~ In 123%N s1 ->
  lp_loop s1 s2 i st en b = st \/
  exists j, lp_loop s1 s2 i st en b = Z.of_nat j /\ i <= j /\ (j = i -> en <> (Z.of_nat i - 1)%Z) /\
            (i < j -> nth_error s1 (j - i - 1) <> Some 125%N).
Proof.
  induction s1 as [|a s1 IH]; intros s2 i st en b N3.
  - cbn [lp_loop]. destruct (Z.eqb_spec en (Z.of_nat i - 1)%Z) as [E|NE]; [now left | right].
    exists i. split; [reflexivity|]. split; [lia|]. split; [intros _; exact NE | lia].
  - destruct s2 as [|c s2].
    + cbn [lp_loop]. destruct (Z.eqb_spec en (Z.of_nat i - 1)%Z) as [E|NE]; [now left | right].
      exists i. split; [reflexivity|]. split; [lia|]. split; [intros _; exact NE | lia].
    + cbn [lp_loop].
      assert (N3' : ~ In 123%N s1) by (intro I; apply N3; now right).
      destruct (negb (N.eqb a c)).
      * destruct b; cbn [orb]; [now left|].
        destruct (Z.eqb_spec (en + 1)%Z (Z.of_nat i)) as [E|NE]; [now left | right].
        exists i. split; [reflexivity|]. split; [lia|]. split; [intros _; lia | lia].
      * destruct (N.eqb_spec a 123) as [E|_]; [elim N3; now left|].
        destruct (N.eqb_spec a 125) as [E5|N5].
        -- destruct (IH s2 (S i) st (Z.of_nat i) false N3') as [E|[j [E [Hj [H1 H2]]]]]; [now left | right].
           exists j. split; [exact E|].
           assert (Hne : j <> S i) by (intro X; apply (H1 X); lia).
           split; [lia|]. split; [intro X; lia|]. intros _.
           replace (j - i - 1) with (S (j - S i - 1)) by lia. cbn [nth_error]. apply H2. lia.
        -- destruct (IH s2 (S i) st en b N3') as [E|[j [E [Hj [H1 H2]]]]]; [now left | right].
           exists j. split; [exact E|]. split; [lia|]. split; [intro X; lia|]. intros _.
           destruct (Nat.eq_dec j (S i)) as [->|Hne].
           ++ replace (S i - i - 1) with 0 by lia. cbn [nth_error]. congruence.
           ++ replace (j - i - 1) with (S (j - S i - 1)) by lia. cbn [nth_error]. apply H2. lia.
Qed.

(* two labels starting with their only '{' : a positive common prefix does not end with a '}' *)
Lemma longest_prefix_not_close : forall w v l, TreeNames.tok1 w -> index_byte v 123%N = Some O ->
  (0 < longest_prefix w v)%Z -> l = Z.to_nat (longest_prefix w v) -> nth_error w (l - 1) <> Some 125%N.
Proof.
  intros w v l [tw [-> Nw]] Iv Hpos Hl.
  destruct v as [|c tv]; [discriminate Iv|]. cbn [index_byte] in Iv.
  destruct (N.eqb_spec c 123) as [->|Nc]; [|destruct (index_byte tv 123); discriminate Iv].
  unfold longest_prefix in *. cbn [lp_loop N.eqb Pos.eqb negb Z.of_nat] in *.
  destruct (lp_loop_close tw tv 1 0%Z (-10)%Z true Nw) as [E|[j [E [Hj [_ H2]]]]].
  - rewrite E in Hpos. lia.
  - rewrite E in Hl. rewrite Nat2Z.id in Hl. subst l.
    destruct (Nat.eq_dec j 1) as [->|Hne]; [cbn [Nat.sub nth_error]; discriminate|].
    replace (j - 1) with (S (j - 1 - 1)) by lia. cbn [nth_error]. apply H2. lia.
Qed.

(* the split point between two parameter labels leaves a non-empty suffix in the upper half *)
Lemma split_open : forall ic sch seg l, nbseg ic sch -> nbseg ic seg ->
  (0 < similarity sch seg)%Z -> l = Z.to_nat (similarity sch seg) ->
  forall s1, new_segment ic (firstn l (sval sch)) = Ok s1 -> open s1.
Proof.
  intros ic sch seg l Hch Hseg Hpos Hl s1 H1 P1.
  destruct (TreeNames.similarity_pos _ _ Hpos) as [Hty Hlp].
  pose proof (TreeNames.stype_eqb_isparam _ _ Hty) as Hip.
  pose proof (TreeOnion.similarity_cpre sch seg) as [C1 [C2 C3]]. rewrite <- Hl in C1, C2, C3.
  assert (L0 : 0 < l) by lia.
  destruct (isparam sch) eqn:Qch.
  - destruct Hch as [Nch [Ech [_ Pch]]]. destruct Hseg as [Nseg [Eseg [_ Pseg]]].
    specialize (Pch Qch). specialize (Pseg Hip).
    pose proof (pshape_tok1 _ Pch) as Tv. pose proof (pshape_tok1 _ Pseg) as Tw.
    destruct (pshape_close _ Pseg) as [ew [Iw Cw]]. destruct (pshape_close _ Pch) as [ev [Iv0 Cv]].
    assert (Lt : ew < l).
    { destruct (TreeNames.longest_prefix_tok _ _ _ Tw Iw (TreeNames.tok1_index _ Tv)
                  (TreeNames.index_byte_In _ _ _ Iv0)) as [Gt|Gt]; lia. }
    assert (Iv : index_byte (sval sch) 125%N = Some ew) by exact (TreeNames.index_byte_cpre _ _ _ _ _ C3 Iw Lt).
    assert (Hnc : nth_error (sval seg) (l - 1) <> Some 125%N).
    { apply (longest_prefix_not_close (sval seg) (sval sch) l Tw (TreeNames.tok1_index _ Tv)); lia. }
    assert (Hew : nth_error (sval seg) ew = Some 125%N) by exact (ParseTotal.index_byte_nth _ _ _ Iw).
    assert (L2 : S ew < l).
    { destruct (Nat.eq_dec l (S ew)) as [X|X]; [|lia]. exfalso. apply Hnc.
      rewrite X. now replace (S ew - 1) with ew by lia. }
    (* the suffix of the upper half *)
    assert (I1 : index_byte (firstn l (sval sch)) 125%N = Some ew).
    { rewrite TreeNames.index_byte_firstn, Iv. destruct (Nat.ltb_spec ew l); [reflexivity | lia]. }
    destruct (TreeText.new_segment_inv _ _ _ H1) as [Es | [st [en [_ [I2 [_ [_ [Sf _]]]]]]]].
    + rewrite Es in P1. discriminate P1.
    + rewrite I1 in I2. injection I2 as <-. rewrite Sf. intro E.
      apply (f_equal (@length N)) in E. rewrite skipn_length, firstn_length in E. cbn [length] in E. lia.
  - (* literal labels: the upper half is literal *)
    destruct Hch as [_ [_ [Lch _]]]. specialize (Lch Qch).
    pose proof (TreeNames.new_segment_plain _ _ _ (NB_plain _ (NB_firstn _ l Lch)) H1) as E1.
    rewrite E1 in P1. discriminate P1.
Qed.

(* ================================================================ Part C : two more invariants of reachable trees *)

Definition nlit (cs : list node) : nat := length (filter is_lit cs).

(* the index is not longer than the number of literal children; a closed parameter node is a leaf *)
Definition wnode (n : node) : Prop :=
  length (nindexes n) <= nlit (nchildren n) /\ (closed (nseg n) -> nchildren n = []).

Lemma idx_set_length : forall k v l, length (idx_set k v l) <= S (length l).
Proof.
  intros k v l. induction l as [|[k' v'] l IH]; cbn [idx_set length]; [lia|].
  destruct (N.eqb k k'); cbn [length]; lia.
Qed.

Lemma nlit_cons : forall x c, nlit (x :: c) = (if is_lit x then 1 else 0) + nlit c.
Proof. intros x c. unfold nlit. cbn [filter]. destruct (is_lit x); reflexivity. Qed.

Lemma build_indexes_from_len : forall c i acc r, build_indexes_from c i acc = Some r ->
  length r <= length acc + nlit c.
Proof.
  induction c as [|x c IH]; intros i acc r H; cbn [build_indexes_from] in H.
  - injection H as <-. unfold nlit. cbn. lia.
  - rewrite nlit_cons. unfold is_lit. destruct (styp (nseg x)); cbn [stype_eqb stype_rank Nat.eqb].
    + destruct (sval (nseg x)) as [|b lab]; [discriminate H|].
      apply IH in H. pose proof (idx_set_length b i acc). lia.
    + apply IH in H. lia.
    + apply IH in H. lia.
    + apply IH in H. lia.
Qed.

Lemma build_indexes_len : forall cs ix, build_indexes cs = Ok ix -> length ix <= nlit cs.
Proof.
  intros cs ix H. unfold build_indexes in H. destruct (Nat.ltb (length cs) indexes_size).
  - injection H as <-. cbn. lia.
  - destruct (build_indexes_from cs 0 []) as [x|] eqn:E; [|discriminate H]. injection H as <-.
    apply build_indexes_from_len in E. cbn [length] in E. lia.
Qed.

Lemma nlit_replace : forall c i ch ch', nth_error c i = Some ch -> nseg ch' = nseg ch ->
  nlit (replace_nth i ch' c) = nlit c.
Proof.
  induction c as [|x c IH]; intros i ch ch' H E; [destruct i; discriminate H|].
  destruct i as [|i]; cbn [nth_error replace_nth] in *.
  - injection H as ->. rewrite !nlit_cons. unfold is_lit. now rewrite E.
  - rewrite !nlit_cons. f_equal. exact (IH i ch ch' H E).
Qed.

Lemma nlit_map_nseg : forall (g : node -> node) c, (forall x, nseg (g x) = nseg x) -> nlit (map g c) = nlit c.
Proof.
  intros g c Hg. induction c as [|x c IH]; [reflexivity|]. cbn [map]. rewrite !nlit_cons, IH.
  unfold is_lit. now rewrite Hg.
Qed.

Section Wit.
Variable ic : icpts.

Definition K (n : node) : Prop := G ic n /\ all_nodes wnode n.

Lemma nbseg_eq : forall a b, nbseg ic a -> nbseg ic b -> sval a = sval b -> a = b.
Proof. intros a b [Ha _] [Hb _] E. rewrite E in Ha. rewrite Ha in Hb. now injection Hb. Qed.

Lemma wnode_build : forall n cs ix, build_indexes cs = Ok ix -> (cs = [] \/ open (nseg n)) ->
  wnode (set_children n cs ix).
Proof.
  intros n cs ix B Ho. unfold wnode.
  rewrite nchildren_set_children, nindexes_set_children, TreeNames.nseg_set_children.
  split; [exact (build_indexes_len cs ix B)|]. intros [P S].
  destruct Ho as [E|Ho]; [exact E|]. elim (Ho P S).
Qed.

Lemma K_leaf : forall sg p i hs, K (Node sg p i hs [] []).
Proof.
  intros sg p i hs. split; [apply G_leaf|]. apply all_nodes_intro; [|intros ch []].
  split; [cbn; lia | intros _; reflexivity].
Qed.

Lemma K_child : forall n ch, K n -> In ch (nchildren n) -> K ch.
Proof. intros n ch [Hg Hw] I. split; [exact (all_nodes_child _ n ch Hg I) | exact (all_nodes_child _ n ch Hw I)]. Qed.

Lemma W_same : forall n n', all_nodes wnode n -> nchildren n' = nchildren n -> nindexes n' = nindexes n ->
  (closed (nseg n') -> closed (nseg n) \/ nchildren n = []) -> all_nodes wnode n'.
Proof.
  intros n n' Hn Hc Hx Hs. apply all_nodes_intro.
  - pose proof (all_nodes_here _ _ Hn) as [H1 H2]. unfold wnode. rewrite Hc, Hx.
    split; [exact H1|]. intro C. destruct (Hs C) as [C'|E]; [exact (H2 C') | exact E].
  - rewrite Hc. intros ch Ich. exact (all_nodes_child _ n ch Hn Ich).
Qed.

Lemma K_set_handlers : forall n hs i, K n -> K (set_handlers n hs i).
Proof.
  intros n hs i [Hg Hw]. split; [now apply G_set_handlers|].
  apply (W_same n); [exact Hw | apply nchildren_set_handlers | apply nindexes_set_handlers|].
  rewrite TreeNames.nseg_set_handlers. intro C. now left.
Qed.

Lemma K_set_seg : forall n sg, K n -> open sg -> K (set_seg n sg).
Proof.
  intros n sg [Hg Hw] Ho. split; [now apply G_set_seg|].
  apply (W_same n); [exact Hw | apply nchildren_set_seg | apply nindexes_set_seg|].
  rewrite TreeNames.nseg_set_seg. intros [P S]. elim (Ho P S).
Qed.

Lemma K_replace : forall n i ch ch', K n -> nth_error (nchildren n) i = Some ch -> K ch' ->
  nseg ch' = nseg ch -> K (set_children n (replace_nth i ch' (nchildren n)) (nindexes n)).
Proof.
  intros n i ch ch' [Hg Hw] Hi [Hgc Hwc] E. split; [exact (G_replace ic n i ch ch' Hg Hi Hgc E)|].
  pose proof (all_nodes_here _ _ Hw) as [H1 H2]. apply all_nodes_intro.
  - unfold wnode. rewrite nchildren_set_children, nindexes_set_children, TreeNames.nseg_set_children.
    split; [now rewrite (nlit_replace _ i ch ch' Hi E)|].
    intro C. rewrite (H2 C) in Hi. destruct i; discriminate Hi.
  - rewrite nchildren_set_children. intros x Ix. apply In_replace_nth in Ix.
    destruct Ix as [->|Ix]; [exact Hwc | exact (all_nodes_child _ n x Hw Ix)].
Qed.

Lemma K_sort : forall n keyed n', sort_node n keyed = Ok n' ->
  (forall x, In x (map snd keyed) -> nbseg ic (nseg x) /\ K x) -> NoDup (heads (map snd keyed)) ->
  open (nseg n) -> K n' /\ nseg n' = nseg n.
Proof.
  intros n keyed n' H Hk ND Ho.
  destruct (G_sort ic n keyed n' H) as [Hg Hs]; [intros x Ix; destruct (Hk x Ix) as [A [B _]]; now split | exact ND|].
  split; [|exact Hs]. split; [exact Hg|].
  apply sort_node_inv in H. destruct H as [ix [B ->]]. apply all_nodes_intro.
  - apply wnode_build; [exact B | now right].
  - rewrite nchildren_set_children. intros ch Ich. exact (proj2 (proj2 (Hk ch (In_ssort _ _ Ich)))).
Qed.

(* ---------------------------------------------------------------- registration *)

Definition kK (o : bool) (k : node -> res node) : Prop :=
  forall ch ch', K ch -> (o = true -> open (nseg ch)) -> k ch = Ok ch' -> K ch' /\ nseg ch' = nseg ch.

Lemma add_segment_K : forall fuel n seg k n' o, K n -> open (nseg n) -> nbseg ic seg ->
  (o = true -> open seg) -> kK o k ->
  add_segment fuel ic n seg k = Ok n' -> K n' /\ nseg n' = nseg n.
Proof.
  induction fuel as [|f IH]; intros n seg k n' o Hn Hon Hseg Hos Hk H; [discriminate|].
  rewrite add_segment_S in H. cbv zeta in H.
  pose proof (all_nodes_here _ _ (proj1 Hn)) as [Hlab [Hnd Hix]].
  destruct (scan_sim seg (nchildren n) 0 None) as [[i|] best] eqn:SC.
  - (* identical child *)
    destruct (nth_error (nchildren n) i) as [ch|] eqn:NTH; [|discriminate].
    apply bind_ok in H. destruct H as [ch' [Kc H]]. injection H as <-.
    assert (Ich : In ch (nchildren n)) by (eapply nth_error_In; eassumption).
    assert (Es : nseg ch = seg).
    { destruct (TreeOnion.scan_sim_some _ _ _ _ _ _ SC) as [ch0 [_ [N0 S0]]].
      rewrite Nat.sub_0_r, NTH in N0. injection N0 as <-.
      exact (nbseg_eq _ _ (Hlab ch Ich) Hseg (TreeOnion.similarity_same _ _ S0)). }
    destruct (Hk ch ch' (K_child n ch Hn Ich)) as [Hch' Es']; [now rewrite Es | exact Kc|].
    split; [|apply TreeNames.nseg_set_children]. exact (K_replace n i ch ch' Hn NTH Hch' Es').
  - destruct best as [[i l]|].
    + (* a child shares a prefix *)
      destruct (nth_error (nchildren n) i) as [ch|] eqn:NTH; [|discriminate].
      assert (Ich : In ch (nchildren n)) by (eapply nth_error_In; eassumption).
      pose proof (K_child n ch Hn Ich) as Hch.
      assert (Hpos : (0 < l)%Z).
      { apply (TreeNames.scan_sim_pos _ _ _ _ _ _ SC). intros j' l' E. discriminate E. }
      assert (Hsim : similarity (nseg ch) seg = l).
      { destruct (TreeOnion.scan_sim_best _ _ _ _ _ _ SC) as [E|[ch0 [_ [N0 S0]]]]; [discriminate E|].
        rewrite Nat.sub_0_r, NTH in N0. now injection N0 as <-. }
      rewrite <- Hsim in Hpos.
      destruct (split_nb ic (nseg ch) seg (Z.to_nat l) (Hlab ch Ich) Hseg Hpos (f_equal Z.to_nat (eq_sym Hsim)))
        as [F1 [F2 F3]].
      pose proof (split_open ic (nseg ch) seg (Z.to_nat l) (Hlab ch Ich) Hseg Hpos (f_equal Z.to_nat (eq_sym Hsim)))
        as FO.
      pose proof (TreeOnion.similarity_cpre (nseg ch) seg) as [C1 [C2 C3]]. rewrite Hsim in C1, C2, C3.
      assert (Hcont : forall p p', K p -> open (nseg p) -> cont_of f ic seg (Z.to_nat l) k p = Ok p' ->
                K p' /\ nseg p' = nseg p).
      { intros p p' Hp Hop Hc. unfold cont_of in Hc.
        destruct (Nat.eqb_spec (length (sval seg)) (Z.to_nat l)) as [E|NE];
          [exact (Hk _ _ Hp (fun _ => Hop) Hc)|].
        apply bind_ok in Hc. destruct Hc as [rest [R Hc]].
        apply bind_ok in Hc. destruct Hc as [s [S Hc]].
        apply TreeText.slice_or_panic_ok in R. apply TreeText.gslice_to_end in R. subst rest.
        assert (Hlt : Z.to_nat l < length (sval seg)) by lia.
        assert (Hs : nbseg ic s) by (apply (F3 s S); exact Hlt).
        assert (Hsl : isparam s = false).
        { (* the remainder is literal text *)
          destruct (TreeNames.similarity_pos _ _ Hpos) as [Hty _].
          pose proof (TreeNames.stype_eqb_isparam _ _ Hty) as Hip.
          destruct (isparam seg) eqn:Qs.
          - destruct Hseg as [_ [_ [_ Pseg]]]. specialize (Pseg Qs).
            destruct (pshape_close _ Pseg) as [ew [Iw Cw]].
            destruct (Hlab ch Ich) as [_ [_ [_ Pch]]]. rewrite <- Hip in Pch. specialize (Pch eq_refl).
            destruct (pshape_close _ Pch) as [ev [Iv0 _]].
            assert (Lt : ew < Z.to_nat l).
            { rewrite <- Hsim. rewrite (proj2 (TreeNames.similarity_pos _ _ Hpos)).
              destruct (TreeNames.longest_prefix_tok _ _ _ (pshape_tok1 _ Pseg) Iw
                          (TreeNames.tok1_index _ (pshape_tok1 _ Pch)) (TreeNames.index_byte_In _ _ _ Iv0)) as [Gt|Gt];
                [rewrite (proj2 (TreeNames.similarity_pos _ _ Hpos)) in Hpos; lia | lia]. }
            destruct (Cw _ Lt) as [NBw _].
            rewrite (TreeNames.new_segment_plain _ _ _ (NB_plain _ NBw) S). reflexivity.
          - destruct Hseg as [_ [_ [Lseg _]]]. specialize (Lseg Qs).
            rewrite (TreeNames.new_segment_plain _ _ _ (NB_plain _ (NB_skipn _ (Z.to_nat l) Lseg)) S). reflexivity. }
        exact (IH p s k p' o Hp Hop Hs (fun _ => open_lit s Hsl) Hk Hc). }
      destruct (Nat.leb_spec (length (sval (nseg ch))) (Z.to_nat l)) as [LE|GT].
      * apply bind_ok in H. destruct H as [ch' [Kc H]]. injection H as <-.
        assert (Hoch : open (nseg ch)).
        { (* the label of ch is its own upper half *)
          apply (FO (nseg ch)). rewrite firstn_all2 by exact LE. exact (proj1 (Hlab ch Ich)). }
        destruct (Hcont ch ch' Hch Hoch Kc) as [Hch' Es].
        split; [|apply TreeNames.nseg_set_children]. exact (K_replace n i ch ch' Hn NTH Hch' Es).
      * apply bind_ok in H. destruct H as [[s1 s2] [SP H]].
        apply bind_ok in H. destruct H as [ret [SR H]].
        apply bind_ok in H. destruct H as [ret' [Kc H]].
        destruct (TreeNames.seg_split_inv _ _ _ _ _ SP) as [N1 N2].
        destruct (F1 _ N1) as [L1 H1]. pose proof (F2 _ N2 GT) as L2.
        pose proof (FO _ N1) as O1.
        assert (O2 : open s2).
        { (* the lower half is literal text *)
          apply open_lit. destruct (TreeNames.similarity_pos _ _ Hpos) as [Hty Hlp].
          destruct (isparam (nseg ch)) eqn:Qc.
          - destruct (Hlab ch Ich) as [_ [_ [_ Pch]]]. specialize (Pch Qc).
            destruct (pshape_close _ Pch) as [ev [Iv0 Cv]].
            pose proof (TreeNames.stype_eqb_isparam _ _ Hty) as Hip. rewrite Qc in Hip.
            destruct Hseg as [_ [_ [_ Pseg]]]. specialize (Pseg Hip).
            destruct (pshape_close _ Pseg) as [ew [Iw _]].
            assert (Lt : ew < Z.to_nat l).
            { rewrite <- Hsim, Hlp.
              destruct (TreeNames.longest_prefix_tok _ _ _ (pshape_tok1 _ Pseg) Iw
                          (TreeNames.tok1_index _ (pshape_tok1 _ Pch)) (TreeNames.index_byte_In _ _ _ Iv0)) as [Gt|Gt];
                [rewrite Hlp in Hpos; lia | lia]. }
            assert (Iv : index_byte (sval (nseg ch)) 125%N = Some ew)
              by exact (TreeNames.index_byte_cpre _ _ _ _ _ C3 Iw Lt).
            rewrite Iv in Iv0. injection Iv0 as <-.
            destruct (Cv _ Lt) as [NBv _].
            rewrite (TreeNames.new_segment_plain _ _ _ (NB_plain _ NBv) N2). reflexivity.
          - destruct (Hlab ch Ich) as [_ [_ [Lch _]]]. specialize (Lch Qc).
            rewrite (TreeNames.new_segment_plain _ _ _ (NB_plain _ (NB_skipn _ (Z.to_nat l) Lch)) N2). reflexivity. }
        assert (Hret : K ret /\ nseg ret = s1).
        { apply (K_sort _ _ _ SR).
          - rewrite map_snd_with_prio. intros x [<-|[]]. rewrite TreeNames.nseg_set_seg.
            split; [exact L2 | now apply K_set_seg].
          - rewrite map_snd_with_prio. apply NoDup_heads_one.
          - exact O1. }
        destruct Hret as [Kret Sret].
        destruct (Hcont ret ret' Kret) as [Kret' Sret']; [now rewrite Sret | exact Kc|].
        apply (K_sort _ _ _ H).
        -- intros x Ix. apply In_keyed_app in Ix. destruct Ix as [Ix| ->].
           ++ apply In_remove_nth in Ix. split; [now apply Hlab | exact (K_child n x Hn Ix)].
           ++ rewrite Sret', Sret. split; [exact L1 | exact Kret'].
        -- rewrite map_app, map_snd_with_prio. cbn [map snd]. rewrite heads_app.
           apply (Permutation_NoDup (l := heads (nchildren n))); [|exact Hnd].
           eapply Permutation_trans; [apply heads_perm; exact (remove_nth_perm _ i ch NTH)|].
           rewrite heads_cons. unfold heads at 3. cbn [flat_map]. rewrite app_nil_r.
           rewrite Sret', Sret, H1. apply Permutation_app_comm.
        -- exact Hon.
    + (* a new child *)
      apply bind_ok in H. destruct H as [nn' [Kc H]].
      destruct (Hk (new_node n seg) nn' (K_leaf _ _ _ _)) as [Knn' Snn']; [exact Hos | exact Kc|].
      cbn [new_node nseg] in Snn'.
      apply (K_sort _ _ _ H).
      * intros x Ix. apply In_keyed_app in Ix. destruct Ix as [Ix| ->].
        -- split; [now apply Hlab | exact (K_child n x Hn Ix)].
        -- rewrite Snn'. split; [exact Hseg | exact Knn'].
      * rewrite map_app, map_snd_with_prio. cbn [map snd]. rewrite heads_app.
        unfold heads at 2. cbn [flat_map]. rewrite app_nil_r, Snn'.
        apply NoDup_snoc_list; [exact Hnd | apply NoDup_hd1|].
        exact (new_child_head ic seg (nchildren n) Hseg Hlab SC).
      * exact Hon.
Qed.

(* every segment but the last has something after its closing brace *)
Fixpoint opens (segs : list segment) : Prop :=
  match segs with
  | s :: ((_ :: _) as rest) => open s /\ opens rest
  | _ => True
  end.

Lemma get_node_K : forall segs fuel n upd n', K n -> open (nseg n) -> Forall (nbseg ic) segs -> opens segs ->
  kK false upd -> get_node fuel ic n segs upd = Ok n' -> K n' /\ nseg n' = nseg n.
Proof.
  induction segs as [|seg rest IH]; intros fuel n upd n' Hn Hon HL Hop Hk H; [discriminate|].
  inversion HL as [|s0 r0 Lseg Lrest]; subst.
  destruct rest as [|seg2 rest].
  - cbn [get_node] in H.
    exact (add_segment_K _ _ _ _ _ false Hn Hon Lseg (fun X => False_ind _ (Bool.diff_false_true X)) Hk H).
  - cbn [get_node] in H. destruct Hop as [Ho1 Ho2].
    refine (add_segment_K _ _ _ _ _ true Hn Hon Lseg (fun _ => Ho1) _ H).
    intros ch ch' Hch Hoc Hc. exact (IH fuel ch upd ch' Hch (Hoc eq_refl) Lrest Ho2 Hk Hc).
Qed.

Lemma add_methods_kK : forall trace router h pattern mws ms, kK false (add_methods trace router h pattern mws ms).
Proof.
  intros trace router h pattern mws ms ch ch' Hch _ H. unfold add_methods in H.
  apply bind_ok in H. destruct H as [u [_ H]]. injection H as <-.
  split; [now apply K_set_handlers | apply TreeNames.nseg_set_handlers].
Qed.

(* ---------------------------------------------------------------- Remove *)

Lemma remove_at_node_K : forall trace ms n n' rm, K n -> remove_at_node trace ms n = (n', rm) ->
  K n' /\ nseg n' = nseg n.
Proof.
  intros trace ms n n' rm Hn H. unfold remove_at_node in H.
  destruct (match ms with [] => _ | _ => _ end) as [hs removed].
  injection H as <- _. split; [now apply K_set_handlers | apply TreeNames.nseg_set_handlers].
Qed.

Lemma nlit_remove_le : forall c i, nlit (remove_nth i c) <= nlit c.
Proof.
  induction c as [|x c IH]; intros i; [destruct i; cbn; lia|].
  destruct i as [|i]; cbn [remove_nth]; rewrite ?nlit_cons; [lia|]. specialize (IH i). lia.
Qed.

Lemma remove_finish_K : forall n i ch ch' rm n' rm', K n -> nth_error (nchildren n) i = Some ch ->
  K ch' -> nseg ch' = nseg ch ->
  remove_finish n i ch' rm = Ok (Some (n', rm')) -> K n' /\ nseg n' = nseg n.
Proof.
  intros n i ch ch' rm n' rm' Hn Hi Hc Es H.
  destruct (remove_finish_G ic n i ch ch' rm n' rm' (proj1 Hn) Hi (proj1 Hc) Es H) as [Hg' Hs'].
  split; [|exact Hs']. split; [exact Hg'|].
  unfold remove_finish in H. destruct Hn as [Hg Hw].
  pose proof (all_nodes_here _ _ Hw) as [H1 H2].
  assert (Hopen : open (nseg n)).
  { intros P S. rewrite (H2 (conj P S)) in Hi. destruct i; discriminate Hi. }
  destruct (prunable ch').
  - cbv zeta in H. apply bind_ok in H. destruct H as [ix [B H]]. injection H as <- _.
    apply all_nodes_intro.
    + apply wnode_build; [exact B | now right].
    + rewrite nchildren_set_children. intros x Ix. apply In_remove_nth in Ix.
      exact (all_nodes_child _ n x Hw Ix).
  - injection H as <- _.
    exact (proj2 (K_replace n i ch ch' (conj Hg Hw) Hi Hc Es)).
Qed.

Lemma remove_in_K : forall fuel trace ms n pattern n' rm, K n ->
  remove_in fuel trace ms n pattern = Ok (Some (n', rm)) -> K n' /\ nseg n' = nseg n.
Proof.
  induction fuel as [|f IH]; intros trace ms n pattern n' rm Hn H; [discriminate|].
  rewrite remove_in_S in H.
  assert (Hgo : forall c i,
            (forall j ch, nth_error c j = Some ch -> nth_error (nchildren n) (i + j) = Some ch) ->
            remove_go f trace ms n pattern c i = Ok (Some (n', rm)) -> K n' /\ nseg n' = nseg n).
  { induction c as [|ch c IHc]; intros i Hc Hg; cbn [remove_go] in Hg; [discriminate|].
    assert (Hpos : nth_error (nchildren n) i = Some ch).
    { rewrite <- (Nat.add_0_r i). now apply Hc. }
    assert (Hch : K ch).
    { apply (K_child n); [exact Hn | now apply (nth_error_In _ i)]. }
    assert (Hc' : forall j x, nth_error c j = Some x -> nth_error (nchildren n) (S i + j) = Some x).
    { intros j x Hj. replace (S i + j) with (i + S j) by lia. now apply Hc. }
    destruct (beqb (sval (nseg ch)) pattern).
    - destruct (remove_at_node trace ms ch) as [ch' removed] eqn:RA.
      destruct (remove_at_node_K _ _ _ _ _ Hch RA) as [Gc Es].
      exact (remove_finish_K _ _ _ _ _ _ _ Hn Hpos Gc Es Hg).
    - destruct (has_prefix pattern (sval (nseg ch))); [|now apply (IHc (S i))].
      apply bind_ok in Hg. destruct Hg as [r [R Hg]].
      destruct r as [[ch' removed]|]; [|now apply (IHc (S i))].
      destruct (IH _ _ _ _ _ _ Hch R) as [Gc Es].
      exact (remove_finish_K _ _ _ _ _ _ _ Hn Hpos Gc Es Hg). }
  apply (Hgo (nchildren n) O); [|exact H]. intros j ch Hj. exact Hj.
Qed.

(* ---------------------------------------------------------------- Clean *)

Lemma clean_in_K : forall fuel n prefix n', K n -> clean_in fuel n prefix = Ok n' ->
  K n' /\ nseg n' = nseg n.
Proof.
  induction fuel as [|f IH]; intros n prefix n' Hn H; [discriminate|].
  destruct (clean_in_G ic (S f) n prefix n' (proj1 Hn) H) as [Hg' Hs'].
  split; [|exact Hs']. split; [exact Hg'|].
  rewrite clean_in_S in H. destruct prefix as [|b prefix].
  - injection H as <-. apply all_nodes_intro; [|rewrite nchildren_set_children; intros ch []].
    apply wnode_build; [reflexivity | now left].
  - remember (b :: prefix) as pf eqn:Epf. clear Epf.
    assert (Hgo : forall c cs, (forall ch, In ch c -> K ch) ->
              clean_go f pf c = Ok cs -> (forall x, In x cs -> all_nodes wnode x) /\ (c = [] -> cs = [])).
    { induction c as [|ch c IHc]; intros cs Hc Hg; cbn [clean_go] in Hg.
      - injection Hg as <-. split; [intros x [] | reflexivity].
      - pose proof (Hc ch (or_introl eq_refl)) as Kch.
        assert (Hc' : forall y, In y c -> K y) by (intros y Iy; apply Hc; now right).
        cbv zeta in Hg. apply bind_ok in Hg. destruct Hg as [ch' [C Hg]].
        apply bind_ok in Hg. destruct Hg as [rest [R Hg]].
        assert (Hch' : K ch').
        { destruct (Nat.ltb (length (sval (nseg ch))) (length pf) && has_prefix pf (sval (nseg ch))).
          - exact (proj1 (IH _ _ _ Kch C)).
          - injection C as <-. exact Kch. }
        destruct (IHc rest Hc' R) as [Hall _].
        split; [|discriminate].
        destruct (has_prefix (sval (nseg ch)) pf); injection Hg as <-; [exact Hall|].
        intros x [<-|Ix]; [exact (proj2 Hch') | now apply Hall]. }
    apply bind_ok in H. destruct H as [cs [Hg H]].
    apply bind_ok in H. destruct H as [ix [B H]]. injection H as <-.
    destruct (Hgo (nchildren n) cs) as [Hall Hnil]; [intros ch Ich; exact (K_child n ch Hn Ich) | exact Hg|].
    apply all_nodes_intro.
    + apply wnode_build; [exact B|].
      destruct (nchildren n) as [|c0 cr] eqn:Ec; [left; now apply Hnil|].
      right. intros P S. pose proof (proj2 (all_nodes_here _ _ (proj2 Hn)) (conj P S)) as X.
      rewrite Ec in X. discriminate X.
    + rewrite nchildren_set_children. exact Hall.
Qed.

(* ---------------------------------------------------------------- Use *)

Lemma apply_mw_node_W : forall fuel router mws n, all_nodes wnode n -> all_nodes wnode (apply_mw_node fuel router mws n).
Proof.
  induction fuel as [|f IH]; intros router mws n Hn; [exact Hn|].
  pose proof (all_nodes_here _ _ Hn) as [H1 H2].
  destruct n as [s p i h x c]. cbn [apply_mw_node]. cbn [nchildren nindexes nseg] in *.
  apply all_nodes_intro.
  - unfold wnode. cbn [nchildren nindexes nseg]. split.
    + rewrite nlit_map_nseg; [exact H1 | intro y; apply apply_mw_node_nseg].
    + intro C. rewrite (H2 C). reflexivity.
  - cbn [nchildren]. intros ch Ich. apply in_map_iff in Ich. destruct Ich as [ch0 [<- Ich]].
    apply IH. exact (all_nodes_child _ _ ch0 Hn Ich).
Qed.
End Wit.

(* ================================================================ Part D : trees and histories *)

Definition tree_wit_ok (ic : icpts) (t : tree) : Prop :=
  tic t = ic /\ K ic (troot t) /\ isparam (nseg (troot t)) = false.

Lemma build_methods_wit : forall ic t root num ms, tic t = ic -> K ic root -> isparam (nseg root) = false ->
  tree_wit_ok ic (tree_build_methods t root num ms).
Proof.
  intros ic t root num ms Hic Hk Hr. unfold tree_wit_ok, tree_build_methods. cbn [tic troot].
  split; [exact Hic|]. split; [now apply K_set_handlers|]. now rewrite TreeNames.nseg_set_handlers.
Qed.

Lemma wit_new_tree : forall name ic trace, tree_wit_ok ic (new_tree name ic trace).
Proof. intros name ic trace. unfold new_tree. apply build_methods_wit; [reflexivity | apply K_leaf | reflexivity]. Qed.

Lemma opens_chunks : forall ic rest cs, Forall2 (TokensSplit.seg_chunk ic) rest cs ->
  TokensSplit.gaps_ok cs -> opens rest.
Proof.
  intros ic rest cs F. induction F as [|s c rest cs CS F IH]; intro Hg; [exact I|].
  destruct F as [|s2 c2 rest2 cs2 CS2 F2]; [exact I|].
  destruct Hg as [Hne Hg]. split; [|exact (IH Hg)].
  destruct (TokensSplit.chunk_seg_ok _ _ _ _ _ _ _ CS) as [_ [_ [_ [Hsuf _]]]].
  intros _. now rewrite Hsuf.
Qed.

Lemma split_opens : forall ic p ts segs, Table.tokens p = Some ts -> split ic p = Ok segs -> opens segs.
Proof.
  intros ic p ts segs T H.
  destruct (TokensSplit.tokens_shape p ts T) as [l0 [cs [E [Hne [N0 [Hcs [Hgaps _]]]]]]]. subst p.
  destruct (TokensSplit.split_ok_shape ic l0 cs segs N0 Hcs Hne H) as [rest [-> [F _]]].
  pose proof (opens_chunks ic rest cs F Hgaps) as Ho.
  destruct l0 as [|c l0]; [exact Ho|]. cbn [TokensSplit.lit_segs app].
  destruct rest as [|s2 rest]; [exact I|]. split; [|exact Ho]. apply open_lit. reflexivity.
Qed.

Lemma wit_add : forall ic t p ts h mws ms t', tree_wit_ok ic t -> Table.tokens p = Some ts ->
  tree_add t p h mws ms = Ok t' -> tree_wit_ok ic t'.
Proof.
  intros ic t p ts h mws ms t' [Hic [Hk Hr]] T H. unfold tree_add in H. cbv zeta in H.
  apply bind_ok in H. destruct H as [amb [_ H]].
  assert (Hm : forall ms0,
    (do segs <- split (tic t) p;
     do _ <- check_methods (has_trace t)
               (match find (tree_fuel t + length p + 2) (troot t) p with Some n => nhandlers n | None => [] end) [] ms0;
     do root' <- get_node (tree_fuel t + length p + 2) (tic t) (troot t) segs
                   (add_methods (has_trace t) (tname t) h p mws ms0);
     Ok (tree_build_methods t root' 1 ms0)) = Ok t' -> tree_wit_ok ic t').
  { intros ms0 H0. rewrite Hic in H0.
    apply bind_ok in H0. destruct H0 as [segs [SP H0]].
    apply bind_ok in H0. destruct H0 as [u [_ H0]].
    apply bind_ok in H0. destruct H0 as [root' [GN H0]]. injection H0 as <-.
    destruct (get_node_K ic segs _ _ _ _ Hk (open_lit _ Hr) (split_nbseg ic p ts segs T SP)
                (split_opens ic p ts segs T SP) (add_methods_kK ic _ _ _ _ _ _) GN) as [Hk' Hs'].
    apply build_methods_wit; [exact Hic | exact Hk' | now rewrite Hs']. }
  destruct amb as [[p0 [|]]|]; [discriminate H | exact (Hm _ H) | exact (Hm _ H)].
Qed.

Lemma wit_remove : forall ic t p ms t', tree_wit_ok ic t -> tree_remove t p ms = Ok t' -> tree_wit_ok ic t'.
Proof.
  intros ic t p ms t' [Hic [Hk Hr]] H. unfold tree_remove in H.
  apply bind_ok in H. destruct H as [r [R H]].
  destruct r as [[root' removed]|]; injection H as <-; [|now split].
  destruct (remove_in_K ic _ _ _ _ _ _ _ Hk R) as [Hk' Hs'].
  apply build_methods_wit; [exact Hic | exact Hk' | now rewrite Hs'].
Qed.

Lemma wit_clean : forall ic t prefix t', tree_wit_ok ic t -> tree_clean t prefix = Ok t' -> tree_wit_ok ic t'.
Proof.
  intros ic t prefix t' [Hic [Hk Hr]] H. unfold tree_clean in H.
  apply bind_ok in H. destruct H as [root' [C H]]. injection H as <-.
  destruct (clean_in_K ic _ _ _ _ Hk C) as [Hk' Hs'].
  apply build_methods_wit; [exact Hic | exact Hk' | now rewrite Hs'].
Qed.

Lemma wit_use : forall ic t mws, tree_wit_ok ic t -> tree_wit_ok ic (tree_apply_mw t mws).
Proof.
  intros ic t mws [Hic [[Hg Hw] Hr]]. unfold tree_wit_ok, tree_apply_mw. cbn [tic troot].
  split; [exact Hic|]. split; [split; [now apply apply_mw_node_G | now apply apply_mw_node_W]|].
  now rewrite apply_mw_node_nseg.
Qed.

Lemma wit_tstep : forall ic t op, tree_wit_ok ic t -> TokensSplit.op_tokens op = true ->
  tree_wit_ok ic (tstep t op).
Proof.
  intros ic t op Ht W. destruct op as [p h mws ms|p ms|prefix|mws]; cbn [tstep].
  - destruct (tree_add t p h mws ms) as [t'| | |] eqn:E; cbn [keep]; try exact Ht.
    cbn [TokensSplit.op_tokens] in W. destruct (Table.tokens p) as [ts|] eqn:T; [|discriminate W].
    exact (wit_add _ _ _ _ _ _ _ _ Ht T E).
  - destruct (tree_remove t p ms) as [t'| | |] eqn:E; cbn [keep]; try exact Ht.
    exact (wit_remove _ _ _ _ _ Ht E).
  - destruct (tree_clean t prefix) as [t'| | |] eqn:E; cbn [keep]; try exact Ht.
    exact (wit_clean _ _ _ _ Ht E).
  - now apply wit_use.
Qed.

Lemma wit_fold : forall ic hist t, tree_wit_ok ic t -> TokensSplit.hist_tokens hist = true ->
  tree_wit_ok ic (fold_left tstep hist t).
Proof.
  intros ic hist. induction hist as [|op hist IH]; intros t Ht W; [exact Ht|].
  unfold TokensSplit.hist_tokens in W. cbn [forallb] in W.
  apply andb_true_iff in W. destruct W as [W1 W2].
  cbn [fold_left]. apply IH; [now apply wit_tstep | exact W2].
Qed.

(* the two invariants on every reachable tree *)
Theorem wnode_reachable : forall name ic trace hist, TokensSplit.hist_tokens hist = true ->
  all_nodes wnode (troot (fold_left tstep hist (new_tree name ic trace))).
Proof.
  intros name ic trace hist W.
  exact (proj2 (proj1 (proj2 (wit_fold ic hist _ (wit_new_tree name ic trace) W)))).
Qed.

(* ================================================================ Part E : chains and witness paths *)

(* the request text built from a chain of nodes with one value per node (ignored for literals) *)
Fixpoint wpath (chain : list (node * bytes)) : bytes :=
  match chain with
  | [] => []
  | (c, v) :: rest => wpiece (nseg c) v ++ wpath rest
  end.

(* the parameters the chain binds *)
Fixpoint wparams (chain : list (node * bytes)) (ps : params) : params :=
  match chain with
  | [] => ps
  | (c, v) :: rest => wparams rest (bind1 (nseg c) v ps)
  end.

(* a chain of nodes from a child of [m] down to [n] *)
Inductive chain_to : node -> list (node * bytes) -> node -> Prop :=
| ct_one : forall m c v, In c (nchildren m) -> chain_to m [(c, v)] c
| ct_cons : forall m c v rest n, In c (nchildren m) -> chain_to c rest n -> chain_to m ((c, v) :: rest) n.

(* a simple value for a parameter node: accepted by the node, not empty, and sharing no byte with
   the text of any literal label or parameter suffix below [root] *)
Definition simple_at (root : node) (cv : node * bytes) : Prop :=
  isparam (nseg (fst cv)) = true ->
  smatch (nseg (fst cv)) (snd cv) = true /\ snd cv <> [] /\
  forall b, In b (snd cv) -> forall m, desc root m ->
    (isparam (nseg m) = false -> ~ In b (sval (nseg m))) /\
    (isparam (nseg m) = true -> ~ In b (ssuffix (nseg m))).
Definition simple (t : tree) (chain : list (node * bytes)) : Prop := Forall (simple_at (troot t)) chain.

Lemma chain_to_desc : forall m chain n, chain_to m chain n -> desc m n.
Proof.
  intros m chain n H. induction H as [m c v Ic|m c v rest n Ic _ IH].
  - now apply desc_child.
  - exact (desc_step m c n Ic IH).
Qed.

Lemma chain_to_head : forall m c v rest n, chain_to m ((c, v) :: rest) n ->
  In c (nchildren m) /\ ((rest = [] /\ n = c) \/ chain_to c rest n).
Proof.
  intros m c v rest n H. inversion H as [m0 c0 v0 Ic|m0 c0 v0 rest0 n0 Ic Hr]; subst.
  - split; [exact Ic | left; now split].
  - split; [exact Ic | now right].
Qed.

Lemma chain_to_nonempty : forall m chain n, chain_to m chain n -> chain <> [].
Proof. intros m chain n H. destruct H; discriminate. Qed.

Lemma is_lit_false_param : forall x, is_lit x = false -> isparam (nseg x) = true.
Proof. intros x H. rewrite is_lit_isparam in H. now apply negb_false_iff in H. Qed.

Lemma isparam_true_lit : forall x, isparam (nseg x) = true -> is_lit x = false.
Proof. intros x H. rewrite is_lit_isparam, H. reflexivity. Qed.

(* ---------------------------------------------------------------- the chain's own child accepts the text *)

Lemma own_step : forall ic m c v rest ps, good ic m -> In c (nchildren m) -> wnode c ->
  (rest = [] \/ exists n, chain_to c rest n) ->
  (isparam (nseg c) = true -> smatch (nseg c) v = true /\ forall b, In b v -> ~ In b (ssuffix (nseg c))) ->
  seg_match (nseg c) (wpath ((c, v) :: rest)) ps = Some (wpath rest, bind1 (nseg c) v ps).
Proof.
  intros ic m c v rest ps Hg Ic Hw Hrest Hsimple. cbn [wpath]. unfold wpiece, bind1.
  destruct (isparam (nseg c)) eqn:P.
  - destruct (Hsimple eq_refl) as [Hm Hd]. rewrite <- app_assoc.
    apply (param_match ic); [exact (proj1 Hg c Ic) | exact P | exact Hm | exact Hd|].
    intro C. destruct Hrest as [->|[n Hn]]; [reflexivity|]. exfalso.
    destruct rest as [|[c2 v2] rest2]; [exact (chain_to_nonempty _ _ _ Hn eq_refl)|].
    destruct (chain_to_head _ _ _ _ _ Hn) as [I2 _]. rewrite (proj2 Hw C) in I2. destruct I2.
  - exact (lit_match c (wpath rest) ps (isparam_false_lit c P)).
Qed.

(* ---------------------------------------------------------------- where the own child stands in the search order *)

Lemma filter_none : forall (f : node -> bool) l, (forall x, In x l -> f x = false) -> filter f l = [].
Proof.
  intros f l. induction l as [|x l IH]; intro H; [reflexivity|]. cbn [filter].
  rewrite (H x (or_introl eq_refl)). apply IH. intros y Iy. apply H. now right.
Qed.

Lemma filter_len_le : forall (f : node -> bool) l, length (filter f l) <= length l.
Proof.
  intros f l. induction l as [|x l IH]; [cbn; lia|]. cbn [filter]. destruct (f x); cbn [length]; lia.
Qed.

Lemma param_in_tail : forall m c pre post, order_ok m -> wnode m -> nchildren m = pre ++ c :: post ->
  is_lit c = false ->
  length (nindexes m) <= length pre /\ tail_of m = skipn (length (nindexes m)) pre ++ c :: post.
Proof.
  intros m c pre post Ho [Hw _] E L.
  assert (Hc : nth_error (nchildren m) (length pre) = Some c).
  { rewrite E, nth_error_app2 by lia. now rewrite Nat.sub_diag. }
  assert (Hpost : forall x, In x post -> is_lit x = false).
  { intros x Ix. destruct (is_lit x) eqn:Lx; [|reflexivity]. exfalso.
    destruct (In_nth_error _ _ Ix) as [j Hj].
    assert (Hx : nth_error (nchildren m) (length pre + S j) = Some x).
    { rewrite E, nth_error_app2 by lia. replace (length pre + S j - length pre) with (S j) by lia. exact Hj. }
    pose proof (literal_children_first m Ho (length pre) (length pre + S j) c x ltac:(lia) Hc Hx Lx) as X.
    congruence. }
  assert (Hlen : length (nindexes m) <= length pre).
  { unfold nlit in Hw. rewrite E, filter_app in Hw. cbn [filter] in Hw. rewrite L in Hw.
    rewrite (filter_none is_lit post Hpost), app_nil_r in Hw.
    pose proof (filter_len_le is_lit pre). lia. }
  split; [exact Hlen|]. unfold tail_of. rewrite E, skipn_app.
  replace (length (nindexes m) - length pre) with 0 by lia. reflexivity.
Qed.

Lemma own_in_search_order : forall ic m c v rest, good ic m -> order_ok m -> wnode m ->
  In c (nchildren m) -> In c (search_order m (wpiece (nseg c) v ++ rest)).
Proof.
  intros ic m c v rest Hg Ho Hw Ic. rewrite search_order_eq. apply in_or_app.
  destruct (is_lit c) eqn:L.
  - unfold wpiece. rewrite (is_lit_true_param c L).
    destruct (sval (nseg c)) as [|b lab] eqn:S; [elim (good_lit_nonempty_all ic m Hg c Ic S)|].
    destruct (nindexes m) as [|ix0 ixs] eqn:IX.
    + right. unfold tail_of. rewrite IX. exact Ic.
    + left. unfold idx_child. rewrite IX. cbn [app].
      destruct (In_nth_error _ _ Ic) as [i Hi].
      assert (Hne : nindexes m <> []) by (rewrite IX; discriminate).
      pose proof (proj2 (proj2 Hg) Hne i c b lab Hi L S) as X. rewrite IX in X. rewrite X, Hi. now left.
  - right. destruct (in_split c (nchildren m) Ic) as [pre [post E]].
    destruct (param_in_tail m c pre post Ho Hw E L) as [_ ->].
    apply in_or_app. right. now left.
Qed.

(* a child of the search order whose subtree matches: the search does not end with a 404 *)
Lemma found_via_child : forall f m path ps c p1 ps1 r q, all_nodes idx_ok m -> height m <= S f ->
  In c (search_order m path) -> seg_match (nseg c) path ps = Some (p1, ps1) ->
  match_children f c p1 ps1 = MFound r q ->
  exists r' q', match_children (S f) m path ps = MFound r' q'.
Proof.
  intros f m path ps c p1 ps1 r q Hi Hh Ic SM MC.
  destruct (match_children (S f) m path ps) as [r' q'|q'|s] eqn:E.
  - now exists r', q'.
  - exfalso. destruct (none_all_fail f m path ps q') as [HF _]; [intros s X; rewrite E in X; discriminate X | exact E|].
    rewrite Forall_forall in HF. destruct (HF c Ic) as [psd Hd].
    exact (succeeds_not_fails _ _ _ _ _ _ _ _ _ SM MC Hd).
  - elim (match_children_no_panic (S f) m path ps Hi Hh s E).
Qed.

Lemma simple_own : forall root c v, simple_at root (c, v) -> desc root c ->
  isparam (nseg c) = true -> smatch (nseg c) v = true /\ forall b, In b v -> ~ In b (ssuffix (nseg c)).
Proof.
  intros root c v Hs D P. destruct (Hs P) as [Hm [_ Hd]]. cbn [fst snd] in *.
  split; [exact Hm|]. intros b Ib. exact (proj2 (Hd b Ib c D) P).
Qed.

(* the search from [m] on the text of a chain to a node with handlers finds something *)
Lemma chain_found : forall ic root m chain n, chain_to m chain n ->
  forall f ps, K ic m -> all_nodes order_ok m -> all_nodes idx_ok m -> height m <= f ->
  (m = root \/ desc root m) -> Forall (simple_at root) chain -> nhandlers n <> [] ->
  exists r q, match_children f m (wpath chain) ps = MFound r q.
Proof.
  intros ic root m chain n H. induction H as [m c v Ic|m c v rest n Ic Hr IH];
    intros f ps Hk Ho Hi Hh Hroot Hs Hn.
  - pose proof (height_child m c Ic) as Hc. destruct f as [|f]; [lia|].
    inversion Hs as [|cv l Hs1 _]; subst.
    assert (Dc : desc root c).
    { destruct Hroot as [->|D]; [now apply desc_child | exact (desc_trans _ _ _ D (desc_child _ _ Ic))]. }
    pose proof (all_nodes_here _ _ (proj1 Hk)) as Hg.
    pose proof (own_step ic m c v [] ps Hg Ic (all_nodes_here _ _ (all_nodes_child _ m c (proj2 Hk) Ic))
                  (or_introl eq_refl) (simple_own root c v Hs1 Dc)) as SM.
    pose proof (height_eq c) as Hhc. destruct f as [|f]; [lia|].
    destruct (lit_here_general f c (all_nodes_child _ m c Hi Ic) ltac:(lia) Hn) as [r [q MC]].
    destruct (shape_found _ _ _ _ (bind1 (nseg c) v ps) _ _ MC) as [q0 MC0].
    apply (found_via_child (S f) m (wpath [(c, v)]) ps c (wpath []) (bind1 (nseg c) v ps) r q0 Hi Hh);
      [|exact SM | exact MC0].
    cbn [wpath]. exact (own_in_search_order ic m c v [] Hg (all_nodes_here _ _ Ho) (all_nodes_here _ _ (proj2 Hk)) Ic).
  - pose proof (height_child m c Ic) as Hc. destruct f as [|f]; [lia|].
    inversion Hs as [|cv l Hs1 Hs2]; subst.
    assert (Dc : desc root c).
    { destruct Hroot as [->|D]; [now apply desc_child | exact (desc_trans _ _ _ D (desc_child _ _ Ic))]. }
    pose proof (all_nodes_here _ _ (proj1 Hk)) as Hg.
    pose proof (own_step ic m c v rest ps Hg Ic (all_nodes_here _ _ (all_nodes_child _ m c (proj2 Hk) Ic))
                  (or_intror (ex_intro _ n Hr)) (simple_own root c v Hs1 Dc)) as SM.
    destruct (IH f (bind1 (nseg c) v ps) (K_child ic m c Hk Ic) (all_nodes_child _ m c Ho Ic)
                (all_nodes_child _ m c Hi Ic) ltac:(lia) (or_intror Dc) Hs2 Hn) as [r [q MC]].
    apply (found_via_child f m (wpath ((c, v) :: rest)) ps c (wpath rest) (bind1 (nseg c) v ps) r q Hi Hh);
      [|exact SM | exact MC].
    cbn [wpath]. exact (own_in_search_order ic m c v _ Hg (all_nodes_here _ _ Ho) (all_nodes_here _ _ (proj2 Hk)) Ic).
Qed.

(* ---------------------------------------------------------------- reachable trees *)

Lemma reach_facts_w : forall name ic trace hist, TokensSplit.hist_tokens hist = true ->
  let t := fold_left tstep hist (new_tree name ic trace) in
  K ic (troot t) /\ all_nodes order_ok (troot t) /\ tree_safe t /\ all_nodes idx_ok (troot t).
Proof.
  intros name ic trace hist W t.
  destruct (reach_facts name ic trace hist W) as [Hg [Ho [_ [_ Hsafe]]]]. fold t in Hg, Ho, Hsafe.
  split; [split; [exact Hg | exact (wnode_reachable name ic trace hist W)]|].
  split; [exact Ho|]. split; [exact Hsafe|].
  apply (all_nodes_impl node_safe idx_ok); [intros x Hx; exact (proj1 Hx) | exact (proj1 Hsafe)].
Qed.

Theorem simple_witness_served : forall name ic trace hist chain n method,
  TokensSplit.hist_tokens hist = true ->
  let t := fold_left tstep hist (new_tree name ic trace) in
  chain_to (troot t) chain n -> nhandlers n <> [] -> simple t chain ->
  wpath chain <> [] -> wpath chain <> bs "*" -> (ttrace t = None \/ method <> TRACE) ->
  exists ok n' h ps, tree_handler t method (wpath chain) [] = HFound ok (Some n') h ps /\ nhandlers n' <> [].
Proof.
  intros name ic trace hist chain n method W t Hc Hn Hs Hne Hstar Htr.
  destruct (reach_facts_w name ic trace hist W) as [Hk [Ho [Hsafe Hi]]]. fold t in Hk, Ho, Hsafe, Hi.
  destruct (chain_found ic (troot t) (troot t) chain n Hc (tree_fuel t) [] Hk Ho Hi
              ltac:(unfold tree_fuel; lia) (or_introl eq_refl) Hs Hn) as [r [q MC]].
  destruct (match_found_below _ _ _ _ _ _ MC) as [Hb Hsz].
  assert (H405 : h405_ok r).
  { assert (Hr : all_nodes node_safe r).
    { destruct Hb as [->|Dr]; [exact (proj1 Hsafe) | exact (all_nodes_desc _ _ _ (proj1 Hsafe) Dr)]. }
    exact (proj2 (all_nodes_here _ _ Hr)). }
  destruct (handler_found t method (wpath chain) r q Htr Hne Hstar MC Hsz H405) as [h405 [A E]].
  assert (Hr : nhandlers r <> []).
  { intro X. unfold nsize in Hsz. rewrite X in Hsz. simpl in Hsz. lia. }
  destruct (lookup_handler method (nhandlers r)) as [h|].
  - exists true, r, h, q. now split.
  - exists false, r, h405, q. now split.
Qed.

(* ---------------------------------------------------------------- every step of the chain *)

Lemma chain_to_split : forall pre m c v rest n, chain_to m (pre ++ (c, v) :: rest) n ->
  exists m', (m' = m \/ desc m m') /\ In c (nchildren m') /\ (rest = [] \/ chain_to c rest n).
Proof.
  induction pre as [|[c0 v0] pre IH]; intros m c v rest n H.
  - cbn [app] in H. destruct (chain_to_head _ _ _ _ _ H) as [Ic Hr]. exists m.
    split; [now left|]. split; [exact Ic|]. destruct Hr as [[-> _]|Hr]; [now left | now right].
  - cbn [app] in H. destruct (chain_to_head _ _ _ _ _ H) as [Ic0 [[E _]|Hr]].
    + destruct pre; discriminate E.
    + destruct (IH c0 c v rest n Hr) as [m' [Hm' [Ic Hrest]]]. exists m'.
      split; [right; destruct Hm' as [->|D]; [now apply desc_child | exact (desc_step m c0 m' Ic0 D)]|].
      now split.
Qed.

Theorem simple_witness_own_child : forall name ic trace hist chain n,
  TokensSplit.hist_tokens hist = true ->
  let t := fold_left tstep hist (new_tree name ic trace) in
  chain_to (troot t) chain n -> simple t chain ->
  forall pre c v rest ps, chain = pre ++ (c, v) :: rest ->
    seg_match (nseg c) (wpath ((c, v) :: rest)) ps = Some (wpath rest, bind1 (nseg c) v ps).
Proof.
  intros name ic trace hist chain n W t Hc Hs pre c v rest ps E. subst chain.
  destruct (reach_facts_w name ic trace hist W) as [[Hg Hw] _]. fold t in Hg, Hw.
  destruct (chain_to_split pre (troot t) c v rest n Hc) as [m' [Hm' [Ic Hrest]]].
  assert (Dc : desc (troot t) c).
  { destruct Hm' as [->|D]; [now apply desc_child | exact (desc_trans _ _ _ D (desc_child _ _ Ic))]. }
  assert (Hgm : good ic m').
  { destruct Hm' as [->|D]; [exact (all_nodes_here _ _ Hg) | exact (all_nodes_here _ _ (all_nodes_desc _ _ _ Hg D))]. }
  unfold simple in Hs. rewrite Forall_forall in Hs.
  assert (Hs1 : simple_at (troot t) (c, v)) by (apply Hs; apply in_or_app; right; now left).
  apply (own_step ic m' c v rest ps Hgm Ic (all_nodes_here _ _ (all_nodes_desc _ _ _ Hw Dc))).
  - destruct Hrest as [->|Hr]; [now left | right; now exists n].
  - exact (simple_own (troot t) c v Hs1 Dc).
Qed.

(* ================================================================ Part F : the route's own node answers *)

(* no parameter sibling standing before the chain's child accepts the text; at the end of the chain
   no parameter child accepts the empty rest *)
Fixpoint first_at (m : node) (chain : list (node * bytes)) : Prop :=
  match chain with
  | [] => no_empty_param m
  | (c, v) :: rest =>
    (is_lit c = true \/
     exists pre post, nchildren m = pre ++ c :: post /\
       forall d, In d pre -> is_lit d = false -> seg_match (nseg d) (wpath chain) [] = None) /\
    first_at c rest
  end.

Lemma here_found : forall ic f n ps, good ic n -> nhandlers n <> [] -> no_empty_param n ->
  match_children (S f) n [] ps = MFound n ps.
Proof.
  intros ic f n ps Hg Hh He. rewrite match_children_S. cbv zeta.
  assert (E : mc_loop f n [] (skipn (length (nindexes n)) (nchildren n)) ps = MFound n ps).
  { rewrite mc_loop_all_none.
    - unfold nsize. destruct (nhandlers n); [now elim Hh | reflexivity].
    - intros d Id. apply incl_skipn in Id. destruct (He d Id) as [L|N].
      + exact (lit_no_match_nil d ps L (good_lit_nonempty_all ic n Hg d Id)).
      + exact (seg_match_none_indep _ _ _ ps N). }
  destruct (nindexes n); exact E.
Qed.

Lemma idx_child_lit : forall m b d, order_ok m -> nindexes m <> [] ->
  nth_error (nchildren m) (idx_get b (nindexes m)) = Some d -> is_lit d = true.
Proof.
  intros m b d Ho Hne Hd. destruct (idx_get_In (nindexes m) b) as [I|Z].
  - destruct (proj2 Ho b _ I) as [ch [Hch L]]. rewrite Hd in Hch. now injection Hch as <-.
  - destruct (nindexes m) as [|[b0 i0] ixs] eqn:IX; [now elim Hne|].
    destruct (proj2 Ho b0 i0) as [ch [Hch L]]; [rewrite IX; now left|].
    rewrite Z in Hd. destruct i0 as [|i0]; [rewrite Hd in Hch; now injection Hch as <-|].
    exact (literal_children_first m Ho 0 (S i0) d ch ltac:(lia) Hd Hch L).
Qed.

(* one step: the chain's child wins when nothing before it accepts the text *)
Lemma exact_step : forall ic f m c path ps p1 ps1 r q, good ic m -> order_ok m -> wnode m -> idx_ok m ->
  In c (nchildren m) -> seg_match (nseg c) path ps = Some (p1, ps1) -> match_children f c p1 ps1 = MFound r q ->
  (is_lit c = false -> exists b p, path = b :: p /\
     forall d, In d (nchildren m) -> is_lit d = true -> ~ In b (sval (nseg d))) ->
  (is_lit c = true \/
   exists pre post, nchildren m = pre ++ c :: post /\
     forall d, In d pre -> is_lit d = false -> seg_match (nseg d) path [] = None) ->
  match_children (S f) m path ps = MFound r q.
Proof.
  intros ic f m c path ps p1 ps1 r q Hg Ho Hw Hi Ic SM MC Hpar Hfirst.
  pose proof (good_lfd ic m Hg) as Hfd.
  destruct (is_lit c) eqn:L.
  - (* a literal child *)
    destruct (lit_seg_match _ _ _ _ _ L SM) as [-> [HP ->]].
    destruct (nindexes m) as [|ix0 ixs] eqn:IX.
    + rewrite match_children_S. cbv zeta. rewrite IX. cbn [length skipn].
      destruct (in_split c (nchildren m) Ic) as [pre [post E]].
      assert (Hc : nth_error (nchildren m) (length pre) = Some c).
      { rewrite E, nth_error_app2 by lia. now rewrite Nat.sub_diag. }
      destruct (sval (nseg c)) as [|b lab] eqn:S; [elim (good_lit_nonempty_all ic m Hg c Ic S)|].
      destruct path as [|b' path]; [discriminate HP|]. cbn [has_prefix] in HP.
      apply andb_true_iff in HP. destruct HP as [Eb _]. apply N.eqb_eq in Eb. subst b'.
      rewrite E, mc_loop_skip.
      * rewrite mc_loop_cons_eq, SM, MC. reflexivity.
      * intros d Id. destruct (In_nth_error _ _ Id) as [i Hi'].
        assert (Hlt : i < length pre) by (apply nth_error_Some; congruence).
        assert (Hd : nth_error (nchildren m) i = Some d) by (rewrite E, nth_error_app1 by exact Hlt; exact Hi').
        assert (Ld : is_lit d = true) by exact (literal_children_first m Ho i (length pre) d c Hlt Hd Hc L).
        assert (Idm : In d (nchildren m)) by exact (nth_error_In _ _ Hd).
        destruct (sval (nseg d)) as [|b' lab'] eqn:Sd; [elim (good_lit_nonempty_all ic m Hg d Idm Sd)|].
        apply (lit_no_match d b' lab' b _ ps Ld Sd). intros ->.
        assert (Ei : i = length pre) by exact (Hfd i (length pre) d c b lab' lab Hd Hc Ld L Sd S). lia.
    + apply (literal_indexed f m path ps c (skipn (length (sval (nseg c))) path) r q).
      * rewrite IX. discriminate.
      * exact (good_idx_complete ic m Hg).
      * exact Hfd.
      * exact (good_lit_nonempty ic m Hg).
      * exact Ic.
      * exact L.
      * exact SM.
      * exact MC.
  - (* a parameter child *)
    destruct (Hpar eq_refl) as [b [p [-> Hb]]].
    assert (Hlitfail : forall d, In d (nchildren m) -> is_lit d = true -> seg_match (nseg d) (b :: p) ps = None).
    { intros d Id Ld.
      destruct (sval (nseg d)) as [|b' lab'] eqn:Sd; [elim (good_lit_nonempty_all ic m Hg d Id Sd)|].
      apply (lit_no_match d b' lab' b p ps Ld Sd). intros ->. apply (Hb d Id Ld). rewrite Sd. now left. }
    destruct Hfirst as [X|[pre [post [E Hfirst]]]]; [congruence|].
    destruct (param_in_tail m c pre post Ho Hw E L) as [Hlen Et].
    assert (Hloop : mc_loop f m (b :: p) (tail_of m) ps = MFound r q).
    { rewrite Et, mc_loop_skip.
      - rewrite mc_loop_cons_eq, SM, MC. reflexivity.
      - intros d Id. apply TreeLit.In_skipn_In in Id.
        assert (Idm : In d (nchildren m)) by (rewrite E; apply in_or_app; now left).
        destruct (is_lit d) eqn:Ld; [exact (Hlitfail d Idm Ld)|].
        exact (seg_match_none_indep _ _ _ ps (Hfirst d Id Ld)). }
    unfold tail_of in Hloop. rewrite match_children_S. cbv zeta.
    destruct (nindexes m) as [|ix0 ixs] eqn:IX; [exact Hloop|].
    assert (Hne : nindexes m <> []) by (rewrite IX; discriminate).
    destruct (nth_error (nchildren m) (idx_get b (ix0 :: ixs))) as [d|] eqn:NTH.
    + rewrite <- IX in NTH. pose proof (idx_child_lit m b d Ho Hne NTH) as Ld.
      rewrite (Hlitfail d (nth_error_In _ _ NTH) Ld). exact Hloop.
    + exfalso. apply nth_error_None in NTH. pose proof (Hi b Hne) as X. rewrite IX in X. lia.
Qed.

Lemma simple_sib : forall root m c v, simple_at root (c, v) -> (m = root \/ desc root m) ->
  isparam (nseg c) = true -> exists b p, v = b :: p /\
    forall d, In d (nchildren m) -> is_lit d = true -> ~ In b (sval (nseg d)).
Proof.
  intros root m c v Hs Hm P. destruct (Hs P) as [_ [Hne Hd]]. cbn [fst snd] in *.
  destruct v as [|b p]; [now elim Hne|]. exists b, p. split; [reflexivity|].
  intros d Id Ld.
  assert (Dd : desc root d).
  { destruct Hm as [->|D]; [now apply desc_child | exact (desc_trans _ _ _ D (desc_child _ _ Id))]. }
  exact (proj1 (Hd b (or_introl eq_refl) d Dd) (is_lit_true_param d Ld)).
Qed.

Lemma chain_exact : forall ic root m chain n, chain_to m chain n ->
  forall f ps, K ic m -> all_nodes order_ok m -> all_nodes idx_ok m -> height m <= f ->
  (m = root \/ desc root m) -> Forall (simple_at root) chain -> first_at m chain -> nhandlers n <> [] ->
  match_children f m (wpath chain) ps = MFound n (wparams chain ps).
Proof.
  intros ic root m chain n H. induction H as [m c v Ic|m c v rest n Ic Hr IH];
    intros f ps Hk Ho Hi Hh Hroot Hs Hf Hn.
  - pose proof (height_child m c Ic) as Hc. destruct f as [|f]; [lia|].
    inversion Hs as [|cv l Hs1 _]; subst.
    assert (Dc : desc root c).
    { destruct Hroot as [->|D]; [now apply desc_child | exact (desc_trans _ _ _ D (desc_child _ _ Ic))]. }
    pose proof (all_nodes_here _ _ (proj1 Hk)) as Hg.
    pose proof (own_step ic m c v [] ps Hg Ic (all_nodes_here _ _ (all_nodes_child _ m c (proj2 Hk) Ic))
                  (or_introl eq_refl) (simple_own root c v Hs1 Dc)) as SM.
    pose proof (height_eq c) as Hhc. destruct f as [|f]; [lia|].
    destruct Hf as [Hf1 Hf2]. cbn [first_at] in Hf2.
    pose proof (here_found ic f c (bind1 (nseg c) v ps)
                  (all_nodes_here _ _ (all_nodes_child _ m c (proj1 Hk) Ic)) Hn Hf2) as MC.
    cbn [wparams].
    apply (exact_step ic (S f) m c (wpath [(c, v)]) ps (wpath []) (bind1 (nseg c) v ps) c (bind1 (nseg c) v ps)
             Hg (all_nodes_here _ _ Ho) (all_nodes_here _ _ (proj2 Hk)) (all_nodes_here _ _ Hi) Ic SM MC);
      [|exact Hf1].
    intro L. destruct (simple_sib root m c v Hs1 Hroot (is_lit_false_param c L)) as [b [p [-> Hb]]].
    exists b, (p ++ ssuffix (nseg c) ++ []). split; [|exact Hb].
    cbn [wpath]. unfold wpiece. rewrite (is_lit_false_param c L). cbn [app]. now rewrite <- app_assoc.
  - pose proof (height_child m c Ic) as Hc. destruct f as [|f]; [lia|].
    inversion Hs as [|cv l Hs1 Hs2]; subst.
    assert (Dc : desc root c).
    { destruct Hroot as [->|D]; [now apply desc_child | exact (desc_trans _ _ _ D (desc_child _ _ Ic))]. }
    pose proof (all_nodes_here _ _ (proj1 Hk)) as Hg.
    pose proof (own_step ic m c v rest ps Hg Ic (all_nodes_here _ _ (all_nodes_child _ m c (proj2 Hk) Ic))
                  (or_intror (ex_intro _ n Hr)) (simple_own root c v Hs1 Dc)) as SM.
    destruct Hf as [Hf1 Hf2].
    pose proof (IH f (bind1 (nseg c) v ps) (K_child ic m c Hk Ic) (all_nodes_child _ m c Ho Ic)
                  (all_nodes_child _ m c Hi Ic) ltac:(lia) (or_intror Dc) Hs2 Hf2 Hn) as MC.
    cbn [wparams].
    apply (exact_step ic f m c (wpath ((c, v) :: rest)) ps (wpath rest) (bind1 (nseg c) v ps) n
             (wparams rest (bind1 (nseg c) v ps))
             Hg (all_nodes_here _ _ Ho) (all_nodes_here _ _ (proj2 Hk)) (all_nodes_here _ _ Hi) Ic SM MC);
      [|exact Hf1].
    intro L. destruct (simple_sib root m c v Hs1 Hroot (is_lit_false_param c L)) as [b [p [-> Hb]]].
    exists b, (p ++ ssuffix (nseg c) ++ wpath rest). split; [|exact Hb].
    cbn [wpath]. unfold wpiece. rewrite (is_lit_false_param c L). cbn [app]. now rewrite <- app_assoc.
Qed.

Theorem simple_witness_exact : forall name ic trace hist chain n method,
  TokensSplit.hist_tokens hist = true ->
  let t := fold_left tstep hist (new_tree name ic trace) in
  chain_to (troot t) chain n -> nhandlers n <> [] -> simple t chain -> first_at (troot t) chain ->
  wpath chain <> [] -> wpath chain <> bs "*" -> (ttrace t = None \/ method <> TRACE) ->
  served t method (wpath chain) n (wparams chain []).
Proof.
  intros name ic trace hist chain n method W t Hc Hn Hs Hf Hne Hstar Htr.
  destruct (reach_facts_w name ic trace hist W) as [Hk [Ho [Hsafe Hi]]]. fold t in Hk, Ho, Hsafe, Hi.
  pose proof (chain_exact ic (troot t) (troot t) chain n Hc (tree_fuel t) [] Hk Ho Hi
                ltac:(unfold tree_fuel; lia) (or_introl eq_refl) Hs Hf Hn) as MC.
  apply (handler_found t method (wpath chain) n (wparams chain []) Htr Hne Hstar MC).
  - unfold nsize. destruct (nhandlers n); [now elim Hn | simpl; lia].
  - exact (proj2 (all_nodes_here _ _ (all_nodes_desc _ _ _ (proj1 Hsafe) (chain_to_desc _ _ _ Hc)))).
Qed.

(* ================================================================ Part G : a boolean check of [simple_at], example *)

Fixpoint below_all (fuel : nat) (n : node) (P : node -> bool) : bool :=
  match fuel with
  | O => false
  | S f => forallb (fun ch => P ch && below_all f ch P) (nchildren n)
  end.

Lemma below_all_sound : forall fuel n P, below_all fuel n P = true -> forall d, desc n d -> P d = true.
Proof.
  induction fuel as [|f IH]; intros n P H d D; [discriminate H|]. cbn [below_all] in H.
  rewrite forallb_forall in H. inversion D as [n0 ch Ich|n0 ch d0 Ich Dd]; subst.
  - specialize (H d Ich). apply andb_true_iff in H. exact (proj1 H).
  - specialize (H ch Ich). apply andb_true_iff in H. exact (IH ch P (proj2 H) d Dd).
Qed.

Definition byte_free (b : N) (m : node) : bool :=
  negb (existsb (N.eqb b) (if isparam (nseg m) then ssuffix (nseg m) else sval (nseg m))).

Definition simple_atb (fuel : nat) (root : node) (cv : node * bytes) : bool :=
  if isparam (nseg (fst cv)) then
    smatch (nseg (fst cv)) (snd cv) && negb (match snd cv with [] => true | _ => false end) &&
    forallb (fun b => below_all fuel root (byte_free b)) (snd cv)
  else true.

Lemma simple_atb_sound : forall fuel root cv, simple_atb fuel root cv = true -> simple_at root cv.
Proof.
  intros fuel root cv H P. unfold simple_atb in H. rewrite P in H.
  apply andb_true_iff in H. destruct H as [H H3]. apply andb_true_iff in H. destruct H as [H1 H2].
  split; [exact H1|]. split; [intro E; rewrite E in H2; discriminate H2|].
  intros b Ib m D. rewrite forallb_forall in H3.
  pose proof (below_all_sound fuel root (byte_free b) (H3 b Ib) m D) as X. unfold byte_free in X.
  apply negb_true_iff in X.
  split; intro Q; rewrite Q in X; exact (TokensSplit.existsb_eqb_false _ _ X).
Qed.

Lemma simpleb_sound : forall fuel t chain, forallb (simple_atb fuel (troot t)) chain = true -> simple t chain.
Proof.
  intros fuel t chain H. unfold simple. rewrite Forall_forall. rewrite forallb_forall in H.
  intros cv I. exact (simple_atb_sound fuel (troot t) cv (H cv I)).
Qed.

(* six literal siblings, a regexp and a named parameter beside them, a parameter further down,
   and a removal (after which the index of "/" still has five entries) *)
Definition ex_w_hist : list top :=
  [ex_add "/a"; ex_add "/b"; ex_add "/c"; ex_add "/d"; ex_add "/e"; ex_add "/f";
   ex_add "/{id:\d+}/info"; ex_add "/{name}"; ex_add "/e/{x}/k"; ORemove (bs "/c") []].
Notation ex_w_tree := (fold_left tstep ex_w_hist (new_tree (bs "r") [] false)).
Definition ex_w_slash : node := TreeNames.kid 0 (troot ex_w_tree).
Definition ex_w_id : node := TreeNames.kid 5 ex_w_slash.
Definition ex_w_name : node := TreeNames.kid 6 ex_w_slash.
Definition ex_w_e : node := TreeNames.kid 3 ex_w_slash.
Definition ex_w_e_slash : node := TreeNames.kid 0 ex_w_e.
Definition ex_w_x : node := TreeNames.kid 0 ex_w_e_slash.
Definition ex_ch_id : list (node * bytes) := [(ex_w_slash, []); (ex_w_id, bs "42")].
Definition ex_ch_name : list (node * bytes) := [(ex_w_slash, []); (ex_w_name, bs "zz")].
Definition ex_ch_x : list (node * bytes) :=
  [(ex_w_slash, []); (ex_w_e, []); (ex_w_e_slash, []); (ex_w_x, bs "77")].

Example ex_w_accepted : TokensSplit.hist_tokens ex_w_hist = true /\
  all_accepted (new_tree (bs "r") [] false) ex_w_hist = true /\
  length (nindexes ex_w_slash) = 5 /\
  map (fun c => sval (nseg c)) (nchildren ex_w_slash) =
    [bs "a"; bs "b"; bs "d"; bs "e"; bs "f"; bs "{id:\d+}/info"; bs "{name}"].
Proof. vm_compute. repeat split. Qed.

Example ex_w_texts :
  wpath ex_ch_id = bs "/42/info" /\ wparams ex_ch_id [] = [(bs "id", bs "42")] /\ npat ex_w_id = bs "/{id:\d+}/info" /\
  wpath ex_ch_name = bs "/zz" /\ wparams ex_ch_name [] = [(bs "name", bs "zz")] /\ npat ex_w_name = bs "/{name}" /\
  wpath ex_ch_x = bs "/e/77/k" /\ wparams ex_ch_x [] = [(bs "x", bs "77")] /\ npat ex_w_x = bs "/e/{x}/k".
Proof. vm_compute. repeat split. Qed.

(* the conclusions, computed *)
Example ex_w_dispatch :
  tree_handler ex_w_tree GET (bs "/42/info") [] =
    HFound true (Some ex_w_id) (HUser (bs "/{id:\d+}/info")) [(bs "id", bs "42")] /\
  tree_handler ex_w_tree GET (bs "/zz") [] =
    HFound true (Some ex_w_name) (HUser (bs "/{name}")) [(bs "name", bs "zz")] /\
  tree_handler ex_w_tree POST (bs "/e/77/k") [] =
    HFound false (Some ex_w_x) HNotAllowed [(bs "x", bs "77")].
Proof. vm_compute. repeat split. Qed.

(* boolean checks of the side conditions of [first_at] *)
Definition fails_b (path : bytes) (d : node) : bool :=
  is_lit d || match seg_match (nseg d) path [] with None => true | Some _ => false end.

Lemma fails_b_sound : forall path l, forallb (fails_b path) l = true ->
  forall d, In d l -> is_lit d = false -> seg_match (nseg d) path [] = None.
Proof.
  intros path l H d Id Ld. rewrite forallb_forall in H. specialize (H d Id). unfold fails_b in H.
  rewrite Ld in H. cbn [orb] in H. destruct (seg_match (nseg d) path []); [discriminate H | reflexivity].
Qed.

Lemma no_empty_param_b : forall n, forallb (fails_b []) (nchildren n) = true -> no_empty_param n.
Proof.
  intros n H c Ic. destruct (is_lit c) eqn:L; [now left | right].
  exact (fails_b_sound [] (nchildren n) H c Ic L).
Qed.

Lemma first_at_lit : forall m c v rest, is_lit c = true -> first_at c rest -> first_at m ((c, v) :: rest).
Proof. intros m c v rest L H. split; [now left | exact H]. Qed.

Lemma first_at_pos : forall m c v rest i,
  nchildren m = firstn i (nchildren m) ++ c :: skipn (S i) (nchildren m) ->
  forallb (fails_b (wpath ((c, v) :: rest))) (firstn i (nchildren m)) = true ->
  first_at c rest -> first_at m ((c, v) :: rest).
Proof.
  intros m c v rest i E Hb H. split; [|exact H]. right.
  exists (firstn i (nchildren m)), (skipn (S i) (nchildren m)). split; [exact E|].
  exact (fails_b_sound _ _ Hb).
Qed.

(* the premises of the theorems *)
Example ex_w_premises :
  chain_to (troot ex_w_tree) ex_ch_id ex_w_id /\ nhandlers ex_w_id <> [] /\
  simple ex_w_tree ex_ch_id /\ first_at (troot ex_w_tree) ex_ch_id /\
  chain_to (troot ex_w_tree) ex_ch_name ex_w_name /\ nhandlers ex_w_name <> [] /\
  simple ex_w_tree ex_ch_name /\ first_at (troot ex_w_tree) ex_ch_name /\
  chain_to (troot ex_w_tree) ex_ch_x ex_w_x /\ nhandlers ex_w_x <> [] /\
  simple ex_w_tree ex_ch_x /\ first_at (troot ex_w_tree) ex_ch_x.
Proof.
  assert (I0 : In ex_w_slash (nchildren (troot ex_w_tree))) by (vm_compute; left; reflexivity).
  assert (Iid : In ex_w_id (nchildren ex_w_slash)) by (vm_compute; do 5 right; left; reflexivity).
  assert (Iname : In ex_w_name (nchildren ex_w_slash)) by (vm_compute; do 6 right; left; reflexivity).
  assert (Ie : In ex_w_e (nchildren ex_w_slash)) by (vm_compute; do 3 right; left; reflexivity).
  assert (Ies : In ex_w_e_slash (nchildren ex_w_e)) by (vm_compute; left; reflexivity).
  assert (Ix : In ex_w_x (nchildren ex_w_e_slash)) by (vm_compute; left; reflexivity).
  split; [exact (ct_cons _ _ _ _ _ I0 (ct_one _ _ _ Iid))|].
  split; [vm_compute; discriminate|].
  split; [apply (simpleb_sound 6); vm_compute; reflexivity|].
  split.
  { apply first_at_lit; [vm_compute; reflexivity|].
    apply (first_at_pos ex_w_slash ex_w_id (bs "42") [] 5); [vm_compute; reflexivity | vm_compute; reflexivity|].
    apply no_empty_param_b. vm_compute. reflexivity. }
  split; [exact (ct_cons _ _ _ _ _ I0 (ct_one _ _ _ Iname))|].
  split; [vm_compute; discriminate|].
  split; [apply (simpleb_sound 6); vm_compute; reflexivity|].
  split.
  { apply first_at_lit; [vm_compute; reflexivity|].
    apply (first_at_pos ex_w_slash ex_w_name (bs "zz") [] 6); [vm_compute; reflexivity | vm_compute; reflexivity|].
    apply no_empty_param_b. vm_compute. reflexivity. }
  split; [exact (ct_cons _ _ _ _ _ I0 (ct_cons _ _ _ _ _ Ie (ct_cons _ _ _ _ _ Ies (ct_one _ _ _ Ix))))|].
  split; [vm_compute; discriminate|].
  split; [apply (simpleb_sound 6); vm_compute; reflexivity|].
  apply first_at_lit; [vm_compute; reflexivity|].
  apply first_at_lit; [vm_compute; reflexivity|].
  apply first_at_lit; [vm_compute; reflexivity|].
  apply (first_at_pos ex_w_e_slash ex_w_x (bs "77") [] 0); [vm_compute; reflexivity | vm_compute; reflexivity|].
  apply no_empty_param_b. vm_compute. reflexivity.
Qed.

(* the theorems applied to the example *)
Example ex_w_served :
  served ex_w_tree GET (wpath ex_ch_id) ex_w_id (wparams ex_ch_id []) /\
  served ex_w_tree GET (wpath ex_ch_name) ex_w_name (wparams ex_ch_name []) /\
  served ex_w_tree POST (wpath ex_ch_x) ex_w_x (wparams ex_ch_x []).
Proof.
  destruct ex_w_premises as [C1 [H1 [S1 [F1 [C2 [H2 [S2 [F2 [C3 [H3 [S3 F3]]]]]]]]]]].
  destruct ex_w_texts as [P1 [_ [_ [P2 [_ [_ [P3 _]]]]]]].
  split; [|split].
  - apply (simple_witness_exact (bs "r") [] false ex_w_hist ex_ch_id ex_w_id GET (proj1 ex_w_accepted) C1 H1 S1 F1);
      [rewrite P1; discriminate | rewrite P1; vm_compute; discriminate | left; reflexivity].
  - apply (simple_witness_exact (bs "r") [] false ex_w_hist ex_ch_name ex_w_name GET (proj1 ex_w_accepted) C2 H2 S2 F2);
      [rewrite P2; discriminate | rewrite P2; vm_compute; discriminate | left; reflexivity].
  - apply (simple_witness_exact (bs "r") [] false ex_w_hist ex_ch_x ex_w_x POST (proj1 ex_w_accepted) C3 H3 S3 F3);
      [rewrite P3; discriminate | rewrite P3; vm_compute; discriminate | left; reflexivity].
Qed.

Example ex_w_not_404 : exists ok n' h ps,
  tree_handler ex_w_tree GET (wpath ex_ch_id) [] = HFound ok (Some n') h ps /\ nhandlers n' <> [].
Proof.
  destruct ex_w_premises as [C1 [H1 [S1 _]]]. destruct ex_w_texts as [P1 _].
  apply (simple_witness_served (bs "r") [] false ex_w_hist ex_ch_id ex_w_id GET (proj1 ex_w_accepted) C1 H1 S1);
    [rewrite P1; discriminate | rewrite P1; vm_compute; discriminate | left; reflexivity].
Qed.

(* without [first_at] the answer may come from another live route: the regexp sibling is tried
   before the named one and accepts the simple value "42" *)
Definition ex_w2_hist : list top := [ex_add "/{id:\d+}"; ex_add "/{name}"].
Notation ex_w2_tree := (fold_left tstep ex_w2_hist (new_tree (bs "r") [] false)).
Definition ex_w2_slash : node := TreeNames.kid 0 (troot ex_w2_tree).
Definition ex_w2_id : node := TreeNames.kid 0 ex_w2_slash.
Definition ex_w2_name : node := TreeNames.kid 1 ex_w2_slash.
Definition ex_ch2 : list (node * bytes) := [(ex_w2_slash, []); (ex_w2_name, bs "42")].

Example ex_w2_other_route :
  TokensSplit.hist_tokens ex_w2_hist = true /\
  chain_to (troot ex_w2_tree) ex_ch2 ex_w2_name /\ nhandlers ex_w2_name <> [] /\ simple ex_w2_tree ex_ch2 /\
  wpath ex_ch2 = bs "/42" /\ npat ex_w2_name = bs "/{name}" /\ npat ex_w2_id = bs "/{id:\d+}" /\
  tree_handler ex_w2_tree GET (bs "/42") [] =
    HFound true (Some ex_w2_id) (HUser (bs "/{id:\d+}")) [(bs "id", bs "42")].
Proof.
  assert (I0 : In ex_w2_slash (nchildren (troot ex_w2_tree))) by (vm_compute; left; reflexivity).
  assert (I1 : In ex_w2_name (nchildren ex_w2_slash)) by (vm_compute; right; left; reflexivity).
  split; [vm_compute; reflexivity|].
  split; [exact (ct_cons _ _ _ _ _ I0 (ct_one _ _ _ I1))|].
  split; [vm_compute; discriminate|].
  split; [apply (simpleb_sound 4); vm_compute; reflexivity|].
  vm_compute. repeat split.
Qed.

(* ================================================================ the definitions, spelled out *)

Lemma wpath_cons : forall c v rest,
  wpath ((c, v) :: rest) = (if isparam (nseg c) then v ++ ssuffix (nseg c) else sval (nseg c)) ++ wpath rest.
Proof. reflexivity. Qed.

Lemma wparams_cons : forall c v rest ps,
  wparams ((c, v) :: rest) ps =
  wparams rest (if isparam (nseg c) then (if signore (nseg c) then ps else ctx_set ps (sname (nseg c)) v) else ps).
Proof. reflexivity. Qed.

Lemma simple_spec : forall t chain, simple t chain <->
  forall c v, In (c, v) chain -> isparam (nseg c) = true ->
    smatch (nseg c) v = true /\ v <> [] /\
    forall b, In b v -> forall m, desc (troot t) m ->
      (isparam (nseg m) = false -> ~ In b (sval (nseg m))) /\
      (isparam (nseg m) = true -> ~ In b (ssuffix (nseg m))).
Proof.
  intros t chain. unfold simple. rewrite Forall_forall. split.
  - intros H c v I. exact (H (c, v) I).
  - intros H [c v] I. exact (H c v I).
Qed.

Lemma first_at_spec : forall m c v rest, first_at m ((c, v) :: rest) <->
  (is_lit c = true \/
   exists pre post, nchildren m = pre ++ c :: post /\
     forall d, In d pre -> is_lit d = false -> seg_match (nseg d) (wpath ((c, v) :: rest)) [] = None) /\
  first_at c rest.
Proof. intros m c v rest. reflexivity. Qed.

Lemma first_at_end : forall n, first_at n [] <->
  forall c, In c (nchildren n) -> is_lit c = true \/ seg_match (nseg c) [] [] = None.
Proof. intro n. reflexivity. Qed.

Lemma wnode_spec : forall n, wnode n <->
  length (nindexes n) <= length (filter is_lit (nchildren n)) /\
  (isparam (nseg n) = true /\ ssuffix (nseg n) = [] -> nchildren n = []).
Proof. intro n. reflexivity. Qed.
