(* C09 on the tree the router really uses: on every router reached from [new_router] by
   Handle / Remove / Clean / Use, every handler stored at a node under the method key m is
       core  wrapped by the registration's middlewares, then by ALL Router.Use middlewares
   (whether Use came before or after the registration), and every layer carries exactly
   (m, the pattern of the node, the name of the router).
   - Part A: the text facts needed to know WHICH node a registration reaches: the pieces of
     [split] concatenate to the pattern, [similarity] is a common prefix, [scan_sim] reports the
     similarity of the child it picks;
   - Part B: [add_segment]/[get_node] hand the continuation a node whose [npat] is the text
     consumed so far (needs the pattern invariant [pat_ok] of TreeText), and keep the term
     invariant; [add_methods] establishes it at the node reached;
   - Part C: Remove / Clean / Use keep the term invariant (no pattern invariant needed);
   - Part D: routers, histories, consequences.
   Theorems are re-exported by Props/C09tree.v. *)
From Coq Require Import String.
From Mux Require Import Model.Bytes Model.Regex Model.Context Model.Syntax Model.Tree Model.Router
  Proofs.BytesFacts Proofs.MatchSound Proofs.TreeText.
From Mux Require Proofs.Onion.

(* ================================================================ definitions *)

Fixpoint is_core (h : hterm) : bool := match h with HWrap _ _ _ _ _ => false | _ => true end.

(* h = core wrapped by some registration-time list and then by exactly [uses] *)
Definition term_ok (uses : list bytes) (m p r : bytes) (h : hterm) : Prop :=
  exists core reg, is_core core = true /\ h = apply_mw core m p r (reg ++ uses).

Definition node_terms_ok (uses : list bytes) (r : bytes) (n : node) : Prop :=
  forall m h, In (m, h) (nhandlers n) -> term_ok uses m (npat n) r h.

Definition router_ok (rt : router) : Prop :=
  (forall ch, In ch (nchildren (troot (rtree rt))) ->
     all_nodes (node_terms_ok (rms rt) (tname (rtree rt))) ch) /\
  node_terms_ok (rms rt) (tname (rtree rt)) (troot (rtree rt)) /\
  tnotfound (rtree rt) = apply_mw HNotFound [] [] (tname (rtree rt)) (rms rt) /\
  (forall h, ttrace (rtree rt) = Some h -> h = apply_mw HTrace TRACE [] (tname (rtree rt)) (rms rt)).

Inductive rop :=
| RHandle (p : bytes) (id : bytes) (mws ms : list bytes)
| RRemove (p : bytes) (ms : list bytes)
| RClean (prefix : bytes)
| RUse (mws : list bytes).

Definition rkeep (rt : router) (x : res router) : router := match x with Ok rt' => rt' | _ => rt end.

Definition rstep (rt : router) (op : rop) : router :=
  match op with
  | RHandle p id mws ms => rkeep rt (r_handle rt p (HUser id) mws ms)
  | RRemove p ms => rkeep rt (r_remove rt p ms)
  | RClean prefix => rkeep rt (r_clean rt prefix)
  | RUse mws => r_use rt mws
  end.

(* every layer of [h] was built with the arguments (m, p, r) *)
Definition all_args_of (m p r : bytes) : hterm -> Prop :=
  fix all_args (h : hterm) : Prop :=
    match h with
    | HWrap _ m' p' r' inner => m' = m /\ p' = p /\ r' = r /\ all_args inner
    | _ => True
    end.

(* ================================================================ Part A : text *)

(* a common prefix of length L *)
Definition cpre (L : nat) (a b : bytes) : Prop :=
  (L <= length a)%nat /\ (L <= length b)%nat /\ firstn L a = firstn L b.

Lemma cpre_sym : forall L a b, cpre L a b -> cpre L b a.
Proof. intros L a b [H1 [H2 H3]]. split; [exact H2|]. split; [exact H1 | now symmetry]. Qed.

Lemma cpre_O : forall a b, cpre O a b.
Proof. intros a b. split; [apply Nat.le_0_l|]. split; [apply Nat.le_0_l | reflexivity]. Qed.

Lemma cpre_cons : forall d x a b, cpre d a b -> cpre (S d) (x :: a) (x :: b).
Proof.
  intros d x a b [H1 [H2 H3]]. split; [simpl; lia|]. split; [simpl; lia|].
  simpl. now rewrite H3.
Qed.

Definition lp_res (s1 s2 : bytes) (i : nat) (z : Z) : Prop :=
  z = (-10)%Z \/
  exists j, z = Z.of_nat j /\ ((j <= i)%nat \/ exists d, j = (i + d)%nat /\ cpre d s1 s2).

Lemma lp_base : forall (c : bool) s1 s2 i st,
  (st = (-10)%Z \/ (0 <= st <= Z.of_nat i)%Z) ->
  lp_res s1 s2 i (if c then st else Z.of_nat i).
Proof.
  intros c s1 s2 i st Hst. unfold lp_res. destruct c.
  - destruct Hst as [->|Hst]; [now left | right].
    exists (Z.to_nat st). split; [lia | left; lia].
  - right. exists i. split; [reflexivity | left; lia].
Qed.

Lemma lp_loop_spec : forall s1 s2 i st en b,
  (st = (-10)%Z \/ (0 <= st <= Z.of_nat i)%Z) ->
  lp_res s1 s2 i (lp_loop s1 s2 i st en b).
Proof.
  induction s1 as [|a s1 IH]; intros s2 i st en b Hst.
  - cbn [lp_loop]. apply lp_base. exact Hst.
  - destruct s2 as [|b0 s2]; [cbn [lp_loop]; apply lp_base; exact Hst|].
    cbn [lp_loop].
    assert (Lift : forall st' en' b', (st' = (-10)%Z \/ (0 <= st' <= Z.of_nat (S i))%Z) -> a = b0 ->
              lp_res (a :: s1) (b0 :: s2) i (lp_loop s1 s2 (S i) st' en' b')).
    { intros st' en' b' Hst' <-. destruct (IH s2 (S i) st' en' b' Hst') as [E|[j [E Hj]]].
      - left. exact E.
      - right. exists j. split; [exact E|].
        destruct Hj as [Hj|[d [-> Hd]]].
        + destruct (Nat.eq_dec j (S i)) as [->|Hne]; [|left; lia].
          right. exists 1%nat. split; [lia|]. apply cpre_cons. apply cpre_O.
        + right. exists (S d). split; [lia|]. now apply cpre_cons. }
    destruct (N.eqb_spec a b0) as [Eab|Nab]; cbn [negb].
    + destruct (N.eqb a 123); [apply Lift; [right; lia | exact Eab]|].
      destruct (N.eqb a 125); (apply Lift; [|exact Eab]);
        (destruct Hst as [->|Hst]; [now left | right; lia]).
    + apply lp_base. exact Hst.
Qed.

Lemma longest_prefix_spec : forall a b,
  longest_prefix a b = (-10)%Z \/ exists j, longest_prefix a b = Z.of_nat j /\ cpre j a b.
Proof.
  intros a b. unfold longest_prefix.
  destruct (lp_loop_spec a b O (-10)%Z (-10)%Z false (or_introl eq_refl)) as [E|[j [E Hj]]].
  - now left.
  - right. exists j. split; [exact E|].
    destruct Hj as [Hj|[d [-> Hd]]]; [|exact Hd].
    assert (j = O) by lia. subst j. apply cpre_O.
Qed.

(* [similarity s seg]: [s] is the label of a child, [seg] the segment being added *)
Lemma similarity_cpre : forall s seg, cpre (Z.to_nat (similarity s seg)) (sval s) (sval seg).
Proof.
  intros s seg. unfold similarity.
  destruct (beqb (sval seg) (sval s)); [apply cpre_O|].
  destruct (negb (stype_eqb (styp seg) (styp s))); [apply cpre_O|].
  destruct (longest_prefix_spec (sval seg) (sval s)) as [E|[j [E Hj]]]; rewrite E.
  - apply cpre_O.
  - rewrite Nat2Z.id. now apply cpre_sym.
Qed.

Lemma similarity_same : forall s seg, similarity s seg = (-1)%Z -> sval s = sval seg.
Proof.
  intros s seg H. unfold similarity in H.
  destruct (beqb_spec (sval seg) (sval s)) as [E|N]; [now symmetry|].
  destruct (negb (stype_eqb (styp seg) (styp s))); [discriminate H|].
  destruct (longest_prefix_spec (sval seg) (sval s)) as [E|[j [E _]]]; rewrite E in H; lia.
Qed.

Lemma scan_sim_some : forall seg c i best j b, scan_sim seg c i best = (Some j, b) ->
  exists ch, (i <= j)%nat /\ nth_error c (j - i) = Some ch /\ similarity (nseg ch) seg = (-1)%Z.
Proof.
  intros seg c. induction c as [|x c IH]; intros i best j b H; cbn [scan_sim] in H; [discriminate H|].
  cbv zeta in H. destruct (Z.eqb_spec (similarity (nseg x) seg) (-1)%Z) as [E|N].
  - injection H as <- _. exists x. split; [lia|]. split; [now rewrite Nat.sub_diag | exact E].
  - assert (G : forall best', scan_sim seg c (S i) best' = (Some j, b) ->
              exists ch, (i <= j)%nat /\ nth_error (x :: c) (j - i) = Some ch /\
                         similarity (nseg ch) seg = (-1)%Z).
    { intros best' H'. destruct (IH _ _ _ _ H') as [ch [Hle [Hn Hs]]].
      exists ch. split; [lia|]. split; [|exact Hs].
      replace (j - i)%nat with (S (j - S i)) by lia. exact Hn. }
    destruct (Z.ltb _ _); exact (G _ H).
Qed.

Lemma scan_sim_best : forall seg c i best j l, scan_sim seg c i best = (None, Some (j, l)) ->
  best = Some (j, l) \/
  exists ch, (i <= j)%nat /\ nth_error c (j - i) = Some ch /\ similarity (nseg ch) seg = l.
Proof.
  intros seg c. induction c as [|x c IH]; intros i best j l H; cbn [scan_sim] in H.
  - injection H as ->. now left.
  - cbv zeta in H. destruct (Z.eqb (similarity (nseg x) seg) (-1)%Z); [discriminate H|].
    assert (G : forall best', scan_sim seg c (S i) best' = (None, Some (j, l)) ->
              best' = Some (j, l) \/
              exists ch, (i <= j)%nat /\ nth_error (x :: c) (j - i) = Some ch /\
                         similarity (nseg ch) seg = l).
    { intros best' H'. destruct (IH _ _ _ _ H') as [E|[ch [Hle [Hn Hs]]]]; [now left | right].
      exists ch. split; [lia|]. split; [|exact Hs].
      replace (j - i)%nat with (S (j - S i)) by lia. exact Hn. }
    destruct (Z.ltb _ _).
    + destruct (G _ H) as [E|R]; [|now right]. injection E as <- <-. right.
      exists x. split; [lia|]. split; [now rewrite Nat.sub_diag | reflexivity].
    + destruct (G _ H) as [E|R]; [now left | now right].
Qed.

Lemma seg_split_first : forall ic seg pos s1 s2,
  seg_split ic seg pos = Ok (s1, s2) -> sval s1 = firstn pos (sval seg).
Proof.
  intros ic seg pos s1 s2 H. unfold seg_split in H.
  repeat res_step H. injection H as <- <-.
  rewrite (new_segment_value _ _ _ E1).
  apply slice_or_panic_ok in E. exact (gslice_from_start _ _ _ E).
Qed.

(* the pieces of splitString spell the string *)
Lemma split_string_loop_concat : forall fuel str e acc,
  concat (split_string_loop fuel str e acc) = concat (rev acc) ++ str.
Proof.
  assert (Hrev : forall (s : bytes) acc, concat (rev (s :: acc)) = concat (rev acc) ++ s).
  { intros s acc. cbn [rev]. rewrite concat_app. cbn [concat]. now rewrite app_nil_r. }
  induction fuel as [|f IH]; intros str e acc; cbn [split_string_loop]; [apply Hrev|].
  destruct (index_byte (skipn e str) 123) as [start|]; [|apply Hrev].
  destruct (Nat.ltb 0 start).
  - destruct (index_byte (skipn (start + e) str) 125) as [e'|].
    + rewrite IH, Hrev, <- app_assoc. now rewrite firstn_skipn.
    + rewrite !Hrev, <- app_assoc. now rewrite firstn_skipn.
  - destruct (index_byte str 125) as [e'|]; [apply IH | apply Hrev].
Qed.

Lemma split_string_concat : forall str, concat (split_string str) = str.
Proof. intro str. unfold split_string. now rewrite split_string_loop_concat. Qed.

Lemma split_pieces_vals : forall ic ss flag names segs,
  split_pieces ic ss flag names = Ok segs -> map sval segs = ss.
Proof.
  intros ic ss. induction ss as [|s ss IH]; intros flag names segs H; simpl in H.
  - injection H as <-. reflexivity.
  - destruct (first_byte s) as [c0|]; [|discriminate].
    destruct (flag && N.eqb c0 123); [discriminate|].
    res_step H. rename x into seg.
    destruct (negb (stype_eqb (styp seg) TString) && mem (sname seg) names); [discriminate|].
    res_step H. injection H as <-. cbn [map].
    now rewrite (new_segment_value _ _ _ E), (IH _ _ _ E0).
Qed.

Theorem split_concat : forall ic p segs, split ic p = Ok segs -> concat (map sval segs) = p.
Proof.
  intros ic p segs H. unfold split in H. destruct p as [|b p]; [discriminate|].
  rewrite (split_pieces_vals _ _ _ _ _ H). apply split_string_concat.
Qed.

(* ================================================================ handler lists *)

Definition hs_ok (uses : list bytes) (p r : bytes) (hs : list (bytes * hterm)) : Prop :=
  forall m h, In (m, h) hs -> term_ok uses m p r h.

Lemma In_aset : forall (V : Type) (l : list (bytes * V)) k0 v0 k v,
  In (k, v) (aset k0 v0 l) -> (k = k0 /\ v = v0) \/ In (k, v) l.
Proof.
  intros V l k0 v0 k v. induction l as [|[k1 v1] l IH]; simpl; intro H.
  - destruct H as [E|[]]. injection E as <- <-. now left.
  - destruct (beqb k0 k1).
    + destruct H as [E|H]; [injection E as <- <-; now left | right; now right].
    + destruct H as [E|H]; [right; now left|].
      destruct (IH H) as [E|Hin]; [now left | right; now right].
Qed.

Lemma In_adelete : forall (V : Type) (l : list (bytes * V)) k0 kv, In kv (adelete k0 l) -> In kv l.
Proof.
  intros V l k0 kv. induction l as [|[k1 v1] l IH]; simpl; intro H; [exact H|].
  destruct (beqb k0 k1); [right; now apply IH|].
  destruct H as [E|H]; [now left | right; now apply IH].
Qed.

Lemma hs_ok_aset : forall uses p r hs k v, hs_ok uses p r hs -> term_ok uses k p r v ->
  hs_ok uses p r (aset k v hs).
Proof.
  intros uses p r hs k v Hhs Hv m h Hin. apply In_aset in Hin.
  destruct Hin as [[-> ->]|Hin]; [exact Hv | now apply Hhs].
Qed.

Lemma hs_ok_adelete : forall uses p r hs k, hs_ok uses p r hs -> hs_ok uses p r (adelete k hs).
Proof. intros uses p r hs k Hhs m h Hin. apply Hhs. now apply In_adelete in Hin. Qed.

Lemma hs_ok_nil : forall uses p r, hs_ok uses p r [].
Proof. intros uses p r m h []. Qed.

(* what a registration installs: the core, the registration's middlewares, then [uses] *)
Lemma term_ok_reg : forall uses m p r core mws, is_core core = true ->
  term_ok uses m p r (apply_mw core m p r (mws ++ uses)).
Proof. intros uses m p r core mws Hc. exists core, mws. now split. Qed.

Lemma install_methods_ok : forall uses p r h mws ms hs, is_core h = true -> hs_ok uses p r hs ->
  hs_ok uses p r (install_methods h p r (mws ++ uses) ms hs).
Proof.
  intros uses p r h mws ms. induction ms as [|m ms IH]; intros hs Hc Hhs; cbn [install_methods]; [exact Hhs|].
  apply IH; [exact Hc|]. apply hs_ok_aset; [|now apply term_ok_reg].
  destruct (beqb m GET); [|exact Hhs]. apply hs_ok_aset; [exact Hhs | now apply term_ok_reg].
Qed.

Lemma remove_methods_ok : forall uses p r ms hs rm, hs_ok uses p r hs ->
  hs_ok uses p r (fst (remove_methods ms hs rm)).
Proof.
  intros uses p r ms. induction ms as [|m ms IH]; intros hs rm Hhs; cbn [remove_methods]; [exact Hhs|].
  destruct (is_auto m); [now apply IH|].
  assert (H1 : hs_ok uses p r (if beqb m GET then adelete HEAD hs else hs))
    by (destruct (beqb m GET); [now apply hs_ok_adelete | exact Hhs]).
  destruct (ahas m (if beqb m GET then adelete HEAD hs else hs)); apply IH; [|exact H1].
  now apply hs_ok_adelete.
Qed.

(* ================================================================ node facts *)

Lemma set_children_all : forall n c ix,
  npat (set_children n c ix) = npat n /\ nseg (set_children n c ix) = nseg n /\
  nchildren (set_children n c ix) = c /\ nhandlers (set_children n c ix) = nhandlers n.
Proof. intros [s p i h x c0] c ix. simpl. repeat split. Qed.
Lemma set_handlers_all : forall n h i,
  npat (set_handlers n h i) = npat n /\ nseg (set_handlers n h i) = nseg n /\
  nchildren (set_handlers n h i) = nchildren n /\ nhandlers (set_handlers n h i) = h.
Proof. intros [s p i0 h0 x c] h i. simpl. repeat split. Qed.
Lemma set_seg_all : forall n s,
  npat (set_seg n s) = npat n /\ nseg (set_seg n s) = s /\
  nchildren (set_seg n s) = nchildren n /\ nhandlers (set_seg n s) = nhandlers n.
Proof. intros [s0 p i h x c] s. simpl. repeat split. Qed.

Lemma all_nodes_conj : forall (P Q : node -> Prop) n, all_nodes P n -> all_nodes Q n ->
  all_nodes (fun x => P x /\ Q x) n.
Proof.
  intros P Q n HP. induction HP as [n Hn Hc IH]. intro HQ.
  constructor; [split; [exact Hn | now apply all_nodes_here]|].
  intros ch Ich. apply IH; [exact Ich | now apply (all_nodes_child _ n)].
Qed.

(* ================================================================ Part B : registration *)
Section Reach.
Variables (uses : list bytes) (r : bytes).

Definition T (n : node) : Prop := node_terms_ok uses r n.
Definition ninv (n : node) : Prop := pat_ok n /\ T n.

(* the result keeps the text of the node it replaces *)
Definition rkeeps (n n' : node) : Prop := all_nodes ninv n' /\ npat n' = npat n /\ nseg n' = nseg n.

Lemma T_same : forall n n', npat n' = npat n -> nhandlers n' = nhandlers n -> T n -> T n'.
Proof. intros n n' Hp Hh Hn. unfold T, node_terms_ok. rewrite Hp, Hh. exact Hn. Qed.

Lemma T_nil : forall n, nhandlers n = [] -> T n.
Proof. intros n Hh m h Hin. rewrite Hh in Hin. destruct Hin. Qed.

Lemma ninv_intro : forall n, T n ->
  (forall ch, In ch (nchildren n) -> npat ch = npat n ++ sval (nseg ch) /\ all_nodes ninv ch) ->
  all_nodes ninv n.
Proof.
  intros n HT H. constructor; [split; [|exact HT]; intros ch Hch; exact (proj1 (H ch Hch)) |
                               intros ch Hch; exact (proj2 (H ch Hch))].
Qed.

Lemma ninv_child : forall n ch, all_nodes ninv n -> In ch (nchildren n) ->
  npat ch = npat n ++ sval (nseg ch) /\ all_nodes ninv ch.
Proof.
  intros n ch H Hch.
  split; [exact (proj1 (all_nodes_here _ _ H) ch Hch) | exact (all_nodes_child _ _ _ H Hch)].
Qed.

Lemma ninv_T : forall n, all_nodes ninv n -> T n.
Proof. intros n H. exact (proj2 (all_nodes_here _ _ H)). Qed.

Lemma ninv_same_shape : forall n n', npat n' = npat n -> nchildren n' = nchildren n -> T n' ->
  all_nodes ninv n -> all_nodes ninv n'.
Proof.
  intros n n' Hp Hc HT H. apply ninv_intro; [exact HT|]. rewrite Hc, Hp.
  intros ch Hch. now apply ninv_child.
Qed.

Lemma set_children_rkeeps : forall n c ix, T n ->
  (forall x, In x c -> npat x = npat n ++ sval (nseg x) /\ all_nodes ninv x) ->
  rkeeps n (set_children n c ix).
Proof.
  intros n c ix HT H. destruct (set_children_all n c ix) as [Hp [Hs [Hc Hh]]].
  split; [|now split]. apply ninv_intro; [now apply (T_same n)|]. rewrite Hc, Hp. exact H.
Qed.

Lemma replace_child_rkeeps : forall n i ch ch' ix, all_nodes ninv n -> In ch (nchildren n) ->
  rkeeps ch ch' -> rkeeps n (set_children n (replace_nth i ch' (nchildren n)) ix).
Proof.
  intros n i ch ch' ix H Hch [Ha [Hp Hs]]. apply set_children_rkeeps; [now apply ninv_T|].
  intros x Hx. apply In_replace_nth in Hx. destruct Hx as [->|Hx]; [|now apply ninv_child].
  split; [|exact Ha]. rewrite Hp, Hs. exact (proj1 (ninv_child _ _ H Hch)).
Qed.

Lemma sort_node_rkeeps : forall n keyed n', sort_node n keyed = Ok n' -> T n ->
  (forall x, In x (map snd keyed) -> npat x = npat n ++ sval (nseg x) /\ all_nodes ninv x) ->
  rkeeps n n'.
Proof.
  intros n keyed n' H HT Hk. unfold sort_node in H. res_step H. injection H as <-.
  apply set_children_rkeeps; [exact HT|]. intros y Hy. apply Hk. now apply In_ssort.
Qed.

(* the continuation is only ever applied to a node whose pattern is [tp] *)
Definition kcond_at (tp : bytes) (k : node -> res node) : Prop :=
  forall ch ch', all_nodes ninv ch -> npat ch = tp -> k ch = Ok ch' -> rkeeps ch ch'.

Lemma firstn_eq_all : forall (l : bytes) L, (L <= length l)%nat -> (length l <= L)%nat -> firstn L l = l.
Proof. intros l L _ H. now apply firstn_all2. Qed.

Lemma add_segment_reach : forall fuel ic n seg k n', all_nodes ninv n ->
  kcond_at (npat n ++ sval seg) k -> add_segment fuel ic n seg k = Ok n' -> rkeeps n n'.
Proof.
  induction fuel as [|f IH]; intros ic n seg k n' Hn Hk H; [discriminate|].
  rewrite add_segment_S in H. cbv zeta in H.
  pose proof (ninv_T _ Hn) as Tn.
  (* after the first [l] bytes of the segment have been consumed *)
  assert (Hcont : forall l ch ch', all_nodes ninv ch -> npat ch = npat n ++ firstn l (sval seg) ->
            add_continue f ic seg l k ch = Ok ch' -> rkeeps ch ch').
  { intros l ch ch' Hch Hp Hc. unfold add_continue in Hc.
    destruct (Nat.eqb_spec (length (sval seg)) l) as [El|Nl].
    - apply (Hk _ _ Hch); [|exact Hc]. rewrite Hp. f_equal. apply firstn_all2. lia.
    - repeat res_step Hc. refine (IH _ _ _ _ _ Hch _ Hc).
      rewrite (new_segment_value _ _ _ E0). apply slice_or_panic_ok in E.
      rewrite (gslice_to_end _ _ _ E). rewrite Hp, <- app_assoc, firstn_skipn. exact Hk. }
  destruct (scan_sim seg (nchildren n) 0 None) as [[i|] best] eqn:SC.
  - (* identical child *)
    destruct (nth_error (nchildren n) i) as [ch|] eqn:NTH; [|discriminate].
    assert (Ich : In ch (nchildren n)) by (eapply nth_error_In; eassumption).
    destruct (scan_sim_some _ _ _ _ _ _ SC) as [ch0 [_ [N0 S0]]].
    rewrite Nat.sub_0_r, NTH in N0. injection N0 as <-.
    res_step H. injection H as <-.
    apply (replace_child_rkeeps n i ch); [exact Hn | exact Ich|].
    destruct (ninv_child _ _ Hn Ich) as [Pch Ach].
    apply Hk; [exact Ach | | exact E].
    rewrite Pch. f_equal. now apply similarity_same.
  - destruct best as [[i l]|].
    + (* a child shares a prefix *)
      destruct (nth_error (nchildren n) i) as [ch|] eqn:NTH; [|discriminate].
      assert (Ich : In ch (nchildren n)) by (eapply nth_error_In; eassumption).
      destruct (ninv_child _ _ Hn Ich) as [Pch Ach].
      assert (CP : cpre (Z.to_nat l) (sval (nseg ch)) (sval seg)).
      { destruct (scan_sim_best _ _ _ _ _ _ SC) as [E|[ch0 [_ [N0 S0]]]]; [discriminate E|].
        rewrite Nat.sub_0_r, NTH in N0. injection N0 as <-. rewrite <- S0. apply similarity_cpre. }
      destruct CP as [L1 [L2 L3]].
      destruct (Nat.leb_spec (length (sval (nseg ch))) (Z.to_nat l)) as [Hle|Hgt].
      * res_step H. injection H as <-.
        apply (replace_child_rkeeps n i ch); [exact Hn | exact Ich|].
        refine (Hcont (Z.to_nat l) _ _ Ach _ E).
        rewrite Pch. f_equal. rewrite <- L3. symmetry. now apply firstn_all2.
      * res_step H. destruct x as [s1 s2].
        pose proof (seg_split_first _ _ _ _ _ E) as V1.
        apply seg_split_value in E.
        res_step H. rename x into ret. res_step H. rename x into ret'.
        (* the new upper half with the old node below it *)
        assert (Hret : rkeeps (Node s1 (npat n ++ sval s1) 0 [] [] []) ret).
        { apply (sort_node_rkeeps _ _ _ E0); [now apply T_nil|].
          rewrite map_snd_with_prio. intros y [<-|[]].
          destruct (set_seg_all ch s2) as [Hp [Hs [Hc Hh]]]. rewrite Hp, Hs. cbn [npat].
          split; [rewrite Pch, <- E; now rewrite app_assoc|].
          apply (ninv_same_shape ch _ Hp Hc); [|exact Ach].
          apply (T_same ch); [exact Hp | exact Hh | now apply ninv_T]. }
        destruct Hret as [Aret [Pret Sret]]. cbn [npat nseg] in Pret, Sret.
        assert (Hk1 : rkeeps ret ret').
        { refine (Hcont (Z.to_nat l) _ _ Aret _ E1). rewrite Pret, V1. f_equal. exact L3. }
        destruct Hk1 as [Aret' [Pret' Sret']].
        apply (sort_node_rkeeps _ _ _ H); [exact Tn|].
        rewrite map_app, map_snd_with_prio. cbn [map snd].
        intros y Hy. apply in_app_or in Hy. destruct Hy as [Hy|[<-|[]]].
        -- apply In_remove_nth in Hy. now apply ninv_child.
        -- split; [|exact Aret']. now rewrite Pret', Sret', Pret, Sret.
    + (* a new child *)
      res_step H. rename x into nn'.
      assert (Hnn : all_nodes ninv (new_node n seg)).
      { apply ninv_intro; [now apply T_nil | intros ch []]. }
      assert (Hk1 : rkeeps (new_node n seg) nn') by (apply Hk; [exact Hnn | reflexivity | exact E]).
      destruct Hk1 as [Ann [Pnn Snn]]. cbn [new_node npat nseg] in Pnn, Snn.
      apply (sort_node_rkeeps _ _ _ H); [exact Tn|].
      rewrite map_app, map_snd_with_prio. cbn [map snd].
      intros y Hy. apply in_app_or in Hy. destruct Hy as [Hy|[<-|[]]].
      * now apply ninv_child.
      * split; [|exact Ann]. now rewrite Pnn, Snn.
Qed.

(* the node reached by [get_node] spells the concatenation of the segments *)
Lemma get_node_reach : forall fuel ic segs n upd n', all_nodes ninv n ->
  kcond_at (npat n ++ concat (map sval segs)) upd ->
  get_node fuel ic n segs upd = Ok n' -> rkeeps n n'.
Proof.
  intros fuel ic segs. induction segs as [|seg rest IH]; intros n upd n' Hn Hk H; [discriminate|].
  destruct rest as [|seg2 rest].
  - cbn [get_node] in H. apply (add_segment_reach _ _ _ _ _ _ Hn) in H; [exact H|].
    cbn [map concat] in Hk. now rewrite app_nil_r in Hk.
  - cbn [get_node] in H. refine (add_segment_reach _ _ _ _ _ _ Hn _ H).
    intros ch ch' Hch Hp Hc. refine (IH ch upd ch' Hch _ Hc).
    rewrite Hp, <- app_assoc. exact Hk.
Qed.

Lemma add_methods_kcond : forall trace h pattern mws ms, is_core h = true ->
  kcond_at pattern (add_methods trace r h pattern (mws ++ uses) ms).
Proof.
  intros trace h pattern mws ms Hc ch ch' Hch Hp H. unfold add_methods in H.
  res_step H. injection H as <-.
  match goal with |- rkeeps ch (set_handlers ch ?hs ?i) =>
    destruct (set_handlers_all ch hs i) as [P1 [S1 [C1 H1]]];
    assert (Hhs : hs_ok uses pattern r hs)
  end.
  { pose proof (ninv_T _ Hch) as Tch. unfold T, node_terms_ok in Tch. rewrite Hp in Tch.
    pose proof (install_methods_ok uses pattern r h mws ms (nhandlers ch) Hc Tch) as H0.
    set (hs1 := install_methods h pattern r (mws ++ uses) ms (nhandlers ch)) in *.
    assert (H2 : hs_ok uses pattern r
              (if ahas OPTIONS hs1 then hs1
               else aset OPTIONS (apply_mw HOptions OPTIONS pattern r (mws ++ uses)) hs1)).
    { destruct (ahas OPTIONS hs1); [exact H0|]. apply hs_ok_aset; [exact H0 | now apply term_ok_reg]. }
    destruct (ahas M405 _); [exact H2|]. apply hs_ok_aset; [exact H2 | now apply term_ok_reg]. }
  split; [|now split].
  apply (ninv_same_shape ch _ P1 C1); [|exact Hch].
  unfold T, node_terms_ok. rewrite P1, H1, Hp. exact Hhs.
Qed.

Lemma tree_add_terms : forall t p h mws ms t', is_core h = true -> tname t = r ->
  all_nodes pat_ok (troot t) -> npat (troot t) = [] -> all_nodes T (troot t) ->
  tree_add t p h (mws ++ uses) ms = Ok t' ->
  all_nodes T (troot t') /\ tname t' = tname t /\ tnotfound t' = tnotfound t /\ ttrace t' = ttrace t.
Proof.
  intros t p h mws ms t' Hc Hname Hpat Hroot HT H. unfold tree_add in H. cbv zeta in H.
  res_step H.
  assert (G : forall ms0,
    (do segs <- split (tic t) p;
     do _ <- check_methods (has_trace t)
               (match find (tree_fuel t + length p + 2) (troot t) p with Some n => nhandlers n | None => [] end) [] ms0;
     do root' <- get_node (tree_fuel t + length p + 2) (tic t) (troot t) segs
                   (add_methods (has_trace t) (tname t) h p (mws ++ uses) ms0);
     Ok (tree_build_methods t root' 1 ms0)) = Ok t' ->
    all_nodes T (troot t') /\ tname t' = tname t /\ tnotfound t' = tnotfound t /\ ttrace t' = ttrace t).
  { intros ms0 H0. repeat res_step H0. injection H0 as <-.
    rename x0 into segs. rename x2 into root'.
    assert (Hn : all_nodes ninv (troot t)) by (now apply all_nodes_conj).
    rewrite Hname in E2.
    apply (get_node_reach _ _ _ _ _ _ Hn) in E2.
    - destruct E2 as [Ha [Hp _]]. unfold tree_build_methods. cbn [troot tname tnotfound ttrace].
      split; [|now split].
      match goal with |- all_nodes T (set_handlers root' ?hs ?i) =>
        destruct (set_handlers_all root' hs i) as [P1 [S1 [C1 H1]]] end.
      apply (TreeText.all_nodes_impl ninv T); [intros m Hm; exact (proj2 Hm)|].
      apply (ninv_same_shape root' _ P1 C1); [|exact Ha].
      apply (T_same root'); [exact P1 | exact H1 | now apply ninv_T].
    - rewrite Hroot, (split_concat _ _ _ E0). cbn [app]. now apply add_methods_kcond. }
  destruct x as [[amb [|]]|]; [discriminate | exact (G _ H) | exact (G _ H)].
Qed.

End Reach.

(* ================================================================ Part C : Remove / Clean / Use *)
Section Keep.
Variables (uses : list bytes) (r : bytes).
Notation TT := (node_terms_ok uses r).

Lemma TT_same : forall n n', npat n' = npat n -> nhandlers n' = nhandlers n -> TT n -> TT n'.
Proof. exact (T_same uses r). Qed.

Lemma allT_set_children : forall n c ix, TT n -> (forall x, In x c -> all_nodes TT x) ->
  all_nodes TT (set_children n c ix).
Proof.
  intros n c ix Hn Hc. destruct (set_children_all n c ix) as [P1 [_ [C1 H1]]].
  constructor; [now apply (TT_same n) | now rewrite C1].
Qed.

Lemma allT_set_handlers : forall n hs i, all_nodes TT n -> hs_ok uses (npat n) r hs ->
  all_nodes TT (set_handlers n hs i).
Proof.
  intros n hs i Hn Hhs. destruct (set_handlers_all n hs i) as [P1 [_ [C1 H1]]].
  constructor.
  - unfold node_terms_ok. rewrite P1, H1. exact Hhs.
  - rewrite C1. intros ch Ich. now apply (all_nodes_child _ n).
Qed.

Lemma remove_at_node_T : forall trace ms n n' rm, all_nodes TT n ->
  remove_at_node trace ms n = (n', rm) -> all_nodes TT n'.
Proof.
  intros trace ms n n' rm Hn H. unfold remove_at_node in H.
  pose proof (all_nodes_here _ _ Hn) as Tn.
  destruct ms as [|m ms].
  - injection H as <- _. apply allT_set_handlers; [exact Hn | apply hs_ok_nil].
  - remember (m :: ms) as ms0 eqn:Ems. clear Ems.
    pose proof (remove_methods_ok uses (npat n) r ms0 (nhandlers n) [] Tn) as Hrm.
    destruct (remove_methods ms0 (nhandlers n) []) as [hs1 rm1]. cbn [fst] in Hrm.
    destruct (Nat.eqb (length hs1) 2 && ahas OPTIONS hs1 && ahas M405 hs1);
      injection H as <- _; (apply allT_set_handlers; [exact Hn|]); [apply hs_ok_nil | exact Hrm].
Qed.

Lemma remove_in_T : forall fuel trace ms n pattern n' rm, all_nodes TT n ->
  remove_in fuel trace ms n pattern = Ok (Some (n', rm)) -> all_nodes TT n'.
Proof.
  induction fuel as [|f IH]; intros trace ms n pattern n' rm Hn H; [discriminate|].
  rewrite remove_in_S in H.
  pose proof (all_nodes_here _ _ Hn) as Tn.
  assert (Hfin : forall i ch' removed, all_nodes TT ch' ->
            (if prunable ch' then
               do ix <- build_indexes (remove_nth i (nchildren n));
               Ok (Some (set_children n (remove_nth i (nchildren n)) ix, removed))
             else Ok (Some (set_children n (replace_nth i ch' (nchildren n)) (nindexes n), removed)))
            = Ok (Some (n', rm)) -> all_nodes TT n').
  { intros i ch' removed Hc Hf. destruct (prunable ch').
    - res_step Hf. injection Hf as <- _. apply allT_set_children; [exact Tn|]. intros y Hy.
      apply In_remove_nth in Hy. now apply (all_nodes_child _ n).
    - injection Hf as <- _. apply allT_set_children; [exact Tn|]. intros y Hy.
      apply In_replace_nth in Hy. destruct Hy as [->|Hy]; [exact Hc | now apply (all_nodes_child _ n)]. }
  assert (Hgo : forall c i, incl c (nchildren n) ->
            rm_go f trace ms n pattern c i = Ok (Some (n', rm)) -> all_nodes TT n').
  { induction c as [|ch c IHc]; intros i Hin Hg; [discriminate|].
    assert (Ich : In ch (nchildren n)) by (apply Hin; now left).
    assert (Hin' : incl c (nchildren n)) by (intros y Hy; apply Hin; now right).
    pose proof (all_nodes_child _ _ _ Hn Ich) as Ach.
    cbn [rm_go] in Hg. cbv zeta in Hg.
    destruct (beqb (sval (nseg ch)) pattern).
    - destruct (remove_at_node trace ms ch) as [ch' removed] eqn:RA.
      exact (Hfin i ch' removed (remove_at_node_T _ _ _ _ _ Ach RA) Hg).
    - destruct (has_prefix pattern (sval (nseg ch))); [|exact (IHc _ Hin' Hg)].
      res_step Hg. destruct x as [[ch' removed]|]; [|exact (IHc _ Hin' Hg)].
      exact (Hfin i ch' removed (IH _ _ _ _ _ _ Ach E) Hg). }
  exact (Hgo _ _ (incl_refl _) H).
Qed.

Lemma clean_in_T : forall fuel n prefix n', all_nodes TT n ->
  clean_in fuel n prefix = Ok n' -> all_nodes TT n'.
Proof.
  induction fuel as [|f IH]; intros n prefix n' Hn H; [discriminate|].
  rewrite clean_in_S in H.
  pose proof (all_nodes_here _ _ Hn) as Tn.
  assert (Hgo : forall c cs, incl c (nchildren n) -> cl_go f prefix c = Ok cs ->
            forall y, In y cs -> all_nodes TT y).
  { induction c as [|ch c IHc]; intros cs Hin Hg y Hy; [injection Hg as <-; destruct Hy|].
    assert (Ich : In ch (nchildren n)) by (apply Hin; now left).
    assert (Hin' : incl c (nchildren n)) by (intros z Hz; apply Hin; now right).
    pose proof (all_nodes_child _ _ _ Hn Ich) as Ach.
    cbn [cl_go] in Hg. cbv zeta in Hg. res_step Hg. rename x into ch'. res_step Hg. rename x into rest.
    assert (Hk : all_nodes TT ch').
    { destruct (Nat.ltb _ _ && has_prefix _ _); [exact (IH _ _ _ Ach E)|].
      injection E as <-. exact Ach. }
    destruct (has_prefix (sval (nseg ch)) prefix); injection Hg as <-.
    - exact (IHc _ Hin' eq_refl y Hy).
    - destruct Hy as [<-|Hy]; [exact Hk | exact (IHc _ Hin' eq_refl y Hy)]. }
  destruct prefix as [|b prefix].
  - injection H as <-. apply allT_set_children; [exact Tn | intros y []].
  - repeat res_step H. injection H as <-. apply allT_set_children; [exact Tn|].
    exact (Hgo _ _ (incl_refl _) E).
Qed.

(* one more Use: every stored term gets the new layers outside, the list of Use grows *)
Lemma term_ok_use : forall m p h mws, term_ok uses m p r h ->
  term_ok (uses ++ mws) m p r (apply_mw h m p r mws).
Proof.
  intros m p h mws [core [reg [Hc ->]]]. exists core, reg. split; [exact Hc|].
  now rewrite <- Onion.mw_app, <- app_assoc.
Qed.

Lemma apply_mw_node_T : forall fuel mws n, (height n <= fuel)%nat -> all_nodes TT n ->
  all_nodes (node_terms_ok (uses ++ mws) r) (apply_mw_node fuel r mws n).
Proof.
  induction fuel as [|f IH]; intros mws n Hh Hn; [rewrite height_eq in Hh; lia|].
  pose proof (all_nodes_here _ _ Hn) as Tn.
  assert (Hch : forall ch, In ch (nchildren n) -> (height ch <= f)%nat /\ all_nodes TT ch).
  { intros ch Ich. split; [apply height_child in Ich; lia | now apply (all_nodes_child _ n)]. }
  destruct n as [s p i h x c]. cbn [apply_mw_node]. constructor.
  - unfold node_terms_ok in *. cbn [nhandlers npat] in *. intros m h0 Hin.
    apply in_map_iff in Hin. destruct Hin as [[m1 h1] [E Hin]]. cbn [fst snd] in E.
    injection E as <- <-. apply term_ok_use. now apply Tn.
  - cbn [nchildren] in *. intros y Hy. apply in_map_iff in Hy. destruct Hy as [ch [<- Ich]].
    destruct (Hch ch Ich) as [H1 H2]. now apply IH.
Qed.

End Keep.

(* ================================================================ Part D : routers *)

Lemma router_ok_all : forall rt,
  router_ok rt <->
  (all_nodes (node_terms_ok (rms rt) (tname (rtree rt))) (troot (rtree rt)) /\
   tnotfound (rtree rt) = apply_mw HNotFound [] [] (tname (rtree rt)) (rms rt) /\
   (forall h, ttrace (rtree rt) = Some h -> h = apply_mw HTrace TRACE [] (tname (rtree rt)) (rms rt))).
Proof.
  intro rt. unfold router_ok. split.
  - intros [Hc [Hr [H1 H2]]]. split; [now constructor | now split].
  - intros [Ha [H1 H2]]. split; [intros ch Ich; now apply (all_nodes_child _ _ _ Ha)|].
    split; [now apply all_nodes_here | now split].
Qed.

Lemma build_methods_T : forall uses r t root num ms, all_nodes (node_terms_ok uses r) root ->
  all_nodes (node_terms_ok uses r) (troot (tree_build_methods t root num ms)).
Proof.
  intros uses r t root num ms Ha. unfold tree_build_methods. cbn [troot].
  apply allT_set_handlers; [exact Ha | exact (all_nodes_here _ _ Ha)].
Qed.

Lemma build_methods_fields : forall t root num ms,
  tname (tree_build_methods t root num ms) = tname t /\
  tnotfound (tree_build_methods t root num ms) = tnotfound t /\
  ttrace (tree_build_methods t root num ms) = ttrace t.
Proof. intros t root num ms. unfold tree_build_methods. cbn [tname tnotfound ttrace]. now split. Qed.

Theorem router_new_ok : forall name ic trace domain, router_ok (new_router name ic trace domain).
Proof.
  intros name ic trace domain. apply router_ok_all. unfold new_router. cbn [rtree rms].
  split; [|split].
  - unfold new_tree. apply build_methods_T. constructor; [|intros ch []].
    unfold node_terms_ok. cbn [nhandlers npat]. intros m h Hin.
    destruct Hin as [E|[E|[]]]; injection E as <- <-.
    + exists HOptions, []. now split.
    + exists HNotAllowed, []. now split.
  - reflexivity.
  - unfold new_tree, tree_build_methods. cbn [ttrace tname]. intros h Hh.
    destruct trace; [injection Hh as <-; reflexivity | discriminate Hh].
Qed.

(* registration needs the pattern invariant of the tree it extends *)
Theorem router_handle_ok : forall rt p h mws ms rt', is_core h = true -> router_ok rt ->
  tree_pat_ok (rtree rt) -> r_handle rt p h mws ms = Ok rt' -> router_ok rt'.
Proof.
  intros rt p h mws ms rt' Hc Hok [Hpat Hroot] H. apply router_ok_all in Hok.
  destruct Hok as [Ha [H1 H2]]. unfold r_handle in H. res_step H. injection H as <-.
  rename x into t'.
  destruct (tree_add_terms (rms rt) (tname (rtree rt)) _ _ _ _ _ _ Hc eq_refl Hpat Hroot Ha E)
    as [Ha' [En [Enf Etr]]].
  apply router_ok_all. unfold with_tree. cbn [rtree rms]. rewrite En, Enf, Etr.
  split; [exact Ha' | now split].
Qed.

Theorem router_remove_ok : forall rt p ms rt', router_ok rt -> r_remove rt p ms = Ok rt' -> router_ok rt'.
Proof.
  intros rt p ms rt' Hok H. apply router_ok_all in Hok. destruct Hok as [Ha [H1 H2]].
  unfold r_remove in H. res_step H. injection H as <-. rename x into t'.
  unfold tree_remove in E. res_step E.
  destruct x as [[root' removed]|]; injection E as <-;
    apply router_ok_all; unfold with_tree; cbn [rtree rms].
  - destruct (build_methods_fields (rtree rt) root' (-1) (user_methods removed)) as [F1 [F2 F3]].
    rewrite F1, F2, F3. split; [|now split].
    apply build_methods_T. exact (remove_in_T _ _ _ _ _ _ _ _ _ Ha E0).
  - split; [exact Ha | now split].
Qed.

Theorem router_clean_ok : forall rt prefix rt', router_ok rt -> r_clean rt prefix = Ok rt' -> router_ok rt'.
Proof.
  intros rt prefix rt' Hok H. apply router_ok_all in Hok. destruct Hok as [Ha [H1 H2]].
  unfold r_clean in H. res_step H. injection H as <-. rename x into t'.
  unfold tree_clean in E. res_step E. injection E as <-. rename x into root'.
  apply router_ok_all. unfold with_tree. cbn [rtree rms].
  match goal with |- context [tree_build_methods ?t0 root' 0 []] =>
    destruct (build_methods_fields t0 root' 0 []) as [F1 [F2 F3]] end.
  rewrite F1, F2, F3. cbn [tname tnotfound ttrace]. split; [|now split].
  apply build_methods_T. exact (clean_in_T _ _ _ _ _ _ Ha E0).
Qed.

Theorem router_use_ok : forall rt mws, router_ok rt -> router_ok (r_use rt mws).
Proof.
  intros rt mws Hok. apply router_ok_all in Hok. destruct Hok as [Ha [H1 H2]].
  apply router_ok_all. unfold r_use, tree_apply_mw. cbn [rtree rms troot tname tnotfound ttrace].
  split; [|split].
  - apply apply_mw_node_T; [unfold tree_fuel; lia | exact Ha].
  - rewrite H1. symmetry. apply Onion.mw_app.
  - intros h Hh. destruct (ttrace (rtree rt)) as [h0|]; [|discriminate Hh].
    cbn [option_map] in Hh. injection Hh as <-. rewrite (H2 h0 eq_refl). symmetry. apply Onion.mw_app.
Qed.

(* ---------------------------------------------------------------- histories *)
Definition router_inv (rt : router) : Prop := router_ok rt /\ tree_pat_ok (rtree rt).

Lemma router_inv_new : forall name ic trace domain, router_inv (new_router name ic trace domain).
Proof.
  intros name ic trace domain. split; [apply router_new_ok|].
  unfold new_router. cbn [rtree]. apply pat_new_tree.
Qed.

Lemma rstep_inv : forall rt op, router_inv rt -> router_inv (rstep rt op).
Proof.
  intros rt op [Hok Hpat]. destruct op as [p id mws ms|p ms|prefix|mws]; cbn [rstep].
  - destruct (r_handle rt p (HUser id) mws ms) as [rt'| | |] eqn:E; cbn [rkeep]; try (now split).
    split; [exact (router_handle_ok rt p (HUser id) mws ms rt' eq_refl Hok Hpat E)|].
    unfold r_handle in E. res_step E. injection E as <-. cbn [with_tree rtree].
    exact (pat_add _ _ _ _ _ _ Hpat E0).
  - destruct (r_remove rt p ms) as [rt'| | |] eqn:E; cbn [rkeep]; try (now split).
    split; [exact (router_remove_ok _ _ _ _ Hok E)|].
    unfold r_remove in E. res_step E. injection E as <-. cbn [with_tree rtree].
    exact (pat_remove _ _ _ _ Hpat E0).
  - destruct (r_clean rt prefix) as [rt'| | |] eqn:E; cbn [rkeep]; try (now split).
    split; [exact (router_clean_ok _ _ _ Hok E)|].
    unfold r_clean in E. res_step E. injection E as <-. cbn [with_tree rtree].
    exact (pat_clean _ _ _ Hpat E0).
  - split; [now apply router_use_ok|]. unfold r_use. cbn [rtree]. now apply pat_use.
Qed.

Lemma router_inv_fold : forall hist rt, router_inv rt -> router_inv (fold_left rstep hist rt).
Proof.
  induction hist as [|op hist IH]; intros rt Hrt; [exact Hrt|].
  cbn [fold_left]. apply IH. now apply rstep_inv.
Qed.

Theorem router_reachable_ok : forall name ic trace domain hist,
  router_ok (fold_left rstep hist (new_router name ic trace domain)).
Proof.
  intros name ic trace domain hist. exact (proj1 (router_inv_fold hist _ (router_inv_new name ic trace domain))).
Qed.

Theorem router_reachable_pat : forall name ic trace domain hist,
  tree_pat_ok (rtree (fold_left rstep hist (new_router name ic trace domain))).
Proof.
  intros name ic trace domain hist. exact (proj2 (router_inv_fold hist _ (router_inv_new name ic trace domain))).
Qed.

Theorem notfound_trace_only_use : forall name ic trace domain hist,
  let rt := fold_left rstep hist (new_router name ic trace domain) in
  tnotfound (rtree rt) = apply_mw HNotFound [] [] (tname (rtree rt)) (rms rt) /\
  (forall h, ttrace (rtree rt) = Some h -> h = apply_mw HTrace TRACE [] (tname (rtree rt)) (rms rt)).
Proof.
  intros name ic trace domain hist rt.
  destruct (router_reachable_ok name ic trace domain hist) as [_ [_ [H1 H2]]]. now split.
Qed.

(* ---------------------------------------------------------------- what [term_ok] says *)
Lemma all_args_apply : forall m p r l inner, all_args_of m p r inner ->
  all_args_of m p r (apply_mw inner m p r l).
Proof.
  intros m p r l. induction l as [|x l IH]; intros inner Hi; cbn [apply_mw]; [exact Hi|].
  apply IH. cbn [all_args_of]. now repeat split.
Qed.

Lemma all_args_core : forall m p r core, is_core core = true -> all_args_of m p r core.
Proof. intros m p r core H. destruct core; try exact I. discriminate H. Qed.

Theorem layers_carry_arguments : forall uses m p r h, term_ok uses m p r h -> all_args_of m p r h.
Proof.
  intros uses m p r h [core [reg [Hc ->]]]. apply all_args_apply. now apply all_args_core.
Qed.

Theorem use_outermost : forall uses m p r h, term_ok uses m p r h ->
  exists inner, h = apply_mw inner m p r uses.
Proof.
  intros uses m p r h [core [reg [Hc ->]]]. exists (apply_mw core m p r reg). apply Onion.mw_app.
Qed.

(* ---------------------------------------------------------------- the pattern invariant is needed *)
(* a tree whose only child is labelled "/a" but claims the pattern "/zzz": [router_ok] holds
   (nothing is registered there), yet registering "/a" stores terms built for "/a" at a node
   whose pattern is "/zzz" *)
Definition bad_rt : router :=
  {| rtree := {| troot := Node (string_seg []) [] 0 [(OPTIONS, HOptions); (M405, HNotAllowed)] []
                            [Node (string_seg (bs "/a")) (bs "/zzz") 0 [] [] []];
                 tcounts := []; tname := bs "main"; tnotfound := HNotFound; ttrace := None; tic := [] |};
     rms := []; rdomain := [] |}.

Lemma bad_rt_ok : router_ok bad_rt.
Proof.
  unfold router_ok, bad_rt. cbn [rtree rms troot tname tnotfound ttrace nchildren].
  split; [|split; [|split]].
  - intros ch [<-|[]]. constructor; [intros m h [] | intros ch []].
  - unfold node_terms_ok. cbn [nhandlers npat]. intros m h Hin.
    destruct Hin as [E|[E|[]]]; injection E as <- <-.
    + exists HOptions, []. now split.
    + exists HNotAllowed, []. now split.
  - reflexivity.
  - intros h Hh. discriminate Hh.
Qed.

Theorem router_handle_needs_pat :
  ~ (forall rt p h mws ms rt', is_core h = true -> router_ok rt ->
       r_handle rt p h mws ms = Ok rt' -> router_ok rt').
Proof.
  intro H.
  destruct (r_handle bad_rt (bs "/a") (HUser (bs "h")) [bs "r1"] [GET]) as [rt'| | |] eqn:E;
    try (vm_compute in E; discriminate E).
  specialize (H bad_rt (bs "/a") (HUser (bs "h")) [bs "r1"] [GET] rt' eq_refl bad_rt_ok E). vm_compute in E. injection E as <-.
  destruct H as [Hc _]. cbn [rtree troot nchildren] in Hc.
  specialize (Hc _ (or_introl eq_refl)). apply all_nodes_here in Hc.
  unfold node_terms_ok in Hc. cbn [nhandlers npat rms tname rtree] in Hc.
  specialize (Hc _ _ (or_introl eq_refl)).
  apply layers_carry_arguments in Hc. cbn [all_args_of] in Hc.
  destruct Hc as [_ [Hp _]]. discriminate Hp.
Qed.

(* ================================================================ examples *)
Definition ex_ops : list rop :=
  [ RUse [bs "u0"];
    RHandle (bs "/a/{id}") (bs "h1") [bs "r1"] [GET];
    RUse [bs "u1"] ].
Definition ex_rt : router := fold_left rstep ex_ops (new_router (bs "main") [] false []).

(* Use before and after the registration: both outside the registration's own middleware *)
Example ex_onion_get :
  match tree_handler (rtree ex_rt) GET (bs "/a/5") [] with
  | HFound true (Some n) h ps =>
    npat n = bs "/a/{id}" /\ ps = [(bs "id", bs "5")] /\
    h = HWrap (bs "u1") GET (bs "/a/{id}") (bs "main")
          (HWrap (bs "u0") GET (bs "/a/{id}") (bs "main")
             (HWrap (bs "r1") GET (bs "/a/{id}") (bs "main") (HUser (bs "h1"))))
  | _ => False
  end.
Proof. vm_compute. repeat split. Qed.

(* the automatic HEAD handler carries HEAD, the 404 handler carries only the Use layers *)
Example ex_onion_head_404 :
  (match tree_handler (rtree ex_rt) HEAD (bs "/a/5") [] with
   | HFound true (Some _) h _ =>
     h = HWrap (bs "u1") HEAD (bs "/a/{id}") (bs "main")
           (HWrap (bs "u0") HEAD (bs "/a/{id}") (bs "main")
              (HWrap (bs "r1") HEAD (bs "/a/{id}") (bs "main") (HUser (bs "h1"))))
   | _ => False
   end) /\
  (match tree_handler (rtree ex_rt) GET (bs "/zzz") [] with
   | HFound false None h _ =>
     h = HWrap (bs "u1") [] [] (bs "main") (HWrap (bs "u0") [] [] (bs "main") HNotFound)
   | _ => False
   end).
Proof. vm_compute. split; reflexivity. Qed.

(* the hypotheses of [router_handle_ok] on a concrete router, and a registration it accepts *)
Example ex_hyps : router_ok ex_rt /\ tree_pat_ok (rtree ex_rt) /\
  (match r_handle ex_rt (bs "/a/{id}/b") (HUser (bs "h2")) [bs "r2"] [POST] with Ok _ => True | _ => False end).
Proof.
  split; [exact (router_reachable_ok (bs "main") [] false [] ex_ops)|].
  split; [exact (router_reachable_pat (bs "main") [] false [] ex_ops)|].
  vm_compute. exact I.
Qed.
