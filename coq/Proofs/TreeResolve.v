(* C02 "every path resolves exactly as the documented procedure prescribes": the radix tree against
   the tree-free resolver [outcomes] / [resolve] of Spec/Resolve.v.
   Part 1 (this file): the resolver alone (fuel, unfolding), the abstraction [bel] of a subtree as
   a list of residual token lists, and the node-level simulation under explicit invariants.
   Part 2 (Proofs/TreeResolve2.v): the invariants on add-only histories and the top-level theorem. *)
From Coq Require Import String Permutation.
From Mux Require Import Model.Bytes Model.Regex Model.Context Model.Syntax Model.Tree Spec.Table Spec.Resolve
  Proofs.BytesFacts Proofs.MatchSound Proofs.TreeSafe Proofs.TreeOrder Proofs.MatchOrder.
From Mux Require Proofs.TreeText Proofs.TreeNames Proofs.TokensSplit Proofs.TreeFind Proofs.TreeLit
  Proofs.TreeGone Proofs.TreeFrame.

Local Open Scope nat_scope.

Notation NB := TokensSplit.NB.
Notation isparam := TreeNames.isparam.
Notation nbseg := TreeLit.nbseg.

(* ================================================================ Part 1 : the resolver, unfolded *)

Definition lit_step_R (b : N) (R : list resid) : list resid :=
  map (fun r => {| rts := strip_lit 1 (rts r); rroute := rroute r |})
      (filter (fun r => opt_N_eqb (head_lit_byte (rts r)) (Some b)) R).

Definition lcp_all (lits : list bytes) : bytes :=
  match lits with l :: ls => fold_left lcp ls l | [] => [] end.

Definition group_S (g : list resid) : bytes := lcp_all (map (fun r => head_lit (tl (rts r))) g).

Definition group_R (g : list resid) : list resid :=
  map (fun r => {| rts := strip_lit (length (group_S g)) (tl (rts r)); rroute := rroute r |}) g.

Definition group_out (f : nat) (ic : icpts) (R : list resid) (path : bytes) (ps : params) (key : pkey)
  : list (bytes * params) :=
  let '(ign, name, rule, nb) := key in
  let g := filter (has_key key) R in
  let acc := kind_of ic rule in
  match nb with
  | None => if accepts acc path then map (fun r => (rroute r, with_param ps ign name path)) g else []
  | Some _ =>
    match shortest_split acc (group_S g) [] path with
    | None => []
    | Some (v, rest) => outcomes f ic (group_R g) rest (with_param ps ign name v)
    end
  end.

Definition kind_out (f : nat) (ic : icpts) (R : list resid) (path : bytes) (ps : params) (k : nat) :=
  flat_map (group_out f ic R path ps) (keys_of_rank ic k R []).

Definition end_out (R : list resid) (path : bytes) (ps : params) : list (bytes * params) :=
  match path with
  | [] => map (fun r => (rroute r, ps)) (filter (fun r => match rts r with [] => true | _ => false end) R)
  | _ => []
  end.

Definition first_ne {A} (a b c : list A) : list A :=
  match a with
  | (_ :: _) as o => o
  | [] => match b with (_ :: _) as o => o | [] => c end
  end.

Definition lit_out (f : nat) (ic : icpts) (R : list resid) (path : bytes) (ps : params) :=
  match path with
  | b :: path' => match lit_step_R b R with [] => [] | _ => outcomes f ic (lit_step_R b R) path' ps end
  | [] => []
  end.

Lemma outcomes_S : forall f ic R path ps,
  outcomes (S f) ic R path ps =
  match lit_out f ic R path ps with
  | _ :: _ => lit_out f ic R path ps
  | [] => first_ne (kind_out f ic R path ps 1) (kind_out f ic R path ps 2) (kind_out f ic R path ps 3)
          ++ end_out R path ps
  end.
Proof.
  intros f ic R path ps. cbn [outcomes]. unfold lit_out, first_ne, kind_out, end_out, group_out, group_R, group_S,
    lcp_all, lit_step_R.
  assert (FN : forall (A : Type) (a b c : list A),
            match a with p :: l => p :: l | [] => match b with p :: l => p :: l | [] => c end end =
            first_ne a b c).
  { intros A a b0 c. destruct a; [destruct b0|]; reflexivity. }
  unfold first_ne in FN.
  destruct path as [|b path'].
  - f_equal. apply FN.
  - match goal with |- match ?x with _ => _ end = match ?y with _ => _ end => change x with y end.
    match goal with |- match ?x with _ => _ end = _ => destruct x end; [|reflexivity].
    f_equal. apply FN.
Qed.

Lemma keys_of_rank_nil : forall ic k seen, keys_of_rank ic k [] seen = rev seen.
Proof. reflexivity. Qed.

Lemma outcomes_nil : forall f ic path ps, outcomes f ic [] path ps = [].
Proof.
  intros f ic path ps. destruct f as [|f]; [reflexivity|]. rewrite outcomes_S.
  unfold lit_out, kind_out, end_out, lit_step_R. cbn [filter map keys_of_rank rev flat_map first_ne app].
  destruct path; reflexivity.
Qed.

Lemma lit_out_eq : forall f ic R path ps,
  lit_out f ic R path ps =
  match path with b :: path' => outcomes f ic (lit_step_R b R) path' ps | [] => [] end.
Proof.
  intros f ic R path ps. unfold lit_out. destruct path as [|b p]; [reflexivity|].
  destruct (lit_step_R b R) eqn:E; [now rewrite outcomes_nil | reflexivity].
Qed.

(* ---------------------------------------------------------------- fuel *)
Definition maxlen (R : list resid) : nat := fold_right (fun r a => Nat.max (toks_len (rts r)) a) O R.
Definition need (R : list resid) (path : bytes) : nat := S (maxlen R + length path).

Lemma maxlen_bound : forall R m, (forall r, In r R -> toks_len (rts r) <= m) -> maxlen R <= m.
Proof.
  induction R as [|r R IH]; intros m H; cbn [maxlen fold_right]; [lia|].
  fold (maxlen R). pose proof (H r (or_introl eq_refl)). pose proof (IH m (fun x Ix => H x (or_intror Ix))). lia.
Qed.

Lemma maxlen_In : forall R r, In r R -> toks_len (rts r) <= maxlen R.
Proof.
  induction R as [|x R IH]; intros r I; [destruct I|].
  cbn [maxlen fold_right]; fold (maxlen R). destruct I as [<-|I]; [lia|].
  pose proof (IH r I). lia.
Qed.

Lemma toks_len_strip : forall n ts, toks_len (strip_lit n ts) <= toks_len ts.
Proof.
  intros n ts. destruct ts as [|t ts']; [cbn; lia|]. destruct t as [l|i nm ru]; [|cbn; lia].
  cbn [strip_lit].
  assert (L : length (skipn n l) <= length l) by (rewrite skipn_length; lia).
  destruct (skipn n l) as [|c l']; cbn [toks_len length] in *; lia.
Qed.

Lemma toks_len_strip1 : forall b ts, opt_N_eqb (head_lit_byte ts) (Some b) = true ->
  S (toks_len (strip_lit 1 ts)) <= toks_len ts.
Proof.
  intros b ts H. destruct ts as [|t ts']; [discriminate H|]. destruct t as [l|i nm ru]; [|discriminate H].
  destruct l as [|c l]; [discriminate H|]. cbn [strip_lit skipn]. destruct l as [|c' l]; cbn [toks_len length]; lia.
Qed.

Lemma maxlen_lit_step : forall b R, lit_step_R b R <> [] -> S (maxlen (lit_step_R b R)) <= maxlen R.
Proof.
  intros b R Hne.
  assert (H : forall r', In r' (lit_step_R b R) -> S (toks_len (rts r')) <= maxlen R).
  { intros r' I. unfold lit_step_R in I. apply in_map_iff in I. destruct I as [r [<- I]].
    apply filter_In in I. destruct I as [I Hb]. cbn [rts].
    pose proof (toks_len_strip1 b _ Hb). pose proof (maxlen_In R r I). lia. }
  destruct (lit_step_R b R) as [|r0 R0] eqn:E; [congruence|].
  pose proof (H r0 (or_introl eq_refl)) as H0.
  assert (maxlen (r0 :: R0) <= maxlen R - 1).
  { apply maxlen_bound. intros r I. specialize (H r I). lia. }
  lia.
Qed.

Lemma has_key_par : forall key r, has_key key r = true -> exists i nm ru rest, rts r = TPar i nm ru :: rest.
Proof.
  intros key r H. unfold has_key, par_key in H. destruct (rts r) as [|[l|i nm ru] rest]; try discriminate H.
  now exists i, nm, ru, rest.
Qed.

Lemma maxlen_group : forall key R, filter (has_key key) R <> [] ->
  S (maxlen (group_R (filter (has_key key) R))) <= maxlen R.
Proof.
  intros key R Hne. set (g := filter (has_key key) R) in *.
  assert (H : forall r', In r' (group_R g) -> S (toks_len (rts r')) <= maxlen R).
  { intros r' I. unfold group_R in I. apply in_map_iff in I. destruct I as [r [<- I]].
    unfold g in I. apply filter_In in I. destruct I as [I Hk]. cbn [rts].
    destruct (has_key_par _ _ Hk) as [i [nm [ru [rest E]]]]. rewrite E. cbn [tl].
    pose proof (toks_len_strip (length (group_S g)) rest). pose proof (maxlen_In R r I) as M.
    rewrite E in M. cbn [toks_len] in M. lia. }
  destruct (group_R g) as [|r0 R0] eqn:E.
  { unfold group_R in E. apply map_eq_nil in E. congruence. }
  pose proof (H r0 (or_introl eq_refl)) as H0.
  assert (maxlen (r0 :: R0) <= maxlen R - 1).
  { apply maxlen_bound. intros r I. specialize (H r I). lia. }
  lia.
Qed.

Lemma shortest_split_len : forall acc S pre s v rest, shortest_split acc S pre s = Some (v, rest) ->
  length rest <= length s.
Proof.
  intros acc S pre s. revert pre. induction s as [|c s IH]; intros pre v rest H; cbn [shortest_split] in H.
  - destruct (has_prefix [] S && accepts acc (rev pre)); [|discriminate H]. injection H as _ <-.
    rewrite skipn_length. cbn. lia.
  - destruct (has_prefix (c :: s) S && accepts acc (rev pre)).
    + injection H as _ <-. rewrite skipn_length. lia.
    + specialize (IH _ _ _ H). cbn [length]. lia.
Qed.

Lemma flat_map_ext_in : forall (A B : Type) (f g : A -> list B) l, (forall x, In x l -> f x = g x) ->
  flat_map f l = flat_map g l.
Proof.
  intros A B f g l H. induction l as [|x l IH]; [reflexivity|]. cbn [flat_map].
  rewrite (H x (or_introl eq_refl)), IH; [reflexivity|]. intros y Iy. apply H. now right.
Qed.

(* any fuel above [need] gives the same answers *)
Lemma outcomes_fuel : forall F1 F2 ic R path ps, need R path <= F1 -> need R path <= F2 ->
  outcomes F1 ic R path ps = outcomes F2 ic R path ps.
Proof.
  induction F1 as [|F1 IH]; intros F2 ic R path ps H1 H2; [unfold need in H1; lia|].
  destruct F2 as [|F2]; [unfold need in H2; lia|].
  rewrite !outcomes_S.
  assert (EL : lit_out F1 ic R path ps = lit_out F2 ic R path ps).
  { rewrite !lit_out_eq. destruct path as [|b p]; [reflexivity|].
    destruct (lit_step_R b R) as [|r0 R0] eqn:E; [now rewrite !outcomes_nil|].
    assert (M : S (maxlen (lit_step_R b R)) <= maxlen R) by (apply maxlen_lit_step; rewrite E; discriminate).
    rewrite E in M. unfold need in *. cbn [length] in *. apply IH; unfold need; lia. }
  assert (EG : forall key, group_out F1 ic R path ps key = group_out F2 ic R path ps key).
  { intros [[[ign name] rule] nb]. unfold group_out. destruct nb as [b|]; [|reflexivity].
    set (g := filter (has_key (ign, name, rule, Some b)) R).
    destruct (shortest_split (kind_of ic rule) (group_S g) [] path) as [[v rest]|] eqn:SS; [|reflexivity].
    destruct g as [|r0 g0] eqn:Eg; [unfold group_R; cbn [map]; now rewrite !outcomes_nil|].
    assert (M : S (maxlen (group_R g)) <= maxlen R) by (apply maxlen_group; fold g; rewrite Eg; discriminate).
    rewrite Eg in M. pose proof (shortest_split_len _ _ _ _ _ _ SS) as L.
    unfold need in *. apply IH; unfold need; lia. }
  assert (EK : forall k, kind_out F1 ic R path ps k = kind_out F2 ic R path ps k).
  { intro k. unfold kind_out. apply flat_map_ext_in. intros key _. apply EG. }
  rewrite EL, !EK. reflexivity.
Qed.

(* the canonical fuel *)
Definition out (ic : icpts) (R : list resid) (path : bytes) (ps : params) : list (bytes * params) :=
  outcomes (need R path) ic R path ps.

Lemma outcomes_out : forall F ic R path ps, need R path <= F -> outcomes F ic R path ps = out ic R path ps.
Proof. intros F ic R path ps H. unfold out. apply outcomes_fuel; [exact H | lia]. Qed.

Lemma out_nil : forall ic path ps, out ic [] path ps = [].
Proof. intros. unfold out. apply outcomes_nil. Qed.

Definition gout (ic : icpts) (R : list resid) (path : bytes) (ps : params) (key : pkey) : list (bytes * params) :=
  let '(ign, name, rule, nb) := key in
  let g := filter (has_key key) R in
  let acc := kind_of ic rule in
  match nb with
  | None => if accepts acc path then map (fun r => (rroute r, with_param ps ign name path)) g else []
  | Some _ =>
    match shortest_split acc (group_S g) [] path with
    | None => []
    | Some (v, rest) => out ic (group_R g) rest (with_param ps ign name v)
    end
  end.

Definition kout (ic : icpts) (R : list resid) (path : bytes) (ps : params) (k : nat) :=
  flat_map (gout ic R path ps) (keys_of_rank ic k R []).

Definition lout (ic : icpts) (R : list resid) (path : bytes) (ps : params) :=
  match path with b :: path' => out ic (lit_step_R b R) path' ps | [] => [] end.

(* the resolver without fuel *)
Lemma out_eq : forall ic R path ps,
  out ic R path ps =
  match lout ic R path ps with
  | _ :: _ => lout ic R path ps
  | [] => first_ne (kout ic R path ps 1) (kout ic R path ps 2) (kout ic R path ps 3) ++ end_out R path ps
  end.
Proof.
  intros ic R path ps. unfold out at 1. unfold need at 1. rewrite outcomes_S.
  set (F := maxlen R + length path).
  assert (EL : lit_out F ic R path ps = lout ic R path ps).
  { rewrite lit_out_eq. unfold lout. destruct path as [|b p]; [reflexivity|].
    destruct (lit_step_R b R) as [|r0 R0] eqn:E; [now rewrite outcomes_nil, out_nil|].
    assert (M : S (maxlen (lit_step_R b R)) <= maxlen R) by (apply maxlen_lit_step; rewrite E; discriminate).
    rewrite E in M. apply outcomes_out. unfold need, F. cbn [length]. lia. }
  assert (EG : forall key, group_out F ic R path ps key = gout ic R path ps key).
  { intros [[[ign name] rule] nb]. unfold group_out, gout. destruct nb as [b|]; [|reflexivity].
    set (g := filter (has_key (ign, name, rule, Some b)) R).
    destruct (shortest_split (kind_of ic rule) (group_S g) [] path) as [[v rest]|] eqn:SS; [|reflexivity].
    destruct g as [|r0 g0] eqn:Eg; [unfold group_R; cbn [map]; now rewrite outcomes_nil, out_nil|].
    assert (M : S (maxlen (group_R g)) <= maxlen R) by (apply maxlen_group; fold g; rewrite Eg; discriminate).
    rewrite Eg in M. pose proof (shortest_split_len _ _ _ _ _ _ SS) as L.
    apply outcomes_out. unfold need, F. lia. }
  assert (EK : forall k, kind_out F ic R path ps k = kout ic R path ps k).
  { intro k. unfold kind_out, kout. apply flat_map_ext_in. intros key _. apply EG. }
  rewrite EL, !EK. reflexivity.
Qed.

Lemma resolve_out : forall ic t path, resolve ic t path = out ic (residuals ic t) path [].
Proof. intros ic t path. reflexivity. Qed.

(* ================================================================ Part 2 : a subtree as residuals *)

(* literal text in front of a token list *)
Definition lit_cons (l : bytes) (ts : list tok) : list tok :=
  match l with
  | [] => ts
  | _ => match ts with TLit l' :: ts' => TLit (l ++ l') :: ts' | _ => TLit l :: ts end
  end.

(* the tokens of a label in front of a token list *)
Definition seg_toks (s : segment) (ts : list tok) : list tok :=
  if isparam s then TPar (signore s) (sname s) (srule s) :: lit_cons (ssuffix s) ts
  else lit_cons (sval s) ts.

Definition wrap (s : segment) (r : resid) : resid := {| rts := seg_toks s (rts r); rroute := rroute r |}.
Definition wrapl (l : bytes) (r : resid) : resid := {| rts := lit_cons l (rts r); rroute := rroute r |}.

Definition self_res (n : node) : list resid :=
  match nhandlers n with [] => [] | _ => [{| rts := []; rroute := npat n |}] end.

Fixpoint below (fuel : nat) (n : node) : list resid :=
  match fuel with
  | O => []
  | S f => self_res n ++ flat_map (fun c => map (wrap (nseg c)) (below f c)) (nchildren n)
  end.

Definition bel (n : node) : list resid := below (height n) n.
Definition blk (c : node) : list resid := map (wrap (nseg c)) (bel c).

Lemma below_fuel : forall f f' n, height n <= f -> height n <= f' -> below f n = below f' n.
Proof.
  induction f as [|f IH]; intros f' n H H'; [rewrite height_eq in H; lia|].
  destruct f' as [|f']; [rewrite height_eq in H'; lia|]. cbn [below]. f_equal.
  apply flat_map_ext_in. intros c Ic. pose proof (height_child n c Ic) as Hc.
  rewrite (IH f' c); [reflexivity | lia | lia].
Qed.

Lemma bel_eq : forall n, bel n = self_res n ++ flat_map blk (nchildren n).
Proof.
  intro n. unfold bel at 1. rewrite (height_eq n). cbn [below]. f_equal.
  apply flat_map_ext_in. intros c Ic. unfold blk, bel. f_equal.
  apply below_fuel; [|lia]. pose proof (height_child n c Ic) as Hc. rewrite (height_eq n) in Hc. lia.
Qed.

(* token lists never start with an empty literal *)
Definition hd_ok (ts : list tok) : Prop := match ts with TLit [] :: _ => False | _ => True end.

Lemma hd_ok_lit_cons : forall l ts, hd_ok ts -> hd_ok (lit_cons l ts).
Proof.
  intros l ts H. destruct l as [|b l]; [exact H|]. cbn [lit_cons].
  destruct ts as [|t ts']; [exact I|]. destruct t; exact I.
Qed.

Lemma hd_ok_lit_cons_ne : forall l ts, l <> [] -> hd_ok (lit_cons l ts).
Proof.
  intros l ts H. destruct l as [|b l]; [congruence|]. cbn [lit_cons].
  destruct ts as [|t ts']; [exact I|]. destruct t; exact I.
Qed.

Lemma strip1_lit_cons : forall b l ts, hd_ok ts -> strip_lit 1 (lit_cons (b :: l) ts) = lit_cons l ts.
Proof.
  intros b l ts H. cbn [lit_cons]. destruct ts as [|t ts'].
  - cbn [strip_lit skipn]. destruct l; reflexivity.
  - destruct t as [l2|i nm ru].
    + cbn [strip_lit skipn app]. destruct l as [|c l]; cbn [app lit_cons].
      * destruct l2; [destruct H | reflexivity].
      * reflexivity.
    + cbn [strip_lit skipn]. destruct l; reflexivity.
Qed.

Lemma strip_len_lit_cons : forall l ts, hd_ok ts -> strip_lit (length l) (lit_cons l ts) = ts.
Proof.
  intros l ts H. destruct l as [|b l].
  - cbn [lit_cons length]. destruct ts as [|t ts']; [reflexivity|]. destruct t as [l2|i nm ru]; [|reflexivity].
    cbn [strip_lit skipn]. destruct l2; [destruct H | reflexivity].
  - cbn [lit_cons]. destruct ts as [|t ts'].
    + cbn [strip_lit]. now rewrite skipn_all.
    + destruct t as [l2|i nm ru].
      * cbn [strip_lit]. rewrite (TokensSplit.skipn_len_app (b :: l) l2) by reflexivity.
        destruct l2; [destruct H | reflexivity].
      * cbn [strip_lit]. now rewrite skipn_all.
Qed.

Lemma head_lit_lit_cons : forall l ts, head_lit (lit_cons l ts) = l ++ head_lit ts.
Proof.
  intros l ts. destruct l as [|b l]; [reflexivity|]. cbn [lit_cons].
  destruct ts as [|t ts']; [cbn [head_lit]; now rewrite app_nil_r|].
  destruct t; cbn [head_lit]; [reflexivity | now rewrite app_nil_r].
Qed.

Lemma head_byte_lit_cons : forall b l ts, head_lit_byte (lit_cons (b :: l) ts) = Some b.
Proof.
  intros b l ts. cbn [lit_cons]. destruct ts as [|t ts']; [reflexivity|]. destruct t; reflexivity.
Qed.

Lemma lit_cons_starts_lit : forall l ts, l <> [] -> exists l' ts', lit_cons l ts = TLit l' :: ts'.
Proof.
  intros l ts H. destruct l as [|b l]; [congruence|]. cbn [lit_cons].
  destruct ts as [|t ts']; [now eexists; eexists|]. destruct t; now eexists; eexists.
Qed.

Lemma wrapl_nil : forall X, map (wrapl []) X = X.
Proof.
  intro X. rewrite <- (map_id X) at 2. apply map_ext. intros [ts p]. reflexivity.
Qed.

(* ---------------------------------------------------------------- the literal step on blocks *)
Lemma lit_step_app : forall b A B, lit_step_R b (A ++ B) = lit_step_R b A ++ lit_step_R b B.
Proof. intros b A B. unfold lit_step_R. now rewrite filter_app, map_app. Qed.

Lemma lit_step_flat_map : forall (A : Type) b (g : A -> list resid) l,
  lit_step_R b (flat_map g l) = flat_map (fun x => lit_step_R b (g x)) l.
Proof.
  intros A b g l. induction l as [|x l IH]; [reflexivity|]. cbn [flat_map]. now rewrite lit_step_app, IH.
Qed.

Lemma lit_step_none : forall b R, (forall r, In r R -> head_lit_byte (rts r) <> Some b) -> lit_step_R b R = [].
Proof.
  intros b R H. unfold lit_step_R. induction R as [|r R IH]; [reflexivity|]. cbn [filter].
  pose proof (H r (or_introl eq_refl)) as Hr.
  destruct (head_lit_byte (rts r)) as [c|] eqn:E; cbn [opt_N_eqb].
  - destruct (N.eqb_spec c b) as [->|Ne]; [now elim Hr|]. apply IH. intros x Ix. apply H. now right.
  - apply IH. intros x Ix. apply H. now right.
Qed.

Lemma lit_step_wrapl : forall b b' l X, (forall r, In r X -> hd_ok (rts r)) ->
  lit_step_R b (map (wrapl (b' :: l)) X) = if N.eqb b' b then map (wrapl l) X else [].
Proof.
  intros b b' l X H. destruct (N.eqb_spec b' b) as [->|Ne].
  - unfold lit_step_R. induction X as [|r X IH]; [reflexivity|]. cbn [map filter].
    cbn [wrapl rts]. rewrite head_byte_lit_cons. cbn [opt_N_eqb]. rewrite N.eqb_refl. cbn [map].
    f_equal; [|apply IH; intros x Ix; apply H; now right].
    unfold wrapl. cbn [rts rroute]. now rewrite (strip1_lit_cons b l (rts r) (H r (or_introl eq_refl))).
  - apply lit_step_none. intros r I. apply in_map_iff in I. destruct I as [x [<- _]].
    cbn [wrapl rts]. rewrite head_byte_lit_cons. congruence.
Qed.

Lemma flat_map_nil : forall (A B : Type) (g : A -> list B) l, (forall x, In x l -> g x = []) -> flat_map g l = [].
Proof.
  intros A B g l H. induction l as [|x l IH]; [reflexivity|]. cbn [flat_map].
  rewrite (H x (or_introl eq_refl)), IH; [reflexivity|]. intros y Iy. apply H. now right.
Qed.

Lemma flat_map_single : forall (A B : Type) (g : A -> list B) pre c post,
  (forall x, In x pre -> g x = []) -> (forall x, In x post -> g x = []) ->
  flat_map g (pre ++ c :: post) = g c.
Proof.
  intros A B g pre c post H1 H2. rewrite flat_map_app. cbn [flat_map].
  rewrite (flat_map_nil _ _ g pre H1), (flat_map_nil _ _ g post H2). cbn [app]. apply app_nil_r.
Qed.

(* ---------------------------------------------------------------- residuals that start with literal text *)
Lemma keys_of_rank_no_par : forall ic k R seen, (forall r, In r R -> par_key r = None) ->
  keys_of_rank ic k R seen = rev seen.
Proof.
  intros ic k R. induction R as [|r R IH]; intros seen H; [reflexivity|]. cbn [keys_of_rank].
  rewrite (H r (or_introl eq_refl)). apply IH. intros x Ix. apply H. now right.
Qed.

Lemma end_out_none : forall R path ps, (forall r, In r R -> rts r <> []) -> end_out R path ps = [].
Proof.
  intros R path ps H. unfold end_out. destruct path; [|reflexivity].
  induction R as [|r R IH]; [reflexivity|]. cbn [filter].
  pose proof (H r (or_introl eq_refl)) as Hr. destruct (rts r); [now elim Hr|].
  apply IH. intros x Ix. apply H. now right.
Qed.

Lemma first_ne_nil : forall (A : Type), @first_ne A [] [] [] = [].
Proof. reflexivity. Qed.

Lemma out_lit_only : forall ic R path ps, (forall r, In r R -> exists l ts, rts r = TLit l :: ts) ->
  out ic R path ps = lout ic R path ps.
Proof.
  intros ic R path ps H. rewrite out_eq.
  assert (K : forall k, kout ic R path ps k = []).
  { intro k. unfold kout. rewrite keys_of_rank_no_par; [reflexivity|].
    intros r I. destruct (H r I) as [l [ts E]]. unfold par_key. now rewrite E. }
  rewrite !K, first_ne_nil, end_out_none.
  - destruct (lout ic R path ps); reflexivity.
  - intros r I. destruct (H r I) as [l [ts E]]. rewrite E. discriminate.
Qed.

(* walking along literal text *)
Lemma out_wrapl : forall ic l X path ps, (forall r, In r X -> hd_ok (rts r)) ->
  out ic (map (wrapl l) X) path ps =
  if has_prefix path l then out ic X (skipn (length l) path) ps else [].
Proof.
  intros ic l. induction l as [|b l IH]; intros X path ps H.
  - rewrite wrapl_nil. reflexivity.
  - rewrite out_lit_only.
    2:{ intros r I. apply in_map_iff in I. destruct I as [x [<- _]]. cbn [wrapl rts].
        apply lit_cons_starts_lit. discriminate. }
    unfold lout. destruct path as [|c p]; [reflexivity|].
    rewrite (lit_step_wrapl c b l X H). cbn [has_prefix length skipn].
    rewrite (N.eqb_sym b c). destruct (N.eqb c b); cbn [andb]; [apply IH; exact H | apply out_nil].
Qed.

(* ================================================================ Part 3 : parameter labels *)

Definition key_of (s : segment) : pkey :=
  (signore s, sname s, srule s, match ssuffix s with [] => None | b :: _ => Some b end).

(* what the tree needs to know of a parameter label, in the resolver's vocabulary *)
Record plabel (ic : icpts) (s : segment) : Prop := {
  pl_param : isparam s = true;
  pl_match : forall v, smatch s v = accepts (kind_of ic (srule s)) v;
  pl_rank : stype_rank (styp s) = kind_rank (kind_of ic (srule s));
  pl_end : (sendpoint s || (stype_eqb (styp s) TRegexp && match ssuffix s with [] => true | _ => false end)) =
           match ssuffix s with [] => true | _ => false end;
  pl_val : exists body, sval s = TokensSplit.chunk_text (body, ssuffix s) /\ NB body /\ NB (ssuffix s)
}.

Lemma chunk_seg_plabel : forall ic b l s, TokensSplit.chunk_ok (b, l) ->
  TokensSplit.chunk_seg ic (TokensSplit.chunk_text (b, l)) (TokensSplit.b_ign b) (TokensSplit.b_name b)
    (TokensSplit.b_rule b) l = Ok s ->
  plabel ic s /\ sval s = TokensSplit.chunk_text (b, l) /\ signore s = TokensSplit.b_ign b /\
  sname s = TokensSplit.b_name b /\ srule s = TokensSplit.b_rule b /\ ssuffix s = l.
Proof.
  intros ic b l s [[Hb Hl] Hn] H. cbn [fst snd] in Hb, Hl, Hn.
  assert (EW : ends_with (TokensSplit.chunk_text (b, l)) 125%N = match l with [] => true | _ => false end).
  { destruct l as [|c l]; [apply TreeGone.closed_chunk_nil|].
    apply (TreeGone.closed_chunk_cons b (c :: l)); [split; assumption | discriminate]. }
  unfold TokensSplit.chunk_seg in H.
  set (ew := ends_with (TokensSplit.chunk_text (b, l)) 125%N) in *. clearbody ew.
  destruct (N.ltb max_int16 _); [discriminate H|].
  destruct (TokensSplit.b_rule b) as [|c rule] eqn:ER.
  - injection H as <-. cbn [sval sname srule ssuffix signore]. split; [|repeat split; reflexivity].
    constructor; cbn [styp smatch srule ssuffix sendpoint sval]; try reflexivity.
    + rewrite EW. destruct l; reflexivity.
    + exists b. repeat split; assumption || apply Hb || apply Hl.
  - destruct (alookup (c :: rule) ic) as [f|] eqn:AL.
    + injection H as <-. cbn [sval sname srule ssuffix signore]. split; [|repeat split; reflexivity].
      constructor; cbn [styp smatch srule ssuffix sendpoint sval]; try reflexivity.
      * intro v. unfold kind_of. rewrite AL. reflexivity.
      * unfold kind_of. rewrite AL. reflexivity.
      * rewrite EW. destruct l; reflexivity.
      * exists b. repeat split; apply Hb || apply Hl.
    + destruct (negb (TokensSplit.b_ign b) && _); [discriminate H|].
      destruct (re_parse (c :: rule)) as [r| |] eqn:RP; try discriminate H.
      injection H as <-. cbn [sval sname srule ssuffix signore]. split; [|repeat split; reflexivity].
      constructor; cbn [styp smatch srule ssuffix sendpoint sval]; try reflexivity.
      * intro v. unfold kind_of. rewrite AL, RP. reflexivity.
      * unfold kind_of. rewrite AL, RP. reflexivity.
      * exists b. repeat split; apply Hb || apply Hl.
Qed.

Lemma nbseg_plabel : forall ic s, nbseg ic s -> TreeGone.cseg s -> isparam s = true ->
  plabel ic s /\ exists b, TokensSplit.chunk_ok (b, ssuffix s) /\ sval s = TokensSplit.chunk_text (b, ssuffix s) /\
    signore s = TokensSplit.b_ign b /\ sname s = TokensSplit.b_name b /\ srule s = TokensSplit.b_rule b.
Proof.
  intros ic s [Hnew _] Hc Hp. destruct (Hc Hp) as [[b l] [Hok Ev]].
  rewrite Ev, (TokensSplit.new_segment_chunk_text ic (b, l) Hok) in Hnew.
  unfold TokensSplit.c_ign, TokensSplit.c_name, TokensSplit.c_rule in Hnew. cbn [fst snd] in Hnew.
  destruct (chunk_seg_plabel ic b l s Hok Hnew) as [PL [E1 [E2 [E3 [E4 E5]]]]].
  split; [exact PL|]. exists b. rewrite E5. repeat split; try assumption; apply Hok.
Qed.

Lemma find_split_ext : forall m1 m2 suffix pre s, (forall v, m1 v = m2 v) ->
  find_split m1 suffix pre s = find_split m2 suffix pre s.
Proof.
  intros m1 m2 suffix pre s H. revert pre. induction s as [|c s IH]; intro pre; cbn [find_split]; rewrite H.
  - reflexivity.
  - destruct (has_prefix (c :: s) suffix && m2 (rev pre)); [reflexivity | apply IH].
Qed.

Lemma find_split_shortest : forall ic rule suffix pre s,
  find_split (accepts (kind_of ic rule)) suffix pre s = shortest_split (kind_of ic rule) suffix pre s.
Proof.
  intros ic rule suffix pre s. revert pre. induction s as [|c s IH]; intro pre; cbn [find_split shortest_split].
  - reflexivity.
  - destruct (has_prefix (c :: s) suffix && accepts (kind_of ic rule) (rev pre)); [reflexivity | apply IH].
Qed.

(* Segment.Match of a parameter label, in the resolver's vocabulary *)
Lemma seg_match_plabel : forall ic s path ps, plabel ic s ->
  seg_match s path ps =
  match ssuffix s with
  | [] => if accepts (kind_of ic (srule s)) path then Some ([], with_param ps (signore s) (sname s) path) else None
  | _ => match shortest_split (kind_of ic (srule s)) (ssuffix s) [] path with
         | Some (v, rest) => Some (rest, with_param ps (signore s) (sname s) v)
         | None => None
         end
  end.
Proof.
  intros ic s path ps PL. unfold seg_match.
  assert (T : styp s <> TString).
  { pose proof (pl_param _ _ PL) as P. unfold isparam in P. intro E. rewrite E in P. discriminate P. }
  assert (E : (if sendpoint s || (stype_eqb (styp s) TRegexp && match ssuffix s with [] => true | _ => false end)
               then if smatch s path then Some ([], if signore s then ps else ctx_set ps (sname s) path) else None
               else match find_split (smatch s) (ssuffix s) [] path with
                    | Some (v, rest) => Some (rest, if signore s then ps else ctx_set ps (sname s) v)
                    | None => None end) =
              match ssuffix s with
              | [] => if accepts (kind_of ic (srule s)) path then Some ([], with_param ps (signore s) (sname s) path) else None
              | _ => match shortest_split (kind_of ic (srule s)) (ssuffix s) [] path with
                     | Some (v, rest) => Some (rest, with_param ps (signore s) (sname s) v)
                     | None => None
                     end
              end).
  { rewrite (pl_end _ _ PL).
    rewrite (find_split_ext (smatch s) (accepts (kind_of ic (srule s))) (ssuffix s) [] path (pl_match _ _ PL)).
    rewrite find_split_shortest, (pl_match _ _ PL). unfold with_param.
    destruct (ssuffix s); reflexivity. }
  destruct (styp s); [now elim T | exact E | exact E | exact E].
Qed.

(* ================================================================ Part 4 : keys and groups on blocks *)

Lemma pkey_eqb_refl : forall k, pkey_eqb k k = true.
Proof.
  intros [[[i n] r] b]. unfold pkey_eqb. rewrite Bool.eqb_reflx, !beqb_refl.
  destruct b as [x|]; cbn [opt_N_eqb andb]; [apply N.eqb_refl | reflexivity].
Qed.

Lemma pkey_eqb_eq : forall a b, pkey_eqb a b = true -> a = b.
Proof.
  intros [[[i1 n1] r1] b1] [[[i2 n2] r2] b2] H. unfold pkey_eqb in H.
  apply andb_true_iff in H. destruct H as [H Hb]. apply andb_true_iff in H. destruct H as [H Hr].
  apply andb_true_iff in H. destruct H as [Hi Hn].
  apply Bool.eqb_prop in Hi. destruct (beqb_spec n1 n2) as [->|]; [|discriminate Hn].
  destruct (beqb_spec r1 r2) as [->|]; [|discriminate Hr]. subst i2.
  destruct b1 as [x|], b2 as [y|]; cbn [opt_N_eqb] in Hb; try discriminate Hb; [|reflexivity].
  apply N.eqb_eq in Hb. now subst y.
Qed.

Lemma existsb_pkey_false : forall key seen, ~ In key seen -> existsb (pkey_eqb key) seen = false.
Proof.
  intros key seen H. induction seen as [|x seen IH]; [reflexivity|]. cbn [existsb].
  destruct (pkey_eqb key x) eqn:E.
  - apply pkey_eqb_eq in E. subst x. elim H. now left.
  - apply IH. intro I. apply H. now right.
Qed.

Definition key_rank (ic : icpts) (key : pkey) : nat :=
  let '(_, _, rule, _) := key in kind_rank (kind_of ic rule).

Lemma keys_block_none : forall ic k X R seen, (forall r, In r X -> par_key r = None) ->
  keys_of_rank ic k (X ++ R) seen = keys_of_rank ic k R seen.
Proof.
  intros ic k X R. induction X as [|r X IH]; intros seen H; [reflexivity|]. cbn [app keys_of_rank].
  rewrite (H r (or_introl eq_refl)). apply IH. intros x Ix. apply H. now right.
Qed.

Lemma keys_step : forall ic k r R seen key, par_key r = Some key ->
  keys_of_rank ic k (r :: R) seen =
  keys_of_rank ic k R (if Nat.eqb (key_rank ic key) k && negb (existsb (pkey_eqb key) seen) then key :: seen else seen).
Proof.
  intros ic k r R seen [[[i n] ru] b] H. cbn [keys_of_rank]. rewrite H. cbn [key_rank].
  destruct (Nat.eqb (kind_rank (kind_of ic ru)) k && negb (existsb (pkey_eqb (i, n, ru, b)) seen)); reflexivity.
Qed.

Lemma keys_block_skip : forall ic k X R seen key, (forall r, In r X -> par_key r = Some key) ->
  Nat.eqb (key_rank ic key) k && negb (existsb (pkey_eqb key) seen) = false ->
  keys_of_rank ic k (X ++ R) seen = keys_of_rank ic k R seen.
Proof.
  intros ic k X R seen key. induction X as [|r X IH]; intros H C; [reflexivity|]. cbn [app].
  rewrite (keys_step ic k r (X ++ R) seen key (H r (or_introl eq_refl))), C.
  apply IH; [intros x Ix; apply H; now right | exact C].
Qed.

Lemma keys_block_same : forall ic k X R seen key, (forall r, In r X -> par_key r = Some key) -> X <> [] ->
  keys_of_rank ic k (X ++ R) seen =
  keys_of_rank ic k R (if Nat.eqb (key_rank ic key) k && negb (existsb (pkey_eqb key) seen) then key :: seen else seen).
Proof.
  intros ic k X R seen key H Hne. destruct X as [|r X]; [congruence|]. cbn [app].
  rewrite (keys_step ic k r (X ++ R) seen key (H r (or_introl eq_refl))).
  assert (HX : forall x, In x X -> par_key x = Some key) by (intros x Ix; apply H; now right).
  destruct (Nat.eqb (key_rank ic key) k && negb (existsb (pkey_eqb key) seen)) eqn:C.
  - apply (keys_block_skip ic k X R (key :: seen) key HX). cbn [existsb]. rewrite pkey_eqb_refl.
    cbn [orb negb]. apply andb_false_r.
  - apply (keys_block_skip ic k X R seen key HX C).
Qed.

Section Blocks.
Variable ic : icpts.
Variable B : node -> list resid.           (* the block of a child *)
Variable K : node -> option pkey.          (* the key all its residuals have *)

Definition pick1 (k : nat) (c : node) : list pkey :=
  match K c with Some key => if Nat.eqb (key_rank ic key) k then [key] else [] | None => [] end.
Definition pick (k : nat) (cs : list node) : list pkey := flat_map (pick1 k) cs.

Lemma keys_blocks : forall k cs seen,
  (forall c, In c cs -> forall r, In r (B c) -> par_key r = K c) ->
  (forall c, In c cs -> K c <> None -> B c <> []) ->
  NoDup (pick k cs) -> (forall key, In key (pick k cs) -> ~ In key seen) ->
  keys_of_rank ic k (flat_map B cs) seen = rev seen ++ pick k cs.
Proof.
  intros k cs. induction cs as [|c cs IH]; intros seen HK Hne ND Hd.
  - cbn [flat_map pick]. now rewrite app_nil_r.
  - cbn [flat_map]. unfold pick in *. cbn [flat_map] in ND, Hd |- *.
    assert (HK' : forall c0, In c0 cs -> forall r, In r (B c0) -> par_key r = K c0) by (intros c0 I0; apply HK; now right).
    assert (Hne' : forall c0, In c0 cs -> K c0 <> None -> B c0 <> []) by (intros c0 I0; apply Hne; now right).
    unfold pick1 at 1. unfold pick1 at 1 in ND. unfold pick1 at 1 in Hd.
    destruct (K c) as [key|] eqn:EK.
    + assert (HKc : forall r, In r (B c) -> par_key r = Some key).
      { intros r Ir. rewrite <- EK. apply HK; [now left | exact Ir]. }
      rewrite (keys_block_same ic k (B c) _ seen key HKc).
      2:{ apply Hne; [now left | rewrite EK; discriminate]. }
      destruct (Nat.eqb (key_rank ic key) k) eqn:ER; cbn [andb app] in *.
      * rewrite (existsb_pkey_false key seen) by (apply Hd; now left). cbn [negb].
        inversion ND as [|x l Nx ND']; subst.
        rewrite IH; [cbn [rev]; now rewrite <- app_assoc | exact HK' | exact Hne' | exact ND' |].
        intros key' I' [<-|I2]; [exact (Nx I') | exact (Hd key' (or_intror I') I2)].
      * apply IH; assumption.
    + cbn [app] in *. rewrite (keys_block_none ic k (B c) _ seen).
      2:{ intros r Ir. rewrite <- EK. apply HK; [now left | exact Ir]. }
      apply IH; assumption.
Qed.

Lemma filter_flat_map : forall (A C : Type) (p : C -> bool) (g : A -> list C) l,
  filter p (flat_map g l) = flat_map (fun x => filter p (g x)) l.
Proof.
  intros A C p g l. induction l as [|x l IH]; [reflexivity|]. cbn [flat_map]. now rewrite filter_app, IH.
Qed.

Lemma filter_all : forall (C : Type) (p : C -> bool) l, (forall x, In x l -> p x = true) -> filter p l = l.
Proof.
  intros C p l H. induction l as [|x l IH]; [reflexivity|]. cbn [filter].
  rewrite (H x (or_introl eq_refl)). f_equal. apply IH. intros y Iy. apply H. now right.
Qed.

Lemma filter_none : forall (C : Type) (p : C -> bool) l, (forall x, In x l -> p x = false) -> filter p l = [].
Proof.
  intros C p l H. induction l as [|x l IH]; [reflexivity|]. cbn [filter].
  rewrite (H x (or_introl eq_refl)). apply IH. intros y Iy. apply H. now right.
Qed.

(* the group of a key is the block of the one child that has it *)
Lemma group_blocks : forall pre c post key,
  (forall d, In d (pre ++ c :: post) -> forall r, In r (B d) -> par_key r = K d) ->
  K c = Some key -> (forall d, In d pre -> K d <> Some key) -> (forall d, In d post -> K d <> Some key) ->
  filter (has_key key) (flat_map B (pre ++ c :: post)) = B c.
Proof.
  intros pre c post key HK Ec Hpre Hpost. rewrite filter_flat_map.
  assert (Hoth : forall d, In d (pre ++ c :: post) -> K d <> Some key -> filter (has_key key) (B d) = []).
  { intros d Id Hd. apply filter_none. intros r Ir. unfold has_key. rewrite (HK d Id r Ir).
    destruct (K d) as [k'|]; [|reflexivity]. destruct (pkey_eqb key k') eqn:E; [|reflexivity].
    apply pkey_eqb_eq in E. subst k'. now elim Hd. }
  rewrite flat_map_single.
  - apply filter_all. intros r Ir. unfold has_key.
    assert (Ic : In c (pre ++ c :: post)) by (apply in_or_app; right; now left).
    rewrite (HK c Ic r Ir), Ec. apply pkey_eqb_refl.
  - intros d Id. apply Hoth; [apply in_or_app; now left | now apply Hpre].
  - intros d Id. apply Hoth; [apply in_or_app; right; now right | now apply Hpost].
Qed.

End Blocks.

(* ================================================================ Part 5 : the resolver on the residuals of a node *)

Lemma lcp_same : forall s a b, lcp (s ++ a) (s ++ b) = s ++ lcp a b.
Proof. induction s as [|x s IH]; intros a b; [reflexivity|]. cbn [app lcp]. now rewrite N.eqb_refl, IH. Qed.

Lemma fold_lcp_app : forall s ls l, fold_left lcp (map (app s) ls) (s ++ l) = s ++ fold_left lcp ls l.
Proof.
  intros s ls. induction ls as [|x ls IH]; intro l; [reflexivity|]. cbn [map fold_left].
  now rewrite lcp_same, IH.
Qed.

Lemma lcp_all_app : forall (A : Type) (f : A -> bytes) s X, X <> [] ->
  lcp_all (map (fun x => s ++ f x) X) = s ++ lcp_all (map f X).
Proof.
  intros A f s X H. destruct X as [|x X]; [congruence|]. cbn [map lcp_all].
  rewrite <- (map_map f (app s)). apply fold_lcp_app.
Qed.

(* the search below one child, as the resolver sees it *)
Definition CO (ic : icpts) (c : node) (path : bytes) (ps : params) : list (bytes * params) :=
  match seg_match (nseg c) path ps with
  | Some (p1, ps1) => out ic (bel c) p1 ps1
  | None => []
  end.

Definition self_end (n : node) (path : bytes) (ps : params) : list (bytes * params) :=
  match path with [] => map (fun r => (rroute r, ps)) (self_res n) | _ => [] end.

Definition Kc (c : node) : option pkey := if isparam (nseg c) then Some (key_of (nseg c)) else None.

(* what the simulation needs to know of the children of a node *)
Record res1 (ic : icpts) (n : node) : Prop := {
  r_lab : forall c, In c (nchildren n) -> nbseg ic (nseg c) /\ TreeGone.cseg (nseg c);
  r_closed : forall c, In c (nchildren n) -> isparam (nseg c) = true -> ssuffix (nseg c) = [] -> nchildren c = [];
  r_heads : NoDup (TreeLit.heads (nchildren n));
  r_keys : NoDup (map (fun c => key_of (nseg c)) (filter (fun c => isparam (nseg c)) (nchildren n)));
  r_alive : forall c, In c (nchildren n) -> bel c <> [];
  r_radix : forall c, In c (nchildren n) -> isparam (nseg c) = true -> ssuffix (nseg c) <> [] ->
              lcp_all (map (fun r => head_lit (rts r)) (bel c)) = []
}.

Lemma self_res_rts : forall n r, In r (self_res n) -> rts r = [].
Proof. intros n r I. unfold self_res in I. destruct (nhandlers n); [destruct I|]. destruct I as [<-|[]]. reflexivity. Qed.

Lemma bel_hd_ok : forall n, (forall c, In c (nchildren n) -> sval (nseg c) <> []) ->
  forall r, In r (bel n) -> hd_ok (rts r).
Proof.
  intros n H r I. rewrite bel_eq in I. apply in_app_or in I. destruct I as [I|I].
  - rewrite (self_res_rts n r I). exact Logic.I.
  - apply in_flat_map in I. destruct I as [c [Ic Ir]]. unfold blk in Ir. apply in_map_iff in Ir.
    destruct Ir as [r0 [<- _]]. cbn [wrap rts]. unfold seg_toks. destruct (isparam (nseg c)); [exact Logic.I|].
    apply hd_ok_lit_cons_ne. now apply H.
Qed.

Lemma res1_hd_ok : forall ic n, res1 ic n -> forall r, In r (bel n) -> hd_ok (rts r).
Proof.
  intros ic n H. apply bel_hd_ok. intros c Ic. exact (proj1 (proj2 (proj1 (r_lab _ _ H c Ic)))).
Qed.

Lemma blk_lit : forall c, isparam (nseg c) = false -> blk c = map (wrapl (sval (nseg c))) (bel c).
Proof.
  intros c H. unfold blk. apply map_ext. intro r. unfold wrap, wrapl, seg_toks. now rewrite H.
Qed.

Lemma blk_key : forall ic n c, res1 ic n -> In c (nchildren n) -> forall r, In r (blk c) -> par_key r = Kc c.
Proof.
  intros ic n c H Ic r Ir. unfold Kc. unfold blk in Ir. apply in_map_iff in Ir. destruct Ir as [r0 [<- I0]].
  unfold par_key. cbn [wrap rts]. unfold seg_toks.
  destruct (isparam (nseg c)) eqn:P.
  - unfold key_of. destruct (ssuffix (nseg c)) as [|b0 sf] eqn:ES.
    + cbn [lit_cons]. pose proof (r_closed _ _ H c Ic P ES) as Hc.
      rewrite bel_eq, Hc in I0. cbn [flat_map] in I0. rewrite app_nil_r in I0.
      now rewrite (self_res_rts c r0 I0).
    + now rewrite head_byte_lit_cons.
  - destruct (lit_cons_starts_lit (sval (nseg c)) (rts r0)) as [l' [ts' E]].
    + exact (proj1 (proj2 (proj1 (r_lab _ _ H c Ic)))).
    + now rewrite E.
Qed.

Lemma blk_ne : forall ic n c, res1 ic n -> In c (nchildren n) -> blk c <> [].
Proof.
  intros ic n c H Ic E. unfold blk in E. apply map_eq_nil in E. exact (r_alive _ _ H c Ic E).
Qed.

Lemma pick_sub : forall ic k cs key, In key (pick ic Kc k cs) ->
  In key (map (fun c => key_of (nseg c)) (filter (fun c => isparam (nseg c)) cs)).
Proof.
  intros ic k cs key. induction cs as [|c cs IH]; intro I; [destruct I|].
  unfold pick in I. cbn [flat_map] in I. apply in_app_or in I. cbn [filter].
  unfold pick1, Kc in I. destruct (isparam (nseg c)).
  - cbn [map]. destruct I as [I|I]; [|right; now apply IH].
    destruct (Nat.eqb _ k); [|destruct I]. destruct I as [<-|[]]. now left.
  - destruct I as [[]|I]. now apply IH.
Qed.

Lemma pick_nodup : forall ic k cs,
  NoDup (map (fun c => key_of (nseg c)) (filter (fun c => isparam (nseg c)) cs)) -> NoDup (pick ic Kc k cs).
Proof.
  intros ic k cs. induction cs as [|c cs IH]; intro H; [constructor|].
  unfold pick. cbn [flat_map]. cbn [filter] in H. unfold pick1 at 1. unfold Kc at 1.
  destruct (isparam (nseg c)); [|cbn [app]; now apply IH].
  cbn [map] in H. inversion H as [|x l Nx ND]; subst.
  destruct (Nat.eqb _ k); cbn [app]; [|now apply IH].
  constructor; [|now apply IH]. intro I. apply Nx. exact (pick_sub ic k cs _ I).
Qed.

Lemma flat_map_flat_map : forall (A B C : Type) (f : B -> list C) (g : A -> list B) l,
  flat_map f (flat_map g l) = flat_map (fun x => flat_map f (g x)) l.
Proof.
  intros A B C f g l. induction l as [|x l IH]; [reflexivity|]. cbn [flat_map]. now rewrite flat_map_app, IH.
Qed.

Lemma keys_bel : forall ic n k, res1 ic n -> keys_of_rank ic k (bel n) [] = pick ic Kc k (nchildren n).
Proof.
  intros ic n k H. rewrite bel_eq.
  rewrite keys_block_none.
  2:{ intros r I. unfold par_key. now rewrite (self_res_rts n r I). }
  rewrite (keys_blocks ic blk Kc k (nchildren n) []); [reflexivity | | | |].
  - intros c Ic. exact (blk_key ic n c H Ic).
  - intros c Ic _. exact (blk_ne ic n c H Ic).
  - apply pick_nodup. exact (r_keys _ _ H).
  - intros key _ [].
Qed.

(* the group of the key of a parameter child is its block *)
Lemma group_bel : forall ic n c, res1 ic n -> In c (nchildren n) -> isparam (nseg c) = true ->
  filter (has_key (key_of (nseg c))) (bel n) = blk c.
Proof.
  intros ic n c H Ic P. rewrite bel_eq, filter_app.
  rewrite (filter_none _ _ (self_res n)).
  2:{ intros r I. unfold has_key, par_key. now rewrite (self_res_rts n r I). }
  cbn [app]. destruct (in_split c (nchildren n) Ic) as [pre [post E]].
  pose proof (r_keys _ _ H) as ND. rewrite E in ND. rewrite filter_app in ND. cbn [filter] in ND.
  rewrite P, map_app in ND. cbn [map] in ND. apply NoDup_remove_2 in ND.
  assert (Hk : forall d l, In d l ->
            ~ In (key_of (nseg c)) (map (fun c0 => key_of (nseg c0)) (filter (fun c0 => isparam (nseg c0)) l)) ->
            Kc d <> Some (key_of (nseg c))).
  { intros d l Id Hn E0. unfold Kc in E0. destruct (isparam (nseg d)) eqn:Pd; [|discriminate E0].
    assert (E1 : key_of (nseg d) = key_of (nseg c)) by congruence.
    apply Hn. rewrite <- E1. apply in_map_iff. exists d. split; [reflexivity|].
    apply filter_In. now split. }
  rewrite E. apply (group_blocks blk Kc pre c post (key_of (nseg c))).
  - intros d Id. rewrite <- E in Id. exact (blk_key ic n d H Id).
  - unfold Kc. now rewrite P.
  - intros d Id. apply (Hk d pre Id). intro I. apply ND. apply in_or_app. now left.
  - intros d Id. apply (Hk d post Id). intro I. apply ND. apply in_or_app. now right.
Qed.

Lemma out_self_res : forall ic n ps, out ic (self_res n) [] ps = map (fun r => (rroute r, ps)) (self_res n).
Proof.
  intros ic n ps. rewrite out_eq. unfold lout.
  assert (K : forall k, kout ic (self_res n) [] ps k = []).
  { intro k. unfold kout. rewrite keys_of_rank_no_par; [reflexivity|].
    intros r I. unfold par_key. now rewrite (self_res_rts n r I). }
  rewrite !K, first_ne_nil. cbn [app]. unfold end_out. f_equal.
  apply filter_all. intros r I. now rewrite (self_res_rts n r I).
Qed.

Lemma gout_child : forall ic n c path ps, res1 ic n -> res1 ic c -> In c (nchildren n) ->
  isparam (nseg c) = true -> gout ic (bel n) path ps (key_of (nseg c)) = CO ic c path ps.
Proof.
  intros ic n c path ps H Hc Ic P.
  destruct (r_lab _ _ H c Ic) as [Lab Cs].
  destruct (nbseg_plabel ic (nseg c) Lab Cs P) as [PL _].
  unfold CO. rewrite (seg_match_plabel ic (nseg c) path ps PL).
  unfold gout, key_of. cbv zeta. fold (key_of (nseg c)). rewrite (group_bel ic n c H Ic P).
  destruct (ssuffix (nseg c)) as [|b0 sf] eqn:ES.
  - destruct (accepts (kind_of ic (srule (nseg c))) path); [|reflexivity].
    pose proof (r_closed _ _ H c Ic P ES) as Hnc.
    assert (Eb : bel c = self_res c) by (rewrite bel_eq, Hnc; cbn [flat_map]; apply app_nil_r).
    rewrite Eb, out_self_res. unfold blk. rewrite Eb, map_map. reflexivity.
  - assert (Hne : ssuffix (nseg c) <> []) by (rewrite ES; discriminate).
    assert (ES' : group_S (blk c) = b0 :: sf).
    { unfold group_S, blk. rewrite map_map.
      rewrite (map_ext _ (fun r => (b0 :: sf) ++ head_lit (rts r))).
      2:{ intro r. cbn [wrap rts]. unfold seg_toks. rewrite P, ES. cbn [tl]. apply head_lit_lit_cons. }
      rewrite (lcp_all_app _ (fun r => head_lit (rts r)) (b0 :: sf) (bel c) (r_alive _ _ H c Ic)).
      rewrite (r_radix _ _ H c Ic P Hne). apply app_nil_r. }
    assert (ER : group_R (blk c) = bel c).
    { unfold group_R. rewrite ES'. unfold blk. rewrite map_map. rewrite <- (map_id (bel c)) at 2.
      apply map_ext_in. intros r Ir. cbn [wrap rts rroute]. unfold seg_toks. rewrite P, ES. cbn [tl].
      rewrite (strip_len_lit_cons (b0 :: sf) (rts r) (res1_hd_ok ic c Hc r Ir)). destruct r; reflexivity. }
    rewrite ES', ER. destruct (shortest_split _ _ _ _) as [[v rest]|]; reflexivity.
Qed.

Definition COk (ic : icpts) (path : bytes) (ps : params) (k : nat) (c : node) : list (bytes * params) :=
  if isparam (nseg c) && Nat.eqb (stype_rank (styp (nseg c))) k then CO ic c path ps else [].

Definition COl (ic : icpts) (path : bytes) (ps : params) (c : node) : list (bytes * params) :=
  if is_lit c then CO ic c path ps else [].

Lemma kout_bel : forall ic n path ps k, res1 ic n -> (forall c, In c (nchildren n) -> res1 ic c) ->
  kout ic (bel n) path ps k = flat_map (COk ic path ps k) (nchildren n).
Proof.
  intros ic n path ps k H Hch. unfold kout. rewrite (keys_bel ic n k H). unfold pick.
  rewrite flat_map_flat_map. apply flat_map_ext_in. intros c Ic.
  unfold pick1, Kc, COk. destruct (isparam (nseg c)) eqn:P; [|reflexivity].
  destruct (r_lab _ _ H c Ic) as [Lab Cs].
  destruct (nbseg_plabel ic (nseg c) Lab Cs P) as [PL _].
  unfold key_rank, key_of at 1. rewrite <- (pl_rank _ _ PL). cbn [andb].
  destruct (Nat.eqb _ k); [|reflexivity]. cbn [flat_map]. rewrite app_nil_r.
  exact (gout_child ic n c path ps H (Hch c Ic) Ic P).
Qed.

Lemma lout_bel : forall ic n path ps, res1 ic n -> (forall c, In c (nchildren n) -> res1 ic c) ->
  lout ic (bel n) path ps = flat_map (COl ic path ps) (nchildren n).
Proof.
  intros ic n path ps H Hch.
  assert (Hlab : forall c, In c (nchildren n) -> sval (nseg c) <> []).
  { intros c Ic. exact (proj1 (proj2 (proj1 (r_lab _ _ H c Ic)))). }
  unfold lout. destruct path as [|b p].
  - symmetry. apply flat_map_nil. intros c Ic. unfold COl, CO. destruct (is_lit c) eqn:L; [|reflexivity].
    now rewrite (TreeLit.lit_no_match_nil c ps L (Hlab c Ic)).
  - rewrite bel_eq, lit_step_app.
    rewrite (lit_step_none b (self_res n)).
    2:{ intros r I. now rewrite (self_res_rts n r I). }
    cbn [app]. rewrite lit_step_flat_map.
    (* what each child contributes *)
    assert (Hpar : forall c, In c (nchildren n) -> isparam (nseg c) = true -> lit_step_R b (blk c) = []).
    { intros c Ic P. apply lit_step_none. intros r Ir.
      pose proof (blk_key ic n c H Ic r Ir) as E. unfold Kc in E. rewrite P in E.
      unfold par_key in E. destruct (rts r) as [|t ts]; [discriminate E|]. destruct t; [discriminate E|].
      cbn [head_lit_byte]. discriminate. }
    assert (Hlit : forall c b' r', In c (nchildren n) -> is_lit c = true -> sval (nseg c) = b' :: r' ->
              lit_step_R b (blk c) = if N.eqb b' b then map (wrapl r') (bel c) else []).
    { intros c b' r' Ic L S. rewrite (blk_lit c (TreeLit.is_lit_true_param c L)), S.
      apply lit_step_wrapl. exact (res1_hd_ok ic c (Hch c Ic)). }
    assert (Hother : forall c, In c (nchildren n) ->
              (forall b' r', is_lit c = true -> sval (nseg c) = b' :: r' -> b' <> b) ->
              lit_step_R b (blk c) = [] /\ COl ic (b :: p) ps c = []).
    { intros c Ic Hb. unfold COl. destruct (is_lit c) eqn:L.
      - destruct (sval (nseg c)) as [|b' r'] eqn:S; [now elim (Hlab c Ic)|].
        pose proof (Hb b' r' eq_refl eq_refl) as Nb. split.
        + rewrite (Hlit c b' r' Ic L S). destruct (N.eqb_spec b' b); [now elim Nb | reflexivity].
        + unfold CO. now rewrite (TreeLit.lit_no_match c b' r' b p ps L S Nb).
      - split; [|reflexivity]. apply Hpar; [exact Ic|]. rewrite TreeLit.is_lit_isparam in L.
        now apply negb_false_iff in L. }
    destruct (in_dec N.eq_dec b (TreeLit.heads (nchildren n))) as [Ib|Nb].
    + destruct (TreeLit.In_heads _ _ Ib) as [x [r [Ix [Lx Sx]]]].
      destruct (in_split x (nchildren n) Ix) as [pre [post E]].
      pose proof (r_heads _ _ H) as ND. rewrite E in ND.
      rewrite TreeLit.heads_app, TreeLit.heads_cons, (TreeLit.hd1_lit x b r Lx Sx) in ND.
      cbn [app] in ND. apply NoDup_remove_2 in ND.
      assert (Hpp : forall d, In d pre \/ In d post ->
                forall b' r', is_lit d = true -> sval (nseg d) = b' :: r' -> b' <> b).
      { intros d Id b' r' Ld Sd ->. apply ND. apply in_or_app.
        destruct Id as [Id|Id]; [left | right]; exact (TreeLit.heads_In _ d b r' Id Ld Sd). }
      assert (Iin : forall d, In d pre \/ In d post -> In d (nchildren n)).
      { intros d Id. rewrite E. apply in_or_app. destruct Id as [Id|Id]; [now left | right; now right]. }
      rewrite E, !flat_map_single.
      * rewrite (Hlit x b r Ix Lx Sx), N.eqb_refl. unfold COl, CO. rewrite Lx.
        rewrite (out_wrapl ic r (bel x) p ps (res1_hd_ok ic x (Hch x Ix))).
        unfold seg_match. rewrite (TreeLit.lit_styp x Lx), Sx. cbn [has_prefix length skipn].
        rewrite N.eqb_refl. cbn [andb]. destruct (has_prefix p r); reflexivity.
      * intros d Id. exact (proj2 (Hother d (Iin d (or_introl Id)) (Hpp d (or_introl Id)))).
      * intros d Id. exact (proj2 (Hother d (Iin d (or_intror Id)) (Hpp d (or_intror Id)))).
      * intros d Id. exact (proj1 (Hother d (Iin d (or_introl Id)) (Hpp d (or_introl Id)))).
      * intros d Id. exact (proj1 (Hother d (Iin d (or_intror Id)) (Hpp d (or_intror Id)))).
    + assert (Hall : forall d, In d (nchildren n) ->
                forall b' r', is_lit d = true -> sval (nseg d) = b' :: r' -> b' <> b).
      { intros d Id b' r' Ld Sd ->. apply Nb. exact (TreeLit.heads_In _ d b r' Id Ld Sd). }
      rewrite !flat_map_nil.
      * apply out_nil.
      * intros d Id. exact (proj2 (Hother d Id (Hall d Id))).
      * intros d Id. exact (proj1 (Hother d Id (Hall d Id))).
Qed.

Lemma end_out_bel : forall ic n path ps, res1 ic n -> end_out (bel n) path ps = self_end n path ps.
Proof.
  intros ic n path ps H. unfold end_out, self_end. destruct path; [|reflexivity]. f_equal.
  rewrite bel_eq, filter_app. rewrite (filter_all _ _ (self_res n)).
  2:{ intros r I. now rewrite (self_res_rts n r I). }
  rewrite filter_none; [apply app_nil_r|].
  intros r I. apply in_flat_map in I. destruct I as [c [Ic Ir]].
  pose proof (blk_key ic n c H Ic r Ir) as E. unfold Kc, par_key in E.
  destruct (isparam (nseg c)) eqn:P.
  - destruct (rts r); [discriminate E | reflexivity].
  - unfold blk in Ir. apply in_map_iff in Ir. destruct Ir as [r0 [<- _]]. cbn [wrap rts]. unfold seg_toks.
    rewrite P. destruct (lit_cons_starts_lit (sval (nseg c)) (rts r0)) as [l' [ts' E']].
    + exact (proj1 (proj2 (proj1 (r_lab _ _ H c Ic)))).
    + now rewrite E'.
Qed.

(* the resolver on the residuals of a node, child by child *)
Theorem out_bel : forall ic n path ps, res1 ic n -> (forall c, In c (nchildren n) -> res1 ic c) ->
  out ic (bel n) path ps =
  match flat_map (COl ic path ps) (nchildren n) with
  | _ :: _ => flat_map (COl ic path ps) (nchildren n)
  | [] => first_ne (flat_map (COk ic path ps 1) (nchildren n)) (flat_map (COk ic path ps 2) (nchildren n))
            (flat_map (COk ic path ps 3) (nchildren n)) ++ self_end n path ps
  end.
Proof.
  intros ic n path ps H Hch. rewrite out_eq, (lout_bel ic n path ps H Hch), !(kout_bel ic n path ps _ H Hch),
    (end_out_bel ic n path ps H). reflexivity.
Qed.

(* ================================================================ Part 6 : the search of the tree against the resolver *)

Lemma nsorted_app_before : forall pre c post d, nsorted (ranks (pre ++ c :: post)) ->
  In d (pre ++ c :: post) -> rk d < rk c -> In d pre.
Proof.
  induction pre as [|a pre IH]; intros c post d Hs Id Hlt.
  - exfalso. cbn [app ranks map] in Hs. destruct Hs as [Hc _]. destruct Id as [<-|Id]; [lia|].
    assert (rk c <= rk d) by (apply Hc; unfold ranks; now apply in_map). lia.
  - cbn [app] in Id, Hs. destruct Id as [<-|Id]; [now left|]. right.
    cbn [ranks map] in Hs. destruct Hs as [_ Hs]. exact (IH c post d Hs Id Hlt).
Qed.

Lemma In_first_ne : forall (A : Type) (x : A) a b c,
  (In x a) \/ (a = [] /\ In x b) \/ (a = [] /\ b = [] /\ In x c) -> In x (first_ne a b c).
Proof.
  intros A x a b c [H|[[-> H]|[-> [-> H]]]]; unfold first_ne.
  - destruct a; [destruct H | exact H].
  - destruct b; [destruct H | exact H].
  - exact H.
Qed.

Section Sim.
Variable ic : icpts.

Definition sim_at (f : nat) (n : node) : Prop :=
  forall path ps, TreeFrame.INV ic n -> all_nodes (res1 ic) n -> params_fresh n ps ->
    (forall r q, match_children f n path ps = MFound r q -> In (npat r, q) (out ic (bel n) path ps)) /\
    (forall q, match_children f n path ps = MNone q -> out ic (bel n) path ps = []).

Lemma loop_sim : forall f n path ps, (forall c, In c (nchildren n) -> sim_at f c) ->
  TreeFrame.INV ic n -> all_nodes (res1 ic) n -> params_fresh n ps ->
  forall l, incl l (nchildren n) ->
  (forall r q, mc_loop f n path l ps = MFound r q ->
     (exists pre c post, l = pre ++ c :: post /\ (forall d, In d pre -> CO ic d path ps = []) /\
        In (npat r, q) (CO ic c path ps)) \/
     (r = n /\ q = ps /\ path = [] /\ 0 < nsize n /\ forall d, In d l -> CO ic d path ps = [])) /\
  (forall q, mc_loop f n path l ps = MNone q ->
     (forall d, In d l -> CO ic d path ps = []) /\ (path <> [] \/ nsize n = 0)).
Proof.
  intros f n path ps IHc Hinv Hres Hf.
  pose proof (TreeFrame.INV_idx_lit ic n Hinv) as Hil.
  induction l as [|c l IHl]; intro Hin.
  - rewrite mc_loop_nil. split.
    + intros r q H. right. destruct path as [|b p]; [|discriminate H].
      destruct (Nat.ltb_spec 0 (nsize n)) as [Hlt|Hge]; [|discriminate H]. injection H as <- <-.
      repeat split; [exact Hlt | intros d []].
    + intros q H. split; [intros d []|]. destruct path as [|b p]; [|left; discriminate].
      destruct (Nat.ltb_spec 0 (nsize n)) as [Hlt|Hge]; [discriminate H|]. right. lia.
  - assert (Ic : In c (nchildren n)) by (apply Hin; now left).
    assert (Hin' : incl l (nchildren n)) by (intros x Ix; apply Hin; now right).
    destruct (IHl Hin') as [IHf IHn]. rewrite mc_loop_cons_eq.
    assert (Ext : forall r q, (exists pre c0 post, l = pre ++ c0 :: post /\
                (forall d, In d pre -> CO ic d path ps = []) /\ In (npat r, q) (CO ic c0 path ps)) \/
              (r = n /\ q = ps /\ path = [] /\ 0 < nsize n /\ forall d, In d l -> CO ic d path ps = []) ->
              CO ic c path ps = [] ->
              (exists pre c0 post, c :: l = pre ++ c0 :: post /\
                (forall d, In d pre -> CO ic d path ps = []) /\ In (npat r, q) (CO ic c0 path ps)) \/
              (r = n /\ q = ps /\ path = [] /\ 0 < nsize n /\ forall d, In d (c :: l) -> CO ic d path ps = [])).
    { intros r q [[pre [c0 [post [E [Hp Hx]]]]]|[E1 [E2 [E3 [E4 Hall]]]]] Hc.
      - left. exists (c :: pre), c0, post. split; [now rewrite E|]. split; [|exact Hx].
        intros d [<-|Id]; [exact Hc | now apply Hp].
      - right. repeat split; try assumption. intros d [<-|Id]; [exact Hc | now apply Hall]. }
    destruct (seg_match (nseg c) path ps) as [[p1 ps1]|] eqn:SM.
    + assert (Hfc : params_fresh c ps1).
      { apply (TreeFrame.fresh_step n c path ps p1 ps1 Hf); [|exact Ic | exact SM].
        exact (proj2 (proj2 (proj2 (proj2 (all_nodes_here _ _ (TreeFrame.INV_child ic n c Hinv Ic)))))). }
      destruct (IHc c Ic p1 ps1 (TreeFrame.INV_child ic n c Hinv Ic) (all_nodes_child _ n c Hres Ic) Hfc)
        as [Cf Cn].
      assert (ECO : CO ic c path ps = out ic (bel c) p1 ps1) by (unfold CO; now rewrite SM).
      destruct (match_children f c p1 ps1) as [r0 q0|q0|s0] eqn:MC.
      * split; [|intros q H; discriminate H]. intros r q H. injection H as <- <-.
        left. exists [], c, l. split; [reflexivity|]. split; [intros d []|].
        rewrite ECO. exact (Cf r0 q0 eq_refl).
      * rewrite (TreeFrame.fail_restore f n c path ps p1 ps1 q0 Hil Hf Ic SM MC).
        assert (Hc : CO ic c path ps = []) by (rewrite ECO; exact (Cn q0 eq_refl)).
        split.
        -- intros r q H. exact (Ext r q (IHf r q H) Hc).
        -- intros q H. destruct (IHn q H) as [Hall Hp]. split; [|exact Hp].
           intros d [<-|Id]; [exact Hc | now apply Hall].
      * split; intros; discriminate.
    + assert (Hc : CO ic c path ps = []) by (unfold CO; now rewrite SM).
      split.
      * intros r q H. exact (Ext r q (IHf r q H) Hc).
      * intros q H. destruct (IHn q H) as [Hall Hp]. split; [|exact Hp].
        intros d [<-|Id]; [exact Hc | now apply Hall].
Qed.

Lemma self_end_found : forall n ps, 0 < nsize n -> self_end n [] ps = [(npat n, ps)].
Proof.
  intros n ps H. unfold self_end, self_res, nsize in *. destruct (nhandlers n); [cbn in H; lia | reflexivity].
Qed.

Lemma self_end_none : forall n path ps, path <> [] \/ nsize n = 0 -> self_end n path ps = [].
Proof.
  intros n path ps [H|H]; unfold self_end.
  - destruct path; [congruence | reflexivity].
  - unfold self_res, nsize in *. destruct (nhandlers n); [|discriminate H]. destruct path; reflexivity.
Qed.

Theorem sim_all : forall f n, sim_at f n.
Proof.
  induction f as [|f IH]; intros n path ps Hinv Hres Hf.
  - split; intros; discriminate.
  - rewrite (TreeFrame.mc_full ic f n path ps Hinv Hf).
    pose proof (all_nodes_here _ _ Hres) as H1.
    assert (Hch : forall c, In c (nchildren n) -> res1 ic c).
    { intros c Ic. exact (all_nodes_here _ _ (all_nodes_child _ n c Hres Ic)). }
    destruct (loop_sim f n path ps (fun c _ => IH c) Hinv Hres Hf (nchildren n) (incl_refl _)) as [Lf Ln].
    rewrite (out_bel ic n path ps H1 Hch).
    pose proof (proj1 (all_nodes_here _ _ Hinv)) as Ho.
    destruct (proj1 (order_ok_iff n) Ho) as [Hsort _].
    split.
    + intros r q H. destruct (Lf r q H) as [[pre [c [post [E [Hpre Hx]]]]]|[-> [-> [-> [Hsz Hall]]]]].
      * assert (Ic : In c (nchildren n)) by (rewrite E; apply in_or_app; right; now left).
        rewrite E in Hsort.
        assert (Hbefore : forall d, In d (nchildren n) -> rk d < rk c -> CO ic d path ps = []).
        { intros d Id Hlt. apply Hpre. rewrite E in Id. exact (nsorted_app_before pre c post d Hsort Id Hlt). }
        destruct (is_lit c) eqn:Lc.
        -- assert (Hin : In (npat r, q) (flat_map (COl ic path ps) (nchildren n))).
           { apply in_flat_map. exists c. split; [exact Ic|]. unfold COl. now rewrite Lc. }
           destruct (flat_map (COl ic path ps) (nchildren n)); [destruct Hin | exact Hin].
        -- assert (Pc : isparam (nseg c) = true).
           { rewrite TreeLit.is_lit_isparam in Lc. now apply negb_false_iff in Lc. }
           assert (Rc : 0 < rk c).
           { destruct (Nat.eq_dec (rk c) 0) as [E0|]; [|lia]. apply is_lit_rk in E0. congruence. }
           assert (EL : flat_map (COl ic path ps) (nchildren n) = []).
           { apply flat_map_nil. intros d Id. unfold COl. destruct (is_lit d) eqn:Ld; [|reflexivity].
             apply Hbefore; [exact Id|]. apply is_lit_rk in Ld. lia. }
           rewrite EL. apply in_or_app. left.
           assert (Elow : forall j, j < rk c -> flat_map (COk ic path ps j) (nchildren n) = []).
           { intros j Hj. apply flat_map_nil. intros d Id. unfold COk.
             destruct (isparam (nseg d)); [|reflexivity]. cbn [andb].
             destruct (Nat.eqb_spec (stype_rank (styp (nseg d))) j) as [Ej|]; [|reflexivity].
             apply Hbefore; [exact Id|]. unfold rk at 1. lia. }
           assert (Ehere : In (npat r, q) (flat_map (COk ic path ps (rk c)) (nchildren n))).
           { apply in_flat_map. exists c. split; [exact Ic|]. unfold COk. rewrite Pc. unfold rk.
             now rewrite Nat.eqb_refl. }
           assert (R3 : rk c <= 3) by (unfold rk; destruct (styp (nseg c)); cbn; lia).
           apply In_first_ne.
           destruct (Nat.eq_dec (rk c) 1) as [E1|N1]; [left; now rewrite <- E1|].
           destruct (Nat.eq_dec (rk c) 2) as [E2|N2].
           { right; left. split; [apply Elow; lia | now rewrite <- E2]. }
           right; right. assert (E3 : rk c = 3) by lia.
           split; [apply Elow; lia|]. split; [apply Elow; lia | now rewrite <- E3].
      * assert (EL : flat_map (COl ic [] ps) (nchildren n) = []).
        { apply flat_map_nil. intros d Id. unfold COl. destruct (is_lit d); [now apply Hall | reflexivity]. }
        assert (EK : forall k, flat_map (COk ic [] ps k) (nchildren n) = []).
        { intro k. apply flat_map_nil. intros d Id. unfold COk.
          destruct (isparam (nseg d) && _); [now apply Hall | reflexivity]. }
        rewrite EL, !EK, first_ne_nil, (self_end_found n ps Hsz). now left.
    + intros q H. destruct (Ln q H) as [Hall Hp].
      assert (EL : flat_map (COl ic path ps) (nchildren n) = []).
      { apply flat_map_nil. intros d Id. unfold COl. destruct (is_lit d); [now apply Hall | reflexivity]. }
      assert (EK : forall k, flat_map (COk ic path ps k) (nchildren n) = []).
      { intro k. apply flat_map_nil. intros d Id. unfold COk.
        destruct (isparam (nseg d) && _); [now apply Hall | reflexivity]. }
      rewrite EL, !EK, first_ne_nil, (self_end_none n path ps Hp). reflexivity.
Qed.

(* (C) : the node-level simulation *)
Theorem match_children_refines : forall f n path ps,
  TreeFrame.INV ic n -> all_nodes (res1 ic) n -> params_fresh n ps ->
  match match_children f n path ps with
  | MFound r q => In (npat r, q) (out ic (bel n) path ps)
  | MNone _ => out ic (bel n) path ps = []
  | MPanic _ => True
  end.
Proof.
  intros f n path ps Hinv Hres Hf. destruct (sim_all f n path ps Hinv Hres Hf) as [Sf Sn].
  destruct (match_children f n path ps) as [r q|q|s]; [now apply Sf | now apply (Sn q) | exact I].
Qed.

End Sim.

(* ================================================================ Part 7 : Tree.Handler against the resolver,
   under the invariants (stated for any tree; Part 2 of the development discharges them for add-only histories) *)

Definition tree_resid (t : tree) : list resid := flat_map blk (nchildren (troot t)).

Lemma out_drop_nil : forall ic x R path ps, rts x = [] -> path <> [] ->
  out ic (x :: R) path ps = out ic R path ps.
Proof.
  intros ic x R path ps Hx Hp. rewrite (out_eq ic (x :: R)), (out_eq ic R).
  assert (HK : forall key, has_key key x = false) by (intro key; unfold has_key, par_key; now rewrite Hx).
  assert (EL : lout ic (x :: R) path ps = lout ic R path ps).
  { unfold lout. destruct path as [|b p]; [reflexivity|]. f_equal.
    unfold lit_step_R. cbn [filter]. now rewrite Hx. }
  assert (EK : forall k, kout ic (x :: R) path ps k = kout ic R path ps k).
  { intro k. unfold kout. cbn [keys_of_rank]. unfold par_key at 1. rewrite Hx.
    apply flat_map_ext_in. intros [[[ign name] rule] nb] _. unfold gout. cbn [filter]. now rewrite HK. }
  assert (EE : end_out (x :: R) path ps = end_out R path ps).
  { unfold end_out. destruct path; [congruence | reflexivity]. }
  rewrite EL, !EK, EE. reflexivity.
Qed.

Lemma out_bel_root : forall ic t path ps, path <> [] ->
  out ic (bel (troot t)) path ps = out ic (tree_resid t) path ps.
Proof.
  intros ic t path ps Hp. rewrite bel_eq. fold (tree_resid t). unfold self_res.
  destruct (nhandlers (troot t)); [reflexivity|]. cbn [app]. now apply out_drop_nil.
Qed.

Definition refines (ic : icpts) (t : tree) (method path : bytes) : Prop :=
  match tree_handler t method path [] with
  | HFound _ (Some n) _ ps => In (npat n, ps) (out ic (tree_resid t) path [])
  | HFound _ None _ _ => out ic (tree_resid t) path [] = []
  | HPanic _ => False
  end.

Theorem tree_handler_refines : forall ic t method path,
  tree_safe t -> TreeFrame.INV ic (troot t) -> all_nodes (res1 ic) (troot t) ->
  path <> [] -> path <> bs "*" -> (ttrace t = None \/ method <> TRACE) ->
  refines ic t method path.
Proof.
  intros ic t method path Hsafe Hinv Hres Hne Hstar Htr. unfold refines.
  pose proof (handler_total t method path [] ) as Htot.
  pose proof (match_children_refines ic (tree_fuel t) (troot t) path [] Hinv Hres (TreeFrame.root_fresh _)) as S.
  rewrite (out_bel_root ic t path [] Hne) in S.
  rewrite tree_handler_eq in *.
  assert (T : match ttrace t with Some h => if beqb method TRACE then Some h else None | None => None end = None).
  { destruct (ttrace t) as [h|]; [|reflexivity].
    destruct Htr as [E|Nm]; [discriminate E|]. apply beqb_neq in Nm. now rewrite Nm. }
  rewrite T in *. apply beqb_neq in Hne. apply beqb_neq in Hstar. rewrite Hne, Hstar in *. cbn [orb] in *.
  destruct (match_children (tree_fuel t) (troot t) path []) as [r q|q|s] eqn:MC; unfold handler_of in *.
  - destruct (TreeLit.match_found_below _ _ _ _ _ _ MC) as [_ Hs].
    destruct (Nat.eqb_spec (nsize r) 0) as [E|_]; [lia|].
    destruct (lookup_handler method (nhandlers r)); [exact S|].
    destruct (alookup M405 (nhandlers r)) eqn:A; [exact S|].
    exact (Htot (bs "Handler:nil-405") Hsafe eq_refl).
  - exact S.
  - exact (Htot s Hsafe eq_refl).
Qed.
