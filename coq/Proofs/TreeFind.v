(* C03 / C17 / C10 at tree level: [find] (the lookup used by Tree.Add, Tree.Remove and the strict
   Tree.URL) is sound and complete with respect to the pattern texts stored in the tree, and the
   lifecycle consequences: a registration is reachable, a duplicate registration is rejected
   before the tree is touched, a strict URL needs a live route.
   - Part A: find / find_chain versus [npat] (needs only the pattern invariant [pat_ok]);
   - Part C: registration (the node updated is in the new tree and spells the pattern),
     duplicate rejection (never a runtime fault: checkAmbiguous and Split do not panic),
     strict URL, removal ([remove_in] walks like [find] and changes one node: [one_changed]);
     the statements "by pattern" are proved under [pattern_once p root] (the number of nodes
     below the root spelling [p], a computable [cnt], is at most 1);
   - Part B: [pattern_once] is NOT an invariant of reachable trees: the history
         "/{a", "/{a{b}x", "/{a{c}y"
     yields two sibling literal nodes "{a" (the split of "{a{b}x" at its second '{' creates the
     second one); registering GET "/{a" again is then accepted, and removing "/{a" leaves a node
     "/{a" that still answers GET.  The four refutations are at the end of the file.  Uniqueness
     for histories whose patterns pass a well-formedness check (TreeNames.pat_wf, Table.tokens)
     is not proved here.
   Theorems are re-exported by Props/C03find.v. *)
From Coq Require Import String.
From Mux Require Import Model.Bytes Model.Regex Model.Context Model.Syntax Model.Tree
  Proofs.BytesFacts Proofs.MatchSound Proofs.Misc2 Proofs.ParseTotal Proofs.TreeSafe Proofs.TreeAllow
  Proofs.TreeText Proofs.TreeOnion.
From Mux Require Proofs.TreeNames Spec.Table.

(* ================================================================ definitions *)

Definition in_tree (root n : node) : Prop := desc root n.

(* [d] is [n] or below it *)
Definition dself (n d : node) : Prop := d = n \/ desc n d.

(* consecutive elements are parent and child, starting below [parent] *)
Fixpoint linked (parent : node) (chain : list node) : Prop :=
  match chain with
  | [] => True
  | x :: rest => In x (nchildren parent) /\ linked x rest
  end.

(* ================================================================ Part A : find *)

Definition fd_go (f : nat) (pattern : bytes) :=
  fix go (c : list node) : option node :=
    match c with
    | [] => None
    | ch :: c' =>
      if beqb (sval (nseg ch)) pattern then Some ch
      else if has_prefix pattern (sval (nseg ch)) then
        match find f ch (skipn (length (sval (nseg ch))) pattern) with
        | Some r => Some r
        | None => go c'
        end
      else go c'
    end.

Lemma find_S : forall f n pattern, find (S f) n pattern = fd_go f pattern (nchildren n).
Proof. reflexivity. Qed.

Definition fc_go (f : nat) (pattern : bytes) :=
  fix go (c : list node) : option (list node) :=
    match c with
    | [] => None
    | ch :: c' =>
      if beqb (sval (nseg ch)) pattern then Some [ch]
      else if has_prefix pattern (sval (nseg ch)) then
        match find_chain f ch (skipn (length (sval (nseg ch))) pattern) with
        | Some r => Some (ch :: r)
        | None => go c'
        end
      else go c'
    end.

Lemma find_chain_S : forall f n pattern, find_chain (S f) n pattern = fc_go f pattern (nchildren n).
Proof. reflexivity. Qed.

Lemma desc_trans_child : forall n ch d, In ch (nchildren n) -> dself ch d -> desc n d.
Proof.
  intros n ch d Ich [->|D]; [now apply desc_child | now apply (desc_step n ch)].
Qed.

Lemma desc_first : forall n r, desc n r -> exists ch, In ch (nchildren n) /\ (r = ch \/ desc ch r).
Proof.
  intros n r D. destruct D as [n ch Ich|n ch d Ich D].
  - exists ch. split; [exact Ich | now left].
  - exists ch. split; [exact Ich | now right].
Qed.

Lemma desc_same_children : forall a b d, nchildren a = nchildren b -> desc a d -> desc b d.
Proof.
  intros a b d E D. destruct (desc_first _ _ D) as [ch [Ich Hd]]. rewrite E in Ich.
  apply (desc_trans_child b ch); [exact Ich | exact Hd].
Qed.

(* the text of a descendant extends the text of its ancestor *)
Lemma desc_pat : forall n r, all_nodes pat_ok n -> desc n r -> exists q, npat r = npat n ++ q.
Proof.
  intros n r Hn D. induction D as [n ch Ich|n ch d Ich D IH].
  - exists (sval (nseg ch)). exact (all_nodes_here _ _ Hn ch Ich).
  - destruct (IH (all_nodes_child _ _ _ Hn Ich)) as [q Hq].
    exists (sval (nseg ch) ++ q). rewrite Hq, (all_nodes_here _ _ Hn ch Ich). now rewrite app_assoc.
Qed.

Lemma skipn_len_app : forall (a b : bytes), skipn (length a) (a ++ b) = b.
Proof. intros a b. now rewrite skipn_app, skipn_all, Nat.sub_diag. Qed.

Theorem C03_find_sound_l : forall fuel n q r, all_nodes pat_ok n -> find fuel n q = Some r ->
  desc n r /\ npat r = npat n ++ q.
Proof.
  induction fuel as [|f IH]; intros n q r Hn H; [discriminate|].
  rewrite find_S in H.
  assert (Hgo : forall c, incl c (nchildren n) -> fd_go f q c = Some r ->
            desc n r /\ npat r = npat n ++ q).
  { induction c as [|ch c IHc]; intros Hin Hg; [discriminate|].
    assert (Ich : In ch (nchildren n)) by (apply Hin; now left).
    assert (Hin' : incl c (nchildren n)) by (intros y Hy; apply Hin; now right).
    pose proof (all_nodes_here _ _ Hn ch Ich) as Pch.
    cbn [fd_go] in Hg.
    destruct (beqb_spec (sval (nseg ch)) q) as [Eq|Nq].
    - injection Hg as <-. split; [now apply desc_child | now rewrite Pch, Eq].
    - destruct (has_prefix q (sval (nseg ch))) eqn:HP; [|exact (IHc Hin' Hg)].
      destruct (find f ch (skipn (length (sval (nseg ch))) q)) as [r1|] eqn:F; [|exact (IHc Hin' Hg)].
      injection Hg as <-.
      destruct (IH _ _ _ (all_nodes_child _ _ _ Hn Ich) F) as [D P].
      split; [now apply (desc_step n ch)|].
      rewrite P, Pch, <- app_assoc. f_equal. symmetry. now apply has_prefix_skipn. }
  exact (Hgo _ (incl_refl _) H).
Qed.

Theorem C03_find_complete_l : forall fuel n r, all_nodes pat_ok n -> (height n <= fuel)%nat -> desc n r ->
  exists r', find fuel n (skipn (length (npat n)) (npat r)) = Some r' /\ npat r' = npat r.
Proof.
  induction fuel as [|f IH]; intros n r Hn Hh D; [rewrite height_eq in Hh; lia|].
  rewrite find_S.
  destruct (desc_pat _ _ Hn D) as [q Hq]. rewrite Hq, skipn_len_app.
  destruct (desc_first _ _ D) as [ch [Ich Hd]].
  assert (Hgo : forall c, incl c (nchildren n) -> In ch c ->
            exists r', fd_go f q c = Some r' /\ npat r' = npat n ++ q).
  { induction c as [|x c IHc]; intros Hin Hc; [destruct Hc|].
    assert (Ix : In x (nchildren n)) by (apply Hin; now left).
    assert (Hin' : incl c (nchildren n)) by (intros y Hy; apply Hin; now right).
    pose proof (all_nodes_here _ _ Hn x Ix) as Px.
    pose proof (all_nodes_child _ _ _ Hn Ix) as Ax.
    cbn [fd_go].
    destruct (beqb_spec (sval (nseg x)) q) as [Eq|Nq].
    - exists x. split; [reflexivity | now rewrite Px, Eq].
    - destruct (has_prefix q (sval (nseg x))) eqn:HP.
      + destruct (find f x (skipn (length (sval (nseg x))) q)) as [r1|] eqn:F.
        * exists r1. split; [reflexivity|].
          destruct (C03_find_sound_l _ _ _ _ Ax F) as [_ P].
          rewrite P, Px, <- app_assoc. f_equal. symmetry. now apply has_prefix_skipn.
        * destruct Hc as [->|Hc]; [|exact (IHc Hin' Hc)]. exfalso.
          destruct Hd as [->|Dch]; [apply Nq; rewrite Px in Hq; now apply app_inv_head in Hq|].
          assert (Hf : (height ch <= f)%nat) by (apply height_child in Ich; lia).
          destruct (IH ch r Ax Hf Dch) as [r' [F' _]].
          assert (E : skipn (length (npat ch)) (npat r) = skipn (length (sval (nseg ch))) q).
          { destruct (desc_pat _ _ Ax Dch) as [q' Hq']. rewrite Hq', skipn_len_app.
            rewrite Hq', Px, <- app_assoc in Hq. apply app_inv_head in Hq. subst q.
            now rewrite skipn_len_app. }
          rewrite E, F in F'. discriminate F'.
      + destruct Hc as [->|Hc]; [|exact (IHc Hin' Hc)]. exfalso.
        assert (Hp : exists q', q = sval (nseg ch) ++ q').
        { destruct Hd as [->|Dch].
          - exists []. rewrite Px in Hq. apply app_inv_head in Hq. now rewrite app_nil_r.
          - destruct (desc_pat _ _ Ax Dch) as [q' Hq']. exists q'.
            rewrite Hq', Px, <- app_assoc in Hq. now apply app_inv_head in Hq. }
        destruct Hp as [q' ->]. now rewrite has_prefix_app in HP. }
  destruct (Hgo _ (incl_refl _) Ich) as [r' [F P]]. exists r'. split; [exact F | exact P].
Qed.

(* [find] is the last element of [find_chain] *)
Lemma find_chain_find : forall fuel n q,
  find fuel n q = match find_chain fuel n q with Some chain => Some (last chain n) | None => None end.
Proof.
  induction fuel as [|f IH]; intros n q; [reflexivity|].
  rewrite find_S, find_chain_S.
  assert (Hgo : forall c d, fd_go f q c =
            match fc_go f q c with Some chain => Some (last chain d) | None => None end).
  { induction c as [|ch c IHc]; intro d; [reflexivity|]. cbn [fd_go fc_go].
    destruct (beqb (sval (nseg ch)) q); [reflexivity|].
    destruct (has_prefix q (sval (nseg ch))); [|apply IHc].
    rewrite IH.
    destruct (find_chain f ch (skipn (length (sval (nseg ch))) q)) as [[|x chain]|]; [reflexivity| |apply IHc].
    f_equal. exact (last_cons_default _ chain x ch d). }
  apply Hgo.
Qed.

Lemma find_chain_linked : forall fuel n q chain, find_chain fuel n q = Some chain ->
  chain <> [] /\ linked n chain.
Proof.
  induction fuel as [|f IH]; intros n q chain H; [discriminate|].
  rewrite find_chain_S in H.
  assert (Hgo : forall c, incl c (nchildren n) -> fc_go f q c = Some chain ->
            chain <> [] /\ linked n chain).
  { induction c as [|ch c IHc]; intros Hin Hg; [discriminate|].
    assert (Ich : In ch (nchildren n)) by (apply Hin; now left).
    assert (Hin' : incl c (nchildren n)) by (intros y Hy; apply Hin; now right).
    cbn [fc_go] in Hg.
    destruct (beqb (sval (nseg ch)) q).
    - injection Hg as <-. split; [discriminate | cbn [linked]; now split].
    - destruct (has_prefix q (sval (nseg ch))); [|exact (IHc Hin' Hg)].
      destruct (find_chain f ch (skipn (length (sval (nseg ch))) q)) as [r1|] eqn:F; [|exact (IHc Hin' Hg)].
      injection Hg as <-. split; [discriminate|]. cbn [linked]. split; [exact Ich|].
      exact (proj2 (IH _ _ _ F)). }
  exact (Hgo _ (incl_refl _) H).
Qed.

Theorem C10_find_chain_sound_l : forall fuel n q chain, all_nodes pat_ok n ->
  find_chain fuel n q = Some chain ->
  chain <> [] /\ linked n chain /\ desc n (last chain n) /\ npat (last chain n) = npat n ++ q.
Proof.
  intros fuel n q chain Hn H. destruct (find_chain_linked _ _ _ _ H) as [Hne Hl].
  split; [exact Hne|]. split; [exact Hl|].
  apply (C03_find_sound_l fuel n q); [exact Hn|]. now rewrite find_chain_find, H.
Qed.

Theorem C10_find_chain_complete_l : forall fuel n r, all_nodes pat_ok n -> (height n <= fuel)%nat ->
  desc n r ->
  exists chain, find_chain fuel n (skipn (length (npat n)) (npat r)) = Some chain /\
    npat (last chain n) = npat r.
Proof.
  intros fuel n r Hn Hh D. destruct (C03_find_complete_l fuel n r Hn Hh D) as [r' [F P]].
  rewrite find_chain_find in F.
  destruct (find_chain fuel n (skipn (length (npat n)) (npat r))) as [chain|]; [|discriminate F].
  injection F as <-. exists chain. now split.
Qed.

(* ================================================================ Part C : lifecycle *)

(* ---------------------------------------------------------------- list facts *)
Lemma In_replace_nth_self : forall (A : Type) (l : list A) i (x y : A),
  nth_error l i = Some x -> In y (replace_nth i y l).
Proof.
  intros A l. induction l as [|z l IH]; intros i x y H; [destruct i; discriminate H|].
  destruct i as [|i]; simpl; [now left|]. right. exact (IH i x y H).
Qed.

Lemma In_sinsert_rev : forall x y l, x = y \/ In x l -> In x (sinsert y l).
Proof.
  intros x y l. induction l as [|z l IH]; simpl; intro H.
  - destruct H as [->|[]]. now left.
  - destruct (Nat.ltb (fst z) (fst y)).
    + destruct H as [->|[->|H]]; [right; apply IH; now left | now left | right; apply IH; now right].
    + destruct H as [->|H]; [now left | now right].
Qed.

Lemma In_ssort_rev : forall l x, In x (map snd l) -> In x (ssort l).
Proof.
  intros l x H. unfold ssort. apply in_map_iff in H. destruct H as [p [<- Hp]].
  apply in_map. induction l as [|z l IH]; [destruct Hp|]. simpl.
  apply In_sinsert_rev. destruct Hp as [->|Hp]; [now left | right; now apply IH].
Qed.

Lemma sort_node_children : forall n keyed n', sort_node n keyed = Ok n' -> nchildren n' = ssort keyed.
Proof.
  intros n keyed n' H. apply sort_node_inv in H. destruct H as [ix [_ ->]].
  apply nchildren_set_children.
Qed.

(* ---------------------------------------------------------------- the node a registration updates
   is a descendant of the new root; [R] is whatever the update establishes at that node *)
Section Reg.
Variable R : node -> Prop.

Definition kc (tp : bytes) (k : node -> res node) : Prop :=
  forall ch ch', all_nodes (inv QT) ch -> npat ch = tp -> k ch = Ok ch' ->
    keeps QT ch ch' /\ exists d, dself ch' d /\ R d.

Lemma add_segment_reg : forall fuel ic n seg k n', all_nodes (inv QT) n ->
  kc (npat n ++ sval seg) k -> add_segment fuel ic n seg k = Ok n' ->
  keeps QT n n' /\ exists d, desc n' d /\ R d.
Proof.
  induction fuel as [|f IH]; intros ic n seg k n' Hn Hk H; [discriminate|].
  rewrite add_segment_S in H. cbv zeta in H.
  assert (Hcont : forall l ch ch', all_nodes (inv QT) ch -> npat ch = npat n ++ firstn l (sval seg) ->
            add_continue f ic seg l k ch = Ok ch' -> keeps QT ch ch' /\ exists d, dself ch' d /\ R d).
  { intros l ch ch' Hch Hp Hc. unfold add_continue in Hc.
    destruct (Nat.eqb_spec (length (sval seg)) l) as [El|Nl].
    - apply (Hk _ _ Hch); [|exact Hc]. rewrite Hp. f_equal. apply firstn_all2. lia.
    - repeat res_step Hc.
      assert (G : keeps QT ch ch' /\ exists d, desc ch' d /\ R d).
      { refine (IH _ _ _ _ _ Hch _ Hc). rewrite (new_segment_value _ _ _ E0).
        apply slice_or_panic_ok in E. rewrite (gslice_to_end _ _ _ E).
        rewrite Hp, <- app_assoc, firstn_skipn. exact Hk. }
      destruct G as [G1 [d [D Rd]]]. split; [exact G1|]. exists d. split; [now right | exact Rd]. }
  (* a replaced child *)
  assert (Hrep : forall i ch ch', nth_error (nchildren n) i = Some ch ->
            keeps QT ch ch' /\ (exists d, dself ch' d /\ R d) ->
            keeps QT n (set_children n (replace_nth i ch' (nchildren n)) (nindexes n)) /\
            exists d, desc (set_children n (replace_nth i ch' (nchildren n)) (nindexes n)) d /\ R d).
  { intros i ch ch' NTH [G1 [d [D Rd]]].
    assert (Ich : In ch (nchildren n)) by (eapply nth_error_In; eassumption).
    split; [now apply (replace_child_keeps QT n i ch)|].
    exists d. split; [|exact Rd]. apply (desc_trans_child _ ch'); [|exact D].
    rewrite nchildren_set_children. exact (In_replace_nth_self _ _ _ _ _ NTH). }
  (* a child appended and sorted in *)
  assert (Hsort : forall others pr y n1, sort_node n (with_prio others ++ [(pr, y)]) = Ok n1 ->
            incl others (nchildren n) -> npat y = npat n ++ sval (nseg y) -> all_nodes (inv QT) y ->
            (exists d, dself y d /\ R d) ->
            keeps QT n n1 /\ exists d, desc n1 d /\ R d).
  { intros others pr y n1 Hs Hin Py Ay [d [D Rd]]. split.
    - apply (sort_node_keeps QT _ _ _ Hs); [exact I|]. rewrite map_app, map_snd_with_prio. cbn [map snd].
      intros z Hz. apply in_app_or in Hz. destruct Hz as [Hz|[<-|[]]].
      + apply (all_pat_child QT); [exact Hn | now apply Hin].
      + now split.
    - exists d. split; [|exact Rd]. apply (desc_trans_child _ y); [|exact D].
      rewrite (sort_node_children _ _ _ Hs). apply In_ssort_rev. rewrite map_app.
      apply in_or_app. right. now left. }
  destruct (scan_sim seg (nchildren n) 0 None) as [[i|] best] eqn:SC.
  - (* identical child *)
    destruct (nth_error (nchildren n) i) as [ch|] eqn:NTH; [|discriminate].
    assert (Ich : In ch (nchildren n)) by (eapply nth_error_In; eassumption).
    destruct (scan_sim_some _ _ _ _ _ _ SC) as [ch0 [_ [N0 S0]]].
    rewrite Nat.sub_0_r, NTH in N0. injection N0 as <-.
    res_step H. injection H as <-.
    destruct (all_pat_child QT _ _ Hn Ich) as [Pch Ach].
    apply (Hrep i ch x NTH). apply Hk; [exact Ach | | exact E].
    rewrite Pch. f_equal. now apply similarity_same.
  - destruct best as [[i l]|].
    + (* a child shares a prefix *)
      destruct (nth_error (nchildren n) i) as [ch|] eqn:NTH; [|discriminate].
      assert (Ich : In ch (nchildren n)) by (eapply nth_error_In; eassumption).
      destruct (all_pat_child QT _ _ Hn Ich) as [Pch Ach].
      assert (CP : cpre (Z.to_nat l) (sval (nseg ch)) (sval seg)).
      { destruct (scan_sim_best _ _ _ _ _ _ SC) as [E|[ch0 [_ [N0 S0]]]]; [discriminate E|].
        rewrite Nat.sub_0_r, NTH in N0. injection N0 as <-. rewrite <- S0. apply similarity_cpre. }
      destruct CP as [L1 [L2 L3]].
      destruct (Nat.leb_spec (length (sval (nseg ch))) (Z.to_nat l)) as [Hle|Hgt].
      * res_step H. injection H as <-.
        apply (Hrep i ch x NTH). refine (Hcont (Z.to_nat l) _ _ Ach _ E).
        rewrite Pch. f_equal. rewrite <- L3. symmetry. now apply firstn_all2.
      * res_step H. destruct x as [s1 s2].
        pose proof (seg_split_first _ _ _ _ _ E) as V1.
        apply seg_split_value in E.
        res_step H. rename x into ret. res_step H. rename x into ret'.
        assert (Hret : keeps QT (Node s1 (npat n ++ sval s1) 0 [] [] []) ret).
        { apply (sort_node_keeps QT _ _ _ E0); [exact I|]. rewrite map_snd_with_prio. intros y [<-|[]].
          destruct (set_seg_facts ch s2) as [Hp [Hs Hc]]. rewrite Hp, Hs. cbn [npat].
          split; [rewrite Pch, <- E; now rewrite app_assoc|].
          apply (same_shape QT ch _ Hp Hc); [exact I | exact Ach]. }
        destruct Hret as [Aret [Pret Sret]]. cbn [npat nseg] in Pret, Sret.
        assert (G : keeps QT ret ret' /\ exists d, dself ret' d /\ R d).
        { refine (Hcont (Z.to_nat l) _ _ Aret _ E1). rewrite Pret, V1. f_equal. exact L3. }
        destruct G as [[Aret' [Pret' Sret']] G2].
        apply (Hsort _ _ _ _ H); [| | exact Aret' | exact G2].
        -- intros z Hz. now apply In_remove_nth in Hz.
        -- now rewrite Pret', Sret', Pret, Sret.
    + (* a new child *)
      res_step H. rename x into nn'.
      assert (Hnn : all_nodes (inv QT) (new_node n seg))
        by (apply (all_pat_intro QT); [exact I | intros ch []]).
      assert (G : keeps QT (new_node n seg) nn' /\ exists d, dself nn' d /\ R d)
        by (apply Hk; [exact Hnn | reflexivity | exact E]).
      destruct G as [[Ann [Pnn Snn]] G2]. cbn [new_node npat nseg] in Pnn, Snn.
      apply (Hsort _ _ _ _ H); [apply incl_refl | | exact Ann | exact G2].
      now rewrite Pnn, Snn.
Qed.

Lemma get_node_reg : forall fuel ic segs n upd n', all_nodes (inv QT) n ->
  kc (npat n ++ concat (map sval segs)) upd ->
  get_node fuel ic n segs upd = Ok n' -> keeps QT n n' /\ exists d, desc n' d /\ R d.
Proof.
  intros fuel ic segs. induction segs as [|seg rest IH]; intros n upd n' Hn Hk H; [discriminate|].
  destruct rest as [|seg2 rest].
  - cbn [get_node] in H. apply (add_segment_reg _ _ _ _ _ _ Hn) in H; [exact H|].
    cbn [map concat] in Hk. now rewrite app_nil_r in Hk.
  - cbn [get_node] in H. refine (add_segment_reg _ _ _ _ _ _ Hn _ H).
    intros ch ch' Hch Hp Hc.
    assert (G : keeps QT ch ch' /\ exists d, desc ch' d /\ R d).
    { refine (IH ch upd ch' Hch _ Hc). rewrite Hp, <- app_assoc. exact Hk. }
    destruct G as [G1 [d [D Rd]]]. split; [exact G1|]. exists d. split; [now right | exact Rd].
Qed.

End Reg.

(* every successful [tree_add], taken apart *)
Lemma tree_add_inv2 : forall t p h mws ms t', tree_add t p h mws ms = Ok t' ->
  let ms' := match ms with [] => any_methods | _ => ms end in
  exists segs root', split (tic t) p = Ok segs /\
    get_node (tree_fuel t + length p + 2) (tic t) (troot t) segs
      (add_methods (has_trace t) (tname t) h p mws ms') = Ok root' /\
    t' = tree_build_methods t root' 1 ms'.
Proof.
  intros t p h mws ms t' H ms'. unfold tree_add in H. cbv zeta in H. fold ms' in H.
  res_step H.
  assert (G : (do segs <- split (tic t) p;
     do _ <- check_methods (has_trace t)
               (match find (tree_fuel t + length p + 2) (troot t) p with Some n => nhandlers n | None => [] end) [] ms';
     do root' <- get_node (tree_fuel t + length p + 2) (tic t) (troot t) segs
                   (add_methods (has_trace t) (tname t) h p mws ms');
     Ok (tree_build_methods t root' 1 ms')) = Ok t').
  { destruct x as [[amb [|]]|]; [discriminate | exact H | exact H]. }
  clear H. repeat res_step G. injection G as <-.
  exists x0, x2. split; [reflexivity|]. split; [exact E2 | reflexivity].
Qed.

Theorem C03_add_registers_l : forall t p h mws ms t', tree_pat_ok t -> tree_hs_ok t ->
  tree_add t p h mws ms = Ok t' ->
  exists n, desc (troot t') n /\ npat n = p /\
    (forall m, In m (match ms with [] => any_methods | _ => ms end) -> ahas m (nhandlers n) = true) /\
    ahas OPTIONS (nhandlers n) = true /\ ahas M405 (nhandlers n) = true.
Proof.
  intros t p h mws ms t' Hpat _ H. apply tree_add_inv2 in H. cbv zeta in H.
  destruct H as [segs [root' [SP [G ->]]]].
  set (ms' := match ms with [] => any_methods | _ => ms end) in *.
  apply tree_pat_inv_QT in Hpat. destruct Hpat as [Ha Hroot].
  pose (R := fun d : node => npat d = p /\ (forall m, In m ms' -> ahas m (nhandlers d) = true) /\
                             ahas OPTIONS (nhandlers d) = true /\ ahas M405 (nhandlers d) = true).
  apply (get_node_reg R _ _ _ _ _ _ Ha) in G.
  - destruct G as [_ [d [D Rd]]]. exists d. split; [|exact Rd].
    unfold tree_build_methods. cbn [troot].
    apply (desc_same_children root'); [now rewrite nchildren_set_handlers | exact D].
  - rewrite Hroot, (split_concat _ _ _ SP). cbn [app].
    intros ch ch' Hch Hp Hc. rewrite add_methods_eq in Hc. res_step Hc. injection Hc as <-.
    split; [now apply (set_handlers_keeps QT)|].
    eexists. split; [left; reflexivity|]. unfold R.
    rewrite (proj1 (set_handlers_facts _ _ _)), nhandlers_set_handlers.
    split; [exact Hp|].
    split; [|split]; [intros m Hm | |]; apply ahas_In, add_hs_keys; tauto.
Qed.

(* ---------------------------------------------------------------- checkAmbiguous never faults *)
Definition ca_go (f : nat) (ic : icpts) (pattern : bytes) (nonstr : bool) :=
  fix go (c : list node) : res (option (bytes * bool)) :=
    match c with
    | [] => Ok None
    | ch :: c' =>
      let seg := nseg ch in
      if has_prefix pattern (sval seg) then
        do r <- check_amb f ic ch (skipn (length (sval seg)) pattern) nonstr;
        match r with Some x => Ok (Some x) | None => go c' end
      else
        do segs <- split ic pattern;
        match segs with
        | [] => Panic (bs "checkAmbiguous:index")
        | s0 :: _ =>
          if is_ambiguous seg s0 then
            do rest <- slice_or_panic "checkAmbiguous:slice" pattern (length (sval s0)) (length pattern);
            do r <- check_amb f ic ch rest true;
            match r with Some x => Ok (Some x) | None => go c' end
          else go c'
        end
    end.

Lemma check_amb_S : forall f ic n pattern nonstr,
  check_amb (S f) ic n pattern nonstr =
  match pattern with
  | [] => Ok (if Nat.ltb O (nsize n) then Some (npat n, nonstr) else None)
  | _ => ca_go f ic pattern nonstr (nchildren n)
  end.
Proof. intros f ic n pattern nonstr. destruct pattern; reflexivity. Qed.

Lemma check_amb_np : forall fuel ic n pattern nonstr, (height n <= fuel)%nat ->
  np (check_amb fuel ic n pattern nonstr).
Proof.
  induction fuel as [|f IH]; intros ic n pattern nonstr Hh; [rewrite height_eq in Hh; lia|].
  rewrite check_amb_S. destruct pattern as [|b0 pt]; [apply np_ok|].
  remember (b0 :: pt) as pat eqn:Epat.
  assert (Hne : pat <> []) by (rewrite Epat; discriminate). clear Epat b0 pt.
  assert (Hgo : forall c, incl c (nchildren n) -> np (ca_go f ic pat nonstr c)).
  { induction c as [|ch c IHc]; intro Hin; [apply np_ok|].
    assert (Ich : In ch (nchildren n)) by (apply Hin; now left).
    assert (Hin' : incl c (nchildren n)) by (intros y Hy; apply Hin; now right).
    assert (Hf : (height ch <= f)%nat) by (apply height_child in Ich; lia).
    cbn [ca_go]. cbv zeta.
    destruct (has_prefix pat (sval (nseg ch))).
    - apply np_bind; [now apply IH|]. intros r _. destruct r; [apply np_ok | now apply IHc].
    - apply np_bind; [apply split_np|]. intros segs Hs.
      pose proof (split_concat _ _ _ Hs) as Hc.
      destruct segs as [|s0 segs]; [now elim Hne|].
      destruct (is_ambiguous (nseg ch) s0); [|now apply IHc].
      assert (Hl : (length (sval s0) <= length pat)%nat).
      { rewrite <- Hc. cbn [map concat]. rewrite app_length. lia. }
      rewrite (slice_ok _ _ _ _ Hl (Nat.le_refl _)). cbn [bind].
      apply np_bind; [now apply IH|]. intros r _. destruct r; [apply np_ok | now apply IHc]. }
  exact (Hgo _ (incl_refl _)).
Qed.

(* ---------------------------------------------------------------- C17 *)
Theorem C17_duplicate_rejected_tree_l : forall t p h mws ms n m, tree_pat_ok t ->
  find (tree_fuel t + length p + 2) (troot t) p = Some n -> ahas m (nhandlers n) = true ->
  In m (match ms with [] => any_methods | _ => ms end) ->
  exists e, tree_add t p h mws ms = Err e \/ tree_add t p h mws ms = Unsup.
Proof.
  intros t p h mws ms n m _ Hf Hm Hin. unfold tree_add. cbv zeta. rewrite Hf.
  set (ms' := match ms with [] => any_methods | _ => ms end) in *.
  set (fuel := (tree_fuel t + length p + 2)%nat).
  assert (G : exists e,
    (do segs <- split (tic t) p;
     do _ <- check_methods (has_trace t) (nhandlers n) [] ms';
     do root' <- get_node fuel (tic t) (troot t) segs (add_methods (has_trace t) (tname t) h p mws ms');
     Ok (tree_build_methods t root' 1 ms')) = Err e \/
    (do segs <- split (tic t) p;
     do _ <- check_methods (has_trace t) (nhandlers n) [] ms';
     do root' <- get_node fuel (tic t) (troot t) segs (add_methods (has_trace t) (tname t) h p mws ms');
     Ok (tree_build_methods t root' 1 ms')) = Unsup).
  { pose proof (split_np (tic t) p) as NP.
    destruct (split (tic t) p) as [segs|e|s|]; cbn [bind].
    - destruct (C17_check_is_only_error_kind_l (has_trace t) (nhandlers n) [] ms') as [Hok|[e He]].
      + exfalso. exact (C17_duplicate_rejected_l _ _ _ _ Hin Hm Hok).
      + rewrite He. cbn [bind]. exists e. now left.
    - exists e. now left.
    - exfalso. now apply (NP s).
    - exists []. now right. }
  assert (NP : np (check_amb fuel (tic t) (troot t) p false))
    by (apply check_amb_np; unfold fuel, tree_fuel; lia).
  destruct (check_amb fuel (tic t) (troot t) p false) as [amb|e|s|]; cbn [bind].
  - destruct amb as [[a [|]]|]; [exists (bs "ambiguous"); now left | exact G | exact G].
  - exists e. now left.
  - exfalso. now apply (NP s).
  - exists []. now right.
Qed.

Theorem C17_rejected_add_is_noop_l : forall t p h mws ms e,
  tree_add t p h mws ms = Err e -> keep t (tree_add t p h mws ms) = t.
Proof. intros t p h mws ms e H. now rewrite H. Qed.

(* ---------------------------------------------------------------- C10 : strict URL *)
Theorem C10_strict_requires_live_l : forall t p ps u, tree_url t p ps = Ok u ->
  exists chain n, find_chain (tree_fuel t) (troot t) p = Some chain /\
    last chain (troot t) = n /\ nhandlers n <> [].
Proof.
  intros t p ps u H. unfold tree_url in H.
  destruct (find_chain (tree_fuel t) (troot t) p) as [chain|]; [|discriminate H].
  exists chain, (last chain (troot t)). split; [reflexivity|]. split; [reflexivity|].
  intro E. unfold nsize in H. rewrite E in H. discriminate H.
Qed.

Theorem C10_strict_not_live_l : forall t p ps, tree_pat_ok t ->
  (forall n, desc (troot t) n -> npat n = p -> nhandlers n = []) ->
  (height (troot t) <= tree_fuel t)%nat ->
  exists e, tree_url t p ps = Err e.
Proof.
  intros t p ps [Ha Hroot] Hdead _. unfold tree_url.
  destruct (find_chain (tree_fuel t) (troot t) p) as [chain|] eqn:F; [|now eexists].
  destruct (C10_find_chain_sound_l _ _ _ _ Ha F) as [_ [_ [D P]]].
  rewrite Hroot in P. cbn [app] in P.
  unfold nsize. rewrite (Hdead _ D P). cbn [length Nat.eqb]. now eexists.
Qed.

(* the converse direction: a live route is found (completeness of [find_chain]) *)
Theorem C10_live_is_found_l : forall t n, tree_pat_ok t -> desc (troot t) n ->
  exists chain, find_chain (tree_fuel t) (troot t) (npat n) = Some chain /\
    npat (last chain (troot t)) = npat n.
Proof.
  intros t n [Ha Hroot] D.
  destruct (C10_find_chain_complete_l (tree_fuel t) _ _ Ha (Nat.le_succ_diag_r _) D) as [chain [F P]].
  rewrite Hroot in F. cbn [length skipn] in F. exists chain. now split.
Qed.

(* ---------------------------------------------------------------- C03 : removal
   [remove_in] walks exactly like [find]; the node it reaches is replaced by the result of
   [remove_at_node] (or dropped when that result is prunable, and so on upwards); nothing else
   changes.  [one_changed r r' n n'] : [n'] is [n] with that one occurrence of [r] replaced. *)
Definition finished (n : node) (i : nat) (ch' n' : node) : Prop :=
  (prunable ch' = true /\ exists ix, n' = set_children n (remove_nth i (nchildren n)) ix) \/
  (prunable ch' = false /\ n' = set_children n (replace_nth i ch' (nchildren n)) (nindexes n)).

Inductive one_changed (r r' : node) : node -> node -> Prop :=
| oc_here : forall n i n', nth_error (nchildren n) i = Some r -> finished n i r' n' ->
    one_changed r r' n n'
| oc_down : forall n i ch ch' n', nth_error (nchildren n) i = Some ch -> one_changed r r' ch ch' ->
    finished n i ch' n' -> one_changed r r' n n'.

Lemma remove_finish_inv : forall n i ch' (removed : list bytes) n' rm,
  (if prunable ch' then
     do ix <- build_indexes (remove_nth i (nchildren n));
     Ok (Some (set_children n (remove_nth i (nchildren n)) ix, removed))
   else Ok (Some (set_children n (replace_nth i ch' (nchildren n)) (nindexes n), removed)))
  = Ok (Some (n', rm)) -> finished n i ch' n' /\ rm = removed.
Proof.
  intros n i ch' removed n' rm H. unfold finished. destruct (prunable ch').
  - res_step H. injection H as <- <-. split; [left; split; [reflexivity | now eexists] | reflexivity].
  - injection H as <- <-. split; [right; now split | reflexivity].
Qed.

Lemma remove_in_none : forall fuel trace ms n p, remove_in fuel trace ms n p = Ok None ->
  find fuel n p = None.
Proof.
  induction fuel as [|f IH]; intros trace ms n p H; [discriminate|].
  rewrite TreeText.remove_in_S in H. rewrite find_S.
  assert (Hgo : forall c i, rm_go f trace ms n p c i = Ok None -> fd_go f p c = None).
  { induction c as [|ch c IHc]; intros i Hg; [reflexivity|].
    cbn [rm_go fd_go] in *. cbv zeta in Hg.
    destruct (beqb (sval (nseg ch)) p).
    - destruct (remove_at_node trace ms ch) as [ch' removed].
      destruct (prunable ch'); [res_step Hg|]; discriminate Hg.
    - destruct (has_prefix p (sval (nseg ch))); [|exact (IHc _ Hg)].
      res_step Hg. destruct x as [[ch' removed]|].
      + destruct (prunable ch'); [res_step Hg|]; discriminate Hg.
      + rewrite (IH _ _ _ _ E). exact (IHc _ Hg). }
  exact (Hgo _ _ H).
Qed.

Theorem C03_remove_effect_l : forall fuel trace ms n p n' rm,
  remove_in fuel trace ms n p = Ok (Some (n', rm)) ->
  exists r, find fuel n p = Some r /\ rm = snd (remove_at_node trace ms r) /\
    one_changed r (fst (remove_at_node trace ms r)) n n'.
Proof.
  induction fuel as [|f IH]; intros trace ms n p n' rm H; [discriminate|].
  rewrite TreeText.remove_in_S in H. rewrite find_S.
  assert (Hgo : forall c i pre, nchildren n = pre ++ c -> length pre = i ->
            rm_go f trace ms n p c i = Ok (Some (n', rm)) ->
            exists r, fd_go f p c = Some r /\ rm = snd (remove_at_node trace ms r) /\
              one_changed r (fst (remove_at_node trace ms r)) n n').
  { induction c as [|ch c IHc]; intros i pre Hpre Hlen Hg; [discriminate|].
    assert (NTH : nth_error (nchildren n) i = Some ch).
    { rewrite Hpre, nth_error_app2 by lia. now rewrite Hlen, Nat.sub_diag. }
    assert (Hnext : nchildren n = (pre ++ [ch]) ++ c /\ length (pre ++ [ch]) = S i).
    { split; [now rewrite <- app_assoc | rewrite app_length; simpl; lia]. }
    destruct Hnext as [Hpre' Hlen'].
    cbn [rm_go fd_go] in *. cbv zeta in Hg.
    destruct (beqb (sval (nseg ch)) p).
    - destruct (remove_at_node trace ms ch) as [ch' removed] eqn:RA.
      apply remove_finish_inv in Hg. destruct Hg as [Hfin ->].
      exists ch. rewrite RA. cbn [fst snd]. split; [reflexivity|]. split; [reflexivity|].
      exact (oc_here _ _ n i n' NTH Hfin).
    - destruct (has_prefix p (sval (nseg ch))); [|exact (IHc _ _ Hpre' Hlen' Hg)].
      res_step Hg. destruct x as [[ch' removed]|].
      + apply remove_finish_inv in Hg. destruct Hg as [Hfin ->].
        destruct (IH _ _ _ _ _ _ E) as [r [F [Erm OC]]].
        exists r. rewrite F. split; [reflexivity|]. split; [exact Erm|].
        exact (oc_down _ _ n i ch ch' n' NTH OC Hfin).
      + rewrite (remove_in_none _ _ _ _ _ E). exact (IHc _ _ Hpre' Hlen' Hg). }
  exact (Hgo _ O [] eq_refl eq_refl H).
Qed.

Lemma finished_shape : forall n i ch' n', finished n i ch' n' -> exists c ix, n' = set_children n c ix.
Proof. intros n i ch' n' [[_ [ix ->]]|[_ ->]]; now eexists; eexists. Qed.

Lemma one_changed_shape : forall r r' n n', one_changed r r' n n' -> exists c ix, n' = set_children n c ix.
Proof. intros r r' n n' H. destruct H as [n i n' _ Hf|n i ch ch' n' _ _ Hf]; exact (finished_shape _ _ _ _ Hf). Qed.

Lemma finished_children : forall n i ch' n' x, finished n i ch' n' -> In x (nchildren n') ->
  x = ch' \/ In x (nchildren n).
Proof.
  intros n i ch' n' x [[_ [ix ->]]|[_ ->]] Hx; rewrite nchildren_set_children in Hx.
  - right. now apply In_remove_nth in Hx.
  - apply In_replace_nth in Hx. exact Hx.
Qed.

(* the nodes of the new tree: the replaced node, or a node of the old tree with the same data *)
Definition same_data (d0 d : node) : Prop :=
  npat d0 = npat d /\ nseg d0 = nseg d /\ nhandlers d0 = nhandlers d /\ nmidx d0 = nmidx d.

Lemma same_data_set_children : forall n c ix, same_data n (set_children n c ix).
Proof. intros [s p i h x c0] c ix. repeat split. Qed.

Theorem C03_remove_others_kept_l : forall r r' n n', nchildren r' = nchildren r ->
  one_changed r r' n n' ->
  forall d, desc n' d -> d = r' \/ exists d0, desc n d0 /\ same_data d0 d.
Proof.
  intros r r' n n' Hc OC. induction OC as [n i n' NTH Hf|n i ch ch' n' NTH OC IH Hf]; intros d D.
  - destruct (desc_first _ _ D) as [x [Ix Hd]].
    destruct (finished_children _ _ _ _ _ Hf Ix) as [->|Ix'].
    + destruct Hd as [->|Dd]; [now left | right].
      exists d. split; [|repeat split].
      apply (desc_step n r); [eapply nth_error_In; eassumption|].
      exact (desc_same_children _ _ _ Hc Dd).
    + right. exists d. split; [exact (desc_trans_child _ _ _ Ix' Hd) | repeat split].
  - assert (Ich : In ch (nchildren n)) by (eapply nth_error_In; eassumption).
    destruct (desc_first _ _ D) as [x [Ix Hd]].
    destruct (finished_children _ _ _ _ _ Hf Ix) as [->|Ix'].
    + destruct Hd as [->|Dd].
      * right. exists ch. split; [now apply desc_child|].
        destruct (one_changed_shape _ _ _ _ OC) as [c [ix ->]]. apply same_data_set_children.
      * destruct (IH _ Dd) as [->|[d0 [D0 S0]]]; [now left | right].
        exists d0. split; [now apply (desc_step n ch) | exact S0].
    + right. exists d. split; [exact (desc_trans_child _ _ _ Ix' Hd) | repeat split].
Qed.

(* ---------------------------------------------------------------- counting the nodes below [n]
   that satisfy a boolean predicate *)
Definition b2n (b : bool) : nat := if b then 1%nat else O.

Section Cnt.
Variable X : node -> bool.
Fixpoint cnt (n : node) : nat :=
  let 'Node _ _ _ _ _ c := n in
  (fix go (l : list node) : nat :=
     match l with [] => O | x :: l' => (b2n (X x) + cnt x + go l')%nat end) c.
Fixpoint cnts (l : list node) : nat :=
  match l with [] => O | x :: l' => (b2n (X x) + cnt x + cnts l')%nat end.
End Cnt.

Lemma cnt_eq : forall X n, cnt X n = cnts X (nchildren n).
Proof. intros X [s p i h x c]. reflexivity. Qed.

Lemma cnt_set_children : forall X n c ix, cnt X (set_children n c ix) = cnts X c.
Proof. intros X n c ix. now rewrite cnt_eq, nchildren_set_children. Qed.

Lemma cnts_In : forall X l x, In x l -> (b2n (X x) + cnt X x <= cnts X l)%nat.
Proof.
  intros X l x. induction l as [|y l IH]; intro H; [destruct H|]. cbn [cnts].
  destruct H as [->|H]; [lia | specialize (IH H); lia].
Qed.

Lemma cnt_desc_pos : forall X n d, desc n d -> X d = true -> (1 <= cnt X n)%nat.
Proof.
  intros X n d D Hd. induction D as [n ch Ich|n ch d Ich D IH]; rewrite cnt_eq.
  - pose proof (cnts_In X _ _ Ich) as H. rewrite Hd in H. cbn [b2n] in H. lia.
  - pose proof (cnts_In X _ _ Ich) as H. specialize (IH Hd). lia.
Qed.

Lemma cnt_zero_desc : forall X n d, cnt X n = O -> desc n d -> X d = false.
Proof.
  intros X n d Hz D. destruct (X d) eqn:E; [|reflexivity].
  pose proof (cnt_desc_pos X n d D E). lia.
Qed.

Lemma cnts_nth : forall X l i x, nth_error l i = Some x ->
  cnts X l = (b2n (X x) + cnt X x + cnts X (remove_nth i l))%nat.
Proof.
  intros X l. induction l as [|y l IH]; intros i x H; [destruct i; discriminate H|].
  destruct i as [|i]; cbn [nth_error] in H.
  - injection H as <-. reflexivity.
  - cbn [remove_nth cnts]. rewrite (IH _ _ H). lia.
Qed.

Lemma cnts_replace : forall X l i x y, nth_error l i = Some x ->
  cnts X (replace_nth i y l) = (b2n (X y) + cnt X y + cnts X (remove_nth i l))%nat.
Proof.
  intros X l. induction l as [|z l IH]; intros i x y H; [destruct i; discriminate H|].
  destruct i as [|i]; cbn [nth_error] in H.
  - reflexivity.
  - cbn [replace_nth remove_nth cnts]. rewrite (IH _ _ y H). lia.
Qed.

Lemma cnt_split : forall X X1 X2, (forall d, b2n (X d) = (b2n (X1 d) + b2n (X2 d))%nat) ->
  forall fuel n, (height n <= fuel)%nat -> cnt X n = (cnt X1 n + cnt X2 n)%nat.
Proof.
  intros X X1 X2 HX. induction fuel as [|f IH]; intros n Hh; [rewrite height_eq in Hh; lia|].
  rewrite !cnt_eq.
  assert (Hgo : forall l, (forall x, In x l -> (height x <= f)%nat) ->
            cnts X l = (cnts X1 l + cnts X2 l)%nat).
  { induction l as [|x l IHl]; intro Hl; [reflexivity|]. cbn [cnts].
    rewrite (IH x (Hl x (or_introl eq_refl))), HX, IHl; [lia|].
    intros y Hy. apply Hl. now right. }
  apply Hgo. intros x Hx. apply height_child in Hx. lia.
Qed.

Lemma prunable_facts : forall d, prunable d = true -> nhandlers d = [] /\ nchildren d = [].
Proof.
  intros d H. unfold prunable, nsize in H. apply andb_true_iff in H. destruct H as [H1 H2].
  split; [destruct (nhandlers d); [reflexivity | discriminate H1] |
          destruct (nchildren d); [reflexivity | discriminate H2]].
Qed.

Lemma finished_cnt : forall X n i ch0 ch' n', nth_error (nchildren n) i = Some ch0 ->
  (forall d, prunable d = true -> X d = false) -> finished n i ch' n' ->
  cnt X n' = (b2n (X ch') + cnt X ch' + cnts X (remove_nth i (nchildren n)))%nat.
Proof.
  intros X n i ch0 ch' n' NTH HP [[Hp [ix ->]]|[_ ->]]; rewrite cnt_set_children.
  - rewrite (HP _ Hp), (cnt_eq X ch'), (proj2 (prunable_facts _ Hp)). reflexivity.
  - exact (cnts_replace _ _ _ _ _ NTH).
Qed.

Lemma one_changed_cnt : forall X r r' n n', (forall m c ix, X (set_children m c ix) = X m) ->
  (forall d, prunable d = true -> X d = false) -> X r' = false -> cnt X r' = cnt X r ->
  one_changed r r' n n' -> (cnt X n' + b2n (X r) = cnt X n)%nat.
Proof.
  intros X r r' n n' HS HP Hr' Hc OC.
  induction OC as [n i n' NTH Hf|n i ch ch' n' NTH OC IH Hf].
  - rewrite (finished_cnt X _ _ _ _ _ NTH HP Hf), (cnt_eq X n), (cnts_nth X _ _ _ NTH), Hr', Hc.
    cbn [b2n]. lia.
  - rewrite (finished_cnt X _ _ _ _ _ NTH HP Hf), (cnt_eq X n), (cnts_nth X _ _ _ NTH).
    destruct (one_changed_shape _ _ _ _ OC) as [c [ix E]].
    assert (HX : X ch' = X ch) by (rewrite E; apply HS). rewrite HX. lia.
Qed.

(* ---------------------------------------------------------------- "removed is gone" *)
Definition is_nil {A} (l : list A) : bool := match l with [] => true | _ => false end.
Definition pat_is (p : bytes) (d : node) : bool := beqb (npat d) p.
Definition live_is (p : bytes) (d : node) : bool := beqb (npat d) p && negb (is_nil (nhandlers d)).
Definition dead_is (p : bytes) (d : node) : bool := beqb (npat d) p && is_nil (nhandlers d).

(* at most one node below [n] spells [p] *)
Definition pattern_once (p : bytes) (n : node) : Prop := (cnt (pat_is p) n <= 1)%nat.

Theorem C03_absent_not_found_l : forall t p, tree_pat_ok t ->
  find (tree_fuel t) (troot t) p = None -> forall n, desc (troot t) n -> npat n <> p.
Proof.
  intros t p [Ha Hroot] F n D E.
  destruct (C03_find_complete_l (tree_fuel t) _ _ Ha (Nat.le_succ_diag_r _) D) as [r' [F' _]].
  rewrite Hroot, E in F'. cbn [length skipn] in F'. rewrite F in F'. discriminate F'.
Qed.

Theorem C03_remove_all_clears_partial_l : forall t p t', tree_pat_ok t -> pattern_once p (troot t) ->
  tree_remove t p [] = Ok t' ->
  forall n, desc (troot t') n -> npat n = p -> nhandlers n = [].
Proof.
  intros t p t' Hpat Honce H n D Ep. pose proof Hpat as [Ha Hroot].
  unfold tree_remove in H. res_step H. destruct x as [[root' removed]|]; injection H as <-.
  - destruct (C03_remove_effect_l _ _ _ _ _ _ _ E) as [r [F [_ OC]]].
    destruct (C03_find_sound_l _ _ _ _ Ha F) as [Dr Pr]. rewrite Hroot in Pr. cbn [app] in Pr.
    unfold remove_at_node in OC. cbn [fst] in OC.
    set (r' := set_handlers r [] (node_midx (has_trace t) [])) in OC.
    set (X := live_is p).
    assert (HS : forall m c ix, X (set_children m c ix) = X m) by (intros [s q i h x c0] c ix; reflexivity).
    assert (HP : forall d, prunable d = true -> X d = false).
    { intros d Hd. unfold X, live_is. rewrite (proj1 (prunable_facts _ Hd)). apply andb_false_r. }
    assert (Hr' : X r' = false).
    { unfold X, live_is, r'. rewrite nhandlers_set_handlers. apply andb_false_r. }
    assert (Hc : cnt X r' = cnt X r) by (unfold r'; now rewrite !cnt_eq, nchildren_set_handlers).
    pose proof (one_changed_cnt X r r' _ _ HS HP Hr' Hc OC) as Hcnt.
    assert (Hsplit : cnt (pat_is p) (troot t) = (cnt (live_is p) (troot t) + cnt (dead_is p) (troot t))%nat).
    { apply (cnt_split _ _ _) with (fuel := height (troot t)); [|lia].
      intro d. unfold pat_is, live_is, dead_is. destruct (beqb (npat d) p), (is_nil (nhandlers d)); reflexivity. }
    unfold pattern_once in Honce. fold X in Hsplit.
    assert (Hz : cnt X root' = O).
    { destruct (X r) eqn:Xr; cbn [b2n] in Hcnt; [lia|].
      assert (Hd : dead_is p r = true).
      { unfold X, live_is in Xr. unfold dead_is. rewrite Pr, beqb_refl in *. cbn [andb] in *.
        now destruct (is_nil (nhandlers r)). }
      pose proof (cnt_desc_pos _ _ _ Dr Hd). lia. }
    unfold tree_build_methods in D. cbn [troot] in D.
    apply (desc_same_children _ root') in D; [|now rewrite nchildren_set_handlers].
    pose proof (cnt_zero_desc X _ _ Hz D) as Xn. unfold X, live_is in Xn.
    rewrite Ep, beqb_refl in Xn. cbn [andb] in Xn.
    destruct (nhandlers n); [reflexivity | discriminate Xn].
  - exfalso. exact (C03_absent_not_found_l t p Hpat (remove_in_none _ _ _ _ _ E) n D Ep).
Qed.

(* ---------------------------------------------------------------- when the pattern occurs once,
   the node is THE node of the pattern *)
Lemma In_remove_nth_other : forall (A : Type) (l : list A) i j y, nth_error l j = Some y -> i <> j ->
  In y (remove_nth i l).
Proof.
  intros A l. induction l as [|z l IH]; intros i j y H Hne; [destruct j; discriminate H|].
  destruct i as [|i], j as [|j]; cbn [nth_error remove_nth] in *.
  - now elim Hne.
  - eapply nth_error_In; eassumption.
  - injection H as <-. now left.
  - right. apply (IH i j); [exact H | lia].
Qed.

Lemma cnt_unique : forall X fuel n a b, (height n <= fuel)%nat -> (cnt X n <= 1)%nat ->
  desc n a -> desc n b -> X a = true -> X b = true -> a = b.
Proof.
  intros X. induction fuel as [|f IH]; intros n a b Hh Hc Da Db Xa Xb; [rewrite height_eq in Hh; lia|].
  destruct (desc_first _ _ Da) as [ca [Ia Ha]]. destruct (desc_first _ _ Db) as [cb [Ib Hb]].
  destruct (In_nth_error _ _ Ia) as [i Ni]. destruct (In_nth_error _ _ Ib) as [j Nj].
  rewrite cnt_eq, (cnts_nth X _ _ _ Ni) in Hc.
  assert (Wa : (1 <= b2n (X ca) + cnt X ca)%nat).
  { destruct Ha as [->|D]; [rewrite Xa; cbn [b2n]; lia | pose proof (cnt_desc_pos X _ _ D Xa); lia]. }
  assert (Wb : (1 <= b2n (X cb) + cnt X cb)%nat).
  { destruct Hb as [->|D]; [rewrite Xb; cbn [b2n]; lia | pose proof (cnt_desc_pos X _ _ D Xb); lia]. }
  destruct (Nat.eq_dec i j) as [->|Hne].
  - rewrite Ni in Nj. injection Nj as <-.
    destruct Ha as [->|D1], Hb as [->|D2].
    + reflexivity.
    + pose proof (cnt_desc_pos X _ _ D2 Xb). rewrite Xa in Hc. cbn [b2n] in Hc. lia.
    + pose proof (cnt_desc_pos X _ _ D1 Xa). rewrite Xb in Hc. cbn [b2n] in Hc. lia.
    + apply (IH ca); [apply height_child in Ia; lia | lia | assumption ..].
  - pose proof (cnts_In X _ _ (In_remove_nth_other _ _ i j cb Nj Hne)). lia.
Qed.

Theorem C03_pattern_once_unique_l : forall p n a b, pattern_once p n ->
  desc n a -> desc n b -> npat a = p -> npat b = p -> a = b.
Proof.
  intros p n a b H Da Db Ea Eb.
  apply (cnt_unique (pat_is p) (height n) n); [lia | exact H | assumption .. | |];
    unfold pat_is; [rewrite Ea | rewrite Eb]; apply beqb_refl.
Qed.

(* registered is reachable: after a successful registration [find] returns a node spelling the
   pattern; when the pattern occurs once in the new tree it is the node carrying the methods *)
Theorem C03_add_then_find_l : forall t p h mws ms t', tree_pat_ok t -> tree_hs_ok t ->
  tree_add t p h mws ms = Ok t' ->
  exists n, find (tree_fuel t') (troot t') p = Some n /\ npat n = p /\
    (pattern_once p (troot t') ->
     (forall m, In m (match ms with [] => any_methods | _ => ms end) -> ahas m (nhandlers n) = true) /\
     ahas OPTIONS (nhandlers n) = true /\ ahas M405 (nhandlers n) = true).
Proof.
  intros t p h mws ms t' Hpat Hhs H.
  destruct (C03_add_registers_l _ _ _ _ _ _ Hpat Hhs H) as [d [D [Pd Rd]]].
  pose proof (pat_add _ _ _ _ _ _ Hpat H) as [Ha' Hroot'].
  destruct (C03_find_complete_l (tree_fuel t') _ _ Ha' (Nat.le_succ_diag_r _) D) as [n [F Pn]].
  rewrite Hroot', Pd in F. cbn [length skipn] in F.
  exists n. split; [exact F|]. split; [now rewrite Pn|].
  intro Honce. destruct (C03_find_sound_l _ _ _ _ Ha' F) as [Dn _].
  rewrite (C03_pattern_once_unique_l p _ n d Honce Dn D); [exact Rd | now rewrite Pn | exact Pd].
Qed.

(* a duplicate is rejected, stated on the nodes of the tree instead of the result of [find] *)
Theorem C17_duplicate_rejected_unique_l : forall t p h mws ms n m, tree_pat_ok t ->
  pattern_once p (troot t) -> desc (troot t) n -> npat n = p -> ahas m (nhandlers n) = true ->
  In m (match ms with [] => any_methods | _ => ms end) ->
  exists e, tree_add t p h mws ms = Err e \/ tree_add t p h mws ms = Unsup.
Proof.
  intros t p h mws ms n m Hpat Honce D Pn Hm Hin. pose proof Hpat as [Ha Hroot].
  assert (Hh : (height (troot t) <= tree_fuel t + length p + 2)%nat) by (unfold tree_fuel; lia).
  destruct (C03_find_complete_l _ _ _ Ha Hh D) as [n' [F Pn']].
  rewrite Hroot, Pn in F. cbn [length skipn] in F.
  destruct (C03_find_sound_l _ _ _ _ Ha F) as [Dn' _].
  rewrite (C03_pattern_once_unique_l p _ n' n Honce Dn' D) in F; [|now rewrite Pn' | exact Pn].
  exact (C17_duplicate_rejected_tree_l t p h mws ms n m Hpat F Hm Hin).
Qed.

(* ---------------------------------------------------------------- every reachable tree *)
Lemma pat_tstep : forall t op, tree_pat_ok t -> tree_pat_ok (tstep t op).
Proof.
  intros t op Ht. destruct op as [p h mws ms|p ms|prefix|mws]; cbn [tstep].
  - destruct (tree_add t p h mws ms) as [t'| | |] eqn:E; cbn [keep]; try exact Ht.
    exact (pat_add _ _ _ _ _ _ Ht E).
  - destruct (tree_remove t p ms) as [t'| | |] eqn:E; cbn [keep]; try exact Ht.
    exact (pat_remove _ _ _ _ Ht E).
  - destruct (tree_clean t prefix) as [t'| | |] eqn:E; cbn [keep]; try exact Ht.
    exact (pat_clean _ _ _ Ht E).
  - now apply pat_use.
Qed.

Theorem C03_pat_reachable_l : forall name ic trace hist,
  tree_pat_ok (fold_left tstep hist (new_tree name ic trace)).
Proof.
  intros name ic trace hist. generalize (pat_new_tree name ic trace).
  generalize (new_tree name ic trace). induction hist as [|op hist IH]; intros t Ht; [exact Ht|].
  cbn [fold_left]. apply IH. now apply pat_tstep.
Qed.

(* [find] on every reachable tree: exactly the nodes by pattern text *)
Theorem C03_find_reachable_l : forall name ic trace hist p,
  let t := fold_left tstep hist (new_tree name ic trace) in
  (forall r, find (tree_fuel t) (troot t) p = Some r -> desc (troot t) r /\ npat r = p) /\
  (forall r, desc (troot t) r -> npat r = p ->
     exists r', find (tree_fuel t) (troot t) p = Some r' /\ npat r' = p).
Proof.
  intros name ic trace hist p t. destruct (C03_pat_reachable_l name ic trace hist) as [Ha Hroot].
  fold t in Ha, Hroot. split.
  - intros r F. destruct (C03_find_sound_l _ _ _ _ Ha F) as [D P]. rewrite Hroot in P. now split.
  - intros r D P.
    destruct (C03_find_complete_l (tree_fuel t) _ _ Ha (Nat.le_succ_diag_r _) D) as [r' [F P']].
    rewrite Hroot, P in F. cbn [length skipn] in F. exists r'. split; [exact F | now rewrite P'].
Qed.

(* ================================================================ Part B : uniqueness is FALSE
   Two nodes with the same pattern text can exist in a reachable tree, both can carry handlers,
   a duplicate pattern+method is then accepted, and a removal leaves the route alive.
   The history: "/{a" (a literal: no closing brace), then "/{a{b}x" and "/{a{c}y".  The two
   parameter labels "{a{b}x" / "{a{c}y" differ inside the braces, longestPrefix answers the
   position of the LAST '{' seen (2), the node is split into the literal "{a" + "{b}x", and the
   new literal "{a" becomes a sibling of the old literal "{a" (literal vs parameter: similarity 0
   when the second pattern was added). *)
Definition cx_p : bytes := bs "/{a".
Definition cx_hist3 : list top :=
  [OAdd cx_p (HUser (bs "h1")) [] [GET];
   OAdd (bs "/{a{b}x") (HUser (bs "h2")) [] [GET];
   OAdd (bs "/{a{c}y") (HUser (bs "h3")) [] [GET]].
Definition cx_hist4 : list top := cx_hist3 ++ [OAdd cx_p (HUser (bs "h4")) [] [GET]].
(* notations, so that the instances of the quantified statements below match syntactically *)
Notation cx_tree3 := (fold_left tstep cx_hist3 (new_tree (bs "r") [] false)).
Notation cx_tree4 := (fold_left tstep cx_hist4 (new_tree (bs "r") [] false)).
Definition cx_tree5 : tree := keep cx_tree4 (tree_remove cx_tree4 cx_p []).

(* the node "/" and its first two children, in a tree *)
Definition cx_slash (t : tree) : node := nth 0 (nchildren (troot t)) (troot t).
Definition cx_first (t : tree) : node := nth 0 (nchildren (cx_slash t)) (troot t).
Definition cx_second (t : tree) : node := nth 1 (nchildren (cx_slash t)) (troot t).

Lemma cx_desc : forall t, (0 < length (nchildren (troot t)))%nat ->
  (1 < length (nchildren (cx_slash t)))%nat ->
  desc (troot t) (cx_first t) /\ desc (troot t) (cx_second t).
Proof.
  intros t H0 H1. assert (Is : In (cx_slash t) (nchildren (troot t))) by (now apply nth_In).
  split; apply (desc_step _ (cx_slash t)); try exact Is; apply desc_child; apply nth_In; lia.
Qed.

Example cx_two_nodes_one_pattern :
  npat (cx_first cx_tree3) = cx_p /\ npat (cx_second cx_tree3) = cx_p /\
  nhandlers (cx_first cx_tree3) = [] /\ ahas GET (nhandlers (cx_second cx_tree3)) = true /\
  cnt (pat_is cx_p) (troot cx_tree3) = 2%nat.
Proof. vm_compute. repeat split. Qed.

Theorem C03_pattern_once_refuted_l :
  ~ (forall name ic trace hist p, pattern_once p (troot (fold_left tstep hist (new_tree name ic trace)))).
Proof.
  intro H. specialize (H (bs "r") [] false cx_hist3 cx_p). unfold pattern_once in H.
  vm_compute in H. lia.
Qed.

Theorem C03_pattern_unique_refuted_l :
  ~ (forall name ic trace hist n1 n2, let t := fold_left tstep hist (new_tree name ic trace) in
       desc (troot t) n1 -> desc (troot t) n2 -> npat n1 = npat n2 ->
       nhandlers n1 <> [] -> nhandlers n2 <> [] ->
       nhandlers n1 = nhandlers n2 /\ nmidx n1 = nmidx n2).
Proof.
  intro H.
  assert (D : desc (troot cx_tree4) (cx_first cx_tree4) /\ desc (troot cx_tree4) (cx_second cx_tree4))
    by (apply cx_desc; vm_compute; lia).
  destruct D as [D1 D2].
  assert (E : npat (cx_first cx_tree4) = npat (cx_second cx_tree4)) by (vm_compute; reflexivity).
  assert (N1 : nhandlers (cx_first cx_tree4) <> []) by (vm_compute; discriminate).
  assert (N2 : nhandlers (cx_second cx_tree4) <> []) by (vm_compute; discriminate).
  pose proof (H (bs "r") [] false cx_hist4 (cx_first cx_tree4) (cx_second cx_tree4)) as G.
  cbv zeta in G.
  destruct (G D1 D2 E N1 N2) as [Hh _]. vm_compute in Hh. discriminate Hh.
Qed.

(* C17 by pattern: a node spelling the pattern already answers GET, the registration is accepted *)
Theorem C17_duplicate_by_pattern_refuted_l :
  ~ (forall name ic trace hist p h mws m n, let t := fold_left tstep hist (new_tree name ic trace) in
       desc (troot t) n -> npat n = p -> ahas m (nhandlers n) = true ->
       exists e, tree_add t p h mws [m] = Err e \/ tree_add t p h mws [m] = Unsup).
Proof.
  intro H.
  assert (D : desc (troot cx_tree3) (cx_first cx_tree3) /\ desc (troot cx_tree3) (cx_second cx_tree3))
    by (apply cx_desc; vm_compute; lia).
  destruct D as [_ D2].
  assert (E : npat (cx_second cx_tree3) = cx_p) by (vm_compute; reflexivity).
  assert (G : ahas GET (nhandlers (cx_second cx_tree3)) = true) by (vm_compute; reflexivity).
  pose proof (H (bs "r") [] false cx_hist3 cx_p (HUser (bs "h4")) [] GET (cx_second cx_tree3)) as K.
  cbv zeta in K.
  destruct (K D2 E G) as [e [He|He]]; vm_compute in He; discriminate He.
Qed.

(* C03 by pattern: "/{a" is removed with every method, a node spelling "/{a" still answers GET *)
Lemma cx_remove_ok : tree_remove cx_tree4 cx_p [] = Ok cx_tree5.
Proof.
  unfold cx_tree5. destruct (tree_remove cx_tree4 cx_p []) as [t'| | |] eqn:E;
    [reflexivity | vm_compute in E; discriminate E ..].
Qed.

Theorem C03_remove_all_clears_refuted_l :
  ~ (forall name ic trace hist p t', let t := fold_left tstep hist (new_tree name ic trace) in
       tree_remove t p [] = Ok t' -> forall n, desc (troot t') n -> npat n = p -> nhandlers n = []).
Proof.
  intro H.
  assert (D : desc (troot cx_tree5) (cx_first cx_tree5) /\ desc (troot cx_tree5) (cx_second cx_tree5))
    by (apply cx_desc; vm_compute; lia).
  destruct D as [_ D2].
  assert (E : npat (cx_second cx_tree5) = cx_p) by (vm_compute; reflexivity).
  pose proof cx_remove_ok as R.
  pose proof (H (bs "r") [] false cx_hist4 cx_p cx_tree5) as K.
  cbv zeta in K.
  pose proof (K R _ D2 E) as Hn. vm_compute in Hn. discriminate Hn.
Qed.

(* what a client sees: the second registration of GET "/{a" wins, the removal of "/{a" brings
   the first one back *)
Example cx_dispatch :
  (match tree_handler cx_tree3 GET cx_p [] with HFound true (Some _) h _ => h = HUser (bs "h1") | _ => False end) /\
  (match tree_handler cx_tree4 GET cx_p [] with HFound true (Some _) h _ => h = HUser (bs "h4") | _ => False end) /\
  (match tree_handler cx_tree5 GET cx_p [] with HFound true (Some _) h _ => h = HUser (bs "h1") | _ => False end).
Proof. vm_compute. repeat split. Qed.

(* a second history, all of whose patterns pass TreeNames.pat_wf (no second '{' in a piece): a
   literal '}' makes longestPrefix answer "nothing in common" for "/}a}" and "/}ba", they stay
   siblings, "//" splits the first one at "/", and "/a" (similarity 1 with both "/}ba" and "/",
   the first one wins) splits the second one at "/" as well: two nodes "/".  None of the four
   patterns is well-formed for Spec/Table.v ([tokens] refuses a '}' in literal text). *)
Definition cx2_pats : list bytes := [bs "/}a}"; bs "/}ba{"; bs "//"; bs "/a"].
Definition cx2_hist : list top := map (fun p => OAdd p (HUser (bs "h")) [] [GET]) cx2_pats.

Example cx2_two_nodes :
  forallb TreeNames.pat_wf cx2_pats = true /\
  cnt (pat_is (bs "/")) (troot (fold_left tstep cx2_hist (new_tree (bs "r") [] false))) = 2%nat /\
  map (fun p => match Table.tokens p with Some _ => true | None => false end) (cx_p :: bs "/{a{b}x" :: cx2_pats)
    = [false; false; false; false; true; true].
Proof. vm_compute. repeat split. Qed.

(* ================================================================ examples *)
Definition exf_hist : list top :=
  [OAdd (bs "/posts/{id}") (HUser (bs "post")) [] [GET];
   OAdd (bs "/posts/{id}/author") (HUser (bs "author")) [] [GET]].
Definition exf_tree : tree := fold_left tstep exf_hist (new_tree (bs "r") [] false).

Example exf_find : match find (tree_fuel exf_tree) (troot exf_tree) (bs "/posts/{id}") with
                   | Some n => npat n = bs "/posts/{id}" /\ ahas GET (nhandlers n) = true /\
                               ahas HEAD (nhandlers n) = true /\ ahas POST (nhandlers n) = false
                   | None => False end.
Proof. vm_compute. repeat split. Qed.

Example exf_find_author :
  match find (tree_fuel exf_tree) (troot exf_tree) (bs "/posts/{id}/author") with
  | Some n => npat n = bs "/posts/{id}/author" /\ ahas GET (nhandlers n) = true
  | None => False end.
Proof. vm_compute. repeat split. Qed.

Example exf_duplicate :
  tree_add exf_tree (bs "/posts/{id}") (HUser (bs "again")) [] [GET] = Err (bs "duplicate-method") /\
  tree_add exf_tree (bs "/posts/{id}") (HUser (bs "again")) [] [] = Err (bs "duplicate-method").
Proof. vm_compute. split; reflexivity. Qed.

Example exf_other_method_ok :
  match tree_add exf_tree (bs "/posts/{id}") (HUser (bs "p")) [] [POST] with
  | Ok t' => match find (tree_fuel t') (troot t') (bs "/posts/{id}") with
             | Some n => ahas GET (nhandlers n) = true /\ ahas POST (nhandlers n) = true
             | None => False end
  | _ => False end.
Proof. vm_compute. split; reflexivity. Qed.

Example exf_remove :
  match tree_remove exf_tree (bs "/posts/{id}") [] with
  | Ok t' => (match find (tree_fuel t') (troot t') (bs "/posts/{id}") with
              | Some n => nhandlers n = []
              | None => True end) /\
             (match find (tree_fuel t') (troot t') (bs "/posts/{id}/author") with
              | Some n => ahas GET (nhandlers n) = true
              | None => False end) /\
             (exists e, tree_url t' (bs "/posts/{id}") [(bs "id", bs "5")] = Err e) /\
             tree_url t' (bs "/posts/{id}/author") [(bs "id", bs "5")] = Ok (bs "/posts/5/author")
  | _ => False end.
Proof. vm_compute. split; [reflexivity|]. split; [reflexivity|]. split; [now eexists | reflexivity]. Qed.

(* the hypotheses of the theorems on the concrete tree *)
Example exf_hyps : tree_pat_ok exf_tree /\ tree_hs_ok exf_tree /\
  pattern_once (bs "/posts/{id}") (troot exf_tree) /\
  (height (troot exf_tree) <= tree_fuel exf_tree)%nat.
Proof.
  split; [|split; [exact (hs_reachable (bs "r") [] false exf_hist)|split]].
  - unfold exf_tree, exf_hist. cbn [fold_left tstep].
    destruct (tree_add (new_tree (bs "r") [] false) (bs "/posts/{id}") (HUser (bs "post")) [] [GET])
      as [t1| | |] eqn:E1; try (vm_compute in E1; discriminate E1).
    pose proof (pat_add _ _ _ _ _ _ (pat_new_tree _ _ _) E1) as P1. cbn [keep].
    destruct (tree_add t1 (bs "/posts/{id}/author") (HUser (bs "author")) [] [GET])
      as [t2| | |] eqn:E2; cbn [keep]; [exact (pat_add _ _ _ _ _ _ P1 E2) | exact P1 ..].
  - unfold pattern_once. vm_compute. lia.
  - unfold tree_fuel. lia.
Qed.
