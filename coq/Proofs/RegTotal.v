(* C05, the registration half: Tree.Add / Tree.Remove / Tree.Clean never raise a runtime fault
   (the model's [Panic]) on any route table reached from [new_tree] by any history, for ALL byte
   strings as pattern / prefix / method names.
   - Part A: the text of labels.  A label is either "plain" (no '{' or no '}') or a "token label"
     '{' body '}' tail with no '}' in body and no '{' in tail; both classes exclude
     [colon_before_brace] (the only inputs on which new_segment faults), every piece of
     split_string is in one of them, and the classes are closed under the cuts that addSegment
     performs (positions computed by longestPrefix never fall strictly inside the braces of a
     token label of the same type);
   - Part B: the invariant [linv] (every non-root label is non-empty, in the class of its type)
     and a Hoare-style predicate [post] on results (no Panic + postcondition on Ok);
   - Part C: Remove, Clean (fuel = height, build_indexes never sees an empty literal label);
   - Part D: checkAmbiguous; Part E: addSegment / getNode (fuel = length of the segment text);
   - Part F: trees and histories.
   Theorems are re-exported by Props/C05reg.v. *)
From Coq Require Import String.
From Mux Require Import Model.Bytes Model.Regex Model.Context Model.Syntax Model.Tree
  Proofs.BytesFacts Proofs.MatchSound Proofs.ParseTotal.
From Mux Require Proofs.TreeText Proofs.TreeOnion.
From Mux Require Import Proofs.TreeSafe.
Local Open Scope nat_scope.

(* ================================================================ Part A : text *)

Definition nob (s : bytes) : Prop := ~ In 123%N s.   (* no '{' *)
Definition noc (s : bytes) : Prop := ~ In 125%N s.   (* no '}' *)
Definition J_S (v : bytes) : Prop := nob v \/ noc v.
Definition J_P (v : bytes) : Prop :=
  exists body tail, v = 123%N :: body ++ 125%N :: tail /\ noc body /\ nob tail.
Definition JV (v : bytes) : Prop := J_S v \/ J_P v.

Lemma index_byte_none_iff : forall s c, index_byte s c = None <-> ~ In c s.
Proof.
  induction s as [|x s IH]; intro c; simpl; [tauto|].
  destruct (N.eqb_spec x c) as [->|Nx].
  - split; [intro H; discriminate H | intro H; exfalso; apply H; now left].
  - destruct (index_byte s c) as [i|] eqn:E.
    + split; [intro H; discriminate H|]. intro H. exfalso.
      assert (Hn : ~ In c s) by (intro Hin; apply H; now right).
      apply IH in Hn. rewrite E in Hn. discriminate Hn.
    + split; [|reflexivity]. intros _ [Hx|Hin]; [congruence|]. now apply (proj1 (IH c)).
Qed.

Lemma In_firstn : forall (A : Type) n (l : list A) x, In x (firstn n l) -> In x l.
Proof.
  intros A n. induction n as [|n IH]; intros l x H; [destruct H|].
  destruct l as [|y l]; [destruct H|]. simpl in H. destruct H as [<-|H]; [now left | right; now apply IH].
Qed.

Lemma In_skipn : forall (A : Type) n (l : list A) x, In x (skipn n l) -> In x l.
Proof. intros A n l x H. exact (incl_skipn A n l x H). Qed.

Lemma JS_firstn : forall v l, J_S v -> J_S (firstn l v).
Proof.
  intros v l [H|H]; [left | right]; intro Hin; apply H; exact (In_firstn _ _ _ _ Hin).
Qed.
Lemma JS_skipn : forall v l, J_S v -> J_S (skipn l v).
Proof.
  intros v l [H|H]; [left | right]; intro Hin; apply H; exact (In_skipn _ _ _ _ Hin).
Qed.

Lemma JV_not_cbb : forall v, JV v -> ~ colon_before_brace v.
Proof.
  intros v [[H|H]|[body [tail [-> _]]]].
  - apply no_open_not_cbb. now apply index_byte_none_iff.
  - apply no_close_not_cbb. now apply index_byte_none_iff.
  - apply brace_first_not_cbb. reflexivity.
Qed.

(* a prefix of a token label *)
Lemma JP_firstn : forall v l, J_P v -> 0 < l -> JV (firstn l v).
Proof.
  intros v l [body [tail [-> [Hb Ht]]]] Hl. destruct l as [|l']; [lia|].
  cbn [firstn]. rewrite firstn_app.
  destruct (Nat.le_gt_cases l' (length body)) as [Hle|Hgt].
  - left. right. replace (l' - length body) with 0 by lia. cbn [firstn]. rewrite app_nil_r.
    intros [E|Hin]; [discriminate E|]. apply Hb. exact (In_firstn _ _ _ _ Hin).
  - right. rewrite (firstn_all2 body) by lia.
    destruct (l' - length body) as [|m] eqn:Em; [lia|]. cbn [firstn].
    exists body, (firstn m tail). split; [reflexivity|]. split; [exact Hb|].
    intro Hin. apply Ht. exact (In_firstn _ _ _ _ Hin).
Qed.

(* a position at which a token label may be cut: at a '{', or after its first '}' *)
Definition safe_cut (s : bytes) (l : nat) : Prop :=
  length s <= l \/ nth_error s l = Some 123%N \/ In 125%N (firstn l s).

Lemma JP_skipn : forall v l, J_P v -> safe_cut v l -> l < length v -> JV (skipn l v).
Proof.
  intros v l [body [tail [-> [Hb Ht]]]] Hs Hl.
  destruct Hs as [Hs|[Hs|Hs]]; [lia| |].
  - (* at a '{' *)
    destruct l as [|l']; [right; exists body, tail; now split|].
    cbn [nth_error] in Hs. cbn [skipn].
    destruct (Nat.lt_ge_cases l' (length body)) as [Hlt|Hge].
    + rewrite nth_error_app1 in Hs by exact Hlt.
      apply nth_error_split in Hs. destruct Hs as [l1 [l2 [E L1]]].
      right. exists l2, tail. split.
      * rewrite E, <- app_assoc, skipn_app, L1, Nat.sub_diag, skipn_all2 by lia. reflexivity.
      * split; [|exact Ht]. intro Hin. apply Hb. rewrite E. apply in_or_app. right. now right.
    + exfalso. rewrite nth_error_app2 in Hs by exact Hge.
      destruct (l' - length body) as [|m]; [discriminate Hs|]. cbn [nth_error] in Hs.
      apply nth_error_In in Hs. now apply Ht.
  - (* after the '}' *)
    destruct l as [|l']; [destruct Hs|]. cbn [firstn] in Hs.
    destruct Hs as [E|Hs]; [discriminate E|]. rewrite firstn_app in Hs.
    destruct (Nat.le_gt_cases l' (length body)) as [Hle|Hgt].
    + exfalso. replace (l' - length body) with 0 in Hs by lia. cbn [firstn] in Hs.
      rewrite app_nil_r in Hs. apply Hb. exact (In_firstn _ _ _ _ Hs).
    + left. left. cbn [skipn]. rewrite skipn_app, (skipn_all2 body) by lia. cbn [app].
      destruct (l' - length body) as [|m] eqn:Em; [lia|]. cbn [skipn].
      intro Hin. apply Ht. exact (In_skipn _ _ _ _ Hin).
Qed.

(* ---------------------------------------------------------------- longestPrefix
   the result is the saved start, or the position of a '{' common to both strings, or the end of
   a common prefix in which a '}' was seen since the last '{' (or one string is exhausted) *)
Definition lp_cut (s1 s2 : bytes) (i : nat) (st : Z) (inb : bool) (z : Z) : Prop :=
  z = st \/
  exists d, z = Z.of_nat (i + d) /\
    ((nth_error s1 d = Some 123%N /\ nth_error s2 d = Some 123%N) \/
     (TreeOnion.cpre d s1 s2 /\
      ((inb = true -> In 125%N (firstn d s1)) \/ d = length s1 \/ d = length s2))).

Lemma lp_loop_cut : forall s1 s2 i st en inb, lp_cut s1 s2 i st inb (lp_loop s1 s2 i st en inb).
Proof.
  induction s1 as [|a s1 IH]; intros s2 i st en inb.
  - cbn [lp_loop]. destruct (Z.eqb en (Z.of_nat i - 1)); [now left | right].
    exists 0. split; [f_equal; lia|]. right. split; [apply TreeOnion.cpre_O|]. right. now left.
  - destruct s2 as [|b s2].
    + cbn [lp_loop]. destruct (Z.eqb en (Z.of_nat i - 1)); [now left | right].
      exists 0. split; [f_equal; lia|]. right. split; [apply TreeOnion.cpre_O|]. right. now right.
    + cbn [lp_loop].
      (* lifting a result for the tails to the full strings *)
      assert (Lift : forall st' en' inb', a = b ->
                (st' = st \/ (st' = Z.of_nat i /\ a = 123%N)) ->
                (inb = true -> inb' = true \/ a = 125%N) ->
                lp_cut (a :: s1) (b :: s2) i st inb (lp_loop s1 s2 (S i) st' en' inb')).
      { intros st' en' inb' <- Hst Hinb.
        destruct (IH s2 (S i) st' en' inb') as [E|[d [E Hd]]].
        - destruct Hst as [->|[-> Ea]]; [now left | right].
          exists 0. split; [rewrite E; f_equal; lia|]. left. cbn [nth_error]. now rewrite Ea.
        - right. exists (S d). split; [rewrite E; f_equal; lia|].
          destruct Hd as [[H1 H2]|[Hc Hd]]; [left; now split | right].
          split; [now apply TreeOnion.cpre_cons|].
          destruct Hd as [Hd|[Hd|Hd]].
          + left. intro Hi. cbn [firstn]. destruct (Hinb Hi) as [Hi'|Ea]; [right; now apply Hd | now left].
          + right. left. simpl. now rewrite Hd.
          + right. right. simpl. now rewrite Hd. }
      destruct (N.eqb_spec a b) as [Eab|Nab]; cbn [negb].
      * destruct (N.eqb_spec a 123%N) as [E1|N1].
        { apply Lift; [exact Eab | right; now split | intros _; now left]. }
        destruct (N.eqb_spec a 125%N) as [E2|N2].
        { apply Lift; [exact Eab | now left | intros _; now right]. }
        apply Lift; [exact Eab | now left | intro Hi; now left].
      * destruct (inb || Z.eqb (en + 1) (Z.of_nat i)) eqn:C; [now left | right].
        apply orb_false_iff in C. destruct C as [C _].
        exists 0. split; [f_equal; lia|]. right. split; [apply TreeOnion.cpre_O|]. left.
        intro Hi. congruence.
Qed.

(* both cut positions are safe when two token labels are compared *)
Lemma JP_longest_prefix : forall w v, J_P w -> J_P v -> (0 < longest_prefix w v)%Z ->
  safe_cut w (Z.to_nat (longest_prefix w v)) /\ safe_cut v (Z.to_nat (longest_prefix w v)).
Proof.
  intros w v [bw [tw [-> [Hbw Htw]]]] [bv [tv [-> [Hbv Htv]]]] Hpos.
  unfold longest_prefix in *. cbn [lp_loop] in *.
  change (N.eqb 123 123) with true in *. cbn [negb] in *.
  set (w' := bw ++ 125%N :: tw) in *. set (v' := bv ++ 125%N :: tv) in *.
  assert (Cw : In 125%N w') by (apply in_or_app; right; now left).
  assert (Cv : In 125%N v') by (apply in_or_app; right; now left).
  destruct (lp_loop_cut w' v' 1 (Z.of_nat 0) (-10)%Z true) as [E|[d [E Hd]]].
  - exfalso. change (Z.of_nat 0) with 0%Z in *. lia.
  - change (Z.of_nat 0) with 0%Z in *. rewrite E. rewrite Nat2Z.id. cbn [Nat.add].
    unfold safe_cut. destruct Hd as [[H1 H2]|[[L1 [L2 L3]] Hd]].
    + split; right; left; cbn [nth_error]; assumption.
    + destruct Hd as [Hd|[Hd|Hd]].
      * split; right; right; cbn [firstn]; right; [now apply Hd | rewrite <- L3; now apply Hd].
      * split; [left; simpl; lia|]. right. right. cbn [firstn]. right.
        rewrite <- L3, Hd, firstn_all. exact Cw.
      * split; [|left; simpl; lia]. right. right. cbn [firstn]. right.
        rewrite L3, Hd, firstn_all. exact Cv.
Qed.

(* ---------------------------------------------------------------- the pieces of splitString *)
Definition gp2 (p : bytes) : Prop := p <> [] /\ JV p.

Lemma mk_JP : forall p e, index_byte p 123 = Some 0 -> index_byte p 125 = Some e ->
  index_byte (skipn e p) 123 = None -> J_P p.
Proof.
  intros p e H0 He Hn.
  destruct (TreeText.index_byte_split _ _ _ He) as [Hs [Hnc _]].
  destruct p as [|x p]; [discriminate H0|]. simpl in H0.
  destruct (N.eqb_spec x 123%N) as [->|Nx]; [|destruct (index_byte p 123); discriminate H0].
  destruct e as [|e].
  { simpl in He. destruct (index_byte p 125); discriminate He. }
  change (firstn (S e) (123%N :: p)) with (123%N :: firstn e p) in Hs, Hnc.
  change (skipn (S (S e)) (123%N :: p)) with (skipn (S e) p) in Hs.
  change (skipn (S e) (123%N :: p)) with (skipn e p) in Hn.
  rewrite <- app_comm_cons in Hs. injection Hs as Hs.
  exists (firstn e p), (skipn (S e) p). split; [f_equal; exact Hs|]. split.
  - intro Hin. apply Hnc. now right.
  - apply index_byte_none_iff in Hn. intro Hin. apply Hn.
    replace (S e) with (e + 1) in Hin by lia. rewrite <- TreeText.skipn_skipn_add in Hin.
    exact (In_skipn _ _ _ _ Hin).
Qed.

Lemma index_byte_firstn_some : forall s c i n, index_byte s c = Some i -> i < n ->
  index_byte (firstn n s) c = Some i.
Proof.
  induction s as [|x s IH]; intros c i n H Hlt; simpl in H; [discriminate H|].
  destruct n as [|n]; [lia|]. simpl. destruct (N.eqb x c); [exact H|].
  destruct (index_byte s c) as [j|] eqn:E; [|discriminate H]. injection H as <-.
  rewrite (IH c j n E) by lia. reflexivity.
Qed.

Lemma ssl_good2 : forall fuel str end_ acc, Forall gp2 acc -> str <> [] ->
  ((index_byte str 123 = Some 0 /\ index_byte str 125 = Some end_ /\ length str < fuel) \/
   (end_ = 0 /\ length str + 2 <= fuel)) ->
  Forall gp2 (split_string_loop fuel str end_ acc).
Proof.
  induction fuel as [|f IH]; intros str end_ acc Hacc Hne Hinv.
  - exfalso. destruct Hinv as [[_ [_ H]]|[_ H]]; lia.
  - cbn [split_string_loop]. destruct Hinv as [[H0 [He Hf]]|[-> Hf]].
    + (* after a token: str = "{...}..." and end_ is the first '}' *)
      assert (Hc0 : index_byte (skipn end_ str) 125 = Some 0) by (apply index_byte_skipn_zero; exact He).
      destruct (index_byte (skipn end_ str) 123) as [start|] eqn:Es.
      2:{ apply Forall_rev_cons; [|exact Hacc]. split; [exact Hne|]. right. exact (mk_JP _ _ H0 He Es). }
      assert (Hstart : 0 < start).
      { destruct start as [|start]; [|lia]. exfalso.
        destruct (skipn end_ str) as [|x r]; [discriminate Es|]. simpl in Es, Hc0.
        destruct (N.eqb x 123) eqn:X1.
        - apply N.eqb_eq in X1. subst x. simpl in Hc0. destruct (index_byte r 125); discriminate Hc0.
        - destruct (index_byte r 123); discriminate Es. }
      rewrite (proj2 (Nat.ltb_lt 0 start) Hstart).
      assert (Hstr' : index_byte (skipn (start + end_) str) 123 = Some 0).
      { rewrite <- skipn_add. apply index_byte_skipn_zero. exact Es. }
      assert (Hne' : skipn (start + end_) str <> []) by (eapply index_byte_some_nonempty; exact Hstr').
      assert (Hlen : length (skipn (start + end_) str) < f).
      { rewrite skipn_length. destruct str as [|c0 str0]; [congruence|]. cbn [length] in *. lia. }
      assert (Hpiece : gp2 (firstn (start + end_) str)).
      { split.
        - destruct str as [|c0 str0]; [congruence|].
          destruct (start + end_) as [|k] eqn:Ek; [lia|]. simpl. discriminate.
        - right. apply (mk_JP _ end_).
          + destruct (start + end_) as [|k] eqn:Ek; [lia|]. apply index_byte_zero_firstn. exact H0.
          + apply index_byte_firstn_some; [exact He | lia].
          + rewrite skipn_firstn_comm. replace (start + end_ - end_) with start by lia.
            apply index_byte_firstn_none. exact Es. }
      destruct (index_byte (skipn (start + end_) str) 125) as [e|] eqn:Ee.
      * apply IH; [constructor; assumption | exact Hne' | left; now split].
      * apply Forall_rev_cons; [|constructor; assumption].
        split; [exact Hne'|]. left. right. now apply index_byte_none_iff.
    + (* the first round *)
      cbn [skipn].
      destruct (index_byte str 123) as [start|] eqn:Es.
      2:{ apply Forall_rev_cons; [|exact Hacc]. split; [exact Hne|]. left. left.
          now apply index_byte_none_iff. }
      destruct (Nat.ltb 0 start) eqn:Lt.
      * apply Nat.ltb_lt in Lt. rewrite Nat.add_0_r.
        assert (Hstr' : index_byte (skipn start str) 123 = Some 0) by (apply index_byte_skipn_zero; exact Es).
        assert (Hne' : skipn start str <> []) by (eapply index_byte_some_nonempty; exact Hstr').
        assert (Hlen : length (skipn start str) < f) by (rewrite skipn_length; lia).
        assert (Hpiece : gp2 (firstn start str)).
        { split.
          - destruct str as [|c0 str0]; [congruence|]. destruct start as [|k]; [lia|]. simpl. discriminate.
          - left. left. apply index_byte_none_iff. apply index_byte_firstn_none. exact Es. }
        destruct (index_byte (skipn start str) 125) as [e|] eqn:Ee.
        -- apply IH; [constructor; assumption | exact Hne' | left; now split].
        -- apply Forall_rev_cons; [|constructor; assumption].
           split; [exact Hne'|]. left. right. now apply index_byte_none_iff.
      * apply Nat.ltb_ge in Lt. assert (start = 0) by lia. subst start.
        destruct (index_byte str 125) as [e|] eqn:Ee.
        -- apply IH; [exact Hacc | exact Hne | left; split; [exact Es | split; [exact Ee | lia]]].
        -- apply Forall_rev_cons; [|exact Hacc]. split; [exact Hne|]. left. right.
           now apply index_byte_none_iff.
Qed.

Theorem split_string_good2 : forall str, str <> [] -> Forall gp2 (split_string str).
Proof.
  intros str Hne. unfold split_string. apply ssl_good2; [constructor | exact Hne|].
  right. split; [reflexivity | lia].
Qed.

(* ---------------------------------------------------------------- new_segment and the classes *)
Lemma new_segment_type : forall ic val seg, new_segment ic val = Ok seg ->
  (styp seg = TString /\ J_S val) \/
  (styp seg <> TString /\ exists st e, index_byte val 123 = Some st /\ index_byte val 125 = Some e).
Proof.
  intros ic val seg H. unfold new_segment in H.
  destruct (N.ltb max_int16 (N.of_nat (length val))); [discriminate H|].
  destruct (index_byte val 123) as [start|] eqn:I1.
  2:{ injection H as <-. left. split; [reflexivity|]. left. now apply index_byte_none_iff. }
  destruct (index_byte val 125) as [end_|] eqn:I2.
  2:{ injection H as <-. left. split; [reflexivity|]. right. now apply index_byte_none_iff. }
  right. split; [|exists start, end_; now split].
  destruct (Nat.ltb end_ start || Nat.eqb (S start) end_ || _) eqn:C; [discriminate H|].
  cbv zeta in H.
  repeat TreeText.res_step H; injection H as <-; cbn [styp]; discriminate.
Qed.

(* a label: non-empty, plain if literal, a token label otherwise *)
Definition Jseg (s : segment) : Prop :=
  sval s <> [] /\ (styp s = TString -> J_S (sval s)) /\ (styp s <> TString -> J_P (sval s)).

Lemma Jseg_JV : forall s, Jseg s -> JV (sval s).
Proof.
  intros s [_ [H1 H2]]. destruct (styp s) eqn:T; [left; now apply H1 | | |]; right; apply H2; discriminate.
Qed.

Lemma new_segment_Jseg : forall ic val seg, val <> [] -> JV val ->
  new_segment ic val = Ok seg -> Jseg seg /\ sval seg = val.
Proof.
  intros ic val seg Hne HJ H. pose proof (TreeText.new_segment_value _ _ _ H) as Hv.
  split; [|exact Hv]. unfold Jseg. rewrite Hv. split; [exact Hne|].
  destruct (new_segment_type _ _ _ H) as [[T HS]|[T [st [e [I1 I2]]]]].
  - split; [intros _; exact HS | intro N; now elim N].
  - split; [intro E; now elim T|]. intros _.
    destruct HJ as [[HJ|HJ]|HJ]; [| |exact HJ]; apply index_byte_none_iff in HJ; congruence.
Qed.

(* ---------------------------------------------------------------- the cut of addSegment *)
Lemma stype_eqb_eq : forall a b, stype_eqb a b = true -> a = b.
Proof. intros [] []; simpl; intro H; try reflexivity; discriminate H. Qed.

(* [s] is the label of a child, [seg] the segment being added *)
Lemma cut_ok : forall s seg, Jseg s -> Jseg seg -> (0 < similarity s seg)%Z ->
  0 < Z.to_nat (similarity s seg) /\
  Z.to_nat (similarity s seg) <= length (sval s) /\
  Z.to_nat (similarity s seg) <= length (sval seg) /\
  (Z.to_nat (similarity s seg) < length (sval s) ->
     JV (firstn (Z.to_nat (similarity s seg)) (sval s)) /\
     JV (skipn (Z.to_nat (similarity s seg)) (sval s))) /\
  (Z.to_nat (similarity s seg) < length (sval seg) ->
     JV (skipn (Z.to_nat (similarity s seg)) (sval seg))).
Proof.
  intros s seg Js Jg Hpos.
  destruct (TreeOnion.similarity_cpre s seg) as [L1 [L2 _]].
  split; [lia|]. split; [exact L1|]. split; [exact L2|].
  clear L1 L2. revert Hpos. unfold similarity.
  destruct (beqb (sval seg) (sval s)); [intro; lia|].
  destruct (stype_eqb (styp seg) (styp s)) eqn:T; cbn [negb]; [|intro; lia].
  apply stype_eqb_eq in T. intro Hpos.
  destruct Js as [_ [JsS JsP]]. destruct Jg as [_ [JgS JgP]]. rewrite T in JgS, JgP.
  assert (G : styp s <> TString ->
    (Z.to_nat (longest_prefix (sval seg) (sval s)) < length (sval s) ->
       JV (firstn (Z.to_nat (longest_prefix (sval seg) (sval s))) (sval s)) /\
       JV (skipn (Z.to_nat (longest_prefix (sval seg) (sval s))) (sval s))) /\
    (Z.to_nat (longest_prefix (sval seg) (sval s)) < length (sval seg) ->
       JV (skipn (Z.to_nat (longest_prefix (sval seg) (sval s))) (sval seg)))).
  { intro N. pose proof (JsP N) as Ps. pose proof (JgP N) as Pg.
    destruct (JP_longest_prefix _ _ Pg Ps Hpos) as [Cw Cv].
    split; [intro Hlt; split; [apply JP_firstn; [exact Ps | lia] | now apply JP_skipn]
           | intro Hlt; now apply JP_skipn]. }
  destruct (styp s) eqn:Ts; [| apply G; discriminate ..].
  pose proof (JsS eq_refl) as Ss. pose proof (JgS eq_refl) as Sg.
  split; [intros _; split; left; [now apply JS_firstn | now apply JS_skipn]
         | intros _; left; now apply JS_skipn].
Qed.

Lemma scan_sim_best_pos : forall seg c i best j l, scan_sim seg c i best = (None, Some (j, l)) ->
  (forall j0 l0, best = Some (j0, l0) -> (0 < l0)%Z) -> (0 < l)%Z.
Proof.
  intros seg c. induction c as [|x c IH]; intros i best j l H Hb; cbn [scan_sim] in H.
  - injection H as ->. exact (Hb _ _ eq_refl).
  - cbv zeta in H. destruct (Z.eqb (similarity (nseg x) seg) (-1)%Z); [discriminate H|].
    destruct (Z.ltb_spec (match best with Some (_, l0) => l0 | None => 0%Z end) (similarity (nseg x) seg))
      as [Hlt|Hge].
    + apply (IH _ _ _ _ H). intros j0 l0 E. injection E as <- <-.
      destruct best as [[j1 l1]|]; [specialize (Hb _ _ eq_refl); lia | lia].
    + exact (IH _ _ _ _ H Hb).
Qed.

(* ================================================================ Part B : results and the invariant *)

(* no fault, and a postcondition on success *)
Definition post {T} (r : res T) (P : T -> Prop) : Prop := np r /\ forall x, r = Ok x -> P x.

Lemma post_ok : forall T (x : T) (P : T -> Prop), P x -> post (Ok x) P.
Proof. intros T x P H. split; [apply np_ok | intros y E; injection E as <-; exact H]. Qed.
Lemma post_err : forall T e (P : T -> Prop), post (Err e) P.
Proof. intros T e P. split; [apply np_err | intros y E; discriminate E]. Qed.
Lemma post_unsup : forall T (P : T -> Prop), post Unsup P.
Proof. intros T P. split; [apply np_unsup | intros y E; discriminate E]. Qed.
Lemma post_np : forall T (r : res T), np r -> post r (fun _ => True).
Proof. intros T r H. split; [exact H | intros; exact I]. Qed.

Lemma post_bind : forall A B (r : res A) (f : A -> res B) (P : A -> Prop) (Q : B -> Prop),
  post r P -> (forall x, P x -> post (f x) Q) -> post (bind r f) Q.
Proof.
  intros A B r f P Q [Hn Hp] Hf. destruct r as [x|e|s|]; simpl.
  - apply Hf, Hp. reflexivity.
  - apply post_err.
  - exfalso. now apply (Hn s).
  - apply post_unsup.
Qed.

Lemma post_weaken : forall T (r : res T) (P Q : T -> Prop),
  post r P -> (forall x, P x -> Q x) -> post r Q.
Proof. intros T r P Q [Hn Hp] H. split; [exact Hn | intros x E; apply H, Hp, E]. Qed.

(* every non-root label is a good label *)
Definition linv (n : node) : Prop := forall ch, In ch (nchildren n) -> Jseg (nseg ch).
Definition keepsJ (n n' : node) : Prop := all_nodes linv n' /\ nseg n' = nseg n.

Lemma keepsJ_refl : forall n, all_nodes linv n -> keepsJ n n.
Proof. intros n H. now split. Qed.

Lemma linv_child : forall n ch, all_nodes linv n -> In ch (nchildren n) ->
  Jseg (nseg ch) /\ all_nodes linv ch.
Proof.
  intros n ch H I. split; [exact (all_nodes_here _ _ H ch I) | exact (all_nodes_child _ _ _ H I)].
Qed.

Lemma set_children_keepsJ : forall n c ix,
  (forall x, In x c -> Jseg (nseg x) /\ all_nodes linv x) -> keepsJ n (set_children n c ix).
Proof.
  intros n c ix H. destruct (TreeText.set_children_facts n c ix) as [_ [Hs Hc]].
  split; [|exact Hs]. apply all_nodes_intro.
  - intros x Ix. rewrite Hc in Ix. exact (proj1 (H x Ix)).
  - intros x Ix. rewrite Hc in Ix. exact (proj2 (H x Ix)).
Qed.

Lemma same_children_linv : forall n n', nchildren n' = nchildren n -> all_nodes linv n -> all_nodes linv n'.
Proof.
  intros n n' Hc H. apply all_nodes_intro.
  - intros x Ix. rewrite Hc in Ix. exact (proj1 (linv_child _ _ H Ix)).
  - intros x Ix. rewrite Hc in Ix. exact (proj2 (linv_child _ _ H Ix)).
Qed.

Lemma set_handlers_keepsJ : forall n hs i, all_nodes linv n -> keepsJ n (set_handlers n hs i).
Proof.
  intros n hs i H. destruct (TreeText.set_handlers_facts n hs i) as [_ [Hs Hc]].
  split; [exact (same_children_linv _ _ Hc H) | exact Hs].
Qed.

Lemma replace_child_keepsJ : forall n i ch ch' ix, all_nodes linv n -> In ch (nchildren n) ->
  keepsJ ch ch' -> keepsJ n (set_children n (replace_nth i ch' (nchildren n)) ix).
Proof.
  intros n i ch ch' ix H Ich [Ha Hs]. apply set_children_keepsJ. intros x Ix.
  apply In_replace_nth in Ix. destruct Ix as [->|Ix]; [|now apply (linv_child n)].
  split; [rewrite Hs; exact (proj1 (linv_child _ _ H Ich)) | exact Ha].
Qed.

Lemma build_indexes_from_some : forall c i acc, (forall x, In x c -> sval (nseg x) <> []) ->
  exists ix, build_indexes_from c i acc = Some ix.
Proof.
  induction c as [|x c IH]; intros i acc H; cbn [build_indexes_from]; [now exists acc|].
  assert (Hc : forall y, In y c -> sval (nseg y) <> []) by (intros y Iy; apply H; now right).
  destruct (styp (nseg x)); try (apply IH; exact Hc).
  destruct (sval (nseg x)) as [|b r] eqn:E; [|apply IH; exact Hc].
  exfalso. apply (H x); [now left | exact E].
Qed.

Lemma build_indexes_np : forall c, (forall x, In x c -> sval (nseg x) <> []) -> np (build_indexes c).
Proof.
  intros c H. unfold build_indexes. destruct (Nat.ltb (length c) indexes_size); [apply np_ok|].
  destruct (build_indexes_from_some c 0 [] H) as [ix ->]. apply np_ok.
Qed.

Lemma Jseg_ne : forall s, Jseg s -> sval s <> [].
Proof. intros s H. exact (proj1 H). Qed.

(* n.sort() on good children *)
Lemma sort_node_post : forall n keyed,
  (forall x, In x (map snd keyed) -> Jseg (nseg x) /\ all_nodes linv x) ->
  post (sort_node n keyed) (keepsJ n).
Proof.
  intros n keyed H. unfold sort_node.
  apply post_bind with (P := fun _ => True).
  - apply post_np. apply build_indexes_np. intros x Ix. apply In_ssort in Ix.
    exact (Jseg_ne _ (proj1 (H x Ix))).
  - intros ix _. apply post_ok. apply set_children_keepsJ. intros x Ix. apply H. now apply In_ssort.
Qed.

(* ================================================================ Part C : Remove and Clean *)

Lemma height_pos : forall n, 0 < height n.
Proof. intro n. rewrite height_eq. lia. Qed.

Definition rm_post (n : node) (r : option (node * list bytes)) : Prop :=
  match r with None => True | Some (n', _) => keepsJ n n' end.

Lemma remove_at_node_keepsJ : forall trace ms n n' rm, all_nodes linv n ->
  remove_at_node trace ms n = (n', rm) -> keepsJ n n'.
Proof.
  intros trace ms n n' rm Hn H. unfold remove_at_node in H.
  destruct (match ms with [] => _ | _ => _ end) as [hs removed].
  injection H as <- _. now apply set_handlers_keepsJ.
Qed.

Lemma remove_finish_post : forall n i ch ch' rm, all_nodes linv n -> In ch (nchildren n) ->
  keepsJ ch ch' -> post (remove_finish n i ch' rm) (rm_post n).
Proof.
  intros n i ch ch' rm Hn Ich Hk. unfold remove_finish. destruct (prunable ch').
  - cbv zeta. apply post_bind with (P := fun _ => True).
    + apply post_np. apply build_indexes_np. intros x Ix. apply In_remove_nth in Ix.
      exact (Jseg_ne _ (proj1 (linv_child _ _ Hn Ix))).
    + intros ix _. apply post_ok. cbn [rm_post]. apply set_children_keepsJ.
      intros x Ix. apply In_remove_nth in Ix. now apply (linv_child n).
  - apply post_ok. cbn [rm_post]. now apply (replace_child_keepsJ n i ch).
Qed.

Lemma remove_in_post : forall fuel trace ms n pattern, all_nodes linv n -> height n <= fuel ->
  post (remove_in fuel trace ms n pattern) (rm_post n).
Proof.
  induction fuel as [|f IH]; intros trace ms n pattern Hn Hh; [pose proof (height_pos n); lia|].
  rewrite remove_in_S.
  assert (Hgo : forall c i, incl c (nchildren n) -> post (remove_go f trace ms n pattern c i) (rm_post n)).
  { induction c as [|ch c IHc]; intros i Hin; cbn [remove_go]; [apply post_ok; exact I|].
    assert (Ich : In ch (nchildren n)) by (apply Hin; now left).
    assert (Hin' : incl c (nchildren n)) by (intros y Iy; apply Hin; now right).
    destruct (linv_child _ _ Hn Ich) as [_ Ach].
    destruct (beqb (sval (nseg ch)) pattern).
    - destruct (remove_at_node trace ms ch) as [ch' removed] eqn:RA.
      apply (remove_finish_post n i ch); [exact Hn | exact Ich|].
      exact (remove_at_node_keepsJ _ _ _ _ _ Ach RA).
    - destruct (has_prefix pattern (sval (nseg ch))); [|now apply IHc].
      apply post_bind with (P := rm_post ch).
      + apply IH; [exact Ach|]. apply height_child in Ich. lia.
      + intros [[ch' removed]|] Hr; [|now apply IHc].
        now apply (remove_finish_post n i ch). }
  apply Hgo. apply incl_refl.
Qed.

Lemma clean_in_post : forall fuel n prefix, all_nodes linv n -> height n <= fuel ->
  post (clean_in fuel n prefix) (keepsJ n).
Proof.
  induction fuel as [|f IH]; intros n prefix Hn Hh; [pose proof (height_pos n); lia|].
  rewrite clean_in_S. destruct prefix as [|b prefix].
  - apply post_ok. apply set_children_keepsJ. intros x [].
  - remember (b :: prefix) as pf eqn:Epf. clear Epf.
    apply post_bind with (P := fun cs => forall x, In x cs -> Jseg (nseg x) /\ all_nodes linv x).
    + assert (Hgo : forall c, incl c (nchildren n) ->
                post (clean_go f pf c) (fun cs => forall x, In x cs -> Jseg (nseg x) /\ all_nodes linv x)).
      { induction c as [|ch c IHc]; intro Hin; cbn [clean_go]; [apply post_ok; intros x []|].
        assert (Ich : In ch (nchildren n)) by (apply Hin; now left).
        assert (Hin' : incl c (nchildren n)) by (intros y Iy; apply Hin; now right).
        destruct (linv_child _ _ Hn Ich) as [Jch Ach]. cbv zeta.
        apply post_bind with (P := keepsJ ch).
        - destruct (Nat.ltb (length (sval (nseg ch))) (length pf) && has_prefix pf (sval (nseg ch))).
          + apply IH; [exact Ach|]. apply height_child in Ich. lia.
          + apply post_ok. now apply keepsJ_refl.
        - intros ch' [Ach' Sch'].
          apply post_bind with (P := fun cs => forall x, In x cs -> Jseg (nseg x) /\ all_nodes linv x);
            [now apply IHc|].
          intros rest Hrest. destruct (has_prefix (sval (nseg ch)) pf); apply post_ok; [exact Hrest|].
          intros x [<-|Ix]; [|now apply Hrest]. split; [now rewrite Sch' | exact Ach']. }
      apply Hgo. apply incl_refl.
    + intros cs Hcs. apply post_bind with (P := fun _ => True).
      * apply post_np. apply build_indexes_np. intros x Ix. exact (Jseg_ne _ (proj1 (Hcs x Ix))).
      * intros ix _. apply post_ok. now apply set_children_keepsJ.
Qed.

(* ================================================================ Part D : checkAmbiguous *)

Definition amb_go (f : nat) (ic : icpts) (pattern : bytes) (nonstr : bool)
  : list node -> res (option (bytes * bool)) :=
  fix go (c : list node) : res (option (bytes * bool)) :=
    match c with
    | [] => Ok None
    | ch :: c' =>
      let seg := nseg ch in
      if has_prefix pattern (sval seg) then
        do r <- check_amb f ic ch (skipn (length (sval seg)) pattern) nonstr;
        match r with Some x => Ok (Some x) | None => go c' end
      else
        do segs <- split ic pattern;
        match segs with
        | [] => Panic (bs "checkAmbiguous:index")
        | s0 :: _ =>
          if is_ambiguous seg s0 then
            do rest <- slice_or_panic "checkAmbiguous:slice" pattern (length (sval s0)) (length pattern);
            do r <- check_amb f ic ch rest true;
            match r with Some x => Ok (Some x) | None => go c' end
          else go c'
        end
    end.

Lemma check_amb_S : forall f ic n pattern nonstr,
  check_amb (S f) ic n pattern nonstr =
  match pattern with
  | [] => Ok (if Nat.ltb O (nsize n) then Some (npat n, nonstr) else None)
  | _ :: _ => amb_go f ic pattern nonstr (nchildren n)
  end.
Proof. intros f ic n pattern nonstr. destruct pattern; reflexivity. Qed.

(* the walk only descends: the height of the node is enough fuel *)
Theorem check_amb_np : forall fuel ic n pattern nonstr, height n <= fuel ->
  np (check_amb fuel ic n pattern nonstr).
Proof.
  induction fuel as [|f IH]; intros ic n pattern nonstr Hh; [pose proof (height_pos n); lia|].
  rewrite check_amb_S. destruct pattern as [|b pattern]; [apply np_ok|].
  remember (b :: pattern) as pat eqn:Epat.
  assert (Hpat : pat <> []) by (rewrite Epat; discriminate). clear Epat.
  assert (Hgo : forall c, incl c (nchildren n) -> np (amb_go f ic pat nonstr c)).
  { induction c as [|ch c IHc]; intro Hin; cbn [amb_go]; [apply np_ok|].
    assert (Ich : In ch (nchildren n)) by (apply Hin; now left).
    assert (Hin' : incl c (nchildren n)) by (intros y Iy; apply Hin; now right).
    assert (Hch : height ch <= f) by (apply height_child in Ich; lia).
    cbv zeta. destruct (has_prefix pat (sval (nseg ch))).
    - apply np_bind; [now apply IH|]. intros [x|] _; [apply np_ok | now apply IHc].
    - apply np_bind; [apply split_np|]. intros segs Hsegs.
      pose proof (TreeOnion.split_concat _ _ _ Hsegs) as Hcat.
      destruct segs as [|s0 segs]; [cbn [map concat] in Hcat; congruence|].
      destruct (is_ambiguous (nseg ch) s0); [|now apply IHc].
      apply np_bind.
      + rewrite slice_ok; [apply np_ok | | lia].
        rewrite <- Hcat. cbn [map concat]. rewrite app_length. lia.
      + intros rest _. apply np_bind; [now apply IH|].
        intros [x|] _; [apply np_ok | now apply IHc]. }
  apply Hgo. apply incl_refl.
Qed.

(* ================================================================ Part E : addSegment / getNode *)

Definition kgood (k : node -> res node) : Prop :=
  forall ch, all_nodes linv ch -> post (k ch) (keepsJ ch).

Lemma length_pos_ne : forall (l : bytes), 0 < length l -> l <> [].
Proof. intros l H E. subst l. simpl in H. lia. Qed.

Lemma new_segment_post : forall ic val, val <> [] -> JV val ->
  post (new_segment ic val) (fun s => Jseg s /\ sval s = val).
Proof.
  intros ic val Hne HJ. split.
  - apply new_segment_np. now apply JV_not_cbb.
  - intros s H. exact (new_segment_Jseg _ _ _ Hne HJ H).
Qed.

Lemma seg_split_post : forall ic s L, 0 < L -> L < length (sval s) ->
  JV (firstn L (sval s)) -> JV (skipn L (sval s)) ->
  post (seg_split ic s L) (fun p => Jseg (fst p) /\ Jseg (snd p)).
Proof.
  intros ic s L H0 HL J1 J2. unfold seg_split.
  rewrite slice_ok by lia. cbn [bind]. rewrite slice_ok by lia. cbn [bind].
  rewrite Nat.sub_0_r. cbn [skipn].
  rewrite (firstn_all2 (skipn L (sval s))) by (rewrite skipn_length; lia).
  apply post_bind with (P := fun x => Jseg x /\ sval x = firstn L (sval s)).
  { apply new_segment_post; [|exact J1]. apply length_pos_ne. rewrite firstn_length. lia. }
  intros s1 [Js1 _].
  apply post_bind with (P := fun x => Jseg x /\ sval x = skipn L (sval s)).
  { apply new_segment_post; [|exact J2]. apply length_pos_ne. rewrite skipn_length. lia. }
  intros s2 [Js2 _]. apply post_ok. now split.
Qed.

Lemma leaf_linv : forall sg p i, all_nodes linv (Node sg p i [] [] []).
Proof. intros sg p i. apply all_nodes_intro; intros ch []. Qed.

(* the fuel needed by one addSegment is the length of the text still to be placed *)
Theorem add_segment_post : forall fuel ic n seg k, all_nodes linv n -> Jseg seg ->
  length (sval seg) <= fuel -> kgood k -> post (add_segment fuel ic n seg k) (keepsJ n).
Proof.
  induction fuel as [|f IH]; intros ic n seg k Hn Jg Hf Hk.
  { exfalso. apply (Jseg_ne _ Jg). destruct (sval seg); [reflexivity | simpl in Hf; lia]. }
  rewrite add_segment_S. cbv zeta.
  destruct (scan_sim seg (nchildren n) 0 None) as [[i|] best] eqn:SC.
  - (* identical child *)
    destruct (TreeOnion.scan_sim_some _ _ _ _ _ _ SC) as [ch [_ [NTH _]]].
    rewrite Nat.sub_0_r in NTH. rewrite NTH.
    assert (Ich : In ch (nchildren n)) by (eapply nth_error_In; eassumption).
    destruct (linv_child _ _ Hn Ich) as [Jch Ach].
    apply post_bind with (P := keepsJ ch); [now apply Hk|].
    intros ch' Hch'. apply post_ok. now apply (replace_child_keepsJ n i ch).
  - destruct best as [[i l]|].
    + (* a child shares a prefix *)
      pose proof (scan_sim_best_pos _ _ _ _ _ _ SC) as Lpos.
      assert (Hl : (0 < l)%Z) by (apply Lpos; intros j0 l0 E; discriminate E). clear Lpos.
      destruct (TreeOnion.scan_sim_best _ _ _ _ _ _ SC) as [E|[ch [_ [NTH SIM]]]]; [discriminate E|].
      rewrite Nat.sub_0_r in NTH. rewrite NTH.
      assert (Ich : In ch (nchildren n)) by (eapply nth_error_In; eassumption).
      destruct (linv_child _ _ Hn Ich) as [Jch Ach].
      subst l. destruct (cut_ok _ _ Jch Jg Hl) as [C0 [C1 [C2 [C3 C4]]]].
      set (L := Z.to_nat (similarity (nseg ch) seg)) in *.
      assert (Hcont : kgood (cont_of f ic seg L k)).
      { intros p Hp. unfold cont_of.
        destruct (Nat.eqb_spec (length (sval seg)) L) as [EL|NL]; [now apply Hk|].
        rewrite slice_ok by lia. cbn [bind].
        rewrite (firstn_all2 (skipn L (sval seg))) by (rewrite skipn_length; lia).
        apply post_bind with (P := fun s => Jseg s /\ sval s = skipn L (sval seg)).
        - apply new_segment_post; [|apply C4; lia]. apply length_pos_ne. rewrite skipn_length. lia.
        - intros s [Js Vs]. apply IH; [exact Hp | exact Js | | exact Hk].
          rewrite Vs, skipn_length. lia. }
      destruct (Nat.leb_spec (length (sval (nseg ch))) L) as [Hle|Hgt].
      * apply post_bind with (P := keepsJ ch); [now apply Hcont|].
        intros ch' Hch'. apply post_ok. now apply (replace_child_keepsJ n i ch).
      * destruct (C3 Hgt) as [J1 J2].
        apply post_bind with (P := fun p => Jseg (fst p) /\ Jseg (snd p));
          [now apply seg_split_post|].
        intros [s1 s2] [Js1 Js2]. cbn [fst snd] in Js1, Js2.
        apply post_bind with (P := keepsJ (Node s1 (npat n ++ sval s1) 0 [] [] [])).
        { apply sort_node_post. rewrite map_snd_with_prio. intros x [<-|[]].
          destruct (TreeText.set_seg_facts ch s2) as [_ [Hs Hc]].
          split; [now rewrite Hs | exact (same_children_linv _ _ Hc Ach)]. }
        intros ret [Aret Sret]. cbn [nseg] in Sret.
        apply post_bind with (P := keepsJ ret); [now apply Hcont|].
        intros ret' [Aret' Sret'].
        apply sort_node_post. intros x Ix. apply In_keyed_app in Ix.
        destruct Ix as [Ix| ->].
        -- apply In_remove_nth in Ix. now apply (linv_child n).
        -- split; [now rewrite Sret', Sret | exact Aret'].
    + (* a new child *)
      apply post_bind with (P := keepsJ (new_node n seg)).
      { apply Hk. apply leaf_linv. }
      intros nn' [Ann Snn]. cbn [new_node nseg] in Snn.
      apply sort_node_post. intros x Ix. apply In_keyed_app in Ix.
      destruct Ix as [Ix| ->]; [now apply (linv_child n)|].
      split; [now rewrite Snn | exact Ann].
Qed.

Theorem get_node_post : forall segs fuel ic n upd, segs <> [] ->
  Forall (fun s => Jseg s /\ length (sval s) <= fuel) segs -> all_nodes linv n -> kgood upd ->
  post (get_node fuel ic n segs upd) (keepsJ n).
Proof.
  induction segs as [|seg rest IH]; intros fuel ic n upd Hne HF Hn Hk; [congruence|].
  inversion HF as [|s0 r0 [Jg Hl] HF']; subst.
  destruct rest as [|seg2 rest]; cbn [get_node].
  - now apply add_segment_post.
  - apply add_segment_post; [exact Hn | exact Jg | exact Hl|].
    intros ch Hch. apply IH; [discriminate | exact HF' | exact Hch | exact Hk].
Qed.

Lemma check_methods_np : forall trace existing ms seen, np (check_methods trace existing seen ms).
Proof.
  intros trace existing. induction ms as [|m ms IH]; intro seen; cbn [check_methods]; [apply np_ok|].
  destruct (beqb m OPTIONS || beqb m HEAD || (trace && beqb m TRACE)); [apply np_err|].
  destruct (negb (is_method m)); [apply np_err|].
  destruct (ahas m existing || mem m seen); [apply np_err | apply IH].
Qed.

Lemma add_methods_kgood : forall trace router h pattern mws ms,
  kgood (add_methods trace router h pattern mws ms).
Proof.
  intros trace router h pattern mws ms ch Hch. unfold add_methods.
  apply post_bind with (P := fun _ => True); [apply post_np, check_methods_np|].
  intros u _. apply post_ok. now apply set_handlers_keepsJ.
Qed.

(* ---------------------------------------------------------------- what split hands to getNode *)
Lemma split_pieces_Jseg : forall ic ss flag names segs, Forall gp2 ss ->
  split_pieces ic ss flag names = Ok segs -> Forall Jseg segs.
Proof.
  intros ic ss. induction ss as [|s ss IH]; intros flag names segs HF H; simpl in H.
  - injection H as <-. constructor.
  - inversion HF as [|s0 ss0 [Hne HJ] HF']; subst.
    destruct (first_byte s) as [c0|]; [|discriminate H].
    destruct (flag && N.eqb c0 123); [discriminate H|].
    TreeText.res_step H. rename x into seg.
    destruct (negb (stype_eqb (styp seg) TString) && mem (sname seg) names); [discriminate H|].
    TreeText.res_step H. injection H as <-. constructor; [|exact (IH _ _ _ HF' E0)].
    exact (proj1 (new_segment_Jseg _ _ _ Hne HJ E)).
Qed.

Lemma In_concat_length : forall (x : bytes) l, In x l -> length x <= length (concat l).
Proof.
  intros x l. induction l as [|y l IH]; intro H; [destruct H|].
  cbn [concat]. rewrite app_length. destruct H as [->|H]; [lia | apply IH in H; lia].
Qed.

Lemma split_good : forall ic p segs, split ic p = Ok segs ->
  segs <> [] /\ Forall (fun s => Jseg s /\ length (sval s) <= length p) segs.
Proof.
  intros ic p segs H. pose proof (TreeOnion.split_concat _ _ _ H) as Hcat.
  unfold split in H. destruct p as [|b p]; [discriminate H|]. split.
  - intro E. subst segs. discriminate Hcat.
  - assert (HJ : Forall Jseg segs).
    { apply (split_pieces_Jseg _ _ _ _ _ (split_string_good2 (b :: p) ltac:(discriminate)) H). }
    rewrite Forall_forall in *. intros s Is. split; [now apply HJ|].
    rewrite <- Hcat. apply In_concat_length. now apply in_map.
Qed.

(* ================================================================ Part F : trees and histories *)

Definition tinv (t : tree) : Prop := all_nodes linv (troot t).

Lemma build_methods_tinv : forall t root num ms, all_nodes linv root ->
  tinv (tree_build_methods t root num ms).
Proof.
  intros t root num ms H. unfold tinv, tree_build_methods. cbn [troot].
  exact (proj1 (set_handlers_keepsJ _ _ _ H)).
Qed.

Lemma new_tree_tinv : forall name ic trace, tinv (new_tree name ic trace).
Proof.
  intros name ic trace. unfold new_tree. apply build_methods_tinv.
  apply all_nodes_intro; intros ch [].
Qed.

Theorem tree_remove_post : forall t p ms, tinv t -> post (tree_remove t p ms) tinv.
Proof.
  intros t p ms Ht. unfold tree_remove.
  apply post_bind with (P := rm_post (troot t)).
  - apply remove_in_post; [exact Ht | unfold tree_fuel; lia].
  - intros [[root' removed]|] Hr; apply post_ok; [|exact Ht].
    apply build_methods_tinv. exact (proj1 Hr).
Qed.

Theorem tree_clean_post : forall t prefix, tinv t -> post (tree_clean t prefix) tinv.
Proof.
  intros t prefix Ht. unfold tree_clean.
  apply post_bind with (P := keepsJ (troot t)).
  - apply clean_in_post; [exact Ht | unfold tree_fuel; lia].
  - intros root' Hr. apply post_ok. apply build_methods_tinv. exact (proj1 Hr).
Qed.

Theorem tree_add_post : forall t p h mws ms, tinv t -> post (tree_add t p h mws ms) tinv.
Proof.
  intros t p h mws ms Ht. unfold tree_add. cbv zeta.
  assert (G : forall ms0,
    post (do segs <- split (tic t) p;
          do _ <- check_methods (has_trace t)
                    (match find (tree_fuel t + length p + 2) (troot t) p with
                     | Some n => nhandlers n | None => [] end) [] ms0;
          do root' <- get_node (tree_fuel t + length p + 2) (tic t) (troot t) segs
                        (add_methods (has_trace t) (tname t) h p mws ms0);
          Ok (tree_build_methods t root' 1 ms0)) tinv).
  { intro ms0.
    apply post_bind with (P := fun segs => segs <> [] /\
            Forall (fun s => Jseg s /\ length (sval s) <= length p) segs).
    { split; [apply split_np | intros segs Hs; exact (split_good _ _ _ Hs)]. }
    intros segs [Hne HF].
    apply post_bind with (P := fun _ => True); [apply post_np, check_methods_np|].
    intros u _.
    apply post_bind with (P := keepsJ (troot t)).
    - apply get_node_post; [exact Hne | | exact Ht | apply add_methods_kgood].
      revert HF. apply Forall_impl. intros s [Js Hl]. split; [exact Js | lia].
    - intros root' Hr. apply post_ok. apply build_methods_tinv. exact (proj1 Hr). }
  apply post_bind with (P := fun _ => True).
  - apply post_np. apply check_amb_np. unfold tree_fuel. lia.
  - intros [[a [|]]|] _; [apply post_err | apply G | apply G].
Qed.

Lemma use_tinv : forall t mws, tinv t -> tinv (tree_apply_mw t mws).
Proof.
  intros t mws Ht. unfold tinv in *. unfold tree_apply_mw. cbn [troot]. revert Ht.
  generalize (tree_fuel t) as fuel. generalize (troot t) as n. intros n fuel. revert n.
  induction fuel as [|f IH]; intros n Hn; [exact Hn|].
  apply all_nodes_intro.
  - intros y Iy. rewrite TreeText.apply_mw_node_children in Iy.
    apply in_map_iff in Iy. destruct Iy as [ch [<- Ich]].
    rewrite (proj2 (TreeText.apply_mw_node_facts f (tname t) mws ch)).
    exact (proj1 (linv_child _ _ Hn Ich)).
  - intros y Iy. rewrite TreeText.apply_mw_node_children in Iy.
    apply in_map_iff in Iy. destruct Iy as [ch [<- Ich]].
    apply IH. exact (proj2 (linv_child _ _ Hn Ich)).
Qed.

Lemma tstep_tinv : forall t op, tinv t -> tinv (tstep t op).
Proof.
  intros t op Ht. destruct op as [p h mws ms|p ms|prefix|mws]; cbn [tstep].
  - destruct (tree_add t p h mws ms) as [t'| | |] eqn:E; cbn [keep]; try exact Ht.
    exact (proj2 (tree_add_post t p h mws ms Ht) t' E).
  - destruct (tree_remove t p ms) as [t'| | |] eqn:E; cbn [keep]; try exact Ht.
    exact (proj2 (tree_remove_post t p ms Ht) t' E).
  - destruct (tree_clean t prefix) as [t'| | |] eqn:E; cbn [keep]; try exact Ht.
    exact (proj2 (tree_clean_post t prefix Ht) t' E).
  - now apply use_tinv.
Qed.

Lemma hist_tinv : forall hist t, tinv t -> tinv (fold_left tstep hist t).
Proof.
  induction hist as [|op hist IH]; intros t Ht; [exact Ht|].
  cbn [fold_left]. apply IH. now apply tstep_tinv.
Qed.

Theorem reachable_tinv : forall name ic trace hist,
  tinv (fold_left tstep hist (new_tree name ic trace)).
Proof. intros name ic trace hist. apply hist_tinv, new_tree_tinv. Qed.

(* ---------------------------------------------------------------- the statements of C05 (registration) *)
Theorem add_never_faults : forall name ic trace hist p h mws ms s,
  tree_add (fold_left tstep hist (new_tree name ic trace)) p h mws ms <> Panic s.
Proof.
  intros name ic trace hist p h mws ms s.
  exact (proj1 (tree_add_post _ p h mws ms (reachable_tinv name ic trace hist)) s).
Qed.

Theorem remove_never_faults : forall name ic trace hist p ms s,
  tree_remove (fold_left tstep hist (new_tree name ic trace)) p ms <> Panic s.
Proof.
  intros name ic trace hist p ms s.
  exact (proj1 (tree_remove_post _ p ms (reachable_tinv name ic trace hist)) s).
Qed.

Theorem clean_never_faults : forall name ic trace hist prefix s,
  tree_clean (fold_left tstep hist (new_tree name ic trace)) prefix <> Panic s.
Proof.
  intros name ic trace hist prefix s.
  exact (proj1 (tree_clean_post _ prefix (reachable_tinv name ic trace hist)) s).
Qed.

(* one-step forms, for any tree that satisfies the label invariant *)
Theorem add_no_fault_step : forall t p h mws ms s, tinv t -> tree_add t p h mws ms <> Panic s.
Proof. intros t p h mws ms s Ht. exact (proj1 (tree_add_post t p h mws ms Ht) s). Qed.
Theorem remove_no_fault_step : forall t p ms s, tinv t -> tree_remove t p ms <> Panic s.
Proof. intros t p ms s Ht. exact (proj1 (tree_remove_post t p ms Ht) s). Qed.
Theorem clean_no_fault_step : forall t prefix s, tinv t -> tree_clean t prefix <> Panic s.
Proof. intros t prefix s Ht. exact (proj1 (tree_clean_post t prefix Ht) s). Qed.

Theorem check_amb_no_fault : forall fuel ic n pattern nonstr s, height n <= fuel ->
  check_amb fuel ic n pattern nonstr <> Panic s.
Proof. intros fuel ic n pattern nonstr s H. exact (check_amb_np fuel ic n pattern nonstr H s). Qed.

(* the invariant is needed: a tree with an empty literal label among five children makes
   Remove fault in buildIndexes *)
Definition bad_tree : tree :=
  let leaf v := Node (string_seg (bs v)) (bs v) 0 [(GET, HUser (bs v))] [] [] in
  {| troot := Node (string_seg []) [] 0 [(OPTIONS, HOptions); (M405, HNotAllowed)] []
                [leaf "a"; leaf "b"; leaf "c"; leaf "d"; leaf "e"; leaf ""]%string;
     tcounts := []; tname := bs "r"; tnotfound := HNotFound; ttrace := None; tic := [] |}.

Example remove_needs_invariant : exists s, tree_remove bad_tree (bs "a") [] = Panic s.
Proof. eexists. vm_compute. reflexivity. Qed.

(* ================================================================ examples *)
Definition is_panic {T} (r : res T) : bool := match r with Panic _ => true | _ => false end.
Definition is_ok {T} (r : res T) : bool := match r with Ok _ => true | _ => false end.

Definition reg_base : list top :=
  [ OAdd (bs "/x:{c}") (HUser (bs "h1")) [] [GET];
    OAdd (bs "/{a}/b") (HUser (bs "h2")) [] [GET] ].
Definition reg_tree : tree := fold_left tstep reg_base (new_tree (bs "r") [] false).
Definition malformed : list bytes :=
  [bs "/a}b{"; bs "/{"; bs ":{a}"; bs "/x:{a}/{b"; bs "{a}:{b}"].

Example reg_base_accepted : all_accepted (new_tree (bs "r") [] false) reg_base = true.
Proof. vm_compute. reflexivity. Qed.

(* none of the malformed patterns makes Tree.Add fault (here every one is even registered:
   the tree layer does not validate, Router.Handle runs CheckSyntax first) *)
Example malformed_no_fault :
  forallb (fun p => negb (is_panic (tree_add reg_tree p (HUser (bs "h")) [] [GET]))) malformed = true.
Proof. vm_compute. reflexivity. Qed.

Example malformed_outcomes :
  map (fun p => is_ok (tree_add reg_tree p (HUser (bs "h")) [] [GET])) malformed =
  [true; true; true; true; true].
Proof. vm_compute. reflexivity. Qed.

(* the same five registered one after the other, then removed and cleaned *)
Definition malformed_hist : list top :=
  reg_base ++ map (fun p => OAdd p (HUser (bs "h")) [] [POST]) malformed ++
  [ORemove (bs "/x:{a}/{b") []; OClean (bs "/x:")].
Example malformed_hist_accepted : all_accepted (new_tree (bs "r") [] false) malformed_hist = true.
Proof. vm_compute. reflexivity. Qed.

(* token labels with a '{' inside the braces (interceptor rules "b{c", "b{d"): the node
   "{a:b{c}" is cut at the inner '{', both halves are good labels *)
Definition brace_ic : icpts := [(bs "b{c", match_any); (bs "b{d", match_any)].
Definition brace_hist : list top :=
  [ OAdd (bs "/{a:b{c}") (HUser (bs "h1")) [] [GET];
    OAdd (bs "/{a:b{d}") (HUser (bs "h2")) [] [GET];
    OAdd (bs "/{a:b{c}x") (HUser (bs "h3")) [] [GET] ].
Example brace_hist_accepted : all_accepted (new_tree (bs "r") brace_ic false) brace_hist = true.
Proof. vm_compute. reflexivity. Qed.

Example brace_cut : longest_prefix (bs "{a:b{d}") (bs "{a:b{c}") = 4%Z /\
  J_P (bs "{a:b{d}") /\ J_P (bs "{a:b{c}") /\ J_P (skipn 4 (bs "{a:b{c}")).
Proof.
  split; [vm_compute; reflexivity|].
  split; [exists (bs "a:b{d"), []; split; [reflexivity | split; intro H; vm_compute in H; intuition discriminate]|].
  split; [exists (bs "a:b{c"), []; split; [reflexivity | split; intro H; vm_compute in H; intuition discriminate]|].
  exists (bs "c"), []. split; [reflexivity | split; intro H; vm_compute in H; intuition discriminate].
Qed.

(* cutting the same label one byte earlier would hand ":b{c}"-like text to NewSegment, which
   faults on it: the cut positions of longestPrefix matter *)
Example bad_cut_faults : is_panic (new_segment brace_ic (skipn 2 (bs "{a:b{c}"))) = true.
Proof. vm_compute. reflexivity. Qed.
