(* C09 – the middleware onion on the abstract table: the table reached by any history is the
   rendering of the registration records with ALL Router.Use middlewares outside. *)
From Coq Require Import String.
From Mux Require Import Model.Bytes Model.Regex Model.Context Model.Syntax Model.Tree
     Spec.Table Spec.Onion Proofs.BytesFacts.

(* ------------------------------------------------------------------ L1 / L2 *)
Lemma mw_app : forall h m p r a b,
    apply_mw h m p r (a ++ b) = apply_mw (apply_mw h m p r a) m p r b.
Proof.
  intros h m p r a. revert h. induction a as [|x a IH]; intros h b; simpl.
  - reflexivity.
  - apply IH.
Qed.

Lemma wrap_app : forall h m p r a b,
    wrap_outermost_last h m p r (a ++ b) = wrap_outermost_last (wrap_outermost_last h m p r b) m p r a.
Proof.
  intros h m p r a b. induction a as [|x a IH]; simpl.
  - reflexivity.
  - now rewrite IH.
Qed.

Lemma mw_nesting : forall h m p r mws,
    apply_mw h m p r mws = wrap_outermost_last h m p r (rev mws).
Proof.
  intros h m p r mws. revert h. induction mws as [|x mws IH]; intro h; simpl.
  - reflexivity.
  - rewrite IH, wrap_app. reflexivity.
Qed.

(* ------------------------------------------------------------------ maps over the values of an association list *)
Section AMap.
  Context {A B : Type}.
  Variable f : bytes -> A -> B.

  Definition amap (l : list (bytes * A)) : list (bytes * B) :=
    map (fun kv => (fst kv, f (fst kv) (snd kv))) l.

  Lemma alookup_amap : forall l k, alookup k (amap l) = option_map (f k) (alookup k l).
  Proof.
    induction l as [|[k0 v0] l IH]; intro k; simpl.
    - reflexivity.
    - destruct (beqb_spec k k0) as [->|N]; [reflexivity | apply IH].
  Qed.

  Lemma ahas_amap : forall l k, ahas k (amap l) = ahas k l.
  Proof.
    intros l k. unfold ahas. rewrite alookup_amap. now destruct (alookup k l).
  Qed.

  Lemma aset_amap : forall l k v, aset k (f k v) (amap l) = amap (aset k v l).
  Proof.
    induction l as [|[k0 v0] l IH]; intros k v; simpl.
    - reflexivity.
    - destruct (beqb k k0); simpl; [reflexivity | now rewrite IH].
  Qed.

  Lemma adelete_amap : forall l k, adelete k (amap l) = amap (adelete k l).
  Proof.
    induction l as [|[k0 v0] l IH]; intro k; simpl.
    - reflexivity.
    - destruct (beqb k k0); simpl; [apply IH | now rewrite IH].
  Qed.

  Lemma forallb_keys_amap : forall (g : bytes -> bool) l,
      forallb (fun kv => g (fst kv)) (amap l) = forallb (fun kv => g (fst kv)) l.
  Proof.
    intros g. induction l as [|[k0 v0] l IH]; simpl; [reflexivity | now rewrite IH].
  Qed.

  Lemma filter_keys_amap : forall (g : bytes -> bool) l,
      filter (fun kv => g (fst kv)) (amap l) = amap (filter (fun kv => g (fst kv)) l).
  Proof.
    intros g. induction l as [|[k0 v0] l IH]; simpl; [reflexivity|].
    destruct (g k0); simpl; now rewrite IH.
  Qed.
End AMap.

Lemma adelete_absent : forall {V} (l : list (bytes * V)) k, ahas k l = false -> adelete k l = l.
Proof.
  intros V. induction l as [|[k0 v0] l IH]; intros k H; simpl.
  - reflexivity.
  - unfold ahas in H. simpl in H. destruct (beqb k k0) eqn:E; [discriminate|].
    f_equal. apply IH. exact H.
Qed.

(* ------------------------------------------------------------------ render is an amap (twice) *)
Definition rv (c : tcfg) (u : list bytes) (p k : bytes) (v : hterm * list bytes) : hterm :=
  apply_mw (fst v) k p (c_router c) (snd v ++ u).

Lemma render_entry_amap : forall c u p e, render_entry c u p e = amap (rv c u p) e.
Proof. reflexivity. Qed.

Lemma render_amap : forall c u t, render c u t = amap (render_entry c u) t.
Proof. reflexivity. Qed.

Lemma ahas_render_entry : forall c u p e k, ahas k (render_entry c u p e) = ahas k e.
Proof. intros c u p e k. exact (ahas_amap (rv c u p) e k). Qed.

Lemma aset_render_entry : forall c u p k h mws e,
    aset k (apply_mw h k p (c_router c) (mws ++ u)) (render_entry c u p e) = render_entry c u p (aset k (h, mws) e).
Proof. intros c u p k h mws e. exact (aset_amap (rv c u p) e k (h, mws)). Qed.

Lemma adelete_render_entry : forall c u p k e,
    adelete k (render_entry c u p e) = render_entry c u p (adelete k e).
Proof. intros c u p k e. exact (adelete_amap (rv c u p) e k). Qed.

Lemma only_auto_render_entry : forall c u p e,
    only_auto (render_entry c u p e) = forallb (fun kv => is_auto (fst kv)) e.
Proof. intros c u p e. exact (forallb_keys_amap (rv c u p) is_auto e). Qed.

Lemma alookup_render : forall c u t p,
    alookup p (render c u t) = option_map (render_entry c u p) (alookup p t).
Proof. intros c u t p. exact (alookup_amap (render_entry c u) t p). Qed.

Lemma aset_render : forall c u t p e,
    aset p (render_entry c u p e) (render c u t) = render c u (aset p e t).
Proof. intros c u t p e. exact (aset_amap (render_entry c u) t p e). Qed.

Lemma adelete_render : forall c u t p, adelete p (render c u t) = render c u (adelete p t).
Proof. intros c u t p. exact (adelete_amap (render_entry c u) t p). Qed.

Lemma clean_render : forall c u t prefix,
    t_clean (render c u t) prefix = render c u (filter (fun kv => negb (has_prefix (fst kv) prefix)) t).
Proof.
  intros c u t prefix.
  exact (filter_keys_amap (render_entry c u) (fun k => negb (has_prefix k prefix)) t).
Qed.

(* ------------------------------------------------------------------ the four operations commute with render *)
Lemma install_render : forall c u p h mws ms e,
    install_methods h p (c_router c) (mws ++ u) ms (render_entry c u p e) =
    render_entry c u p (r_install h mws ms e).
Proof.
  intros c u p h mws ms. induction ms as [|m ms IH]; intro e; simpl.
  - reflexivity.
  - assert (H1 : (if beqb m GET then aset HEAD (apply_mw h HEAD p (c_router c) (mws ++ u)) (render_entry c u p e)
                  else render_entry c u p e) =
                 render_entry c u p (if beqb m GET then aset HEAD (h, mws) e else e)).
    { destruct (beqb m GET); [apply aset_render_entry | reflexivity]. }
    rewrite H1, aset_render_entry. apply IH.
Qed.

Lemma ensure_render : forall c u p k h mws e,
    (if ahas k (render_entry c u p e) then render_entry c u p e
     else aset k (apply_mw h k p (c_router c) (mws ++ u)) (render_entry c u p e)) =
    render_entry c u p (if ahas k e then e else aset k (h, mws) e).
Proof.
  intros c u p k h mws e. rewrite ahas_render_entry, aset_render_entry.
  destruct (ahas k e); reflexivity.
Qed.

Lemma handle_render : forall c u rt p id mws ms,
    t_handle c (render c u rt) p (HUser id) (mws ++ u) ms = render c u (r_handle rt p id mws ms).
Proof.
  intros c u rt p id mws ms. unfold t_handle, r_handle. cbv zeta.
  assert (E0 : opt_default [] (alookup p (render c u rt)) =
               render_entry c u p (opt_default [] (alookup p rt))).
  { rewrite alookup_render. destruct (alookup p rt) as [e|]; reflexivity. }
  rewrite E0, install_render, ensure_render, ensure_render, aset_render. reflexivity.
Qed.

Lemma remove_methods_render : forall c u p ms e removed,
    fst (remove_methods ms (render_entry c u p e) removed) = render_entry c u p (r_remove_methods ms e).
Proof.
  intros c u p ms. induction ms as [|m ms IH]; intros e removed; simpl.
  - reflexivity.
  - destruct (is_auto m) eqn:Ea; [apply IH|].
    assert (T : forall e1 : rentry,
               fst (if ahas m (render_entry c u p e1)
                    then remove_methods ms (adelete m (render_entry c u p e1)) (m :: removed)
                    else remove_methods ms (render_entry c u p e1) removed) =
               render_entry c u p (r_remove_methods ms (adelete m e1))).
    { intro e1. rewrite ahas_render_entry. destruct (ahas m e1) eqn:Eh.
      - rewrite adelete_render_entry. apply IH.
      - rewrite (adelete_absent e1 m Eh). apply IH. }
    destruct (beqb m GET).
    + rewrite adelete_render_entry. apply T.
    + apply T.
Qed.

Lemma remove_render : forall c u rt p ms,
    t_remove (render c u rt) p ms = render c u (r_remove rt p ms).
Proof.
  intros c u rt p ms. unfold t_remove, r_remove. rewrite alookup_render.
  destruct (alookup p rt) as [e|]; cbn [option_map]; [|reflexivity].
  destruct ms as [|m0 ms0]; [apply adelete_render|].
  cbv zeta. rewrite remove_methods_render, only_auto_render_entry.
  destruct (forallb (fun kv => is_auto (fst kv)) (r_remove_methods (m0 :: ms0) e)).
  - apply adelete_render.
  - apply aset_render.
Qed.

Lemma use_render : forall c u rt mws, t_use c (render c u rt) mws = render c (u ++ mws) rt.
Proof.
  intros c u rt mws. unfold t_use, render. rewrite map_map. apply map_ext.
  intros [p e]. cbn [fst snd]. f_equal. unfold render_entry. rewrite map_map. apply map_ext.
  intros [k [h l]]. cbn [fst snd]. f_equal.
  rewrite <- mw_app, <- app_assoc. reflexivity.
Qed.

(* ------------------------------------------------------------------ T1 *)
Lemma step_render : forall c s rt op,
    tt s = render c (tuses s) rt ->
    tt (t_step c s op) = render c (tuses (t_step c s op)) (r_step rt op).
Proof.
  intros c s rt op H. destruct op as [p id rm fm ms | p ms | prefix | mws]; cbn [t_step r_step tt tuses]; rewrite H.
  - replace (rm ++ fm ++ tuses s) with ((rm ++ fm) ++ tuses s) by (symmetry; apply app_assoc).
    apply handle_render.
  - apply remove_render.
  - apply clean_render.
  - apply use_render.
Qed.

Lemma run_gen : forall c hist s rt,
    tt s = render c (tuses s) rt ->
    tt (fold_left (t_step c) hist s) =
      render c (tuses (fold_left (t_step c) hist s)) (fold_left r_step hist rt) /\
    tuses (fold_left (t_step c) hist s) = tuses s ++ uses_of hist.
Proof.
  intros c hist. induction hist as [|op hist IH]; intros s rt H.
  - simpl. split; [exact H | now rewrite app_nil_r].
  - cbn [fold_left].
    destruct (IH (t_step c s op) (r_step rt op) (step_render c s rt op H)) as [H1 H2].
    split; [exact H1|]. rewrite H2.
    destruct op as [p id rm fm ms | p ms | prefix | mws]; cbn [t_step tuses uses_of]; try reflexivity.
    now rewrite <- app_assoc.
Qed.

Lemma table_is_rendered_records : forall c hist,
    tt (t_run c hist) = render c (uses_of hist) (r_run hist) /\ tuses (t_run c hist) = uses_of hist.
Proof.
  intros c hist. unfold t_run, r_run.
  destruct (run_gen c hist t_init [] eq_refl) as [H1 H2]. cbn [t_init tuses app] in H2.
  split; [|exact H2]. rewrite H1, H2. reflexivity.
Qed.

(* ------------------------------------------------------------------ T2 *)
Lemma onion_order : forall c hist p e m core mws,
    In (p, e) (r_run hist) -> In (m, (core, mws)) e ->
    exists e', In (p, e') (tt (t_run c hist)) /\
               In (m, apply_mw (apply_mw core m p (c_router c) mws) m p (c_router c) (uses_of hist)) e'.
Proof.
  intros c hist p e m core mws Hp Hm.
  destruct (table_is_rendered_records c hist) as [H1 _].
  exists (render_entry c (uses_of hist) p e). split.
  - rewrite H1. unfold render. apply in_map_iff. exists (p, e). split; [reflexivity | exact Hp].
  - unfold render_entry. apply in_map_iff. exists (m, (core, mws)). split; [|exact Hm].
    cbn [fst snd]. now rewrite mw_app.
Qed.

(* ------------------------------------------------------------------ T3 *)
Lemma use_position_irrelevant_for_order : forall (c : tcfg) h1 h2 mws,
    r_run (h1 ++ TUse mws :: h2) = r_run (h1 ++ h2).
Proof.
  intros _ h1 h2 mws. unfold r_run. rewrite !fold_left_app. reflexivity.
Qed.

(* ------------------------------------------------------------------ T4 *)
Lemma r_install_keeps : forall core mws ms e k,
    alookup k e = Some (core, mws) -> alookup k (r_install core mws ms e) = Some (core, mws).
Proof.
  intros core mws ms. induction ms as [|a ms IH]; intros e k H; simpl; [exact H|].
  apply IH. rewrite alookup_aset. destruct (beqb k a); [reflexivity|].
  destruct (beqb a GET); [|exact H].
  rewrite alookup_aset. destruct (beqb k HEAD); [reflexivity | exact H].
Qed.

Lemma r_install_records : forall core mws ms e m,
    In m ms -> alookup m (r_install core mws ms e) = Some (core, mws).
Proof.
  intros core mws ms. induction ms as [|a ms IH]; intros e m I; [contradiction|].
  destruct I as [->|I]; simpl.
  - apply r_install_keeps. rewrite alookup_aset, beqb_refl. reflexivity.
  - apply IH, I.
Qed.

Lemma ensure_keeps : forall {V} (e : list (bytes * V)) k v m x,
    alookup m e = Some x -> alookup m (if ahas k e then e else aset k v e) = Some x.
Proof.
  intros V e k v m x H. destruct (ahas k e) eqn:E; [exact H|].
  rewrite alookup_aset. destruct (beqb_spec m k) as [->|N]; [|exact H].
  unfold ahas in E. rewrite H in E. discriminate.
Qed.

Lemma records_of_handle : forall t p id mws ms m,
    ms <> [] -> In m ms ->
    alookup m (opt_default [] (alookup p (r_handle t p id mws ms))) = Some (HUser id, mws).
Proof.
  intros t p id mws ms m Hne Hin. unfold r_handle. cbv zeta.
  rewrite alookup_aset, beqb_refl. cbn [opt_default].
  destruct ms as [|m0 ms0]; [contradiction|].
  apply ensure_keeps, ensure_keeps, r_install_records, Hin.
Qed.

(* ------------------------------------------------------------------ T5 *)
Lemma r_install_other : forall core mws ms e k,
    k <> HEAD -> ~ In k ms -> alookup k (r_install core mws ms e) = alookup k e.
Proof.
  intros core mws ms. induction ms as [|a ms IH]; intros e k Hk Hn; simpl; [reflexivity|].
  rewrite IH; [|exact Hk | intro I; apply Hn; now right].
  rewrite alookup_aset. destruct (beqb_spec k a) as [->|N]; [exfalso; apply Hn; now left|].
  destruct (beqb a GET); [|reflexivity].
  rewrite alookup_aset. destruct (beqb_spec k HEAD) as [E|N']; [contradiction | reflexivity].
Qed.

Lemma auto_handlers_keep_first_registration : forall (t : rtable) p id mws ms (e0 : rentry),
    alookup p t = Some e0 -> ahas OPTIONS e0 = true -> ahas M405 e0 = true ->
    alookup OPTIONS (opt_default [] (alookup p (r_handle t p id mws ms))) = alookup OPTIONS e0 \/
    In OPTIONS (match ms with [] => any_methods | _ => ms end).
Proof.
  intros t p id mws ms e0 Hp Ho _.
  destruct (in_dec (list_eq_dec N.eq_dec) OPTIONS (match ms with [] => any_methods | _ => ms end)) as [I|NI];
    [right; exact I | left].
  unfold r_handle. cbv zeta. rewrite alookup_aset, beqb_refl. cbn [opt_default]. rewrite Hp. cbn [opt_default].
  set (e1 := r_install (HUser id) mws (match ms with [] => any_methods | _ => ms end) e0).
  assert (H1 : alookup OPTIONS e1 = alookup OPTIONS e0).
  { unfold e1. apply r_install_other; [|exact NI]. intro E. vm_compute in E. discriminate E. }
  assert (H2 : ahas OPTIONS e1 = true).
  { unfold ahas. rewrite H1. exact Ho. }
  rewrite H2. destruct (ahas M405 e1); [exact H1|].
  rewrite alookup_aset. replace (beqb OPTIONS M405) with false by reflexivity. exact H1.
Qed.

(* ------------------------------------------------------------------ non-vacuity *)
Definition ex_cfg : tcfg := {| c_trace := false; c_router := bs "main"; c_ic := [] |}.
Definition ex_hist : list top :=
  [ TUse [bs "u0"];
    THandle (bs "/a") (bs "h") [bs "r1"] [bs "f1"] [GET];
    TUse [bs "u1"];
    THandle (bs "/a") (bs "h2") [bs "r2"] [] [POST] ].

(* hypotheses of T2 hold on a history that interleaves Use and registrations; the table holds the
   handler with u1 (the later Use) outermost, then u0, then the facade's f1, then the route's r1 *)
Example onion_nonvacuous :
  exists e, In (bs "/a", e) (r_run ex_hist) /\
            In (GET, (HUser (bs "h"), [bs "r1"; bs "f1"])) e /\
            alookup GET (opt_default [] (alookup (bs "/a") (tt (t_run ex_cfg ex_hist)))) =
            Some (HWrap (bs "u1") GET (bs "/a") (bs "main")
                  (HWrap (bs "u0") GET (bs "/a") (bs "main")
                   (HWrap (bs "f1") GET (bs "/a") (bs "main")
                    (HWrap (bs "r1") GET (bs "/a") (bs "main") (HUser (bs "h")))))).
Proof.
  eexists. split; [vm_compute; left; reflexivity|]. split; [right; left; reflexivity | vm_compute; reflexivity].
Qed.

(* hypotheses of T5: after the first registration OPTIONS and 405 exist and keep [r1; f1] when POST
   is registered later with [r2] *)
Example auto_nonvacuous :
  let t := r_run [THandle (bs "/a") (bs "h") [bs "r1"] [bs "f1"] [GET]] in
  exists e0, alookup (bs "/a") t = Some e0 /\ ahas OPTIONS e0 = true /\ ahas M405 e0 = true /\
             alookup OPTIONS (opt_default [] (alookup (bs "/a") (r_handle t (bs "/a") (bs "h2") [bs "r2"] [POST]))) =
             Some (HOptions, [bs "r1"; bs "f1"]) /\
             alookup POST (opt_default [] (alookup (bs "/a") (r_handle t (bs "/a") (bs "h2") [bs "r2"] [POST]))) =
             Some (HUser (bs "h2"), [bs "r2"]).
Proof.
  eexists. split; [vm_compute; reflexivity|]. repeat split; vm_compute; reflexivity.
Qed.
