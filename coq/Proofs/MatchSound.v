(* Soundness of segment matching and of the tree walk (match_children); absence of runtime
   faults in matching.  Theorems are re-exported by Props/TreeMatch.v. *)
From Coq Require Import String.
From Mux Require Import Model.Bytes Model.Regex Model.Context Model.Syntax Model.Tree Proofs.BytesFacts.

(* ================================================================ Part A : one segment *)

(* an end-point parameter has nothing after its closing brace *)
Definition seg_wf (seg : segment) : Prop := sendpoint seg = true -> ssuffix seg = [].

(* does a successful match of this segment write a parameter ? *)
Definition seg_sets (seg : segment) : bool :=
  match styp seg with TString => false | _ => negb (signore seg) end.

Lemma find_split_unfold : forall m suffix pre s,
  find_split m suffix pre s =
  if has_prefix s suffix && m (rev pre) then Some (rev pre, skipn (length suffix) s)
  else match s with [] => None | c :: s' => find_split m suffix (c :: pre) s' end.
Proof. intros m suffix pre s. destruct s; reflexivity. Qed.

Lemma find_split_gen : forall m suffix s pre v rest,
  find_split m suffix pre s = Some (v, rest) ->
  exists w, v = rev pre ++ w /\ s = w ++ suffix ++ rest /\ m v = true /\
    forall w' tail, s = w' ++ suffix ++ tail -> (length w' < length w)%nat ->
                    m (rev pre ++ w') = false.
Proof.
  intros m suffix s. induction s as [|c s IH]; intros pre v rest H;
    rewrite find_split_unfold in H;
    destruct (has_prefix _ suffix && m (rev pre)) eqn:E.
  - apply andb_true_iff in E. destruct E as [Hp Hm]. injection H as <- <-.
    exists []. rewrite app_nil_r. split; [reflexivity|]. split; [exact (has_prefix_skipn _ _ Hp)|].
    split; [exact Hm|]. intros w' tail _ Hl. simpl in Hl. lia.
  - discriminate.
  - apply andb_true_iff in E. destruct E as [Hp Hm]. injection H as <- <-.
    exists []. rewrite app_nil_r. split; [reflexivity|]. split; [exact (has_prefix_skipn _ _ Hp)|].
    split; [exact Hm|]. intros w' tail _ Hl. simpl in Hl. lia.
  - apply IH in H. destruct H as [w [Hv [Hs [Hm Hmin]]]].
    exists (c :: w). simpl rev in Hv. rewrite <- app_assoc in Hv. simpl in Hv.
    split; [exact Hv|]. split; [simpl; now rewrite Hs|]. split; [exact Hm|].
    intros w' tail Hw' Hl. destruct w' as [|c' w''].
    + rewrite app_nil_r. simpl in Hw'.
      assert (Hp : has_prefix (c :: s) suffix = true) by (apply has_prefix_spec; now exists tail).
      rewrite Hp in E. simpl in E. exact E.
    + simpl in Hw'. injection Hw' as Hc Hs'. subst c'.
      assert (Hl' : (length w'' < length w)%nat) by (simpl in Hl; lia).
      specialize (Hmin w'' tail Hs' Hl'). simpl rev in Hmin. rewrite <- app_assoc in Hmin.
      exact Hmin.
Qed.

Lemma find_split_shortest : forall m suffix path v rest,
  find_split m suffix [] path = Some (v, rest) ->
  path = v ++ suffix ++ rest /\ m v = true /\
  forall v' tail, path = v' ++ suffix ++ tail -> (length v' < length v)%nat -> m v' = false.
Proof.
  intros m suffix path v rest H. apply find_split_gen in H.
  destruct H as [w [Hv [Hs [Hm Hmin]]]]. simpl in Hv. subst w.
  split; [exact Hs|]. split; [exact Hm|]. intros v' tail Hp Hl. exact (Hmin v' tail Hp Hl).
Qed.

(* every way [seg_match] can succeed *)
Lemma seg_match_cases : forall seg path ps rest ps',
  seg_match seg path ps = Some (rest, ps') ->
  (styp seg = TString /\ path = sval seg ++ rest /\ ps' = ps) \/
  (styp seg <> TString /\ exists v, smatch seg v = true /\
     ps' = (if signore seg then ps else ctx_set ps (sname seg) v) /\
     ((rest = [] /\ v = path /\ (sendpoint seg = true \/ (styp seg = TRegexp /\ ssuffix seg = []))) \/
      (sendpoint seg = false /\ (styp seg = TRegexp -> ssuffix seg <> []) /\
       find_split (smatch seg) (ssuffix seg) [] path = Some (v, rest)))).
Proof.
  intros seg path ps rest ps'. unfold seg_match.
  destruct (styp seg) eqn:T.
  - destruct (has_prefix path (sval seg)) eqn:HP; intro H; [|discriminate].
    injection H as <- <-. left. split; [reflexivity|].
    split; [now apply has_prefix_skipn | reflexivity].
  - (* interceptor *)
    cbn [stype_eqb stype_rank Nat.eqb andb]. rewrite orb_false_r.
    destruct (sendpoint seg) eqn:EP.
    + destruct (smatch seg path) eqn:M; intro H; [|discriminate]. injection H as <- <-.
      right. split; [discriminate|]. exists path. split; [exact M|]. split; [reflexivity|].
      left. split; [reflexivity|]. split; [reflexivity|]. now left.
    + destruct (find_split (smatch seg) (ssuffix seg) [] path) as [[v r]|] eqn:F; intro H; [|discriminate].
      injection H as <- <-. right. split; [discriminate|]. exists v.
      split; [exact (proj1 (proj2 (find_split_shortest _ _ _ _ _ F)))|]. split; [reflexivity|].
      right. split; [reflexivity|]. split; [discriminate | reflexivity].
  - (* regexp *)
    cbn [stype_eqb stype_rank Nat.eqb andb].
    destruct (sendpoint seg) eqn:EP; [|destruct (ssuffix seg) as [|s0 sf] eqn:SF]; cbn [orb].
    + destruct (smatch seg path) eqn:M; intro H; [|discriminate]. injection H as <- <-.
      right. split; [discriminate|]. exists path. split; [exact M|]. split; [reflexivity|].
      left. split; [reflexivity|]. split; [reflexivity|]. now left.
    + destruct (smatch seg path) eqn:M; intro H; [|discriminate]. injection H as <- <-.
      right. split; [discriminate|]. exists path. split; [exact M|]. split; [reflexivity|].
      left. split; [reflexivity|]. split; [reflexivity|]. right. now split.
    + destruct (find_split (smatch seg) (s0 :: sf) [] path) as [[v r]|] eqn:F; intro H; [|discriminate].
      injection H as <- <-. right. split; [discriminate|]. exists v.
      split; [exact (proj1 (proj2 (find_split_shortest _ _ _ _ _ F)))|]. split; [reflexivity|].
      right. split; [reflexivity|]. split; [intros _; discriminate | reflexivity].
  - (* named *)
    cbn [stype_eqb stype_rank Nat.eqb andb]. rewrite orb_false_r.
    destruct (sendpoint seg) eqn:EP.
    + destruct (smatch seg path) eqn:M; intro H; [|discriminate]. injection H as <- <-.
      right. split; [discriminate|]. exists path. split; [exact M|]. split; [reflexivity|].
      left. split; [reflexivity|]. split; [reflexivity|]. now left.
    + destruct (find_split (smatch seg) (ssuffix seg) [] path) as [[v r]|] eqn:F; intro H; [|discriminate].
      injection H as <- <-. right. split; [discriminate|]. exists v.
      split; [exact (proj1 (proj2 (find_split_shortest _ _ _ _ _ F)))|]. split; [reflexivity|].
      right. split; [reflexivity|]. split; [discriminate | reflexivity].
Qed.

(* NOTE: the statement needs [seg_wf seg]: for an end-point segment the whole remaining path
   is the value whatever [ssuffix] says (see [seg_match_sound_needs_wf] below). *)
Lemma seg_match_sound : forall seg path ps rest ps', seg_wf seg ->
  seg_match seg path ps = Some (rest, ps') ->
  match styp seg with
  | TString => path = sval seg ++ rest /\ ps' = ps
  | _ => exists v, path = v ++ ssuffix seg ++ rest /\ smatch seg v = true /\
                   ps' = (if signore seg then ps else ctx_set ps (sname seg) v) /\
                   ((sendpoint seg = true \/ (styp seg = TRegexp /\ ssuffix seg = [])) -> rest = [])
  end.
Proof.
  intros seg path ps rest ps' Hwf H. apply seg_match_cases in H.
  destruct H as [[T [Hp Hps]] | [T [v [Hm [Hps Hc]]]]].
  - rewrite T. now split.
  - assert (G : exists v, path = v ++ ssuffix seg ++ rest /\ smatch seg v = true /\
                   ps' = (if signore seg then ps else ctx_set ps (sname seg) v) /\
                   ((sendpoint seg = true \/ (styp seg = TRegexp /\ ssuffix seg = [])) -> rest = [])).
    { exists v. destruct Hc as [[Hr [Hv He]] | [EP [Hsf F]]].
      - subst rest v. assert (Hs : ssuffix seg = []).
        { destruct He as [He | [_ He]]; [now apply Hwf | exact He]. }
        rewrite Hs. simpl. rewrite app_nil_r. repeat split; auto.
      - apply find_split_shortest in F. destruct F as [Hp _].
        split; [exact Hp|]. split; [exact Hm|]. split; [exact Hps|].
        intros [He | [He1 He2]]; [congruence | now apply Hsf in He1]. }
    destruct (styp seg); [congruence | exact G | exact G | exact G].
Qed.

Lemma seg_match_rest_shorter : forall seg path ps rest ps',
  seg_match seg path ps = Some (rest, ps') -> (length rest <= length path)%nat.
Proof.
  intros seg path ps rest ps' H. apply seg_match_cases in H.
  destruct H as [[T [Hp Hps]] | [T [v [Hm [Hps Hc]]]]].
  - subst path. rewrite app_length. lia.
  - destruct Hc as [[Hr _] | [_ [_ F]]].
    + subst rest. simpl. lia.
    + apply find_split_shortest in F. destruct F as [Hp _]. subst path.
      rewrite !app_length. lia.
Qed.

(* the parameters are only threaded through: the outcome on another parameter list is the
   same, with the same captured value *)
Lemma seg_match_uniform : forall seg path ps rest ps1,
  seg_match seg path ps = Some (rest, ps1) ->
  exists v, forall ps0, seg_match seg path ps0 =
                        Some (rest, if seg_sets seg then ctx_set ps0 (sname seg) v else ps0).
Proof.
  intros seg path ps rest ps1. unfold seg_match, seg_sets.
  destruct (styp seg).
  - destruct (has_prefix path (sval seg)); intro H; [|discriminate]. injection H as <- _.
    exists []. reflexivity.
  - destruct (sendpoint seg || _).
    + destruct (smatch seg path); intro H; [|discriminate]. injection H as <- _.
      exists path. intro ps0. now destruct (signore seg).
    + destruct (find_split _ _ _ _) as [[v r]|]; intro H; [|discriminate]. injection H as <- _.
      exists v. intro ps0. now destruct (signore seg).
  - destruct (sendpoint seg || _).
    + destruct (smatch seg path); intro H; [|discriminate]. injection H as <- _.
      exists path. intro ps0. now destruct (signore seg).
    + destruct (find_split _ _ _ _) as [[v r]|]; intro H; [|discriminate]. injection H as <- _.
      exists v. intro ps0. now destruct (signore seg).
  - destruct (sendpoint seg || _).
    + destruct (smatch seg path); intro H; [|discriminate]. injection H as <- _.
      exists path. intro ps0. now destruct (signore seg).
    + destruct (find_split _ _ _ _) as [[v r]|]; intro H; [|discriminate]. injection H as <- _.
      exists v. intro ps0. now destruct (signore seg).
Qed.

Lemma seg_match_shape : forall seg path ps rest ps1,
  seg_match seg path ps = Some (rest, ps1) ->
  exists v, ps1 = (if seg_sets seg then ctx_set ps (sname seg) v else ps) /\
    forall ps0, seg_match seg path ps0 =
                Some (rest, if seg_sets seg then ctx_set ps0 (sname seg) v else ps0).
Proof.
  intros seg path ps rest ps1 H. destruct (seg_match_uniform _ _ _ _ _ H) as [v Hv].
  exists v. split; [|exact Hv]. rewrite Hv in H. now injection H as <-.
Qed.

(* ================================================================ association-list facts *)
Section Dels.
  Context {V : Type}.
  Implicit Types (l : list (bytes * V)) (k : bytes).

  Fixpoint adeletes (ks : list bytes) l : list (bytes * V) :=
    match ks with [] => l | k :: ks' => adeletes ks' (adelete k l) end.

  Lemma adelete_comm : forall l a b, adelete a (adelete b l) = adelete b (adelete a l).
  Proof.
    induction l as [|[k0 v0] l IH]; intros a b; simpl; [reflexivity|].
    destruct (beqb b k0) eqn:Eb; destruct (beqb a k0) eqn:Ea; simpl;
      rewrite ?Eb, ?Ea; rewrite (IH a b); reflexivity.
  Qed.

  Lemma adelete_adeletes : forall ks l k, adelete k (adeletes ks l) = adeletes ks (adelete k l).
  Proof.
    induction ks as [|a ks IH]; intros l k; simpl; [reflexivity|].
    rewrite IH. now rewrite adelete_comm.
  Qed.

  Lemma adeletes_app : forall ks1 ks2 l, adeletes (ks1 ++ ks2) l = adeletes ks2 (adeletes ks1 l).
  Proof. induction ks1 as [|a ks1 IH]; intros ks2 l; simpl; [reflexivity | apply IH]. Qed.

  Lemma adelete_aset_same : forall l k v, adelete k (aset k v l) = adelete k l.
  Proof.
    induction l as [|[k0 v0] l IH]; intros k v; simpl.
    - now rewrite beqb_refl.
    - destruct (beqb k k0) eqn:E; simpl.
      + now rewrite beqb_refl.
      + rewrite E. now rewrite IH.
  Qed.

  Lemma adelete_aset_other : forall l k a v, k <> a -> adelete k (aset a v l) = aset a v (adelete k l).
  Proof.
    induction l as [|[k0 v0] l IH]; intros k a v N; simpl.
    - apply beqb_neq in N. now rewrite N.
    - destruct (beqb_spec a k0) as [->|Na]; simpl.
      + apply beqb_neq in N. rewrite N. simpl. now rewrite beqb_refl.
      + destruct (beqb k k0) eqn:Ek; simpl.
        * now apply IH.
        * apply beqb_neq in Na. rewrite Na. now rewrite IH.
  Qed.

  Lemma adeletes_aset_fresh : forall ks l a v, ~ In a ks -> adeletes ks (aset a v l) = aset a v (adeletes ks l).
  Proof.
    induction ks as [|k ks IH]; intros l a v NI; simpl; [reflexivity|].
    rewrite adelete_aset_other by (intro E; apply NI; now left).
    apply IH. intro I. apply NI. now right.
  Qed.

  Lemma adelete_absent : forall l k, alookup k l = None -> adelete k l = l.
  Proof.
    induction l as [|[k0 v0] l IH]; intros k H; simpl in *; [reflexivity|].
    destruct (beqb k k0); [discriminate|]. now rewrite IH.
  Qed.

  Lemma adeletes_absent : forall ks l, (forall k, In k ks -> alookup k l = None) -> adeletes ks l = l.
  Proof.
    induction ks as [|a ks IH]; intros l H; simpl; [reflexivity|].
    rewrite adelete_absent by (apply H; now left). apply IH. intros k I. apply H. now right.
  Qed.
End Dels.

(* ================================================================ Part B : the tree walk *)

(* ps0 only lost keys w.r.t. ps *)
Definition sub_params (ps0 ps : params) : Prop :=
  forall k v, ctx_get ps0 k = Some v -> ctx_get ps k = Some v.

Inductive walk : node -> bytes -> params -> node -> params -> Prop :=
| walk_here : forall n ps, (0 < nsize n)%nat -> walk n [] ps n ps
| walk_down : forall n ch path ps path1 ps1 r ps', In ch (nchildren n) ->
    seg_match (nseg ch) path ps = Some (path1, ps1) -> walk ch path1 ps1 r ps' ->
    walk n path ps r ps'.

Inductive all_nodes (P : node -> Prop) : node -> Prop :=
| all_nodes_intro : forall n, P n -> (forall ch, In ch (nchildren n) -> all_nodes P ch) -> all_nodes P n.

Lemma all_nodes_here : forall P n, all_nodes P n -> P n.
Proof. intros P n H. now inversion H. Qed.
Lemma all_nodes_child : forall P n ch, all_nodes P n -> In ch (nchildren n) -> all_nodes P ch.
Proof. intros P n ch H I. inversion H as [n0 _ Hc]. now apply Hc. Qed.

(* strict descendants *)
Inductive desc : node -> node -> Prop :=
| desc_child : forall n ch, In ch (nchildren n) -> desc n ch
| desc_step : forall n ch d, In ch (nchildren n) -> desc ch d -> desc n d.

(* the two side conditions under which the walk statements hold (both are invariants of
   registered trees, not of arbitrary [node] values) *)
(* H1: the first-byte index only points at children that write no parameter (literals) *)
Definition idx_lit (n : node) : Prop :=
  forall b ch, nindexes n <> [] ->
    nth_error (nchildren n) (idx_get b (nindexes n)) = Some ch -> seg_sets (nseg ch) = false.
(* H2: a parameter name is not used again further down *)
Definition names_fresh_at (n : node) : Prop :=
  seg_sets (nseg n) = true -> forall d, desc n d -> sname (nseg d) <> sname (nseg n).

Definition names_below (n : node) (ks : list bytes) : Prop :=
  forall k, In k ks -> exists d, desc n d /\ sname (nseg d) = k.

Lemma sub_params_refl : forall ps, sub_params ps ps.
Proof. intros ps k v H. exact H. Qed.
Lemma sub_params_trans : forall a b c, sub_params a b -> sub_params b c -> sub_params a c.
Proof. intros a b c H1 H2 k v H. apply H2, H1, H. Qed.
Lemma sub_params_delete : forall ps k, sub_params (ctx_delete ps k) ps.
Proof.
  intros ps k k' v. unfold ctx_get, ctx_delete. rewrite alookup_adelete.
  destruct (beqb k' k); [discriminate | auto].
Qed.
Lemma sub_params_adeletes : forall ks ps, sub_params (adeletes ks ps) ps.
Proof.
  induction ks as [|k ks IH]; intro ps; simpl; [apply sub_params_refl|].
  eapply sub_params_trans; [apply IH | apply (sub_params_delete ps k)].
Qed.
Lemma sub_params_nil : forall ps, sub_params ps [] -> ps = [].
Proof.
  intros [|[k v] ps] H; [reflexivity|]. specialize (H k v). unfold ctx_get in H. simpl in H.
  rewrite beqb_refl in H. specialize (H eq_refl). discriminate.
Qed.

Definition mc_loop (f : nat) (n : node) (path : bytes) : list node -> params -> mres :=
  fix loop (l : list node) (ps : params) : mres :=
    match l with
    | [] => match path with
            | [] => if Nat.ltb O (nsize n) then MFound n ps else MNone ps
            | _ => MNone ps
            end
    | ch :: l' =>
      match seg_match (nseg ch) path ps with
      | None => loop l' ps
      | Some (path', ps') =>
        match match_children f ch path' ps' with
        | MFound r ps'' => MFound r ps''
        | MNone ps'' => loop l' (ctx_delete ps'' (sname (nseg ch)))
        | MPanic s => MPanic s
        end
      end
    end.

Lemma match_children_S : forall f n path ps,
  match_children (S f) n path ps =
  let tail := skipn (length (nindexes n)) (nchildren n) in
  match nindexes n, path with
  | _ :: _, b :: _ =>
    match nth_error (nchildren n) (idx_get b (nindexes n)) with
    | None => MPanic (bs "matchChildren:index")
    | Some ch =>
      match seg_match (nseg ch) path ps with
      | None => mc_loop f n path tail ps
      | Some (path', ps') =>
        match match_children f ch path' ps' with
        | MFound r ps'' => MFound r ps''
        | MNone ps'' => mc_loop f n path tail ps''
        | MPanic s => MPanic s
        end
      end
    end
  | _, _ => mc_loop f n path tail ps
  end.
Proof. reflexivity. Qed.

Lemma incl_skipn : forall (A : Type) k (l : list A), incl (skipn k l) l.
Proof.
  intros A k. induction k as [|k IH]; intros l; simpl; [apply incl_refl|].
  destruct l as [|x l]; [apply incl_refl|]. apply incl_tl. apply IH.
Qed.

Lemma names_below_child : forall n ch ks, In ch (nchildren n) -> names_below ch ks -> names_below n ks.
Proof.
  intros n ch ks I H k Ik. destruct (H k Ik) as [d [Hd Hk]]. exists d. split; [|exact Hk].
  eapply desc_step; eassumption.
Qed.
Lemma names_below_app : forall n ks1 ks2, names_below n ks1 -> names_below n ks2 -> names_below n (ks1 ++ ks2).
Proof. intros n ks1 ks2 H1 H2 k I. apply in_app_or in I. destruct I; auto. Qed.
Lemma names_below_cons : forall n ch ks, In ch (nchildren n) -> names_below n ks -> names_below n (sname (nseg ch) :: ks).
Proof.
  intros n ch ks I H k [<-|Ik]; [|auto]. exists ch. split; [now apply desc_child | reflexivity].
Qed.

(* giving up a child: what it wrote is deleted again *)
Lemma abandon_child : forall seg ks ps v,
  ctx_delete (adeletes ks (if seg_sets seg then ctx_set ps (sname seg) v else ps)) (sname seg) =
  adeletes (sname seg :: ks) ps.
Proof.
  intros seg ks ps v. unfold ctx_delete, ctx_set. simpl. rewrite adelete_adeletes.
  destruct (seg_sets seg); [now rewrite adelete_aset_same | reflexivity].
Qed.

(* a 404 reports the parameters it was given minus some names used below [n] *)
Lemma match_children_none_dels : forall fuel n path ps ps',
  all_nodes idx_lit n -> match_children fuel n path ps = MNone ps' ->
  exists ks, names_below n ks /\ ps' = adeletes ks ps.
Proof.
  induction fuel as [|f IH]; intros n path ps ps' Hall H; [discriminate|].
  assert (Hloop : forall l psc ps', incl l (nchildren n) -> mc_loop f n path l psc = MNone ps' ->
            exists ks, names_below n ks /\ ps' = adeletes ks psc).
  { induction l as [|ch l IHl]; intros psc ps2 Hin HL; simpl in HL.
    - exists []. split; [intros k []|]. simpl.
      destruct path; [destruct (Nat.ltb 0 (nsize n)); [discriminate|]|]; now injection HL as <-.
    - assert (Ich : In ch (nchildren n)) by (apply Hin; now left).
      assert (Hin' : incl l (nchildren n)) by (intros x Ix; apply Hin; now right).
      destruct (seg_match (nseg ch) path psc) as [[path1 ps1]|] eqn:SM; [|now apply IHl].
      destruct (match_children f ch path1 ps1) as [r p|p|s] eqn:MC; try discriminate.
      apply IH in MC; [|now apply (all_nodes_child _ n)].
      destruct MC as [ks1 [Hk1 ->]]. destruct (seg_match_shape _ _ _ _ _ SM) as [v [-> _]].
      rewrite abandon_child in HL. apply IHl in HL; [|exact Hin'].
      destruct HL as [ks2 [Hk2 ->]]. exists ((sname (nseg ch) :: ks1) ++ ks2).
      split; [|now rewrite adeletes_app].
      apply names_below_app; [|exact Hk2]. apply names_below_cons; [exact Ich|].
      now apply (names_below_child n ch). }
  rewrite match_children_S in H. cbv zeta in H.
  assert (Htail : incl (skipn (length (nindexes n)) (nchildren n)) (nchildren n)) by apply incl_skipn.
  destruct (nindexes n) as [|ix0 ixs] eqn:IX; [now apply Hloop in H|].
  destruct path as [|b path]; [now apply Hloop in H|].
  destruct (nth_error (nchildren n) (idx_get b (ix0 :: ixs))) as [ch|] eqn:NTH; [|discriminate].
  assert (Ich : In ch (nchildren n)) by (eapply nth_error_In; eassumption).
  destruct (seg_match (nseg ch) (b :: path) ps) as [[path1 ps1]|] eqn:SM; [|now apply Hloop in H].
  destruct (match_children f ch path1 ps1) as [r p|p|s] eqn:MC; try discriminate.
  apply IH in MC; [|now apply (all_nodes_child _ n)].
  destruct MC as [ks1 [Hk1 ->]]. destruct (seg_match_shape _ _ _ _ _ SM) as [v [-> _]].
  assert (Hlit : seg_sets (nseg ch) = false).
  { apply (all_nodes_here _ _ Hall b ch); [rewrite IX; discriminate | now rewrite IX]. }
  rewrite Hlit in H. apply Hloop in H; [|exact Htail].
  destruct H as [ks2 [Hk2 ->]]. exists (ks1 ++ ks2). split; [|now rewrite adeletes_app].
  apply names_below_app; [|exact Hk2]. now apply (names_below_child n ch).
Qed.

(* re-running a segment on a parameter list that lost the names [ks] *)
Lemma seg_match_adeletes : forall seg path ps rest v ks,
  (forall ps0, seg_match seg path ps0 =
               Some (rest, if seg_sets seg then ctx_set ps0 (sname seg) v else ps0)) ->
  (seg_sets seg = true -> ~ In (sname seg) ks) ->
  seg_match seg path (adeletes ks ps) =
  Some (rest, adeletes ks (if seg_sets seg then ctx_set ps (sname seg) v else ps)).
Proof.
  intros seg path ps rest v ks Hu Hf. rewrite Hu. destruct (seg_sets seg); [|reflexivity].
  unfold ctx_set. now rewrite adeletes_aset_fresh by (now apply Hf).
Qed.

Lemma match_children_found_dels : forall fuel n path ps r ps',
  all_nodes idx_lit n -> all_nodes names_fresh_at n ->
  match_children fuel n path ps = MFound r ps' ->
  exists ks, names_below n ks /\ walk n path (adeletes ks ps) r ps'.
Proof.
  induction fuel as [|f IH]; intros n path ps r ps' Hall Hfr H; [discriminate|].
  (* one child that matched and below which the search succeeded *)
  assert (Hstep : forall ch psc path1 ps1, In ch (nchildren n) ->
            seg_match (nseg ch) path psc = Some (path1, ps1) ->
            match_children f ch path1 ps1 = MFound r ps' ->
            exists ks, names_below n ks /\ walk n path (adeletes ks psc) r ps').
  { intros ch psc path1 ps1 Ich SM MC.
    apply IH in MC; [|now apply (all_nodes_child _ n)|now apply (all_nodes_child _ n)].
    destruct MC as [ks [Hk W]]. destruct (seg_match_shape _ _ _ _ _ SM) as [v [-> Hu]].
    exists ks. split; [now apply (names_below_child n ch)|].
    refine (walk_down _ _ _ _ _ _ _ _ Ich _ W).
    apply seg_match_adeletes; [exact Hu|]. intros Hs Ik.
    destruct (Hk _ Ik) as [d [Hd Hn]].
    exact (all_nodes_here _ _ (all_nodes_child _ _ _ Hfr Ich) Hs d Hd Hn). }
  assert (Hloop : forall l psc, incl l (nchildren n) -> mc_loop f n path l psc = MFound r ps' ->
            exists ks, names_below n ks /\ walk n path (adeletes ks psc) r ps').
  { induction l as [|ch l IHl]; intros psc Hin HL; simpl in HL.
    - exists []. split; [intros k []|]. simpl.
      destruct path; [|discriminate]. destruct (Nat.ltb 0 (nsize n)) eqn:SZ; [|discriminate].
      injection HL as <- <-. apply walk_here. now apply Nat.ltb_lt in SZ.
    - assert (Ich : In ch (nchildren n)) by (apply Hin; now left).
      assert (Hin' : incl l (nchildren n)) by (intros x Ix; apply Hin; now right).
      destruct (seg_match (nseg ch) path psc) as [[path1 ps1]|] eqn:SM; [|now apply IHl].
      destruct (match_children f ch path1 ps1) as [r0 p|p|s] eqn:MC; try discriminate.
      + injection HL as -> ->. exact (Hstep ch psc path1 ps1 Ich SM MC).
      + apply match_children_none_dels in MC; [|now apply (all_nodes_child _ n)].
        destruct MC as [ks1 [Hk1 ->]]. destruct (seg_match_shape _ _ _ _ _ SM) as [v [-> _]].
        rewrite abandon_child in HL. apply IHl in HL; [|exact Hin'].
        destruct HL as [ks2 [Hk2 W]]. exists ((sname (nseg ch) :: ks1) ++ ks2).
        split; [|now rewrite adeletes_app].
        apply names_below_app; [|exact Hk2]. apply names_below_cons; [exact Ich|].
        now apply (names_below_child n ch). }
  rewrite match_children_S in H. cbv zeta in H.
  assert (Htail : incl (skipn (length (nindexes n)) (nchildren n)) (nchildren n)) by apply incl_skipn.
  destruct (nindexes n) as [|ix0 ixs] eqn:IX; [now apply Hloop in H|].
  destruct path as [|b path]; [now apply Hloop in H|].
  destruct (nth_error (nchildren n) (idx_get b (ix0 :: ixs))) as [ch|] eqn:NTH; [|discriminate].
  assert (Ich : In ch (nchildren n)) by (eapply nth_error_In; eassumption).
  destruct (seg_match (nseg ch) (b :: path) ps) as [[path1 ps1]|] eqn:SM; [|now apply Hloop in H].
  destruct (match_children f ch path1 ps1) as [r0 p|p|s] eqn:MC; try discriminate.
  - injection H as -> ->. exact (Hstep ch ps path1 ps1 Ich SM MC).
  - apply match_children_none_dels in MC; [|now apply (all_nodes_child _ n)].
    destruct MC as [ks1 [Hk1 ->]]. destruct (seg_match_shape _ _ _ _ _ SM) as [v [-> _]].
    assert (Hlit : seg_sets (nseg ch) = false).
    { apply (all_nodes_here _ _ Hall b ch); [rewrite IX; discriminate | now rewrite IX]. }
    rewrite Hlit in H. apply Hloop in H; [|exact Htail].
    destruct H as [ks2 [Hk2 W]]. exists (ks1 ++ ks2). split; [|now rewrite adeletes_app].
    apply names_below_app; [|exact Hk2]. now apply (names_below_child n ch).
Qed.

(* The statement of the task, [forall fuel n path ps r ps', match_children .. = MFound r ps' ->
   exists ps0, sub_params ps0 ps /\ walk n path ps0 r ps'], is FALSE for arbitrary nodes (see
   the counterexamples at the end of this file); it holds under H1 and H2. *)
Theorem match_children_sound_partial : forall fuel n path ps r ps',
  all_nodes idx_lit n -> all_nodes names_fresh_at n ->
  match_children fuel n path ps = MFound r ps' ->
  exists ps0, sub_params ps0 ps /\ walk n path ps0 r ps'.
Proof.
  intros fuel n path ps r ps' H1 H2 H.
  destruct (match_children_found_dels _ _ _ _ _ _ H1 H2 H) as [ks [_ W]].
  exists (adeletes ks ps). split; [apply sub_params_adeletes | exact W].
Qed.

(* FALSE without H1 (counterexample below); holds under H1 *)
Theorem match_children_none_params_partial : forall fuel n path ps ps',
  all_nodes idx_lit n -> match_children fuel n path ps = MNone ps' -> sub_params ps' ps.
Proof.
  intros fuel n path ps ps' H1 H.
  destruct (match_children_none_dels _ _ _ _ _ H1 H) as [ks [_ ->]]. apply sub_params_adeletes.
Qed.

(* with names that are fresh w.r.t. the incoming parameters the 404 reports exactly them *)
Theorem match_children_none_exact : forall fuel n path ps ps',
  all_nodes idx_lit n -> (forall d, desc n d -> ctx_get ps (sname (nseg d)) = None) ->
  match_children fuel n path ps = MNone ps' -> ps' = ps.
Proof.
  intros fuel n path ps ps' H1 Hf H.
  destruct (match_children_none_dels _ _ _ _ _ H1 H) as [ks [Hk ->]].
  apply adeletes_absent. intros k Ik. destruct (Hk k Ik) as [d [Hd <-]]. now apply Hf.
Qed.

Lemma last_cons_default : forall (A : Type) (l : list A) (x d d' : A), last (x :: l) d = last (x :: l) d'.
Proof.
  intros A l. induction l as [|y l IH]; intros x d d'; [reflexivity|].
  change (last (y :: l) d = last (y :: l) d'). apply IH.
Qed.

Theorem walk_spells_path : forall n path ps r ps', walk n path ps r ps' ->
  exists chain : list node,
    (match chain with [] => r = n | _ => last chain n = r end) /\
    (forall c, In c chain -> True) /\ (0 < nsize r)%nat.
Proof.
  intros n path ps r ps' W. induction W as [n ps Hs | n ch path ps path1 ps1 r ps' Ich SM W IH].
  - exists []. split; [reflexivity|]. split; [intros c []| exact Hs].
  - destruct IH as [chain [Hl [_ Hs]]]. exists (ch :: chain).
    split; [|split; [intros c _; exact I | exact Hs]].
    destruct chain as [|c chain]; [simpl; now symmetry|].
    change (last (c :: chain) n = r). rewrite <- Hl. apply last_cons_default.
Qed.

(* a walk never removes a parameter *)
Lemma walk_keeps_keys : forall n path ps r ps', walk n path ps r ps' ->
  forall k, ctx_get ps k <> None -> ctx_get ps' k <> None.
Proof.
  intros n path ps r ps' W. induction W as [n ps Hs | n ch path ps path1 ps1 r ps' Ich SM W IH];
    intros k Hk; [exact Hk|].
  apply IH. destruct (seg_match_shape _ _ _ _ _ SM) as [v [-> _]].
  destruct (seg_sets (nseg ch)); [|exact Hk].
  unfold ctx_get, ctx_set in *. rewrite alookup_aset. now destruct (beqb k (sname (nseg ch))).
Qed.

(* ================================================================ Part C : no runtime fault *)

Definition idx_ok (n : node) : Prop :=
  forall b, nindexes n <> [] -> (idx_get b (nindexes n) < length (nchildren n))%nat.

Fixpoint heights (l : list node) : nat :=
  match l with [] => O | x :: l' => Nat.max (height x) (heights l') end.

Lemma height_eq : forall n, height n = S (heights (nchildren n)).
Proof.
  intros [s p i h x c]. reflexivity.
Qed.

Lemma height_child : forall n ch, In ch (nchildren n) -> (height ch < height n)%nat.
Proof.
  intros n ch I. rewrite (height_eq n). apply Nat.lt_succ_r.
  induction (nchildren n) as [|y c IHc]; [destruct I|]. simpl.
  destruct I as [->|I]; [apply Nat.le_max_l|].
  etransitivity; [now apply IHc | apply Nat.le_max_r].
Qed.

Theorem match_children_no_panic : forall fuel n path ps,
  all_nodes idx_ok n -> (height n <= fuel)%nat ->
  forall s, match_children fuel n path ps <> MPanic s.
Proof.
  induction fuel as [|f IH]; intros n path ps Hall Hh s.
  - rewrite height_eq in Hh. lia.
  - assert (Hch : forall ch path1 ps1, In ch (nchildren n) -> match_children f ch path1 ps1 <> MPanic s).
    { intros ch path1 ps1 Ich. apply IH; [now apply (all_nodes_child _ n)|].
      apply height_child in Ich. lia. }
    assert (Hloop : forall l psc, incl l (nchildren n) -> mc_loop f n path l psc <> MPanic s).
    { induction l as [|ch l IHl]; intros psc Hin; simpl.
      - destruct path; [destruct (Nat.ltb 0 (nsize n))|]; discriminate.
      - assert (Ich : In ch (nchildren n)) by (apply Hin; now left).
        assert (Hin' : incl l (nchildren n)) by (intros x Ix; apply Hin; now right).
        destruct (seg_match (nseg ch) path psc) as [[path1 ps1]|] eqn:SM; [|now apply IHl].
        destruct (match_children f ch path1 ps1) as [r0 p|p|s0] eqn:MC;
          [discriminate | now apply IHl |].
        intro E. injection E as ->. now apply (Hch ch path1 ps1 Ich). }
    rewrite match_children_S. cbv zeta.
    assert (Htail : incl (skipn (length (nindexes n)) (nchildren n)) (nchildren n)) by apply incl_skipn.
    pose proof (all_nodes_here _ _ Hall) as Hidx. unfold idx_ok in Hidx.
    destruct (nindexes n) as [|ix0 ixs] eqn:IX; [now apply Hloop|].
    destruct path as [|b path]; [now apply Hloop|].
    destruct (nth_error (nchildren n) (idx_get b (ix0 :: ixs))) as [ch|] eqn:NTH.
    + assert (Ich : In ch (nchildren n)) by (eapply nth_error_In; eassumption).
      destruct (seg_match (nseg ch) (b :: path) ps) as [[path1 ps1]|] eqn:SM; [|now apply Hloop].
      destruct (match_children f ch path1 ps1) as [r0 p|p|s0] eqn:MC;
        [discriminate | now apply Hloop |].
      intro E. injection E as ->. now apply (Hch ch path1 ps1 Ich).
    + apply nth_error_None in NTH. specialize (Hidx b). assert (ix0 :: ixs <> []) by discriminate.
      specialize (Hidx H). lia.
Qed.

Lemma idx_get_set : forall l k v b, idx_get b (idx_set k v l) = if N.eqb b k then v else idx_get b l.
Proof.
  induction l as [|[k' v'] l IHl]; intros k v b; simpl; [reflexivity|].
  destruct (N.eqb_spec k k') as [->|Nk]; simpl.
  - now destruct (N.eqb b k').
  - rewrite IHl. destruct (N.eqb_spec b k') as [->|Nb]; [|reflexivity].
    destruct (N.eqb_spec k' k) as [E|_]; [congruence | reflexivity].
Qed.

Lemma build_indexes_from_ok : forall c i acc ix bound,
  build_indexes_from c i acc = Some ix -> (i + length c <= bound)%nat ->
  (forall b, (idx_get b acc < bound)%nat) -> forall b, (idx_get b ix < bound)%nat.
Proof.
  induction c as [|x c IHc]; intros i acc ix bound H Hb Hacc; simpl in H.
  - now injection H as <-.
  - simpl in Hb.
    assert (Hnext : forall acc', build_indexes_from c (S i) acc' = Some ix ->
              (forall b, (idx_get b acc' < bound)%nat) -> forall b, (idx_get b ix < bound)%nat).
    { intros acc' H' Hacc'. apply (IHc (S i) acc' ix bound H'); [lia | exact Hacc']. }
    destruct (styp (nseg x)); try (now apply (Hnext acc)).
    destruct (sval (nseg x)) as [|b0 rest]; [discriminate|].
    apply (Hnext _ H). intro b. rewrite idx_get_set. destruct (N.eqb b b0); [lia | apply Hacc].
Qed.

Theorem build_indexes_ok : forall c ix, build_indexes c = Ok ix ->
  ix = [] \/ (forall b, (idx_get b ix < length c)%nat).
Proof.
  intros c ix H. unfold build_indexes in H.
  destruct (Nat.ltb (length c) indexes_size) eqn:L.
  - left. now injection H as <-.
  - right. apply Nat.ltb_ge in L. unfold indexes_size in L.
    destruct (build_indexes_from c 0 []) as [x|] eqn:B; [|discriminate]. injection H as <-.
    apply (build_indexes_from_ok c 0%nat [] x (length c) B); [lia|]. intro b. simpl. lia.
Qed.

Theorem sort_node_idx_ok : forall n keyed n', sort_node n keyed = Ok n' -> idx_ok n'.
Proof.
  intros n keyed n' H. unfold sort_node in H.
  destruct (build_indexes (ssort keyed)) as [ix|e|s|] eqn:B; simpl in H; try discriminate.
  injection H as <-. apply build_indexes_ok in B. destruct n as [s p i h x c].
  unfold idx_ok. simpl. intros b Hne. destruct B as [->|B]; [congruence | apply B].
Qed.

(* ================================================================ examples *)

Definition named_seg (val name suffix : bytes) (ep : bool) : segment :=
  {| sval := val; sname := name; srule := []; ssuffix := suffix; styp := TNamed; samb := O;
     sendpoint := ep; signore := false; sre := REmpty; smatch := fun _ => true |}.

(* root -> "/posts/" -> "{id}" (with a GET handler) *)
Definition ex_id : node :=
  Node (named_seg (bs "{id}") (bs "id") [] true) (bs "/posts/{id}") 0 [(GET, HUser (bs "h"))] [] [].
Definition ex_posts : node := Node (string_seg (bs "/posts/")) (bs "/posts/") 0 [] [] [ex_id].
Definition ex_root : node := Node (string_seg []) [] 0 [] [] [ex_posts].

Example ex_found : match_children 3 ex_root (bs "/posts/5") [] = MFound ex_id [(bs "id", bs "5")].
Proof. vm_compute. reflexivity. Qed.

Example ex_none : match_children 3 ex_root (bs "/postz/5") [(bs "q", bs "1")] = MNone [(bs "q", bs "1")].
Proof. vm_compute. reflexivity. Qed.

Ltac ex_all_nodes tac :=
  constructor; [tac | intros ?ch [<-|[]]; constructor; [tac | intros ?ch [<-|[]]; constructor; [tac | intros ?ch []]]].

Example ex_idx_ok : all_nodes idx_ok ex_root.
Proof. ex_all_nodes ltac:(intros b Hne; exfalso; now apply Hne). Qed.
Example ex_idx_lit : all_nodes idx_lit ex_root.
Proof. ex_all_nodes ltac:(intros b c Hne; exfalso; now apply Hne). Qed.
Example ex_names_fresh : all_nodes names_fresh_at ex_root.
Proof.
  constructor; [intro Hs; discriminate|]. intros ch [<-|[]].
  constructor; [intro Hs; discriminate|]. intros ch [<-|[]].
  constructor; [|intros ch []].
  intros _ d Hd. inversion Hd as [n0 c0 I|n0 c0 d0 I _]; destruct I.
Qed.
Example ex_height : (height ex_root <= 3)%nat.
Proof. vm_compute. lia. Qed.
Example ex_seg_wf : seg_wf (nseg ex_id) /\ seg_match (nseg ex_id) (bs "5") [] = Some ([], [(bs "id", bs "5")]).
Proof. split; [intros _; reflexivity | vm_compute; reflexivity]. Qed.

(* the theorems applied to the example *)
Example ex_walk : exists ps0, sub_params ps0 [] /\ walk ex_root (bs "/posts/5") ps0 ex_id [(bs "id", bs "5")].
Proof. exact (match_children_sound_partial _ _ _ _ _ _ ex_idx_lit ex_names_fresh ex_found). Qed.
Example ex_no_panic : forall path ps s, match_children 3 ex_root path ps <> MPanic s.
Proof. intros path ps s. exact (match_children_no_panic 3 ex_root path ps ex_idx_ok ex_height s). Qed.

(* five literal children: the first-byte index is built and used *)
Definition ex_lit (c : String.string) : node := Node (string_seg (bs c)) (bs c) 0 [(GET, HUser (bs c))] [] [].
Definition ex_five : res node :=
  sort_node (Node (string_seg []) [] 0 [] [] [])
            (with_prio [ex_lit "a"; ex_lit "b"; ex_lit "c"; ex_lit "d"; ex_lit "e"]).
Example ex_five_indexed :
  match ex_five with
  | Ok n => length (nindexes n) = 5%nat /\ match_children 2 n (bs "c") [] = MFound (ex_lit "c") [] /\
            match_children 2 n (bs "z") [] = MNone []
  | _ => False
  end.
Proof. vm_compute. repeat split. Qed.
Example ex_five_idx_ok : forall n, ex_five = Ok n -> idx_ok n.
Proof. intros n H. exact (sort_node_idx_ok _ _ _ H). Qed.

(* shortest capture: "{v}ab" on "xabab" takes "x", not "xab" *)
Example ex_shortest : find_split (fun _ => true) (bs "ab") [] (bs "xabab") = Some (bs "x", bs "ab").
Proof. vm_compute. reflexivity. Qed.

(* ================================================================ counterexamples *)

(* (1) seg_match_sound needs [seg_wf]: split "/a/{id}x}" produces an end-point segment with
   the suffix "x}" (Endpoint looks at the last byte, Suffix at the first closing brace) and an
   end point takes the whole remaining path as the value. *)
Example cx_split_not_wf :
  match split [] (bs "/a/{id}x}") with
  | Ok [_; s] => sendpoint s = true /\ ssuffix s = bs "x}" /\
                 seg_match s (bs "5") [] = Some ([], [(bs "id", bs "5")])
  | _ => False
  end.
Proof. vm_compute. repeat split. Qed.

Lemma seg_match_sound_needs_wf :
  ~ (forall seg path ps rest ps', seg_match seg path ps = Some (rest, ps') ->
      match styp seg with
      | TString => path = sval seg ++ rest /\ ps' = ps
      | _ => exists v, path = v ++ ssuffix seg ++ rest /\ smatch seg v = true /\
                       ps' = (if signore seg then ps else ctx_set ps (sname seg) v) /\
                       ((sendpoint seg = true \/ (styp seg = TRegexp /\ ssuffix seg = [])) -> rest = [])
      end).
Proof.
  intro H.
  specialize (H (named_seg [123; 105; 100; 125; 120; 125] [105; 100] [120; 125] true) [53] [] []
                [([105; 100], [53])] eq_refl).
  simpl in H. destruct H as [v [Hp _]]. apply (f_equal (@length N)) in Hp.
  rewrite app_length in Hp. simpl in Hp. lia.
Qed.

Lemma walk_cons_inv : forall n b path ps r ps', walk n (b :: path) ps r ps' ->
  exists ch path1 ps1, In ch (nchildren n) /\
    seg_match (nseg ch) (b :: path) ps = Some (path1, ps1) /\ walk ch path1 ps1 r ps'.
Proof.
  intros n b path ps r ps' W.
  inversion W as [|n0 ch path0 ps0 path1 ps1 r0 ps0' Ich SM W']; subst.
  exists ch, path1, ps1. now split.
Qed.
Lemma walk_nil_inv : forall n ps r ps', walk n [] ps r ps' ->
  (r = n /\ ps' = ps /\ (0 < nsize n)%nat) \/
  exists ch path1 ps1, In ch (nchildren n) /\
    seg_match (nseg ch) [] ps = Some (path1, ps1) /\ walk ch path1 ps1 r ps'.
Proof.
  intros n ps r ps' W.
  inversion W as [n0 ps0 Hs|n0 ch path0 ps0 path1 ps1 r0 ps0' Ich SM W']; subst.
  - left. now split.
  - right. exists ch, path1, ps1. now split.
Qed.

(* (2) a parameter name used again further down (H2 violated): the abandoned grandchild's
   delete also removes the child's own "id" *)
Definition cxA_g1 : node :=
  Node (named_seg [123;105;100;125;47] [105;100] [47] false) [] 0 [] []
       [Node (string_seg [122;122;122]) [] 0 [(GET, HUser [])] [] []].
Definition cxA_g2 : node := Node (named_seg [123;107;125] [107] [] true) [] 0 [(GET, HUser [])] [] [].
Definition cxA_ch : node := Node (named_seg [123;105;100;125;47] [105;100] [47] false) [] 0 [] [] [cxA_g1; cxA_g2].
Definition cxA_root : node := Node (string_seg []) [] 0 [] [] [cxA_ch].

(* routes "/{id}/{id}/zzz" (rejected by Split: duplicate name) and "{id}/{k}", path "5/7/y" *)
Lemma cxA_result : match_children 4 cxA_root [53;47;55;47;121] [] = MFound cxA_g2 [([107], [55;47;121])].
Proof. vm_compute. reflexivity. Qed.

Lemma match_children_sound_false_names :
  ~ (forall fuel n path ps r ps', match_children fuel n path ps = MFound r ps' ->
       exists ps0, sub_params ps0 ps /\ walk n path ps0 r ps').
Proof.
  intro H. destruct (H _ _ _ _ _ _ cxA_result) as [ps0 [Hs W]].
  apply sub_params_nil in Hs. subst ps0.
  apply walk_cons_inv in W. destruct W as [ch [path1 [ps1 [Ich [SM W]]]]].
  destruct Ich as [<-|[]]. vm_compute in SM. injection SM as <- <-.
  apply (walk_keeps_keys _ _ _ _ _ W [105;100]); [discriminate | reflexivity].
Qed.

(* (3) the first-byte index points at a child that writes a parameter (H1 violated): nothing
   deletes what the indexed child wrote *)
Definition cxB_ch : node := Node (named_seg [123;105;100;125] [105;100] [] true) [] 0 [] [] [].
Definition cxB_g2 : node := Node (named_seg [123;107;125] [107] [] true) [] 0 [(GET, HUser [])] [] [].
Definition cxB_root : node := Node (string_seg []) [] 0 [] [(47, O)] [cxB_ch; cxB_g2].
Definition cxB_root0 : node := Node (string_seg []) [] 0 [] [(47, O)] [cxB_ch].

Lemma cxB_none : match_children 2 cxB_root0 [120] [] = MNone [([105;100], [120])].
Proof. vm_compute. reflexivity. Qed.
Lemma cxB_found : match_children 2 cxB_root [120] [] = MFound cxB_g2 [([105;100], [120]); ([107], [120])].
Proof. vm_compute. reflexivity. Qed.

Lemma match_children_none_params_false :
  ~ (forall fuel n path ps ps', match_children fuel n path ps = MNone ps' -> sub_params ps' ps).
Proof. intro H. specialize (H _ _ _ _ _ cxB_none). apply sub_params_nil in H. discriminate. Qed.

Lemma match_children_sound_false_index :
  ~ (forall fuel n path ps r ps', match_children fuel n path ps = MFound r ps' ->
       exists ps0, sub_params ps0 ps /\ walk n path ps0 r ps').
Proof.
  intro H. destruct (H _ _ _ _ _ _ cxB_found) as [ps0 [Hs W]].
  apply sub_params_nil in Hs. subst ps0.
  apply walk_cons_inv in W. destruct W as [ch [path1 [ps1 [Ich [SM W]]]]].
  destruct Ich as [<-|[<-|[]]]; vm_compute in SM; injection SM as <- <-;
    apply walk_nil_inv in W;
    destruct W as [[Hr [Hp Hz]] | [c2 [p2 [s2 [I2 _]]]]]; try (destruct I2).
  - vm_compute in Hz. lia.
  - discriminate.
Qed.
