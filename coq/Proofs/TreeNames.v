(* Parameter names along a root-to-node chain of a registered tree.

   FINDING.  The requested statement
       forall name ic trace hist,
         all_nodes names_fresh_at (troot (fold_left tstep hist (new_tree name ic trace)))
   is FALSE (names_fresh_refuted below): longest_prefix only remembers the LAST '{' it saw, so
   two labels "{a{b}c/" and "{a{b}d" (one parameter named "a{b", accepted by Split) are split
   at position 2, between "{a" and "{b}c/": the lower half is re-parsed as a parameter named
   "b", and a pattern "/x/{a{b}c/{b}" (names "a{b" and "b": no duplicate for Split) ends up as
   the chain  "/x/" -> "{a" -> "{b}c/" -> "{b}"  with the name "b" twice.  On such a tree the
   dispatch really loses a parameter (dispatch_walk_refuted).

   What is proved: the statement for every history whose registered patterns pass the
   decidable check [pat_wf] (no piece of split_string that starts with '{' contains a second
   '{'): names_fresh_reachable_partial.  The invariant is [fresh seen n]: below [n] every label
   is what new_segment returns on its own text, a parameter label is one '{' followed by
   '{'-free text, and the parameter names met on every downward chain are not in [seen] and
   pairwise distinct. *)
From Coq Require Import String.
From Mux Require Import Model.Bytes Model.Regex Model.Context Model.Syntax Model.Tree
  Proofs.BytesFacts Proofs.MatchSound Proofs.TreeSafe.
From Mux Require Proofs.TreeText Proofs.TreeOnion Proofs.ParseTotal Proofs.TreeOrder.

(* ================================================================ Part A : bytes *)

Lemma index_byte_firstn : forall s c n,
  index_byte (firstn n s) c =
  match index_byte s c with Some i => if Nat.ltb i n then Some i else None | None => None end.
Proof.
  induction s as [|x s IH]; intros c n.
  - destruct n; reflexivity.
  - destruct n as [|n]; cbn [firstn index_byte].
    + destruct (N.eqb x c); [reflexivity|]. destruct (index_byte s c); reflexivity.
    + destruct (N.eqb x c); [reflexivity|]. rewrite IH.
      destruct (index_byte s c) as [i|]; [|reflexivity].
      destruct (Nat.ltb_spec i n); destruct (Nat.ltb_spec (S i) (S n)); try reflexivity; lia.
Qed.

Lemma index_byte_In : forall s c i, index_byte s c = Some i -> In c s.
Proof.
  intros s c i H. apply ParseTotal.index_byte_nth in H. exact (nth_error_In _ _ H).
Qed.

Lemma index_byte_notIn : forall s c, ~ In c s -> index_byte s c = None.
Proof.
  induction s as [|x s IH]; intros c H; [reflexivity|]. cbn [index_byte].
  destruct (N.eqb_spec x c) as [E|N]; [elim H; now left|].
  rewrite IH; [reflexivity|]. intro I. apply H. now right.
Qed.

Lemma index_byte_none_notIn : forall s c, index_byte s c = None -> ~ In c s.
Proof.
  induction s as [|x s IH]; intros c H I; [destruct I|]. cbn [index_byte] in H.
  destruct (N.eqb_spec x c) as [E|N]; [discriminate H|].
  destruct (index_byte s c) eqn:E; [discriminate H|].
  destruct I as [I|I]; [congruence | exact (IH c E I)].
Qed.

Lemma skipn_firstn_1 : forall (v : bytes) e, skipn 1 (firstn e v) = firstn (e - 1) (skipn 1 v).
Proof.
  intros v e. destruct e as [|e]; [destruct v; reflexivity|].
  destruct v as [|x v]; [simpl; now rewrite firstn_nil|].
  simpl. now rewrite Nat.sub_0_r.
Qed.

Lemma firstn_firstn_le : forall (v : bytes) a b, (a <= b)%nat -> firstn a (firstn b v) = firstn a v.
Proof. intros v a b H. rewrite firstn_firstn. f_equal. lia. Qed.

(* a common prefix carries the position of the first occurrence of a byte *)
Lemma index_byte_cpre : forall (v w : bytes) l c j, firstn l v = firstn l w ->
  index_byte w c = Some j -> (j < l)%nat -> index_byte v c = Some j.
Proof.
  intros v w l c j E I L.
  pose proof (index_byte_firstn w c l) as Hw. rewrite I in Hw.
  destruct (Nat.ltb_spec j l) as [_|G]; [|lia].
  pose proof (index_byte_firstn v c l) as Hv. rewrite E, Hw in Hv.
  destruct (index_byte v c) as [i|]; [|discriminate Hv].
  destruct (Nat.ltb i l); [now injection Hv as -> | discriminate Hv].
Qed.

(* ================================================================ Part B : labels *)

(* literal text: new_segment returns a String segment *)
Definition plain (v : bytes) : Prop := index_byte v 123 = None \/ index_byte v 125 = None.
(* one '{', at the start *)
Definition tok1 (v : bytes) : Prop := exists tl, v = 123 :: tl /\ ~ In 123 tl.

Definition isparam (s : segment) : bool := negb (stype_eqb (styp s) TString).

Lemma isparam_true : forall s, isparam s = true <-> styp s <> TString.
Proof. intro s. unfold isparam. destruct (styp s); simpl; split; congruence. Qed.
Lemma isparam_false : forall s, isparam s = false <-> styp s = TString.
Proof. intro s. unfold isparam. destruct (styp s); simpl; split; congruence. Qed.

Lemma plain_firstn : forall v n, plain v -> plain (firstn n v).
Proof. intros v n [H|H]; [left | right]; now apply ParseTotal.index_byte_none_firstn. Qed.
Lemma plain_skipn : forall v n, plain v -> plain (skipn n v).
Proof. intros v n [H|H]; [left | right]; now apply ParseTotal.index_byte_none_skipn. Qed.

Lemma tok1_index : forall v, tok1 v -> index_byte v 123 = Some O.
Proof. intros v [tl [-> _]]. reflexivity. Qed.

Lemma tok1_skipn_plain : forall v l, tok1 v -> (0 < l)%nat -> plain (skipn l v).
Proof.
  intros v l [tl [-> N]] L. left. destruct l as [|l]; [lia|]. cbn [skipn].
  apply index_byte_notIn. intro I. apply N.
  rewrite <- (firstn_skipn l tl). apply in_or_app. now right.
Qed.

Lemma tok1_firstn : forall v l, tok1 v -> (0 < l)%nat -> tok1 (firstn l v).
Proof.
  intros v l [tl [-> N]] L. destruct l as [|l]; [lia|]. cbn [firstn].
  exists (firstn l tl). split; [reflexivity|]. intro I. apply N.
  rewrite <- (firstn_skipn l tl). apply in_or_app. now left.
Qed.

(* every way new_segment can succeed (the literal case says why) *)
Lemma new_segment_cases : forall ic val seg, new_segment ic val = Ok seg ->
  (plain val /\ seg = string_seg val) \/
  (exists start e, index_byte val 123 = Some start /\ index_byte val 125 = Some e /\
     styp seg <> TString /\ sval seg = val).
Proof.
  intros ic val seg H. unfold new_segment in H.
  destruct (N.ltb max_int16 (N.of_nat (length val))); [discriminate|].
  destruct (index_byte val 123) as [start|] eqn:I1;
    [|injection H as <-; left; split; [now left | reflexivity]].
  destruct (index_byte val 125) as [end_|] eqn:I2;
    [|injection H as <-; left; split; [now right | reflexivity]].
  right. exists start, end_. split; [reflexivity|]. split; [reflexivity|].
  destruct (Nat.ltb end_ start || Nat.eqb (S start) end_ || _); [discriminate|].
  cbv zeta in H.
  repeat TreeText.res_step H; injection H as <-; cbn [sval styp]; (split; [discriminate | reflexivity]).
Qed.

Lemma new_segment_plain : forall ic v s, plain v -> new_segment ic v = Ok s -> s = string_seg v.
Proof.
  intros ic v s P H. apply new_segment_cases in H.
  destruct H as [[_ E] | [start [e [I1 [I2 _]]]]]; [exact E|].
  destruct P as [P|P]; congruence.
Qed.

Lemma new_segment_param_braces : forall ic v s, new_segment ic v = Ok s -> isparam s = true ->
  exists start e, index_byte v 123 = Some start /\ index_byte v 125 = Some e.
Proof.
  intros ic v s H P. apply new_segment_cases in H.
  destruct H as [[_ ->] | [start [e [I1 [I2 _]]]]]; [discriminate P|].
  exists start, e. now split.
Qed.

Lemma new_segment_braces_param : forall ic v s start e, new_segment ic v = Ok s ->
  index_byte v 123 = Some start -> index_byte v 125 = Some e -> isparam s = true.
Proof.
  intros ic v s start e H I1 I2. apply new_segment_cases in H.
  destruct H as [[[P|P] _] | [_ [_ [_ [_ [T _]]]]]]; [congruence | congruence |].
  now apply isparam_true.
Qed.

(* the name written in a token: the text between '{' and the first ':' (or the '}'), without
   the leading '-' of an ignored parameter.  [body] is the label up to (not including) '}' *)
Definition raw_name (body : bytes) : bytes :=
  match index_byte body 58 with
  | Some sp => firstn (sp - 1) (skipn 1 body)
  | None => skipn 1 body
  end.
Definition strip_dash (n : bytes) : bytes := match n with 45 :: n' => n' | _ => n end.
Definition tok_name (body : bytes) : bytes := strip_dash (raw_name body).

Lemma raw_name_eq : forall v e,
  raw_name (firstn e v) =
  match index_byte v 58 with
  | Some sp => if Nat.ltb sp e then firstn (sp - 1) (skipn 1 v) else firstn (e - 1) (skipn 1 v)
  | None => firstn (e - 1) (skipn 1 v)
  end.
Proof.
  intros v e. unfold raw_name. rewrite index_byte_firstn.
  destruct (index_byte v 58) as [sp|]; [|apply skipn_firstn_1].
  destruct (Nat.ltb_spec sp e) as [L|G]; [|apply skipn_firstn_1].
  rewrite skipn_firstn_1. apply firstn_firstn_le. lia.
Qed.

Lemma clean_name_strip : forall n ign name, clean_name n = Ok (ign, name) ->
  name = strip_dash n /\ (ign = false -> name <> []).
Proof.
  intros n ign name H. destruct n as [|c n']; [discriminate H|].
  assert (Hne : c :: n' <> []) by discriminate.
  destruct (ParseTotal.clean_name_cases _ Hne) as [E|E]; rewrite E in H; injection H as <- <-.
  - split; [|discriminate]. cbn [tl].
    (* the first byte is '-' : otherwise clean_name answers (false, _) *)
    unfold clean_name in E.
    destruct c as [|p]; [discriminate E|].
    repeat (destruct p as [p|p|]; try discriminate E). reflexivity.
  - split; [|intros _; discriminate].
    unfold clean_name in E.
    destruct c as [|p]; [reflexivity|].
    repeat (destruct p as [p|p|]; try reflexivity). discriminate E.
Qed.

Lemma slice_eq : forall site s lo hi x, slice_or_panic site s lo hi = Ok x ->
  x = firstn (hi - lo) (skipn lo s).
Proof. intros site s lo hi x H. exact (proj1 (ParseTotal.slice_inv _ _ _ _ _ H)). Qed.

(* the parameter name only depends on the text of the token *)
Lemma new_segment_sname : forall ic v s e, new_segment ic v = Ok s ->
  index_byte v 123 = Some O -> index_byte v 125 = Some e ->
  sname s = tok_name (firstn e v) /\ (signore s = false -> sname s <> []).
Proof.
  intros ic v s e H I1 I2. unfold new_segment in H.
  destruct (N.ltb max_int16 (N.of_nat (length v))); [discriminate H|].
  rewrite I1, I2 in H. pose proof (raw_name_eq v e) as RN. unfold tok_name.
  destruct (index_byte v 58) as [sp|] eqn:SEP.
  - match type of H with (if ?c then _ else _) = _ => destruct c; [discriminate H|] end.
    cbv beta iota zeta in H.
    match type of H with (if ?c then _ else _) = _ => destruct c eqn:NM end.
    + (* named *)
      TreeText.res_step H. rename x into name0. TreeText.res_step H. rename x into name1.
      TreeText.res_step H. TreeText.res_step H. destruct x0 as [ign name].
      injection H as <-. cbn [sname signore].
      assert (R : raw_name (firstn e v) = name1).
      { rewrite RN. destruct (Nat.ltb sp e).
        - symmetry. exact (slice_eq _ _ _ _ _ E0).
        - injection E0 as <-. symmetry. exact (slice_eq _ _ _ _ _ E). }
      rewrite R. exact (clean_name_strip _ _ _ E2).
    + (* rule *)
      apply orb_false_iff in NM. destruct NM as [NM1 NM2]. apply Nat.ltb_ge in NM2.
      TreeText.res_step H. rename x into rule. TreeText.res_step H. rename x into name1.
      TreeText.res_step H. destruct x as [ign name].
      assert (R : raw_name (firstn e v) = name1).
      { rewrite RN. apply slice_eq in E0. rewrite E0.
        destruct (Nat.ltb_spec sp e) as [L|G]; [reflexivity|].
        assert (sp = e) by lia. now subst sp. }
      assert (G : forall x, Ok x = Ok s -> sname x = name -> signore x = ign ->
                 sname s = strip_dash (raw_name (firstn e v)) /\ (signore s = false -> sname s <> [])).
      { intros x Hx Hn Hi. injection Hx as <-. rewrite Hn, Hi, R. exact (clean_name_strip _ _ _ E1). }
      TreeText.res_step H. rename x into suffix.
      destruct (alookup rule ic) as [f|]; [exact (G _ H eq_refl eq_refl)|].
      match type of H with (if ?c then _ else _) = _ => destruct c; [discriminate H|] end.
      destruct (re_parse rule) as [r| |]; try discriminate H. exact (G _ H eq_refl eq_refl).
  - match type of H with (if ?c then _ else _) = _ => destruct c; [discriminate H|] end.
    cbv beta iota zeta in H.
    TreeText.res_step H. rename x into name0. cbn [bind] in H.
    TreeText.res_step H. TreeText.res_step H. destruct x0 as [ign name].
    injection H as <-. cbn [sname signore].
    assert (R : raw_name (firstn e v) = name0).
    { rewrite RN. symmetry. exact (slice_eq _ _ _ _ _ E). }
    rewrite R. exact (clean_name_strip _ _ _ E1).
Qed.

Lemma string_seg_sname : forall v, sname (string_seg v) = [].
Proof. reflexivity. Qed.

(* ================================================================ Part C : longest_prefix *)

(* after the only '{' : nothing below the current position except the start is returned *)
Lemma lp_loop_after : forall s1 s2 i st en b, ~ In 123 s1 ->
  lp_loop s1 s2 i st en b = st \/ (Z.of_nat i <= lp_loop s1 s2 i st en b)%Z.
Proof.
  induction s1 as [|a s1 IH]; intros s2 i st en b N.
  - cbn [lp_loop]. destruct (Z.eqb en (Z.of_nat i - 1)); [now left | right; lia].
  - destruct s2 as [|c s2].
    + cbn [lp_loop]. destruct (Z.eqb en (Z.of_nat i - 1)); [now left | right; lia].
    + cbn [lp_loop].
      assert (N' : ~ In 123 s1) by (intro I; apply N; now right).
      destruct (negb (N.eqb a c)).
      * destruct (b || Z.eqb (en + 1) (Z.of_nat i)); [now left | right; lia].
      * destruct (N.eqb_spec a 123) as [E|_]; [elim N; now left|].
        destruct (N.eqb a 125).
        -- destruct (IH s2 (S i) st (Z.of_nat i) false N') as [E|G]; [now left | right; lia].
        -- destruct (IH s2 (S i) st en b N') as [E|G]; [now left | right; lia].
Qed.

(* inside the braces: the start, or a position after the closing brace *)
Lemma lp_loop_inside : forall s1 s2 i st en, ~ In 123 s1 -> In 125 s1 -> In 125 s2 ->
  lp_loop s1 s2 i st en true = st \/
  exists e, index_byte s1 125 = Some e /\ (Z.of_nat (i + e + 1) <= lp_loop s1 s2 i st en true)%Z.
Proof.
  induction s1 as [|a s1 IH]; intros s2 i st en N I1 I2; [destruct I1|].
  destruct s2 as [|c s2]; [destruct I2|]. cbn [lp_loop].
  assert (N' : ~ In 123 s1) by (intro I; apply N; now right).
  destruct (N.eqb_spec a c) as [<-|Nac]; cbn [negb orb]; [|now left].
  destruct (N.eqb_spec a 123) as [E|_]; [elim N; now left|].
  destruct (N.eqb_spec a 125) as [->|N5].
  - destruct (lp_loop_after s1 s2 (S i) st (Z.of_nat i) false N') as [E|G]; [now left | right].
    exists O. split; [reflexivity | lia].
  - assert (J1 : In 125 s1) by (destruct I1 as [I1|I1]; [congruence | exact I1]).
    assert (J2 : In 125 s2) by (destruct I2 as [I2|I2]; [congruence | exact I2]).
    destruct (IH s2 (S i) st en N' J1 J2) as [E|[e [Ie G]]]; [now left | right].
    exists (S e). split; [|lia]. cbn [index_byte].
    destruct (N.eqb_spec a 125) as [E|_]; [congruence|]. now rewrite Ie.
Qed.

(* two labels that start with their only '{' : the common prefix that longest_prefix reports is
   empty or contains the whole token *)
Lemma longest_prefix_tok : forall w v ew, tok1 w -> index_byte w 125 = Some ew ->
  index_byte v 123 = Some O -> In 125 v ->
  (longest_prefix w v <= 0)%Z \/ (Z.of_nat ew < longest_prefix w v)%Z.
Proof.
  intros w v ew [tw [-> Nw]] Iw Iv Jv.
  destruct v as [|c tv]; [destruct Jv|]. cbn [index_byte] in Iv.
  destruct (N.eqb_spec c 123) as [->|Nc]; [|destruct (index_byte tv 123); discriminate Iv].
  unfold longest_prefix. cbn [lp_loop N.eqb Pos.eqb negb Z.of_nat].
  assert (J1 : In 125 tw).
  { apply index_byte_In in Iw. destruct Iw as [Iw|Iw]; [discriminate Iw | exact Iw]. }
  assert (J2 : In 125 tv) by (destruct Jv as [Jv|Jv]; [discriminate Jv | exact Jv]).
  destruct (lp_loop_inside tw tv 1 0%Z (-10)%Z Nw J1 J2) as [E|[e [Ie G]]].
  - left. rewrite E. lia.
  - right. cbn [index_byte N.eqb Pos.eqb] in Iw. rewrite Ie in Iw. injection Iw as <-. lia.
Qed.

(* a positive similarity: same kind, and the common prefix is the one of longest_prefix *)
Lemma similarity_pos : forall s seg, (0 < similarity s seg)%Z ->
  stype_eqb (styp seg) (styp s) = true /\ similarity s seg = longest_prefix (sval seg) (sval s).
Proof.
  intros s seg H. unfold similarity in *.
  destruct (beqb (sval seg) (sval s)); [lia|].
  destruct (stype_eqb (styp seg) (styp s)); cbn [negb] in *; [now split | lia].
Qed.

Lemma stype_eqb_isparam : forall a b, stype_eqb (styp a) (styp b) = true -> isparam a = isparam b.
Proof.
  intros a b H. unfold isparam. destruct (styp a), (styp b); try reflexivity; discriminate H.
Qed.

(* the best candidate of the scan has a positive similarity *)
Lemma scan_sim_pos : forall seg c i best j l, scan_sim seg c i best = (None, Some (j, l)) ->
  (forall j' l', best = Some (j', l') -> (0 < l')%Z) -> (0 < l)%Z.
Proof.
  intros seg c. induction c as [|x c IH]; intros i best j l H Hb; cbn [scan_sim] in H.
  - injection H as ->. exact (Hb _ _ eq_refl).
  - cbv zeta in H. destruct (Z.eqb (similarity (nseg x) seg) (-1)%Z); [discriminate H|].
    destruct (Z.ltb_spec (match best with Some (_, l0) => l0 | None => 0%Z end) (similarity (nseg x) seg)) as [L|G].
    + apply (IH _ _ _ _ H). intros j' l' E. injection E as <- <-.
      destruct best as [[j0 l0]|]; [specialize (Hb _ _ eq_refl); lia | lia].
    + exact (IH _ _ _ _ H Hb).
Qed.

(* ================================================================ Part D : the invariant *)

Lemma nseg_set_children : forall n c ix, nseg (set_children n c ix) = nseg n.
Proof. intros [s p i h x c0] c ix. reflexivity. Qed.
Lemma nseg_set_handlers : forall n h i, nseg (set_handlers n h i) = nseg n.
Proof. intros [s p i0 h0 x c] h i. reflexivity. Qed.
Lemma nseg_set_seg : forall n s, nseg (set_seg n s) = s.
Proof. intros [s0 p i h x c] s. reflexivity. Qed.

Section Names.
Variable ic : icpts.

(* a label is what new_segment returns on its own text; a parameter label has one '{' *)
Definition lab_ok (s : segment) : Prop :=
  new_segment ic (sval s) = Ok s /\ (isparam s = true -> tok1 (sval s)).

Definition ext (seen : list bytes) (s : segment) : list bytes :=
  if isparam s then sname s :: seen else seen.

Definition seg_okF (seen : list bytes) (s : segment) : Prop :=
  lab_ok s /\ (isparam s = true -> ~ In (sname s) seen).

Inductive fresh : list bytes -> node -> Prop :=
| fresh_intro : forall seen n,
    (forall ch, In ch (nchildren n) -> seg_okF seen (nseg ch)) ->
    (forall ch, In ch (nchildren n) -> fresh (ext seen (nseg ch)) ch) ->
    fresh seen n.

Lemma fresh_inv : forall seen n, fresh seen n -> forall ch, In ch (nchildren n) ->
  seg_okF seen (nseg ch) /\ fresh (ext seen (nseg ch)) ch.
Proof. intros seen n H. inversion H as [s0 n0 H1 H2]; subst. intros ch I. split; auto. Qed.

Lemma fresh_of : forall seen n,
  (forall ch, In ch (nchildren n) -> seg_okF seen (nseg ch) /\ fresh (ext seen (nseg ch)) ch) ->
  fresh seen n.
Proof. intros seen n H. constructor; intros ch I; apply (H ch I). Qed.

Lemma fresh_same_children : forall seen n n', nchildren n' = nchildren n -> fresh seen n -> fresh seen n'.
Proof.
  intros seen n n' E H. apply fresh_of. rewrite E. exact (fresh_inv _ _ H).
Qed.

Lemma fresh_leaf : forall seen n, nchildren n = [] -> fresh seen n.
Proof. intros seen n E. apply fresh_of. rewrite E. intros ch []. Qed.

Definition keepsF (seen : list bytes) (n n' : node) : Prop := fresh seen n' /\ nseg n' = nseg n.
Definition kfresh (seen : list bytes) (k : node -> res node) : Prop :=
  forall ch ch', fresh seen ch -> k ch = Ok ch' -> keepsF seen ch ch'.

Lemma set_children_keepsF : forall seen n c ix,
  (forall x, In x c -> seg_okF seen (nseg x) /\ fresh (ext seen (nseg x)) x) ->
  keepsF seen n (set_children n c ix).
Proof.
  intros seen n c ix H. split; [|apply nseg_set_children].
  apply fresh_of. rewrite nchildren_set_children. exact H.
Qed.

Lemma replace_keepsF : forall seen n i ch ch' ix, fresh seen n -> In ch (nchildren n) ->
  keepsF (ext seen (nseg ch)) ch ch' ->
  keepsF seen n (set_children n (replace_nth i ch' (nchildren n)) ix).
Proof.
  intros seen n i ch ch' ix Hn Ich [Hf Hs]. apply set_children_keepsF. intros x Ix.
  apply In_replace_nth in Ix. destruct Ix as [->|Ix]; [|exact (fresh_inv _ _ Hn x Ix)].
  rewrite Hs. split; [exact (proj1 (fresh_inv _ _ Hn ch Ich)) | exact Hf].
Qed.

Lemma sort_keepsF : forall seen n keyed n', sort_node n keyed = Ok n' ->
  (forall x, In x (map snd keyed) -> seg_okF seen (nseg x) /\ fresh (ext seen (nseg x)) x) ->
  keepsF seen n n'.
Proof.
  intros seen n keyed n' H Hk. apply sort_node_inv in H. destruct H as [ix [_ ->]].
  apply set_children_keepsF. intros x Ix. apply Hk. now apply In_ssort.
Qed.

(* ---------------------------------------------------------------- segment facts *)

Lemma lab_ok_new : forall x s, new_segment ic x = Ok s -> (isparam s = true -> tok1 x) -> lab_ok s.
Proof.
  intros x s H T. pose proof (TreeText.new_segment_value _ _ _ H) as V.
  split; rewrite V; assumption.
Qed.

Lemma lab_ok_new_plain : forall x s, plain x -> new_segment ic x = Ok s ->
  lab_ok s /\ isparam s = false.
Proof.
  intros x s P H. pose proof (new_segment_plain _ _ _ P H) as E.
  assert (F : isparam s = false) by (now subst s).
  split; [|exact F]. apply (lab_ok_new x s H). rewrite F. discriminate.
Qed.

Lemma lab_ok_string_plain : forall s, lab_ok s -> isparam s = false -> plain (sval s).
Proof.
  intros s [H _] F. apply new_segment_cases in H.
  destruct H as [[P _] | [_ [_ [_ [_ [T _]]]]]]; [exact P|].
  apply isparam_false in F. congruence.
Qed.

Lemma ext_plain : forall seen s, isparam s = false -> ext seen s = seen.
Proof. intros seen s F. unfold ext. now rewrite F. Qed.

Lemma lab_ok_sname : forall s e, lab_ok s -> isparam s = true -> index_byte (sval s) 125 = Some e ->
  sname s = tok_name (firstn e (sval s)).
Proof.
  intros s e [H T] P I. exact (proj1 (new_segment_sname _ _ _ _ H (tok1_index _ (T P)) I)).
Qed.

(* the split of addSegment at l = similarity > 0 between the label [sch] of a child and the
   segment [seg] being added: the upper half keeps the kind and the name of both, the two
   remainders are literal text *)
Lemma split_facts : forall sch seg l, lab_ok sch -> lab_ok seg ->
  (0 < similarity sch seg)%Z -> l = Z.to_nat (similarity sch seg) ->
  (forall seen, ext seen seg = ext seen sch) /\
  (forall s1, new_segment ic (firstn l (sval sch)) = Ok s1 ->
     lab_ok s1 /\ isparam s1 = isparam sch /\ sname s1 = sname sch) /\
  (forall s2, new_segment ic (skipn l (sval sch)) = Ok s2 -> lab_ok s2 /\ isparam s2 = false) /\
  (forall s, new_segment ic (skipn l (sval seg)) = Ok s -> lab_ok s /\ isparam s = false).
Proof.
  intros sch seg l Lch Lseg Hpos Hl.
  destruct (similarity_pos _ _ Hpos) as [Hty Hlp].
  pose proof (stype_eqb_isparam _ _ Hty) as Hip.
  pose proof (TreeOnion.similarity_cpre sch seg) as [C1 [C2 C3]]. rewrite <- Hl in C1, C2, C3.
  assert (L0 : (0 < l)%nat) by lia.
  destruct (isparam sch) eqn:Pch.
  - (* two parameter labels *)
    pose proof (proj2 Lch Pch) as Tv. pose proof (proj2 Lseg Hip) as Tw.
    destruct (new_segment_param_braces _ _ _ (proj1 Lseg) Hip) as [sw [ew [_ Iw]]].
    destruct (new_segment_param_braces _ _ _ (proj1 Lch) Pch) as [sv [ev [_ Iv0]]].
    assert (Lt : (ew < l)%nat).
    { destruct (longest_prefix_tok _ _ _ Tw Iw (tok1_index _ Tv) (index_byte_In _ _ _ Iv0)) as [G|G]; lia. }
    assert (Iv : index_byte (sval sch) 125 = Some ew) by exact (index_byte_cpre _ _ _ _ _ C3 Iw Lt).
    assert (Ebody : firstn ew (sval seg) = firstn ew (sval sch)).
    { rewrite <- (firstn_firstn_le (sval seg) ew l) by lia.
      rewrite <- (firstn_firstn_le (sval sch) ew l) by lia. now rewrite C3. }
    assert (Nseg : sname seg = sname sch).
    { rewrite (lab_ok_sname _ _ Lseg Hip Iw), (lab_ok_sname _ _ Lch Pch Iv). now rewrite Ebody. }
    split; [intro seen; unfold ext; now rewrite Hip, Pch, Nseg|].
    split; [|split].
    + intros s1 H1.
      assert (T1 : tok1 (firstn l (sval sch))) by (now apply tok1_firstn).
      assert (I1 : index_byte (firstn l (sval sch)) 125 = Some ew).
      { rewrite index_byte_firstn, Iv. destruct (Nat.ltb_spec ew l); [reflexivity | lia]. }
      assert (P1 : isparam s1 = true)
        by exact (new_segment_braces_param _ _ _ _ _ H1 (tok1_index _ T1) I1).
      split; [apply (lab_ok_new _ _ H1); intros _; exact T1|]. split; [exact P1|].
      rewrite (proj1 (new_segment_sname _ _ _ _ H1 (tok1_index _ T1) I1)).
      rewrite (lab_ok_sname _ _ Lch Pch Iv). f_equal. apply firstn_firstn_le. lia.
    + intros s2 H2. exact (lab_ok_new_plain _ _ (tok1_skipn_plain _ _ Tv L0) H2).
    + intros s H2. exact (lab_ok_new_plain _ _ (tok1_skipn_plain _ _ Tw L0) H2).
  - (* two literal labels *)
    pose proof (lab_ok_string_plain _ Lch Pch) as Pv.
    pose proof (lab_ok_string_plain _ Lseg Hip) as Pw.
    split; [intro seen; unfold ext; now rewrite Hip, Pch|].
    split; [|split].
    + intros s1 H1. destruct (lab_ok_new_plain _ _ (plain_firstn _ l Pv) H1) as [L1 F1].
      split; [exact L1|]. split; [exact F1|].
      rewrite (new_segment_plain _ _ _ (plain_firstn _ l Pv) H1).
      destruct Lch as [Hc _]. rewrite (new_segment_plain _ _ _ Pv Hc). reflexivity.
    + intros s2 H2. exact (lab_ok_new_plain _ _ (plain_skipn _ l Pv) H2).
    + intros s H2. exact (lab_ok_new_plain _ _ (plain_skipn _ l Pw) H2).
Qed.

Lemma seg_split_inv : forall sg l s1 s2, seg_split ic sg l = Ok (s1, s2) ->
  new_segment ic (firstn l (sval sg)) = Ok s1 /\ new_segment ic (skipn l (sval sg)) = Ok s2.
Proof.
  intros sg l s1 s2 H. unfold seg_split in H.
  repeat TreeText.res_step H. injection H as <- <-.
  apply TreeText.slice_or_panic_ok in E, E0.
  rewrite <- (TreeText.gslice_from_start _ _ _ E), <- (TreeText.gslice_to_end _ _ _ E0).
  now split.
Qed.

(* ---------------------------------------------------------------- Part E : registration *)

Lemma add_segment_fresh : forall fuel n seg k n' seen,
  fresh seen n -> seg_okF seen seg -> kfresh (ext seen seg) k ->
  add_segment fuel ic n seg k = Ok n' -> keepsF seen n n'.
Proof.
  induction fuel as [|f IH]; intros n seg k n' seen Hn [Lseg Nseg] Hk H; [discriminate|].
  rewrite add_segment_S in H. cbv zeta in H.
  destruct (scan_sim seg (nchildren n) 0 None) as [[i|] best] eqn:SC.
  - (* identical child *)
    destruct (nth_error (nchildren n) i) as [ch|] eqn:NTH; [|discriminate].
    apply bind_ok in H. destruct H as [ch' [K H]]. injection H as <-.
    destruct (TreeOnion.scan_sim_some _ _ _ _ _ _ SC) as [ch0 [_ [N0 S0]]].
    rewrite Nat.sub_0_r, NTH in N0. injection N0 as <-.
    apply TreeOnion.similarity_same in S0.
    assert (Ich : In ch (nchildren n)) by (eapply nth_error_In; eassumption).
    destruct (fresh_inv _ _ Hn ch Ich) as [[Lch _] Fch].
    assert (E : nseg ch = seg).
    { destruct Lch as [L1 _]. destruct Lseg as [L2 _]. rewrite S0, L2 in L1. now injection L1. }
    apply (replace_keepsF seen n i ch); [exact Hn | exact Ich|].
    rewrite E. apply Hk; [rewrite <- E; exact Fch | exact K].
  - destruct best as [[i l]|].
    + (* a child shares a prefix *)
      destruct (nth_error (nchildren n) i) as [ch|] eqn:NTH; [|discriminate].
      assert (Ich : In ch (nchildren n)) by (eapply nth_error_In; eassumption).
      destruct (fresh_inv _ _ Hn ch Ich) as [[Lch Nch] Fch].
      assert (Hpos : (0 < l)%Z).
      { apply (scan_sim_pos _ _ _ _ _ _ SC). intros j' l' E. discriminate E. }
      assert (Hsim : similarity (nseg ch) seg = l).
      { destruct (TreeOnion.scan_sim_best _ _ _ _ _ _ SC) as [E|[ch0 [_ [N0 S0]]]]; [discriminate E|].
        rewrite Nat.sub_0_r, NTH in N0. now injection N0 as <-. }
      rewrite <- Hsim in Hpos.
      destruct (split_facts (nseg ch) seg (Z.to_nat l) Lch Lseg Hpos (f_equal Z.to_nat (eq_sym Hsim)))
        as [Eext [F1 [F2 F3]]].
      (* the continuation at the node that spells the common prefix *)
      assert (Hcont : kfresh (ext seen (nseg ch)) (cont_of f ic seg (Z.to_nat l) k)).
      { intros p p' Hp Hc. unfold cont_of in Hc. rewrite <- Eext in *.
        destruct (Nat.eqb (length (sval seg)) (Z.to_nat l)); [exact (Hk _ _ Hp Hc)|].
        apply bind_ok in Hc. destruct Hc as [rest [R Hc]].
        apply bind_ok in Hc. destruct Hc as [s [S Hc]].
        apply TreeText.slice_or_panic_ok in R. apply TreeText.gslice_to_end in R. subst rest.
        destruct (F3 _ S) as [Ls Ps].
        refine (IH p s k p' _ Hp _ _ Hc).
        - split; [exact Ls|]. rewrite Ps. discriminate.
        - now rewrite (ext_plain _ _ Ps). }
      destruct (Nat.leb (length (sval (nseg ch))) (Z.to_nat l)).
      * apply bind_ok in H. destruct H as [ch' [K H]]. injection H as <-.
        apply (replace_keepsF seen n i ch); [exact Hn | exact Ich|].
        exact (Hcont _ _ Fch K).
      * apply bind_ok in H. destruct H as [[s1 s2] [SP H]].
        apply bind_ok in H. destruct H as [ret [SR H]].
        apply bind_ok in H. destruct H as [ret' [K H]].
        destruct (seg_split_inv _ _ _ _ SP) as [N1 N2].
        destruct (F1 _ N1) as [L1 [P1 S1]]. destruct (F2 _ N2) as [L2 P2].
        assert (Eext1 : ext seen s1 = ext seen (nseg ch)) by (unfold ext; now rewrite P1, S1).
        assert (Hret : keepsF (ext seen (nseg ch)) (Node s1 (npat n ++ sval s1) 0 [] [] []) ret).
        { apply (sort_keepsF _ _ _ _ SR). rewrite map_snd_with_prio. intros x [<-|[]].
          rewrite nseg_set_seg. split; [split; [exact L2 | rewrite P2; discriminate]|].
          rewrite (ext_plain _ _ P2).
          apply (fresh_same_children _ ch); [apply nchildren_set_seg | exact Fch]. }
        destruct Hret as [Fret Sret]. cbn [nseg] in Sret.
        destruct (Hcont _ _ Fret K) as [Fret' Sret'].
        apply (sort_keepsF _ _ _ _ H). intros x Ix. apply In_keyed_app in Ix.
        destruct Ix as [Ix| ->].
        -- apply In_remove_nth in Ix. exact (fresh_inv _ _ Hn x Ix).
        -- rewrite Sret', Sret, Eext1. split; [|exact Fret'].
           split; [exact L1|]. intro Q. rewrite S1. apply Nch. now rewrite <- P1.
    + (* a new child *)
      apply bind_ok in H. destruct H as [nn' [K H]].
      assert (Fnn : fresh (ext seen seg) (new_node n seg)) by (now apply fresh_leaf).
      destruct (Hk _ _ Fnn K) as [Fnn' Snn']. cbn [new_node nseg] in Snn'.
      apply (sort_keepsF _ _ _ _ H). intros x Ix. apply In_keyed_app in Ix.
      destruct Ix as [Ix| ->]; [exact (fresh_inv _ _ Hn x Ix)|].
      rewrite Snn'. split; [split; [exact Lseg | exact Nseg] | exact Fnn'].
Qed.

Definition pnames (segs : list segment) : list bytes := map sname (filter isparam segs).

Lemma pnames_cons : forall s r, pnames (s :: r) = if isparam s then sname s :: pnames r else pnames r.
Proof. intros s r. unfold pnames. cbn [filter]. destruct (isparam s); reflexivity. Qed.

Lemma get_node_fresh : forall segs fuel n upd n' seen,
  fresh seen n -> Forall lab_ok segs -> NoDup (pnames segs) ->
  (forall x, In x (pnames segs) -> ~ In x seen) ->
  (forall seen', kfresh seen' upd) ->
  get_node fuel ic n segs upd = Ok n' -> keepsF seen n n'.
Proof.
  induction segs as [|seg rest IH]; intros fuel n upd n' seen Hn HL ND DJ Hupd H; [discriminate|].
  inversion HL as [|s0 r0 Lseg Lrest]; subst.
  rewrite pnames_cons in ND, DJ.
  assert (Hseg : seg_okF seen seg).
  { split; [exact Lseg|]. intro P. apply DJ. rewrite P. now left. }
  destruct rest as [|seg2 rest].
  - cbn [get_node] in H. exact (add_segment_fresh _ _ _ _ _ _ Hn Hseg (Hupd _) H).
  - cbn [get_node] in H. refine (add_segment_fresh _ _ _ _ _ _ Hn Hseg _ H).
    intros ch ch' Hch Hc. refine (IH fuel ch upd ch' _ Hch Lrest _ _ Hupd Hc).
    + destruct (isparam seg); [now inversion ND | exact ND].
    + intros x Ix. unfold ext. destruct (isparam seg).
      * inversion ND as [|y l Ny NDl]; subst. intros [E|I].
        -- apply Ny. now rewrite E.
        -- revert I. apply DJ. now right.
      * now apply DJ.
Qed.

Lemma add_methods_kfresh : forall trace router h pattern mws ms seen,
  kfresh seen (add_methods trace router h pattern mws ms).
Proof.
  intros trace router h pattern mws ms seen ch ch' Hch H. unfold add_methods in H.
  apply bind_ok in H. destruct H as [u [_ H]]. injection H as <-.
  split; [|apply nseg_set_handlers].
  apply (fresh_same_children _ ch); [apply nchildren_set_handlers | exact Hch].
Qed.

(* ---------------------------------------------------------------- Split *)

(* the decidable well-formedness check: a piece that starts with '{' has no second '{' *)
Definition piece_wf (s : bytes) : bool :=
  match s with
  | c :: tl => if N.eqb c 123 then match index_byte tl 123 with None => true | Some _ => false end
               else true
  | [] => true
  end.
Definition pat_wf (p : bytes) : bool := forallb piece_wf (split_string p).

Lemma mem_false_notIn : forall x l, mem x l = false -> ~ In x l.
Proof.
  intros x l. induction l as [|y l IH]; intros H I; [destruct I|]. cbn [mem] in H.
  apply orb_false_iff in H. destruct H as [H1 H2].
  destruct I as [->|I]; [now rewrite beqb_refl in H1 | exact (IH H2 I)].
Qed.

Lemma piece_tok1 : forall s, ParseTotal.good_piece s -> piece_wf s = true ->
  (exists a b, index_byte s 123 = Some a /\ index_byte s 125 = Some b) -> tok1 s.
Proof.
  intros s [_ G] W [a [b [Ia Ib]]].
  destruct G as [G|[G|G]]; [congruence | congruence |].
  destruct s as [|c tl]; [discriminate G|]. cbn [index_byte] in G. cbn [piece_wf] in W.
  destruct (N.eqb_spec c 123) as [->|Nc]; [|destruct (index_byte tl 123); discriminate G].
  exists tl. split; [reflexivity|].
  destruct (index_byte tl 123) eqn:E; [discriminate W|]. now apply index_byte_none_notIn.
Qed.

Lemma split_pieces_ok : forall ss flag names segs, split_pieces ic ss flag names = Ok segs ->
  Forall ParseTotal.good_piece ss -> forallb piece_wf ss = true ->
  Forall lab_ok segs /\ NoDup (pnames segs) /\ (forall x, In x (pnames segs) -> ~ In x names).
Proof.
  induction ss as [|s ss IH]; intros flag names segs H G W; cbn [split_pieces] in H.
  - injection H as <-. split; [constructor|]. split; [constructor | intros x []].
  - inversion G as [|s0 l0 Gs Gss]; subst. cbn [forallb] in W.
    apply andb_true_iff in W. destruct W as [Ws Wss].
    destruct (first_byte s) as [c0|]; [|discriminate H].
    destruct (flag && N.eqb c0 123); [discriminate H|].
    apply bind_ok in H. destruct H as [seg [NS H]]. cbv zeta in H. fold (isparam seg) in H.
    destruct (isparam seg && mem (sname seg) names) eqn:D; [discriminate H|].
    apply bind_ok in H. destruct H as [rest [SP H]]. injection H as <-.
    destruct (IH _ _ _ SP Gss Wss) as [HL [ND DJ]].
    assert (Lseg : lab_ok seg).
    { apply (lab_ok_new _ _ NS). intro P. apply (piece_tok1 _ Gs Ws).
      exact (new_segment_param_braces _ _ _ NS P). }
    split; [constructor; assumption|]. rewrite pnames_cons.
    destruct (isparam seg) eqn:P; cbn [andb] in D.
    + split.
      * constructor; [|exact ND]. intro I. apply (DJ _ I). now left.
      * intros x [<-|I]; [now apply mem_false_notIn|].
        intro J. apply (DJ _ I). now right.
    + split; [exact ND | exact DJ].
Qed.

Lemma split_ok : forall p segs, split ic p = Ok segs -> pat_wf p = true ->
  Forall lab_ok segs /\ NoDup (pnames segs).
Proof.
  intros p segs H W. unfold split in H. destruct p as [|b p]; [discriminate H|].
  assert (Hne : b :: p <> []) by discriminate.
  destruct (split_pieces_ok _ _ _ _ H (ParseTotal.split_string_good _ Hne) W) as [HL [ND _]].
  now split.
Qed.

(* ---------------------------------------------------------------- Remove, Clean, Use *)

Lemma remove_at_node_keepsF : forall seen trace ms n n' rm, fresh seen n ->
  remove_at_node trace ms n = (n', rm) -> keepsF seen n n'.
Proof.
  intros seen trace ms n n' rm Hn H. unfold remove_at_node in H.
  destruct (match ms with [] => _ | _ => _ end) as [hs removed].
  injection H as <- _. split; [|apply nseg_set_handlers].
  apply (fresh_same_children _ n); [apply nchildren_set_handlers | exact Hn].
Qed.

Lemma remove_finish_keepsF : forall seen n i ch ch' rm n' rm', fresh seen n ->
  In ch (nchildren n) -> keepsF (ext seen (nseg ch)) ch ch' ->
  remove_finish n i ch' rm = Ok (Some (n', rm')) -> keepsF seen n n'.
Proof.
  intros seen n i ch ch' rm n' rm' Hn Ich Hk H. unfold remove_finish in H.
  destruct (prunable ch').
  - cbv zeta in H. apply bind_ok in H. destruct H as [ix [_ H]]. injection H as <- _.
    apply set_children_keepsF. intros x Ix. apply In_remove_nth in Ix.
    exact (fresh_inv _ _ Hn x Ix).
  - injection H as <- _. now apply (replace_keepsF seen n i ch).
Qed.

Lemma remove_in_fresh : forall fuel seen trace ms n pattern n' rm, fresh seen n ->
  remove_in fuel trace ms n pattern = Ok (Some (n', rm)) -> keepsF seen n n'.
Proof.
  induction fuel as [|f IH]; intros seen trace ms n pattern n' rm Hn H; [discriminate|].
  rewrite remove_in_S in H.
  assert (Hgo : forall c i, incl c (nchildren n) ->
            remove_go f trace ms n pattern c i = Ok (Some (n', rm)) -> keepsF seen n n').
  { induction c as [|ch c IHc]; intros i Hin G; cbn [remove_go] in G; [discriminate|].
    assert (Ich : In ch (nchildren n)) by (apply Hin; now left).
    assert (Hin' : incl c (nchildren n)) by (intros y Iy; apply Hin; now right).
    destruct (fresh_inv _ _ Hn ch Ich) as [_ Fch].
    destruct (beqb (sval (nseg ch)) pattern).
    - destruct (remove_at_node trace ms ch) as [ch' removed] eqn:RA.
      exact (remove_finish_keepsF _ _ _ _ _ _ _ _ Hn Ich (remove_at_node_keepsF _ _ _ _ _ _ Fch RA) G).
    - destruct (has_prefix pattern (sval (nseg ch))); [|exact (IHc _ Hin' G)].
      apply bind_ok in G. destruct G as [r [R G]].
      destruct r as [[ch' removed]|]; [|exact (IHc _ Hin' G)].
      exact (remove_finish_keepsF _ _ _ _ _ _ _ _ Hn Ich (IH _ _ _ _ _ _ _ Fch R) G). }
  exact (Hgo _ _ (incl_refl _) H).
Qed.

Lemma clean_in_fresh : forall fuel seen n prefix n', fresh seen n ->
  clean_in fuel n prefix = Ok n' -> keepsF seen n n'.
Proof.
  induction fuel as [|f IH]; intros seen n prefix n' Hn H; [discriminate|].
  rewrite clean_in_S in H. destruct prefix as [|b prefix].
  - injection H as <-. apply set_children_keepsF. intros x [].
  - remember (b :: prefix) as pf eqn:Epf. clear Epf.
    assert (Hgo : forall c cs, incl c (nchildren n) -> clean_go f pf c = Ok cs ->
              forall x, In x cs -> seg_okF seen (nseg x) /\ fresh (ext seen (nseg x)) x).
    { induction c as [|ch c IHc]; intros cs Hin G x Ix; cbn [clean_go] in G.
      - injection G as <-. destruct Ix.
      - assert (Ich : In ch (nchildren n)) by (apply Hin; now left).
        assert (Hin' : incl c (nchildren n)) by (intros y Iy; apply Hin; now right).
        destruct (fresh_inv _ _ Hn ch Ich) as [Och Fch].
        cbv zeta in G. apply bind_ok in G. destruct G as [ch' [C G]].
        apply bind_ok in G. destruct G as [rest [R G]].
        assert (Hk : keepsF (ext seen (nseg ch)) ch ch').
        { destruct (Nat.ltb (length (sval (nseg ch))) (length pf) && has_prefix pf (sval (nseg ch))).
          - exact (IH _ _ _ _ Fch C).
          - injection C as <-. now split. }
        destruct (has_prefix (sval (nseg ch)) pf); injection G as <-.
        + exact (IHc _ Hin' R x Ix).
        + destruct Ix as [<-|Ix]; [|exact (IHc _ Hin' R x Ix)].
          destruct Hk as [Fk Sk]. rewrite Sk. now split. }
    apply bind_ok in H. destruct H as [cs [G H]].
    apply bind_ok in H. destruct H as [ix [_ H]]. injection H as <-.
    apply set_children_keepsF. exact (Hgo _ _ (incl_refl _) G).
Qed.

Lemma apply_mw_node_fresh : forall f router mws seen n, fresh seen n ->
  fresh seen (apply_mw_node f router mws n).
Proof.
  induction f as [|f IH]; intros router mws seen n Hn; [exact Hn|].
  apply fresh_of. rewrite TreeText.apply_mw_node_children. intros x Ix.
  apply in_map_iff in Ix. destruct Ix as [ch [<- Ich]].
  rewrite (proj2 (TreeText.apply_mw_node_facts f router mws ch)).
  destruct (fresh_inv _ _ Hn ch Ich) as [Och Fch]. split; [exact Och | now apply IH].
Qed.

(* ---------------------------------------------------------------- trees *)

Definition tree_names_ok (t : tree) : Prop :=
  tic t = ic /\ fresh [] (troot t) /\ seg_sets (nseg (troot t)) = false.

Lemma build_methods_names : forall t root num ms, tic t = ic -> fresh [] root ->
  seg_sets (nseg root) = false -> tree_names_ok (tree_build_methods t root num ms).
Proof.
  intros t root num ms Hic Hf Hs. unfold tree_names_ok, tree_build_methods. cbn [tic troot].
  split; [exact Hic|]. rewrite nseg_set_handlers. split; [|exact Hs].
  apply (fresh_same_children _ root); [apply nchildren_set_handlers | exact Hf].
Qed.

Lemma names_new_tree : forall name trace, tree_names_ok (new_tree name ic trace).
Proof.
  intros name trace. unfold new_tree. apply build_methods_names; [reflexivity | | reflexivity].
  now apply fresh_leaf.
Qed.

Lemma names_add : forall t p h mws ms t', tree_names_ok t -> pat_wf p = true ->
  tree_add t p h mws ms = Ok t' -> tree_names_ok t'.
Proof.
  intros t p h mws ms t' [Hic [Hf Hs]] W H. unfold tree_add in H. cbv zeta in H.
  apply bind_ok in H. destruct H as [amb [_ H]].
  assert (G : forall ms0,
    (do segs <- split (tic t) p;
     do _ <- check_methods (has_trace t)
               (match find (tree_fuel t + length p + 2) (troot t) p with Some n => nhandlers n | None => [] end) [] ms0;
     do root' <- get_node (tree_fuel t + length p + 2) (tic t) (troot t) segs
                   (add_methods (has_trace t) (tname t) h p mws ms0);
     Ok (tree_build_methods t root' 1 ms0)) = Ok t' -> tree_names_ok t').
  { intros ms0 H0. rewrite Hic in H0.
    apply bind_ok in H0. destruct H0 as [segs [SP H0]].
    apply bind_ok in H0. destruct H0 as [u [_ H0]].
    apply bind_ok in H0. destruct H0 as [root' [GN H0]]. injection H0 as <-.
    destruct (split_ok _ _ SP W) as [HL ND].
    assert (K : keepsF [] (troot t) root').
    { refine (get_node_fresh _ _ _ _ _ _ Hf HL ND _ _ GN); [intros x _ []|].
      intro seen'. apply add_methods_kfresh. }
    destruct K as [Kf Ks]. apply build_methods_names; [exact Hic | exact Kf | now rewrite Ks]. }
  destruct amb as [[p0 [|]]|]; [discriminate H | exact (G _ H) | exact (G _ H)].
Qed.

Lemma names_remove : forall t p ms t', tree_names_ok t -> tree_remove t p ms = Ok t' -> tree_names_ok t'.
Proof.
  intros t p ms t' [Hic [Hf Hs]] H. unfold tree_remove in H.
  apply bind_ok in H. destruct H as [r [R H]].
  destruct r as [[root' removed]|]; injection H as <-; [|now split].
  destruct (remove_in_fresh _ _ _ _ _ _ _ _ Hf R) as [Kf Ks].
  apply build_methods_names; [exact Hic | exact Kf | now rewrite Ks].
Qed.

Lemma names_clean : forall t prefix t', tree_names_ok t -> tree_clean t prefix = Ok t' -> tree_names_ok t'.
Proof.
  intros t prefix t' [Hic [Hf Hs]] H. unfold tree_clean in H.
  apply bind_ok in H. destruct H as [root' [C H]]. injection H as <-.
  destruct (clean_in_fresh _ _ _ _ _ Hf C) as [Kf Ks].
  apply build_methods_names; [exact Hic | exact Kf | now rewrite Ks].
Qed.

Lemma names_use : forall t mws, tree_names_ok t -> tree_names_ok (tree_apply_mw t mws).
Proof.
  intros t mws [Hic [Hf Hs]]. unfold tree_names_ok, tree_apply_mw. cbn [tic troot].
  split; [exact Hic|]. split; [now apply apply_mw_node_fresh|].
  now rewrite (proj2 (TreeText.apply_mw_node_facts _ _ _ _)).
Qed.

(* ---------------------------------------------------------------- histories *)

Definition op_wf (op : top) : bool :=
  match op with OAdd p _ _ _ => pat_wf p | _ => true end.
Definition hist_wf (hist : list top) : bool := forallb op_wf hist.

Lemma names_tstep : forall t op, tree_names_ok t -> op_wf op = true -> tree_names_ok (tstep t op).
Proof.
  intros t op Ht W. destruct op as [p h mws ms|p ms|prefix|mws]; cbn [tstep].
  - destruct (tree_add t p h mws ms) as [t'| | |] eqn:E; cbn [keep]; try exact Ht.
    exact (names_add _ _ _ _ _ _ Ht W E).
  - destruct (tree_remove t p ms) as [t'| | |] eqn:E; cbn [keep]; try exact Ht.
    exact (names_remove _ _ _ _ Ht E).
  - destruct (tree_clean t prefix) as [t'| | |] eqn:E; cbn [keep]; try exact Ht.
    exact (names_clean _ _ _ Ht E).
  - now apply names_use.
Qed.

Lemma names_fold : forall hist t, tree_names_ok t -> hist_wf hist = true ->
  tree_names_ok (fold_left tstep hist t).
Proof.
  induction hist as [|op hist IH]; intros t Ht W; [exact Ht|].
  cbn [hist_wf forallb] in W. apply andb_true_iff in W. destruct W as [W1 W2].
  cbn [fold_left]. apply IH; [now apply names_tstep | exact W2].
Qed.

(* ---------------------------------------------------------------- the invariant implies H2 *)

Lemma seg_okF_weaken : forall seen seen' s, (forall x, In x seen -> In x seen') ->
  seg_okF seen' s -> seg_okF seen s.
Proof.
  intros seen seen' s Hin [L N]. split; [exact L|]. intros P I. exact (N P (Hin _ I)).
Qed.

Lemma ext_incl : forall seen s x, In x seen -> In x (ext seen s).
Proof. intros seen s x I. unfold ext. destruct (isparam s); [now right | exact I]. Qed.

Lemma desc_fresh : forall n d, desc n d -> forall seen, fresh seen n -> seg_okF seen (nseg d).
Proof.
  intros n d D. induction D as [n ch Ich | n ch d Ich D IH]; intros seen Hn.
  - exact (proj1 (fresh_inv _ _ Hn ch Ich)).
  - apply (seg_okF_weaken seen (ext seen (nseg ch))); [intros x; apply ext_incl|].
    apply IH. exact (proj2 (fresh_inv _ _ Hn ch Ich)).
Qed.

Lemma seg_sets_param : forall s, seg_sets s = true -> isparam s = true /\ signore s = false.
Proof.
  intros s H. unfold seg_sets in H. unfold isparam.
  destruct (styp s); [discriminate H| | |]; (split; [reflexivity|]); now destruct (signore s).
Qed.

Lemma lab_ok_name_nonempty : forall s, lab_ok s -> seg_sets s = true -> sname s <> [].
Proof.
  intros s [H T] Hs. destruct (seg_sets_param _ Hs) as [P Ig].
  destruct (new_segment_param_braces _ _ _ H P) as [a [e [_ Ie]]].
  exact (proj2 (new_segment_sname _ _ _ _ H (tok1_index _ (T P)) Ie) Ig).
Qed.

Lemma lab_ok_string_name : forall s, lab_ok s -> isparam s = false -> sname s = [].
Proof.
  intros s L F. pose proof (lab_ok_string_plain _ L F) as P.
  destruct L as [H _]. now rewrite (new_segment_plain _ _ _ P H).
Qed.

Lemma fresh_names : forall seen n, fresh seen n ->
  (seg_sets (nseg n) = true -> In (sname (nseg n)) seen /\ sname (nseg n) <> []) ->
  all_nodes names_fresh_at n.
Proof.
  intros seen n H. induction H as [seen n H1 H2 IH]. intro Hn.
  assert (Hf : fresh seen n) by (now constructor).
  apply all_nodes_intro.
  - intros Hs d Hd. destruct (Hn Hs) as [Iseen Hne].
    destruct (desc_fresh _ _ Hd _ Hf) as [Ld Nd].
    destruct (isparam (nseg d)) eqn:P.
    + intro E. apply (Nd eq_refl). now rewrite E.
    + rewrite (lab_ok_string_name _ Ld P). intro E. now apply Hne.
  - intros ch Ich. apply (IH ch Ich). intro Hs.
    destruct (seg_sets_param _ Hs) as [P _]. destruct (H1 ch Ich) as [Lch _].
    split; [unfold ext; rewrite P; now left | exact (lab_ok_name_nonempty _ Lch Hs)].
Qed.

Lemma tree_names_fresh : forall t, tree_names_ok t -> all_nodes names_fresh_at (troot t).
Proof.
  intros t [_ [Hf Hs]]. apply (fresh_names [] _ Hf). intro E. congruence.
Qed.

End Names.

(* the repaired statement: H2 holds on every tree reached by a history whose registered
   patterns pass [pat_wf] *)
Theorem names_fresh_reachable_partial : forall name ic trace hist, hist_wf hist = true ->
  all_nodes names_fresh_at (troot (fold_left tstep hist (new_tree name ic trace))).
Proof.
  intros name ic trace hist W. apply (tree_names_fresh ic).
  apply names_fold; [apply names_new_tree | exact W].
Qed.

(* ================================================================ Part F : dispatch *)

(* Proofs/TreeText.v states its dispatch theorem over its own copy TT.top of the history
   vocabulary; the two are the same up to renaming *)
Definition to_tt (op : top) : TreeText.TT.top :=
  match op with
  | OAdd p h mws ms => TreeText.TT.OAdd p h mws ms
  | ORemove p ms => TreeText.TT.ORemove p ms
  | OClean pf => TreeText.TT.OClean pf
  | OUse mws => TreeText.TT.OUse mws
  end.

Lemma fold_tt : forall hist t,
  fold_left TreeText.TT.tstep (map to_tt hist) t = fold_left tstep hist t.
Proof.
  induction hist as [|op hist IH]; intro t; [reflexivity|]. cbn [map fold_left].
  rewrite IH. f_equal. destruct op; reflexivity.
Qed.

(* C01_dispatch_text_strong with H1 discharged by TreeOrder.idx_lit_reachable and H2 by the
   theorem above: what remains is the well-formedness of the registered patterns *)
Theorem dispatch_text_wf_partial : forall name ic trace hist method path n h ps ok,
  hist_wf hist = true ->
  let t := fold_left tstep hist (new_tree name ic trace) in
  tree_handler t method path [] = HFound ok (Some n) h ps ->
  ttrace t = None \/ method <> TRACE -> path <> bs "*" -> path <> [] ->
  walk (troot t) path [] n ps /\
  exists chain pieces, npat n = concat (map (fun c => sval (nseg c)) chain) /\
    path = concat pieces /\ length pieces = length chain /\
    Forall TreeText.node_label_ok chain /\ Forall2 TreeText.piece_ok chain pieces.
Proof.
  intros name ic trace hist method path n h ps ok W t H Htr Hstar Hnil.
  pose proof (TreeText.dispatch_text_strong name ic trace (map to_tt hist) method path n h ps ok) as D.
  cbv zeta in D. rewrite fold_tt in D. fold t in D.
  apply D; [exact H | exact Htr | exact Hstar | exact Hnil | |].
  - exact (TreeOrder.idx_lit_reachable name ic trace hist).
  - exact (names_fresh_reachable_partial name ic trace hist W).
Qed.

(* ================================================================ Part G : the refutations *)

Definition kid (i : nat) (n : node) : node := nth i (nchildren n) n.

(* "/x/{a{b}c/{b}" has the parameters "a{b" and "b"; registering "/x/{a{b}d" splits the label
   "{a{b}c/" at 2 and the lower half "{b}c/" is a parameter named "b" above the old "{b}" *)
Definition cx_hist : list top :=
  [ OAdd (bs "/x/{a{b}c/{b}") (HUser (bs "h1")) [] [GET];
    OAdd (bs "/x/{a{b}d") (HUser (bs "h2")) [] [GET] ].
Definition cx_tree : tree := fold_left tstep cx_hist (new_tree (bs "r") [] false).

Example cx_hist_accepted : all_accepted (new_tree (bs "r") [] false) cx_hist = true.
Proof. vm_compute. reflexivity. Qed.

Example cx_hist_not_wf : hist_wf cx_hist = false.
Proof. vm_compute. reflexivity. Qed.

Example cx_chain :
  let a := kid 0 (troot cx_tree) in let b := kid 0 a in let c := kid 0 b in let d := kid 0 c in
  sval (nseg a) = bs "/x/" /\ sval (nseg b) = bs "{a" /\
  sval (nseg c) = bs "{b}c/" /\ sname (nseg c) = bs "b" /\ seg_sets (nseg c) = true /\
  sval (nseg d) = bs "{b}" /\ sname (nseg d) = bs "b" /\ npat d = bs "/x/{a{b}c/{b}".
Proof. vm_compute. repeat split. Qed.

(* a chain root - a - b - c - d in which c writes a name that d uses again *)
Lemma not_fresh_by_chain : forall r a b c d, In a (nchildren r) -> In b (nchildren a) ->
  In c (nchildren b) -> In d (nchildren c) -> seg_sets (nseg c) = true ->
  sname (nseg d) = sname (nseg c) -> ~ all_nodes names_fresh_at r.
Proof.
  intros r a b c d Ia Ib Ic Id Hs Hn H.
  pose proof (all_nodes_here _ _
    (all_nodes_child _ _ _ (all_nodes_child _ _ _ (all_nodes_child _ _ _ H Ia) Ib) Ic)) as Hc.
  exact (Hc Hs d (desc_child _ _ Id) Hn).
Qed.

Local Notation cxT := (fold_left tstep cx_hist (new_tree (bs "r") [] false)).

Theorem names_fresh_refuted :
  ~ (forall name ic trace hist,
       all_nodes names_fresh_at (troot (fold_left tstep hist (new_tree name ic trace)))).
Proof.
  intro H.
  assert (Ia : In (kid 0 (troot cxT)) (nchildren (troot cxT))) by (vm_compute; left; reflexivity).
  assert (Ib : In (kid 0 (kid 0 (troot cxT))) (nchildren (kid 0 (troot cxT))))
    by (vm_compute; left; reflexivity).
  assert (Ic : In (kid 0 (kid 0 (kid 0 (troot cxT)))) (nchildren (kid 0 (kid 0 (troot cxT)))))
    by (vm_compute; left; reflexivity).
  assert (Id : In (kid 0 (kid 0 (kid 0 (kid 0 (troot cxT)))))
                  (nchildren (kid 0 (kid 0 (kid 0 (troot cxT))))))
    by (vm_compute; left; reflexivity).
  assert (Hs : seg_sets (nseg (kid 0 (kid 0 (kid 0 (troot cxT))))) = true)
    by (vm_compute; reflexivity).
  assert (Hn : sname (nseg (kid 0 (kid 0 (kid 0 (kid 0 (troot cxT)))))) =
               sname (nseg (kid 0 (kid 0 (kid 0 (troot cxT)))))) by (vm_compute; reflexivity).
  exact (not_fresh_by_chain _ _ _ _ _ Ia Ib Ic Id Hs Hn (H (bs "r") [] false cx_hist)).
Qed.

(* with two more routes below the split label the dispatch itself goes wrong: the abandoned
   child "{b}/" deletes the "b" written by its parent "{b}c/", and the route found afterwards
   is reported without it although every walk to it writes "b" *)
Definition cx_hist4 : list top :=
  [ OAdd (bs "/x/{a{b}c/{b}/y") (HUser (bs "h1")) [] [GET];
    OAdd (bs "/x/{a{b}c/{b}/w") (HUser (bs "h4")) [] [GET];
    OAdd (bs "/x/{a{b}c/{k}") (HUser (bs "h3")) [] [GET];
    OAdd (bs "/x/{a{b}d") (HUser (bs "h2")) [] [GET] ].
Definition cx_tree4 : tree := fold_left tstep cx_hist4 (new_tree (bs "r") [] false).
Definition cx_path : bytes := bs "/x/{a1c/2/z".

Example cx_hist4_accepted : all_accepted (new_tree (bs "r") [] false) cx_hist4 = true.
Proof. vm_compute. reflexivity. Qed.

Example cx_dispatch4 : exists n,
  tree_handler cx_tree4 GET cx_path [] = HFound true (Some n) (HUser (bs "h3")) [(bs "k", bs "2/z")] /\
  npat n = bs "/x/{a{b}c/{k}".
Proof. vm_compute. eexists. split; reflexivity. Qed.

(* before the last registration the same route reports both of its parameters *)
Example cx_dispatch3 :
  match tree_handler (fold_left tstep (firstn 3 cx_hist4) (new_tree (bs "r") [] false)) GET (bs "/x/1c/2/z") [] with
  | HFound true (Some n) h ps =>
    npat n = bs "/x/{a{b}c/{k}" /\ ps = [(bs "a{b", bs "1"); (bs "k", bs "2/z")]
  | _ => False
  end.
Proof. vm_compute. repeat split. Qed.

(* the parameter lists of all walks from [n] along [path] *)
Fixpoint walk_params (fuel : nat) (n : node) (path : bytes) (ps : params) : list params :=
  match fuel with
  | O => []
  | S f =>
    (match path with [] => if Nat.ltb 0 (nsize n) then [ps] else [] | _ => [] end) ++
    flat_map (fun ch => match seg_match (nseg ch) path ps with
                        | Some (p1, ps1) => walk_params f ch p1 ps1
                        | None => []
                        end) (nchildren n)
  end.

Lemma walk_params_complete : forall n path ps r ps', walk n path ps r ps' ->
  forall fuel, (height n <= fuel)%nat -> In ps' (walk_params fuel n path ps).
Proof.
  intros n path ps r ps' W.
  induction W as [n ps Hs | n ch path ps path1 ps1 r ps' Ich SM W IH]; intros fuel Hf.
  - destruct fuel as [|f]; [rewrite height_eq in Hf; lia|]. cbn [walk_params].
    apply in_or_app. left. apply Nat.ltb_lt in Hs. rewrite Hs. now left.
  - destruct fuel as [|f]; [rewrite height_eq in Hf; lia|]. cbn [walk_params].
    apply in_or_app. right. apply in_flat_map. exists ch. split; [exact Ich|].
    rewrite SM. apply IH. pose proof (height_child _ _ Ich). lia.
Qed.

Local Notation cxT4 := (fold_left tstep cx_hist4 (new_tree (bs "r") [] false)).

(* every walk along the path writes "b" *)
Example cx_walks4 : walk_params 10 (troot cx_tree4) cx_path [] = [[(bs "b", bs "1"); (bs "k", bs "2/z")]].
Proof. vm_compute. reflexivity. Qed.

Theorem dispatch_walk_refuted :
  ~ (forall name ic trace hist method path n h ps ok,
       let t := fold_left tstep hist (new_tree name ic trace) in
       tree_handler t method path [] = HFound ok (Some n) h ps ->
       ttrace t = None \/ method <> TRACE -> path <> bs "*" -> path <> [] ->
       walk (troot t) path [] n ps).
Proof.
  intro H.
  assert (E : exists n h, tree_handler cxT4 GET cx_path [] = HFound true (Some n) h [(bs "k", bs "2/z")])
    by (vm_compute; eexists; eexists; reflexivity).
  destruct E as [n [h E]].
  assert (T0 : ttrace cxT4 = None) by (vm_compute; reflexivity).
  assert (P1 : cx_path <> bs "*") by (intro X; vm_compute in X; discriminate X).
  assert (P2 : cx_path <> []) by (intro X; vm_compute in X; discriminate X).
  pose proof (H (bs "r") [] false cx_hist4 GET cx_path n h _ true E (or_introl T0) P1 P2) as W.
  clear H E T0 P1 P2.
  assert (Hh : (height (troot cxT4) <= 10)%nat) by (apply Nat.leb_le; vm_compute; reflexivity).
  pose proof (walk_params_complete _ _ _ _ _ W 10%nat Hh) as I. clear W Hh.
  assert (Q : walk_params 10 (troot cxT4) cx_path [] = [[(bs "b", bs "1"); (bs "k", bs "2/z")]])
    by (vm_compute; reflexivity).
  rewrite Q in I. destruct I as [I|[]].
  apply (f_equal (@length _)) in I. discriminate I.
Qed.

(* hence the statement of C01_dispatch_text_strong without its two side conditions is false *)
Theorem dispatch_text_unconditional_refuted :
  ~ (forall name ic trace hist method path n h ps ok,
       let t := fold_left tstep hist (new_tree name ic trace) in
       tree_handler t method path [] = HFound ok (Some n) h ps ->
       ttrace t = None \/ method <> TRACE -> path <> bs "*" -> path <> [] ->
       walk (troot t) path [] n ps /\
       exists chain pieces, npat n = concat (map (fun c => sval (nseg c)) chain) /\
         path = concat pieces /\ length pieces = length chain /\
         Forall TreeText.node_label_ok chain /\ Forall2 TreeText.piece_ok chain pieces).
Proof.
  intro H. apply dispatch_walk_refuted.
  intros name ic trace hist method path n h ps ok t E Htr Hs Hn.
  exact (proj1 (H name ic trace hist method path n h ps ok E Htr Hs Hn)).
Qed.

(* ================================================================ examples *)

(* two routes that share "{id}/": the regexp child "{page:\d+}" is tried first and rejects
   "7/log", then "{action}/" matches *)
Definition ex_names_hist : list top :=
  [ OAdd (bs "/users/{id}/{page:\d+}") (HUser (bs "page")) [] [GET];
    OAdd (bs "/users/{id}/{action}/log") (HUser (bs "log")) [] [GET] ].
Definition ex_names_tree : tree := fold_left tstep ex_names_hist (new_tree (bs "r") [] false).

Example ex_names_accepted : all_accepted (new_tree (bs "r") [] false) ex_names_hist = true.
Proof. vm_compute. reflexivity. Qed.

Example ex_names_wf : hist_wf ex_names_hist = true.
Proof. vm_compute. reflexivity. Qed.

Example ex_names_dispatch : exists n,
  tree_handler ex_names_tree GET (bs "/users/5/7/log") [] =
    HFound true (Some n) (HUser (bs "log")) [(bs "id", bs "5"); (bs "action", bs "7")] /\
  npat n = bs "/users/{id}/{action}/log" /\
  ctx_get [(bs "id", bs "5"); (bs "action", bs "7")] (bs "action") = Some (bs "7") /\
  ctx_get [(bs "id", bs "5"); (bs "action", bs "7")] (bs "id") = Some (bs "5").
Proof. vm_compute. eexists. repeat split. Qed.

Example ex_names_dispatch_page :
  match tree_handler ex_names_tree GET (bs "/users/5/7") [] with
  | HFound true (Some n) h ps =>
    npat n = bs "/users/{id}/{page:\d+}" /\ ps = [(bs "id", bs "5"); (bs "page", bs "7")]
  | _ => False
  end.
Proof. vm_compute. repeat split. Qed.

Example ex_names_fresh : all_nodes names_fresh_at (troot ex_names_tree).
Proof. exact (names_fresh_reachable_partial (bs "r") [] false ex_names_hist ex_names_wf). Qed.

(* the dispatch theorem applied to the concrete history: no side condition left *)
Example ex_names_walk : forall n h ps ok,
  tree_handler ex_names_tree GET (bs "/users/5/7/log") [] = HFound ok (Some n) h ps ->
  walk (troot ex_names_tree) (bs "/users/5/7/log") [] n ps.
Proof.
  intros n h ps ok H.
  refine (proj1 (dispatch_text_wf_partial (bs "r") [] false ex_names_hist GET _ n h ps ok
                   ex_names_wf H (or_introl eq_refl) _ _));
    intro E; vm_compute in E; discriminate E.
Qed.

(* the check accepts the usual syntax and rejects a '{' inside a token *)
Example ex_pat_wf :
  pat_wf (bs "/posts/{id:\d+}/{-skip}/author.{ext}") = true /\ pat_wf (bs "/x/{a{b}c") = false.
Proof. vm_compute. split; reflexivity. Qed.

(* the concrete findings and the example, as single statements for Props/C01names.v *)
Lemma names_counterexample :
  all_accepted (new_tree (bs "r") [] false) cx_hist = true /\ hist_wf cx_hist = false /\
  let a := kid 0 (troot cx_tree) in let b := kid 0 a in let c := kid 0 b in let d := kid 0 c in
  sval (nseg a) = bs "/x/" /\ sval (nseg b) = bs "{a" /\
  sval (nseg c) = bs "{b}c/" /\ sname (nseg c) = bs "b" /\ seg_sets (nseg c) = true /\
  sval (nseg d) = bs "{b}" /\ sname (nseg d) = bs "b" /\ npat d = bs "/x/{a{b}c/{b}".
Proof. exact (conj cx_hist_accepted (conj cx_hist_not_wf cx_chain)). Qed.

Lemma dispatch_counterexample :
  all_accepted (new_tree (bs "r") [] false) cx_hist4 = true /\
  exists n,
    tree_handler cx_tree4 GET cx_path [] = HFound true (Some n) (HUser (bs "h3")) [(bs "k", bs "2/z")] /\
    npat n = bs "/x/{a{b}c/{k}".
Proof. exact (conj cx_hist4_accepted cx_dispatch4). Qed.

Lemma names_example :
  all_accepted (new_tree (bs "r") [] false) ex_names_hist = true /\ hist_wf ex_names_hist = true /\
  exists n,
    tree_handler ex_names_tree GET (bs "/users/5/7/log") [] =
      HFound true (Some n) (HUser (bs "log")) [(bs "id", bs "5"); (bs "action", bs "7")] /\
    npat n = bs "/users/{id}/{action}/log" /\
    ctx_get [(bs "id", bs "5"); (bs "action", bs "7")] (bs "action") = Some (bs "7") /\
    ctx_get [(bs "id", bs "5"); (bs "action", bs "7")] (bs "id") = Some (bs "5").
Proof. exact (conj ex_names_accepted (conj ex_names_wf ex_names_dispatch)). Qed.
