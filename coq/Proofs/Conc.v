(* Proofs about the reader/writer-lock protocol model (Model/Conc.v): race freedom of well-started
   systems, compositionality of the per-thread discipline. *)
From Coq Require Import String List Bool Arith Lia.
From Mux Require Import Model.Conc.
Import ListNotations.
Open Scope string_scope.
Open Scope list_scope.

(* ---------------------------------------------------------------- the discipline checker *)

Lemma disc_app : forall a b h1 h2 h3,
  disc h1 a = Some h2 -> disc h2 b = Some h3 -> disc h1 (a ++ b) = Some h3.
Proof.
  intros a; induction a as [|e a IH]; intros b h1 h2 h3 Ha Hb.
  - cbn in Ha. injection Ha as Ha. subst h2. exact Hb.
  - cbn [app]. destruct e as [w| |wr l]; cbn [disc] in Ha |- *.
    + destruct h1 as [m|]; [discriminate Ha|]. eapply IH; eassumption.
    + destruct h1 as [m|]; [|discriminate Ha]. eapply IH; eassumption.
    + destruct h1 as [[|]|].
      * eapply IH; eassumption.
      * destruct wr; [discriminate Ha|]. eapply IH; eassumption.
      * discriminate Ha.
Qed.

(* a prefix of a non-violating run is non-violating, and the rest runs from the prefix's final mode *)
Lemma disc_app_inv : forall a b h1,
  disc h1 (a ++ b) <> None -> exists h2, disc h1 a = Some h2 /\ disc h2 b <> None.
Proof.
  intros a; induction a as [|e a IH]; intros b h1 Hab.
  - exists h1. split; [reflexivity|exact Hab].
  - cbn [app] in Hab. destruct e as [w| |wr l]; cbn [disc] in Hab |- *.
    + destruct h1 as [m|]; [exfalso; apply Hab; reflexivity|]. apply IH. exact Hab.
    + destruct h1 as [m|]; [|exfalso; apply Hab; reflexivity]. apply IH. exact Hab.
    + destruct h1 as [[|]|].
      * apply IH. exact Hab.
      * destruct wr; [exfalso; apply Hab; reflexivity|]. apply IH. exact Hab.
      * exfalso; apply Hab; reflexivity.
Qed.

(* an access at the head needs the lock, a write needs it exclusively *)
Lemma disc_acc_head : forall h wr l r,
  disc h (Acc wr l :: r) <> None -> exists m, h = Some m /\ (wr = true -> m = true).
Proof.
  intros h wr l r Hd. cbn [disc] in Hd. destruct h as [[|]|].
  - exists true. split; [reflexivity|intros _; reflexivity].
  - destruct wr.
    + exfalso; apply Hd; reflexivity.
    + exists false. split; [reflexivity|intros Hw; discriminate Hw].
  - exfalso; apply Hd; reflexivity.
Qed.

Lemma summary_ok_disc : forall s, summary_ok s = true -> disc None s = Some None.
Proof.
  intros s Hs. unfold summary_ok in Hs.
  destruct (disc None s) as [[m|]|] eqn:E; try discriminate Hs. reflexivity.
Qed.

Lemma ok_concat : forall (l : list (list ev)),
  Forall (fun s => summary_ok s = true) l -> disc None (concat l) = Some None.
Proof.
  intros l Hl. induction Hl as [|s l Hs Hl IH].
  - reflexivity.
  - cbn [concat]. eapply disc_app; [apply summary_ok_disc; exact Hs|exact IH].
Qed.

Lemma well_started_of_summaries : forall (progs : list (list (list ev))),
  Forall (Forall (fun s => summary_ok s = true)) progs ->
  well_started (map (fun p => {| prog := concat p; held := None |}) progs).
Proof.
  intros progs Hp. unfold well_started. induction Hp as [|p progs Hp Hps IH].
  - constructor.
  - cbn [map]. constructor; [|exact IH]. cbn [prog held]. split; [reflexivity|].
    rewrite (ok_concat p Hp). intros Hn; discriminate Hn.
Qed.

Lemma access_only_inside_region : forall es, disc None es <> None ->
  forall pre wr l post, es = pre ++ Acc wr l :: post ->
  exists m, disc None pre = Some (Some m) /\ (wr = true -> m = true).
Proof.
  intros es Hes pre wr l post Heq. subst es.
  destruct (disc_app_inv pre (Acc wr l :: post) None Hes) as [h2 [Hpre Hrest]].
  destruct (disc_acc_head h2 wr l post Hrest) as [m [Hm Hw]]. subst h2.
  exists m. split; [exact Hpre|exact Hw].
Qed.

(* ---------------------------------------------------------------- counting lock holders *)

Definition hcount (t : thr) : nat := match held t with Some _ => 1 | None => 0 end.
Definition wcount (t : thr) : nat := match held t with Some true => 1 | _ => 0 end.

Fixpoint holders (s : list thr) : nat := match s with [] => 0 | t :: r => hcount t + holders r end.
Fixpoint writers (s : list thr) : nat := match s with [] => 0 | t :: r => wcount t + writers r end.

Lemma holders_app : forall a b, holders (a ++ b) = holders a + holders b.
Proof.
  intros a b. induction a as [|t a IH]; [reflexivity|]. cbn [app holders]. rewrite IH. lia.
Qed.

Lemma writers_app : forall a b, writers (a ++ b) = writers a + writers b.
Proof.
  intros a b. induction a as [|t a IH]; [reflexivity|]. cbn [app writers]. rewrite IH. lia.
Qed.

Lemma wcount_le_hcount : forall t, wcount t <= hcount t.
Proof. intros t. unfold wcount, hcount. destruct (held t) as [[|]|]; lia. Qed.

Lemma writers_le_holders : forall s, writers s <= holders s.
Proof.
  intros s. induction s as [|t s IH]; [cbn; lia|]. cbn [writers holders].
  pose proof (wcount_le_hcount t) as Ht. lia.
Qed.

Lemma holders_zero : forall s, holders s = 0 <-> Forall (fun u => held u = None) s.
Proof.
  intros s. induction s as [|t s IH].
  - split; [intros _; constructor|intros _; reflexivity].
  - cbn [holders]. split.
    + intros H0. constructor.
      * unfold hcount in H0. destruct (held t) as [m|]; [lia|reflexivity].
      * apply IH. lia.
    + intros Hf. inversion Hf as [|t0 s0 Ht Hs]; subst.
      unfold hcount. rewrite Ht. apply IH in Hs. lia.
Qed.

Lemma writers_zero : forall s, writers s = 0 <-> Forall (fun u => held u <> Some true) s.
Proof.
  intros s. induction s as [|t s IH].
  - split; [intros _; constructor|intros _; reflexivity].
  - cbn [writers]. split.
    + intros H0. constructor.
      * unfold wcount in H0. destruct (held t) as [[|]|]; [lia|intros Hc; discriminate Hc|intros Hc; discriminate Hc].
      * apply IH. lia.
    + intros Hf. inversion Hf as [|t0 s0 Ht Hs]; subst.
      apply IH in Hs. unfold wcount. destruct (held t) as [[|]|]; [exfalso; apply Ht; reflexivity|lia|lia].
Qed.

Lemma can_acq_true : forall others, can_acq true others = true -> holders others = 0.
Proof.
  intros others. unfold can_acq. induction others as [|t o IH]; intros Hc.
  - reflexivity.
  - cbn [forallb] in Hc. apply andb_true_iff in Hc. destruct Hc as [Ht Ho].
    cbn [holders]. unfold hcount. destruct (held t) as [m|]; [discriminate Ht|]. rewrite (IH Ho). reflexivity.
Qed.

Lemma can_acq_false : forall others, can_acq false others = true -> writers others = 0.
Proof.
  intros others. unfold can_acq. induction others as [|t o IH]; intros Hc.
  - reflexivity.
  - cbn [forallb] in Hc. apply andb_true_iff in Hc. destruct Hc as [Ht Ho].
    cbn [writers]. unfold wcount. destruct (held t) as [[|]|]; [discriminate Ht| |]; rewrite (IH Ho); reflexivity.
Qed.

(* ---------------------------------------------------------------- the invariant *)

(* either nobody holds the lock exclusively, or exactly one thread holds it at all *)
Definition lock_ok (s : list thr) : Prop := writers s = 0 \/ holders s = 1.

Definition Inv (s : list thr) : Prop :=
  Forall (fun t => disc (held t) (prog t) <> None) s /\ lock_ok s.

(* the formulation with list splittings follows from the counting one *)
Definition exclusive (s : list thr) : Prop :=
  forall pre t post, s = pre ++ t :: post -> held t = Some true -> Forall (fun u => held u = None) (pre ++ post).

Definition reader_excludes_writer (s : list thr) : Prop :=
  forall pre t post, s = pre ++ t :: post -> held t = Some false -> Forall (fun u => held u <> Some true) (pre ++ post).

Lemma lock_ok_exclusive : forall s, lock_ok s -> exclusive s.
Proof.
  intros s Hs pre t post Heq Ht. subst s. unfold lock_ok in Hs.
  rewrite writers_app, holders_app in Hs. cbn [writers holders] in Hs.
  apply holders_zero. rewrite holders_app.
  pose proof (writers_le_holders pre) as Hpre. pose proof (writers_le_holders post) as Hpost.
  unfold wcount, hcount in Hs. rewrite Ht in Hs. lia.
Qed.

Lemma lock_ok_reader_excludes_writer : forall s, lock_ok s -> reader_excludes_writer s.
Proof.
  intros s Hs pre t post Heq Ht. subst s. unfold lock_ok in Hs.
  rewrite writers_app, holders_app in Hs. cbn [writers holders] in Hs.
  apply writers_zero. rewrite writers_app.
  pose proof (writers_le_holders pre) as Hpre. pose proof (writers_le_holders post) as Hpost.
  unfold wcount, hcount in Hs. rewrite Ht in Hs. lia.
Qed.

Lemma Inv_init : forall init, well_started init -> Inv init.
Proof.
  intros init Hw. unfold well_started in Hw. split.
  - induction Hw as [|t s [Hh Hd] Hs IH]; constructor; [|exact IH]. rewrite Hh. exact Hd.
  - left. apply Nat.le_0_r. etransitivity; [apply writers_le_holders|]. apply Nat.le_0_r.
    apply holders_zero. induction Hw as [|t s [Hh Hd] Hs IH]; constructor; [exact Hh|exact IH].
Qed.

Lemma tstep_disc : forall others t t', tstep others t t' ->
  disc (held t) (prog t) <> None -> disc (held t') (prog t') <> None.
Proof.
  intros others t t' Hst. destruct Hst as [w r Hc|m r|wr l r h]; cbn [held prog]; intros Hd.
  - exact Hd.
  - exact Hd.
  - cbn [disc] in Hd. destruct h as [[|]|].
    + exact Hd.
    + destruct wr; [exfalso; apply Hd; reflexivity|exact Hd].
    + exfalso; apply Hd; reflexivity.
Qed.

Lemma Forall_mid : forall (A : Type) (P : A -> Prop) pre t post,
  Forall P (pre ++ t :: post) <-> Forall P pre /\ P t /\ Forall P post.
Proof.
  intros A P pre t post. rewrite Forall_app. split.
  - intros [Hpre Hrest]. inversion Hrest as [|x l Ht Hpost]; subst. split; [exact Hpre|split; [exact Ht|exact Hpost]].
  - intros [Hpre [Ht Hpost]]. split; [exact Hpre|constructor; [exact Ht|exact Hpost]].
Qed.

Lemma Inv_step : forall s s', Inv s -> step s s' -> Inv s'.
Proof.
  intros s s' [Hd Hl] Hst. destruct Hst as [pre t post t' Ht]. split.
  - apply Forall_mid in Hd. destruct Hd as [Hpre [Hdt Hpost]]. apply Forall_mid.
    split; [exact Hpre|split; [|exact Hpost]]. eapply tstep_disc; eassumption.
  - unfold lock_ok in Hl |- *.
    rewrite writers_app, holders_app in Hl |- *. cbn [writers holders] in Hl |- *.
    pose proof (writers_le_holders pre) as Hwpre. pose proof (writers_le_holders post) as Hwpost.
    destruct Ht as [w r Hc|m r|wr l r h]; unfold wcount, hcount in Hl |- *; cbn [held] in Hl |- *.
    + destruct w.
      * apply can_acq_true in Hc. rewrite holders_app in Hc. lia.
      * apply can_acq_false in Hc. rewrite writers_app in Hc. lia.
    + destruct m; lia.
    + exact Hl.
Qed.

Lemma Inv_reachable : forall init s, well_started init -> reachable init s -> Inv s.
Proof.
  intros init s Hw Hr. induction Hr as [|s s' Hr IH Hst].
  - apply Inv_init. exact Hw.
  - eapply Inv_step; eassumption.
Qed.

Lemma Inv_no_race : forall s, Inv s -> ~ race s.
Proof.
  intros s [Hd Hl] Hrace.
  destruct Hrace as [pre [t [mid [u [post [w1 [w2 [l [r1 [r2 [Heq [Hpt [Hpu Hw]]]]]]]]]]]]].
  subst s. apply Forall_mid in Hd. destruct Hd as [_ [Hdt Hrest]].
  apply Forall_mid in Hrest. destruct Hrest as [_ [Hdu _]].
  rewrite Hpt in Hdt. rewrite Hpu in Hdu.
  destruct (disc_acc_head _ _ _ _ Hdt) as [m1 [Hm1 Hx1]].
  destruct (disc_acc_head _ _ _ _ Hdu) as [m2 [Hm2 Hx2]].
  unfold lock_ok in Hl.
  rewrite !writers_app, !holders_app in Hl. cbn [writers holders] in Hl.
  rewrite !writers_app, !holders_app in Hl. cbn [writers holders] in Hl.
  unfold wcount, hcount in Hl. rewrite Hm1, Hm2 in Hl.
  apply orb_true_iff in Hw. destruct Hw as [Hw|Hw].
  - rewrite (Hx1 Hw) in Hl. lia.
  - rewrite (Hx2 Hw) in Hl. destruct m1; lia.
Qed.

Lemma race_free : forall init s, well_started init -> reachable init s -> ~ race s.
Proof.
  intros init s Hw Hr. apply Inv_no_race. eapply Inv_reachable; eassumption.
Qed.

(* reachable states of well-started systems satisfy the split-based exclusion properties as well *)
Lemma reachable_exclusive : forall init s, well_started init -> reachable init s ->
  exclusive s /\ reader_excludes_writer s.
Proof.
  intros init s Hw Hr. destruct (Inv_reachable init s Hw Hr) as [_ Hl].
  split; [apply lock_ok_exclusive|apply lock_ok_reader_excludes_writer]; exact Hl.
Qed.

(* ---------------------------------------------------------------- sanity examples *)

Definition ex_writer : thr := {| prog := [Acq true; Acc true "x"; Rel]; held := None |}.
Definition ex_reader : thr := {| prog := [Acq false; Acc false "x"; Rel]; held := None |}.

Example ex_well_started : well_started [ex_writer; ex_reader].
Proof.
  unfold well_started. constructor; [|constructor; [|constructor]];
    (split; [reflexivity|vm_compute; intros Hn; discriminate Hn]).
Qed.

Example ex_summaries_ok : summary_ok (prog ex_writer) = true /\ summary_ok (prog ex_reader) = true.
Proof. split; vm_compute; reflexivity. Qed.

Example ex_violation : disc None [Acc true "x"] = None.
Proof. vm_compute. reflexivity. Qed.

Example ex_violation_write_under_rlock : disc None [Acq false; Acc true "x"; Rel] = None.
Proof. vm_compute. reflexivity. Qed.

(* the example system really runs: the writer can take the lock, then the reader is blocked from racing *)
Example ex_reachable :
  reachable [ex_writer; ex_reader]
            [{| prog := [Acc true "x"; Rel]; held := Some true |}; ex_reader].
Proof.
  eapply reach_step; [apply reach_init|].
  apply (step_at [] ex_writer [ex_reader] {| prog := [Acc true "x"; Rel]; held := Some true |}).
  unfold ex_writer. apply ts_acq. vm_compute. reflexivity.
Qed.
