(* Hosts.Match = the tree lookup ([hosts_match_raw]) followed by the restore step ([restore_missing]):
   every parameter that was in the context before the lookup and is gone after it is put back.
   The theorems about the raw lookup (Proofs/HostsTree.v, Proofs/HostsResolve.v) are transferred, and
   the reject-clean theorem is obtained without any disjointness hypothesis. *)
From Coq Require Import String Permutation Setoid Morphisms.
From Mux Require Import Model.Bytes Model.Regex Model.Context Model.Syntax Model.Tree Model.Router
  Model.Match Model.Group Spec.Table Spec.Resolve
  Proofs.BytesFacts Proofs.MatchSound Proofs.TreeSafe Proofs.TreeOrder Proofs.MatchOrder Proofs.TreeAllow
  Proofs.TreeText Proofs.TreeFind Proofs.TokensSplit Proofs.TreeNames Proofs.TreeLit Proofs.TreeGone
  Proofs.TreeFrame Proofs.TreeWitness Proofs.TreeAbs Proofs.TreeResolve Proofs.TreeResolve2
  Proofs.HostsTree Proofs.HostsResolve Proofs.Misc3 Proofs.Group.

(* ================================================================ the restore step *)

Lemma restore_missing_nil : forall ps', restore_missing [] ps' = ps'.
Proof.
  intro ps'. unfold restore_missing. cbn [map app].
  induction ps' as [|kv ps' IH]; [reflexivity|].
  cbn [filter]. change (ctx_exists [] (fst kv)) with false. cbn [negb]. now rewrite IH.
Qed.

Lemma alookup_app : forall (a b : params) k,
  alookup k (a ++ b) = match alookup k a with Some v => Some v | None => alookup k b end.
Proof.
  induction a as [|[k0 v0] a IH]; intros b k; simpl; [reflexivity|].
  destruct (beqb k k0); [reflexivity | apply IH].
Qed.

Lemma alookup_restore_map : forall (ps ps' : params) k,
  alookup k (map (fun kv => (fst kv, match ctx_get ps' (fst kv) with Some v' => v' | None => snd kv end)) ps)
  = match alookup k ps with
    | Some v => Some (match ctx_get ps' k with Some v' => v' | None => v end)
    | None => None
    end.
Proof.
  induction ps as [|[k0 v0] ps IH]; intros ps' k; simpl; [reflexivity|].
  destruct (beqb k k0) eqn:E; [|apply IH].
  apply beqb_eq in E. now subst k0.
Qed.

Lemma alookup_restore_filter : forall (ps ps' : params) k,
  alookup k (filter (fun kv => negb (ctx_exists ps (fst kv))) ps')
  = if ctx_exists ps k then None else alookup k ps'.
Proof.
  intros ps ps' k. induction ps' as [|[k0 v0] ps' IH]; simpl.
  - now destruct (ctx_exists ps k).
  - destruct (ctx_exists ps k0) eqn:X; simpl.
    + rewrite IH. destruct (beqb k k0) eqn:E; [|reflexivity].
      apply beqb_eq in E. subst k0. now rewrite X.
    + destruct (beqb k k0) eqn:E; [|exact IH].
      apply beqb_eq in E. subst k0. now rewrite X.
Qed.

(* lookup characterisation: the lookup's value wins, otherwise the earlier value is still there *)
Lemma restore_missing_get : forall ps ps' k,
  ctx_get (restore_missing ps ps') k =
  match ctx_get ps' k with Some v => Some v | None => ctx_get ps k end.
Proof.
  intros ps ps' k. unfold restore_missing, ctx_get at 1.
  rewrite alookup_app, alookup_restore_map, alookup_restore_filter.
  unfold ctx_exists, ctx_get.
  destruct (alookup k ps) as [v|]; destruct (alookup k ps') as [v'|]; reflexivity.
Qed.

Lemma in_keys_alookup : forall (l : params) k v, In (k, v) l -> exists v', alookup k l = Some v'.
Proof.
  intros l k v H. destruct (alookup k l) as [v'|] eqn:E; [now exists v'|].
  apply alookup_None in E. elim E. unfold akeys. apply in_map_iff. now exists (k, v).
Qed.

Lemma restore_missing_sub : forall ps ps', ctx_nodup ps -> sub_params ps' ps -> restore_missing ps ps' = ps.
Proof.
  intros ps ps' Hn Hs. unfold restore_missing.
  assert (F : filter (fun kv => negb (ctx_exists ps (fst kv))) ps' = []).
  { assert (G : forall l, (forall kv, In kv l -> In kv ps') ->
                filter (fun kv => negb (ctx_exists ps (fst kv))) l = []).
    { induction l as [|[k v] l IH]; intro Hl; [reflexivity|]. simpl.
      destruct (in_keys_alookup ps' k v (Hl _ (or_introl eq_refl))) as [v' E].
      apply Hs in E. unfold ctx_exists. rewrite E. simpl. apply IH. intros kv I. apply Hl. now right. }
    apply G. auto. }
  rewrite F, app_nil_r.
  rewrite <- (map_id ps) at 2. apply map_ext_in. intros [k v] I. simpl.
  destruct (ctx_get ps' k) as [v'|] eqn:E; [|reflexivity].
  apply Hs in E. apply (In_alookup_nodup ps k v Hn) in I. unfold ctx_get in E. rewrite I in E.
  now inversion E.
Qed.

(* ================================================================ Hosts.Match *)

Lemma hosts_match_nil : forall t h, hosts_match t h [] = hosts_match_raw t h [].
Proof.
  intros t h. unfold hosts_match. destruct (hosts_match_raw t h []) as [[ok ps']|]; [|reflexivity].
  now rewrite restore_missing_nil.
Qed.

Lemma hosts_match_some : forall t h ps ok ps',
  hosts_match t h ps = Some (ok, ps') ->
  exists ps1, hosts_match_raw t h ps = Some (ok, ps1) /\ ps' = restore_missing ps ps1.
Proof.
  intros t h ps ok ps' H. unfold hosts_match in H.
  destruct (hosts_match_raw t h ps) as [[ok1 ps1]|]; [|discriminate].
  inversion H. subst. now exists ps1.
Qed.

(* the main theorem: a rejected Host leaves the parameters exactly as they were; no disjointness
   hypothesis between the incoming parameters and the names of the tree *)
Theorem hosts_reject_clean : forall hist host ps ps', ctx_nodup ps ->
  hosts_match (hosts_reach hist) host ps = Some (false, ps') -> ps' = ps.
Proof.
  intros hist host ps ps' Hn H. apply hosts_match_some in H. destruct H as [ps1 [H ->]].
  apply restore_missing_sub; [exact Hn|]. exact (hosts_reject_sub_params _ _ _ _ H).
Qed.

(* accepted or not, on any tree: no earlier parameter is ever lost *)
Theorem hosts_accept_keeps_earlier : forall t host ps ps' ok,
  hosts_match t host ps = Some (ok, ps') ->
  forall k v, ctx_get ps k = Some v -> exists v', ctx_get ps' k = Some v'.
Proof.
  intros t host ps ps' ok H k v G. apply hosts_match_some in H. destruct H as [ps1 [_ ->]].
  rewrite restore_missing_get, G. destruct (ctx_get ps1 k) as [v1|]; eauto.
Qed.

Theorem hosts_match_total' : forall hist host ps, hosts_match (hosts_reach hist) host ps <> None.
Proof.
  intros hist host ps. unfold hosts_match.
  destruct (hosts_match_raw (hosts_reach hist) host ps) as [[ok ps']|] eqn:E; [discriminate|].
  now elim (hosts_match_total hist host ps).
Qed.

Lemma hosts_match_normalise' : forall t h h' ps,
  normalise_host h = normalise_host h' -> hosts_match t h ps = hosts_match t h' ps.
Proof.
  intros t h h' ps H. unfold hosts_match. now rewrite (C14_match_uses_normalised_l t h h' ps H).
Qed.

Theorem hosts_clean_empty_ctx' : forall hist host ps',
  hosts_match (hosts_reach hist) host [] = Some (false, ps') -> ps' = [].
Proof. intros hist host ps'. rewrite hosts_match_nil. apply hosts_clean_empty_ctx. Qed.

(* ================================================================ transfer of Proofs/HostsResolve.v
   Every statement below is the statement of the lemma of the same name (without _r) with the
   restoring [hosts_match] in place of the raw lookup; on the empty context they coincide. *)
Ltac transfer L :=
  first
    [ solve [rewrite ?hosts_match_nil; exact L]
    | solve [intros; rewrite ?hosts_match_nil; eapply L; eassumption]
    | solve [let X := fresh in pose proof L as X; repeat setoid_rewrite <- hosts_match_nil in X; exact X]
    | solve [repeat setoid_rewrite hosts_match_nil; exact L] ].

Lemma hosts_match_answer_r : forall t host ps,
  hosts_match t host [] = Some (true, ps) <-> exists dom, hosts_answer t host = Some (dom, ps).
Proof. transfer hosts_match_answer. Qed.

Lemma hosts_match_reject_r : forall t host, tree_safe t ->
  (exists ps, hosts_match t host [] = Some (false, ps)) <-> hosts_answer t host = None.
Proof. transfer hosts_match_reject. Qed.

Lemma cx_bridge_facts_r :
  regs_first cx_bridge_hist = false /\
  hosts_match (hosts_reach cx_bridge_hist) (bs "digit.com") [] = Some (true, [(bs "x", bs "digit")]) /\
  hosts_match (hosts_reach cx_bridge_hist) (bs "5.com") [] = Some (false, []) /\
  let t := fold_left tstep (hist_ops cx_bridge_hist) (new_tree (bs "host") (hist_ic cx_bridge_hist) true) in
  hosts_match t (bs "digit.com") [] = Some (false, []) /\
  hosts_match t (bs "5.com") [] = Some (true, [(bs "x", bs "5")]).
Proof. transfer cx_bridge_facts. Qed.

(* [ctx_nodup ps]: the context is a map (the restore step rebuilds it key by key) *)
Lemma hosts_special_rejected_r : forall hist host ps, ctx_nodup ps -> special (normalise_host host) ->
  hosts_match (hosts_reach hist) host ps = Some (false, ps).
Proof.
  intros hist host ps Hn H. unfold hosts_match. rewrite (hosts_special_rejected hist host ps H).
  rewrite restore_missing_sub; [reflexivity | exact Hn | apply sub_params_refl].
Qed.

Lemma hosts_match_cases_r : forall hist host,
  let t := hosts_reach hist in
  let host' := normalise_host host in
  (special host' /\ hosts_match t host [] = Some (false, []) /\ hosts_answer t host = None) \/
  (~ special host' /\
   ((exists n h ps, tree_handler t GET host' [] = HFound true (Some n) h ps /\
                    desc (troot t) n /\ nhandlers n <> [] /\
                    hosts_match t host [] = Some (true, ps) /\ hosts_answer t host = Some (npat n, ps)) \/
    (exists h, tree_handler t GET host' [] = HFound false None h [] /\
               hosts_match t host [] = Some (false, []) /\ hosts_answer t host = None))).
Proof. transfer hosts_match_cases. Qed.

Lemma hosts_refines_resolver_r : forall hist host,
  regs_first hist = true -> no_del hist = true -> hosts_tokens hist = true -> hosts_canonb hist = true ->
  let host' := normalise_host host in
  match hosts_match (hosts_reach hist) host [] with
  | Some (true, ps) => ~ special host' /\
      exists d, In d (hosts_domains hist) /\ In (d, ps) (resolve (hist_ic hist) (hosts_table hist) host')
  | Some (false, ps) => ps = [] /\ (special host' \/ resolve (hist_ic hist) (hosts_table hist) host' = [])
  | None => False
  end.
Proof. transfer hosts_refines_resolver. Qed.

Lemma hosts_refines_resolver_any_order_r : forall hist host table,
  regs_first hist = true -> no_del hist = true -> hosts_tokens hist = true -> hosts_canonb hist = true ->
  Permutation table (hosts_table hist) ->
  let host' := normalise_host host in
  match hosts_match (hosts_reach hist) host [] with
  | Some (true, ps) => ~ special host' /\
      exists d, In d (hosts_domains hist) /\ In (d, ps) (resolve (hist_ic hist) table host')
  | Some (false, ps) => ps = [] /\ (special host' \/ resolve (hist_ic hist) table host' = [])
  | None => False
  end.
Proof. transfer hosts_refines_resolver_any_order. Qed.

Lemma hosts_accepts_iff_resolves_r : forall hist host,
  regs_first hist = true -> no_del hist = true -> hosts_tokens hist = true -> hosts_canonb hist = true ->
  ~ special (normalise_host host) ->
  ((exists ps, hosts_match (hosts_reach hist) host [] = Some (true, ps)) <->
   resolve (hist_ic hist) (hosts_table hist) (normalise_host host) <> []).
Proof. transfer hosts_accepts_iff_resolves. Qed.

Lemma hosts_resolver_unrestricted_refuted_r :
  ~ (forall hist host ps,
       regs_first hist = true -> no_del hist = true -> hosts_tokens hist = true -> hosts_canonb hist = true ->
       hosts_match (hosts_reach hist) host [] = Some (false, ps) ->
       resolve (hist_ic hist) (hosts_table hist) (normalise_host host) = []).
Proof. transfer hosts_resolver_unrestricted_refuted. Qed.

Lemma cx_special_facts_r :
  regs_first cx_special_hist = true /\ no_del cx_special_hist = true /\
  hosts_tokens cx_special_hist = true /\ hosts_canonb cx_special_hist = true /\
  hosts_domains cx_special_hist = [bs "*"; bs "{any}"] /\
  hosts_match (hosts_reach cx_special_hist) (bs "*") [] = Some (false, []) /\
  hosts_match (hosts_reach cx_special_hist) [] [] = Some (false, []) /\
  resolve (hist_ic cx_special_hist) (hosts_table cx_special_hist) (normalise_host (bs "*")) = [(bs "*", [])] /\
  resolve (hist_ic cx_special_hist) (hosts_table cx_special_hist) (normalise_host []) = [(bs "{any}", [(bs "any", [])])].
Proof. transfer cx_special_facts. Qed.

Lemma hosts_delete_frame_r : forall hist d host,
  regs_first hist = true -> hosts_tokens hist = true ->
  let t := hosts_reach hist in
  let t' := hosts_reach (hist ++ [HDel d]) in
  (forall dom ps, hosts_answer t host = Some (dom, ps) -> dom <> to_lower d ->
     hosts_answer t' host = Some (dom, ps) /\ hosts_match t' host [] = Some (true, ps)) /\
  (forall ps, hosts_match t host [] = Some (false, ps) -> hosts_match t' host [] = Some (false, ps)).
Proof. transfer hosts_delete_frame. Qed.

Lemma hosts_sound_match_r : forall hist host ps,
  regs_first hist = true -> hosts_tokens hist = true ->
  hosts_match (hosts_reach hist) host [] = Some (true, ps) ->
  exists dom, In dom (hosts_domains hist) /\
  exists chain n, chain_to (troot (hosts_reach hist)) chain n /\ npat n = dom /\
    dom = concat (map (fun cv => sval (nseg (fst cv))) chain) /\
    normalise_host host = wpath chain /\ ps = wparams chain [] /\ Forall value_ok chain.
Proof. transfer hosts_sound_match. Qed.

Lemma hosts_live_served_r : forall hist chain n host,
  regs_first hist = true -> hosts_tokens hist = true ->
  let t := hosts_reach hist in
  chain_to (troot t) chain n -> In (npat n) (hosts_domains hist) -> simple t chain ->
  normalise_host host = wpath chain -> wpath chain <> bs "*" ->
  exists dom ps, hosts_answer t host = Some (dom, ps) /\ hosts_match t host [] = Some (true, ps) /\
                 In dom (hosts_domains hist).
Proof. transfer hosts_live_served. Qed.

Lemma hosts_live_served_exact_r : forall hist chain n host,
  regs_first hist = true -> hosts_tokens hist = true ->
  let t := hosts_reach hist in
  chain_to (troot t) chain n -> In (npat n) (hosts_domains hist) -> simple t chain -> first_at (troot t) chain ->
  normalise_host host = wpath chain -> wpath chain <> bs "*" ->
  hosts_answer t host = Some (npat n, wparams chain []) /\
  hosts_match t host [] = Some (true, wparams chain []).
Proof. transfer hosts_live_served_exact. Qed.

Lemma hosts_literal_served_r : forall hist d n host,
  regs_first hist = true -> hosts_tokens hist = true ->
  let t := hosts_reach hist in
  desc (troot t) n -> npat n = d -> In d (hosts_domains hist) -> no_brace d -> d <> bs "*" ->
  no_empty_param n -> normalise_host host = d ->
  hosts_answer t host = Some (d, []) /\ hosts_match t host [] = Some (true, []).
Proof. transfer hosts_literal_served. Qed.

Lemma exr_either_may_win_r :
  map fst (resolve (hist_ic exr_adds) (hosts_table exr_adds) (bs "acme.eu.cloud.example.com")) =
    [bs "{sub}.example.com"; bs "{tenant}.{region:word}.cloud.example.com"] /\
  hosts_match (hosts_reach exr_adds) (bs "Acme.EU.cloud.example.com:8443") [] =
    Some (true, [(bs "sub", bs "acme.eu.cloud")]).
Proof. transfer exr_either_may_win. Qed.

Lemma exr_frame_r : forall host dom ps,
  hosts_answer (hosts_reach exr_adds) host = Some (dom, ps) -> dom <> bs "www.example.com" ->
  hosts_match (hosts_reach exr_hist) host [] = Some (true, ps).
Proof. transfer exr_frame. Qed.

Lemma exr_served_r :
  hosts_match (hosts_reach exr_hist) (bs "ZZ.Example.com:8080") [] = Some (true, [(bs "sub", bs "zz")]) /\
  (exists dom ps, hosts_answer (hosts_reach exr_hist) (bs "qq.zz.cloud.example.com") = Some (dom, ps) /\
                  In dom (hosts_domains exr_hist)) /\
  hosts_match (hosts_reach exr_hist) (bs "API.example.com") [] = Some (true, []).
Proof. transfer exr_served. Qed.

(* ================================================================ the context stays a map *)

Lemma seg_match_nodup : forall seg path ps rest ps',
  seg_match seg path ps = Some (rest, ps') -> ctx_nodup ps -> ctx_nodup ps'.
Proof.
  intros seg path ps rest ps' H Hn. unfold seg_match in H.
  assert (S : forall v, ctx_nodup (if signore seg then ps else ctx_set ps (sname seg) v)).
  { intro v. destruct (signore seg); [exact Hn|]. unfold ctx_nodup, ctx_set. apply (nodup_aset ps _ _ Hn). }
  destruct (styp seg).
  all: repeat match type of H with
       | (if ?c then _ else _) = _ => destruct c
       | match ?c with _ => _ end = _ => destruct c as [[? ?]|]
       end; try discriminate; inversion H; subst; auto.
Qed.

Lemma ctx_delete_nodup : forall ps k, ctx_nodup ps -> ctx_nodup (ctx_delete ps k).
Proof. intros ps k H. unfold ctx_nodup, ctx_delete. apply (nodup_adelete ps k H). Qed.

Definition mres_nodup (r : Tree.mres) : Prop :=
  match r with MFound _ ps' => ctx_nodup ps' | MNone ps' => ctx_nodup ps' | MPanic _ => True end.

Lemma match_children_nodup : forall fuel n path ps, ctx_nodup ps -> mres_nodup (match_children fuel n path ps).
Proof.
  induction fuel as [|f IH]; intros n path ps Hn; [exact I|].
  assert (Hloop : forall l psc, ctx_nodup psc -> mres_nodup (mc_loop f n path l psc)).
  { induction l as [|ch l IHl]; intros psc Hc; cbn [mc_loop].
    - destruct path; [destruct (Nat.ltb 0 (nsize n))|]; exact Hc.
    - destruct (seg_match (nseg ch) path psc) as [[path' ps1]|] eqn:E; [|now apply IHl].
      pose proof (IH ch path' ps1 (seg_match_nodup _ _ _ _ _ E Hc)) as X.
      destruct (match_children f ch path' ps1) as [r ps2|ps2|s]; [exact X| |exact I].
      apply IHl. now apply ctx_delete_nodup. }
  rewrite match_children_S. cbv zeta.
  destruct (nindexes n) as [|i0 is]; [now apply Hloop|].
  destruct path as [|b path]; [now apply Hloop|].
  destruct (nth_error (nchildren n) (idx_get b (i0 :: is))) as [ch|]; [|exact I].
  destruct (seg_match (nseg ch) (b :: path) ps) as [[path' ps1]|] eqn:E; [|now apply Hloop].
  pose proof (IH ch path' ps1 (seg_match_nodup _ _ _ _ _ E Hn)) as X.
  destruct (match_children f ch path' ps1) as [r ps2|ps2|s]; [exact X| |exact I].
  now apply Hloop.
Qed.

Lemma hosts_match_raw_nodup : forall t host ps ok ps', ctx_nodup ps ->
  hosts_match_raw t host ps = Some (ok, ps') -> ctx_nodup ps'.
Proof.
  intros t host ps ok ps' Hn H. unfold hosts_match_raw, tree_handler in H.
  pose proof (match_children_nodup (tree_fuel t) (troot t) (normalise_host host) ps Hn) as X.
  destruct (ttrace t) as [h|]; [destruct (beqb GET TRACE)|].
  1: { inversion H; now subst. }
  all: destruct (beqb (normalise_host host) (bs "*") || beqb (normalise_host host) []);
    [|destruct (match_children (tree_fuel t) (troot t) (normalise_host host) ps) as [r ps2|ps2|s]];
    cbn [mres_nodup] in X;
    repeat match type of H with
       | match (if ?c then _ else _) with _ => _ end = _ => destruct c
       | match (match ?c with _ => _ end) with _ => _ end = _ => destruct c
       end; try discriminate; inversion H; subst; auto.
Qed.

Lemma NoDup_app_disj : forall (a b : list bytes), NoDup a -> NoDup b ->
  (forall x, In x a -> ~ In x b) -> NoDup (a ++ b).
Proof.
  induction a as [|x a IH]; intros b Ha Hb Hd; [exact Hb|]. simpl.
  inversion Ha as [|y l Hx Hl]. subst. constructor.
  - intro I. apply in_app_or in I. destruct I as [I|I]; [exact (Hx I)|]. exact (Hd x (or_introl eq_refl) I).
  - apply IH; [exact Hl | exact Hb | intros z Iz; apply Hd; now right].
Qed.

Lemma restore_missing_nodup : forall ps ps', ctx_nodup ps -> ctx_nodup ps' -> ctx_nodup (restore_missing ps ps').
Proof.
  intros ps ps' Hn Hn'. unfold ctx_nodup, restore_missing. rewrite map_app, map_map. cbn [fst].
  apply NoDup_app_disj.
  - exact Hn.
  - clear Hn. induction ps' as [|[k v] ps' IH]; [constructor|]. cbn [filter fst].
    inversion Hn' as [|y l Hx Hl]. subst.
    destruct (negb (ctx_exists ps k)); [|now apply IH].
    cbn [map fst]. constructor; [|now apply IH].
    intro I. apply Hx. apply in_map_iff in I. destruct I as [[k1 v1] [E I]]. cbn in E. subst k1.
    apply filter_In in I. apply in_map_iff. exists (k, v1). split; [reflexivity | tauto].
  - intros x Ix I. apply in_map_iff in I. destruct I as [[k1 v1] [E I]]. cbn in E. subst k1.
    apply filter_In in I. destruct I as [_ I]. cbn [fst] in I. unfold ctx_exists, ctx_get in I.
    destruct (alookup x ps) eqn:E; [discriminate|]. apply alookup_None in E. exact (E Ix).
Qed.

(* on ANY tree: Hosts.Match keeps the context a map *)
Theorem hosts_nodup_any : forall t host ps ok ps', ctx_nodup ps ->
  hosts_match t host ps = Some (ok, ps') -> ctx_nodup ps'.
Proof.
  intros t host ps ok ps' Hn H. apply hosts_match_some in H. destruct H as [ps1 [H ->]].
  apply restore_missing_nodup; [exact Hn|]. exact (hosts_match_raw_nodup _ _ _ _ _ Hn H).
Qed.

Theorem hosts_nodup : forall hist host ps ok ps', ctx_nodup ps ->
  hosts_match (hosts_reach hist) host ps = Some (ok, ps') -> ctx_nodup ps'.
Proof. intros hist. apply hosts_nodup_any. Qed.

(* ================================================================ the hypothesis of Proofs/Group.v is satisfiable *)
Theorem hosts_reach_matcher_ok : forall hist, matcher_ok (MHosts (hosts_reach hist)).
Proof.
  intro hist. cbn [matcher_ok]. split.
  - intros host ps ps' Hn H. exact (hosts_reject_clean hist host ps ps' Hn H).
  - intros host ps ok ps' Hn H. exact (hosts_nodup hist host ps ok ps' Hn H).
Qed.

(* the restore step is necessary: the tree lookup alone loses parameters on reachable trees *)
Theorem hosts_lookup_alone_loses_refuted :
  ~ (forall hist host ps ps', disjoint_from (hosts_reach hist) ps ->
       hosts_match_raw (hosts_reach hist) host ps = Some (false, ps') -> ps' = ps) /\
  ~ (forall hist host ps ps', hosts_match_raw (hosts_reach hist) host ps = Some (false, ps') -> ps' = ps).
Proof. split; [exact hosts_reject_clean_refuted | exact hosts_clean_unconditional_refuted]. Qed.

(* the two counterexamples to the raw lookup, after the restore step *)
Example cx_hosts_result_restored :
  hosts_match (hosts_reach cx_hosts_hist) (bs "ad") [([], bs "v")] = Some (false, [([], bs "v")]).
Proof. vm_compute. reflexivity. Qed.
Example cx_hosts_unconditional_restored :
  hosts_match ex_hosts (bs "x.example.com.cn") [(bs "sub", bs "keep")] = Some (false, [(bs "sub", bs "keep")]).
Proof. vm_compute. reflexivity. Qed.
