(* Totality (absence of runtime faults) of the pattern parser: new_segment, split_string,
   split_pieces, split, url_segs, url_nonstrict, mux_url, check_syntax, seg_split and the
   bounds of longest_prefix.

   FINDING recorded here: [new_segment] (Go: Interceptors.NewSegment) DOES fault on some byte
   strings - exactly those in which the first ':' stands before the first '{' and the first '}'
   comes at least two bytes after that '{' (e.g. ":{a}": slice val[2:0]).  [split] never hands
   such a string to new_segment (every piece it produces either has no '{', or no '}', or starts
   with '{'), so split / check_syntax / url are fault free for ALL byte strings. *)
From Coq Require Import String.
From Mux Require Import Model.Bytes Model.Regex Model.Context Model.Syntax Model.Router.
From Mux Require Import Proofs.BytesFacts.
Local Open Scope nat_scope.

(* ---------- "never Panic" as a predicate on results ---------- *)

Definition np {T} (r : res T) : Prop := forall s, r <> Panic s.

Lemma np_ok : forall T (x : T), np (Ok x).
Proof. intros T x s H. discriminate H. Qed.
Lemma np_err : forall T e, np (@Err T e).
Proof. intros T e s H. discriminate H. Qed.
Lemma np_unsup : forall T, np (@Unsup T).
Proof. intros T s H. discriminate H. Qed.

Lemma np_bind : forall A B (r : res A) (f : A -> res B),
  np r -> (forall x, r = Ok x -> np (f x)) -> np (bind r f).
Proof.
  intros A B r f Hr Hf. destruct r as [x|e|s|]; simpl.
  - apply Hf. reflexivity.
  - apply np_err.
  - exfalso. apply (Hr s). reflexivity.
  - apply np_unsup.
Qed.

(* ---------- index_byte ---------- *)

Lemma index_byte_lt : forall s c i, index_byte s c = Some i -> i < length s.
Proof.
  induction s as [|x s IH]; intros c i H; simpl in H; [discriminate|].
  destruct (N.eqb x c).
  - inversion H; subst. simpl. lia.
  - destruct (index_byte s c) as [j|] eqn:E; [|discriminate].
    inversion H; subst. simpl. apply IH in E. lia.
Qed.

Lemma index_byte_nth : forall s c i, index_byte s c = Some i -> nth_error s i = Some c.
Proof.
  induction s as [|x s IH]; intros c i H; simpl in H; [discriminate|].
  destruct (N.eqb x c) eqn:Exc.
  - inversion H; subst. apply N.eqb_eq in Exc. subst. reflexivity.
  - destruct (index_byte s c) as [j|] eqn:E; [|discriminate].
    inversion H; subst. simpl. apply IH. exact E.
Qed.

Lemma index_byte_neq : forall s a b i j, a <> b ->
  index_byte s a = Some i -> index_byte s b = Some j -> i <> j.
Proof.
  intros s a b i j Hab Hi Hj Heq. subst j.
  apply index_byte_nth in Hi. apply index_byte_nth in Hj. congruence.
Qed.

Lemma index_byte_firstn_none : forall s c i,
  index_byte s c = Some i -> index_byte (firstn i s) c = None.
Proof.
  induction s as [|x s IH]; intros c i H; simpl in H; [discriminate|].
  destruct (N.eqb x c) eqn:Exc.
  - inversion H; subst. reflexivity.
  - destruct (index_byte s c) as [j|] eqn:E; [|discriminate].
    inversion H; subst. simpl. rewrite Exc. rewrite (IH c j E). reflexivity.
Qed.

Lemma index_byte_skipn_zero : forall s c i,
  index_byte s c = Some i -> index_byte (skipn i s) c = Some 0.
Proof.
  induction s as [|x s IH]; intros c i H; simpl in H; [discriminate|].
  destruct (N.eqb x c) eqn:Exc.
  - inversion H; subst. simpl. rewrite Exc. reflexivity.
  - destruct (index_byte s c) as [j|] eqn:E; [|discriminate].
    inversion H; subst. simpl. apply IH. exact E.
Qed.

Lemma index_byte_zero_firstn : forall s c k,
  index_byte s c = Some 0 -> index_byte (firstn (S k) s) c = Some 0.
Proof.
  intros s c k H. destruct s as [|x s]; simpl in H; [discriminate|].
  simpl. destruct (N.eqb x c); [reflexivity|].
  destruct (index_byte s c); discriminate.
Qed.

Lemma index_byte_some_nonempty : forall s c i, index_byte s c = Some i -> s <> [].
Proof. intros s c i H E. subst s. discriminate H. Qed.

(* ---------- slices ---------- *)

Lemma slice_ok : forall site s lo hi, lo <= hi -> hi <= length s ->
  slice_or_panic site s lo hi = Ok (firstn (hi - lo) (skipn lo s)).
Proof.
  intros site s lo hi H1 H2. unfold slice_or_panic, gslice.
  rewrite (proj2 (Nat.leb_le lo hi) H1). rewrite (proj2 (Nat.leb_le hi (length s)) H2).
  reflexivity.
Qed.

Lemma slice_inv : forall site s lo hi x, slice_or_panic site s lo hi = Ok x ->
  x = firstn (hi - lo) (skipn lo s) /\ lo <= hi /\ hi <= length s.
Proof.
  intros site s lo hi x. unfold slice_or_panic, gslice.
  destruct (Nat.leb lo hi) eqn:E1; destruct (Nat.leb hi (length s)) eqn:E2; simpl; intro H;
    try discriminate H.
  inversion H. apply Nat.leb_le in E1. apply Nat.leb_le in E2. auto.
Qed.

Lemma slice_len : forall site s lo hi x, slice_or_panic site s lo hi = Ok x -> length x = hi - lo.
Proof.
  intros site s lo hi x H. apply slice_inv in H. destruct H as [Hx [H1 H2]]. subst x.
  rewrite firstn_length, skipn_length. lia.
Qed.

Lemma slice_panics : forall site s lo hi, hi < lo -> slice_or_panic site s lo hi = Panic (bs site).
Proof.
  intros site s lo hi H. unfold slice_or_panic, gslice.
  rewrite (proj2 (Nat.leb_gt lo hi) H). reflexivity.
Qed.

Lemma gslice_some_iff : forall s lo hi,
  (exists x, gslice s lo hi = Some x) <-> lo <= hi /\ hi <= length s.
Proof.
  intros s lo hi. unfold gslice. split.
  - intros [x H]. destruct (Nat.leb lo hi) eqn:E1; destruct (Nat.leb hi (length s)) eqn:E2;
      simpl in H; try discriminate H.
    apply Nat.leb_le in E1. apply Nat.leb_le in E2. auto.
  - intros [H1 H2]. rewrite (proj2 (Nat.leb_le lo hi) H1).
    rewrite (proj2 (Nat.leb_le hi (length s)) H2). eexists. reflexivity.
Qed.

(* ---------- clean_name ---------- *)

Lemma clean_name_cases : forall name, name <> [] ->
  clean_name name = Ok (true, tl name) \/ clean_name name = Ok (false, name).
Proof.
  intros name Hne. destruct name as [|c n]; [congruence|]. unfold clean_name. simpl tl.
  destruct c as [|p]; [right; reflexivity|].
  destruct p as [p|p|]; try (right; reflexivity).
  destruct p as [p|p|]; try (right; reflexivity).
  destruct p as [p|p|]; try (right; reflexivity).
  destruct p as [p|p|]; try (right; reflexivity).
  destruct p as [p|p|]; try (right; reflexivity).
  destruct p as [p|p|]; try (right; reflexivity).
  left. reflexivity.
Qed.

Lemma clean_name_np : forall name, 0 < length name -> np (clean_name name).
Proof.
  intros name Hl. assert (Hne : name <> []) by (intro E; subst name; simpl in Hl; lia).
  destruct (clean_name_cases name Hne) as [E|E]; rewrite E; apply np_ok.
Qed.

Lemma clean_name_panics : forall name, (exists s, clean_name name = Panic s) <-> name = [].
Proof.
  intros name. split.
  - intros [s H]. destruct name as [|c n]; [reflexivity|].
    assert (Hne : c :: n <> []) by discriminate.
    destruct (clean_name_cases _ Hne) as [E|E]; rewrite E in H; discriminate H.
  - intros ->. eexists. reflexivity.
Qed.

(* ---------- new_segment ---------- *)

(* the first ':' is before the first '{', and the first '}' is at least two bytes after it *)
Definition colon_before_brace (val : bytes) : Prop :=
  exists st e sp, index_byte val 123 = Some st /\ index_byte val 125 = Some e /\
                  index_byte val 58 = Some sp /\ sp < st /\ S st < e.

Lemma colon_before_brace_dec : forall val, {colon_before_brace val} + {~ colon_before_brace val}.
Proof.
  intros val. unfold colon_before_brace.
  destruct (index_byte val 123) as [st|] eqn:Est;
    [|right; intros [st' [e' [sp' [H _]]]]; discriminate H].
  destruct (index_byte val 125) as [e|] eqn:Ee;
    [|right; intros [st' [e' [sp' [_ [H _]]]]]; discriminate H].
  destruct (index_byte val 58) as [sp|] eqn:Esp;
    [|right; intros [st' [e' [sp' [_ [_ [H _]]]]]]; discriminate H].
  destruct (lt_dec sp st) as [L1|L1].
  - destruct (lt_dec (S st) e) as [L2|L2].
    + left. exists st, e, sp. auto.
    + right. intros [st' [e' [sp' [H1 [H2 [H3 [H4 H5]]]]]]].
      inversion H1; inversion H2; subst. contradiction.
  - right. intros [st' [e' [sp' [H1 [H2 [H3 [H4 H5]]]]]]].
    inversion H1; inversion H3; subst. contradiction.
Qed.

Lemma new_segment_np : forall ic val, ~ colon_before_brace val -> np (new_segment ic val).
Proof.
  intros ic val Hc. unfold new_segment.
  destruct (N.ltb max_int16 (N.of_nat (length val))); [apply np_err|].
  destruct (index_byte val 123) as [st|] eqn:Est; [|apply np_ok].
  destruct (index_byte val 125) as [e|] eqn:Ee; [|apply np_ok].
  pose proof (index_byte_lt _ _ _ Est) as Lst. pose proof (index_byte_lt _ _ _ Ee) as Le.
  assert (Nse : st <> e) by (apply (index_byte_neq val 123%N 125%N); [discriminate|exact Est|exact Ee]).
  cbv zeta.
  destruct (index_byte val 58) as [sp|] eqn:Esp.
  - pose proof (index_byte_lt _ _ _ Esp) as Lsp.
    assert (Nsp_e : sp <> e) by (apply (index_byte_neq val 58%N 125%N); [discriminate|exact Esp|exact Ee]).
    assert (Nsp_st : sp <> st) by (apply (index_byte_neq val 58%N 123%N); [discriminate|exact Esp|exact Est]).
    destruct (Nat.ltb e st || Nat.eqb (S st) e || (Nat.ltb 0 sp && Nat.eqb (S st) sp)) eqn:G;
      [apply np_err|].
    apply orb_false_iff in G. destruct G as [G G3]. apply orb_false_iff in G. destruct G as [G1 G2].
    apply Nat.ltb_ge in G1. apply Nat.eqb_neq in G2.
    assert (G3' : sp = 0 \/ S st <> sp).
    { apply andb_false_iff in G3. destruct G3 as [G3|G3].
      - apply Nat.ltb_ge in G3. left. lia.
      - apply Nat.eqb_neq in G3. right. exact G3. }
    destruct (Nat.eqb (S sp) e || Nat.ltb e sp) eqn:Nm.
    + (* named *)
      assert (Nm' : S sp = e \/ e < sp).
      { apply orb_true_iff in Nm. destruct Nm as [Nm|Nm].
        - apply Nat.eqb_eq in Nm. left. exact Nm.
        - apply Nat.ltb_lt in Nm. right. exact Nm. }
      apply np_bind; [rewrite slice_ok by lia; apply np_ok|]. intros name0 H0.
      apply slice_len in H0.
      apply np_bind.
      { destruct (Nat.ltb sp e) eqn:L; [|apply np_ok].
        apply Nat.ltb_lt in L. rewrite slice_ok by lia. apply np_ok. }
      intros name1 H1.
      assert (Hn1 : 0 < length name1).
      { destruct (Nat.ltb sp e) eqn:L.
        - apply Nat.ltb_lt in L. apply slice_len in H1. lia.
        - inversion H1; subst. lia. }
      apply np_bind; [rewrite slice_ok by lia; apply np_ok|]. intros suffix Hs.
      apply np_bind; [apply clean_name_np; exact Hn1|]. intros [ign name] Hx. apply np_ok.
    + (* interceptor / regexp *)
      apply orb_false_iff in Nm. destruct Nm as [Nm1 Nm2].
      apply Nat.eqb_neq in Nm1. apply Nat.ltb_ge in Nm2.
      assert (Hst_sp : st < sp).
      { destruct (lt_dec sp st) as [L|L]; [|lia].
        exfalso. apply Hc. exists st, e, sp. repeat split; try assumption. lia. }
      apply np_bind; [rewrite slice_ok by lia; apply np_ok|]. intros rule Hr.
      apply np_bind; [rewrite slice_ok by lia; apply np_ok|]. intros name1 H1.
      apply slice_len in H1.
      apply np_bind; [apply clean_name_np; lia|]. intros [ign name] Hx.
      apply np_bind; [rewrite slice_ok by lia; apply np_ok|]. intros suffix Hs.
      destruct (alookup rule ic) as [f|]; [apply np_ok|].
      destruct (negb ign && negb (match name with [] => false | _ :: _ =>
                  forallb (fun c => is_word c || N.eqb c 95) name end)); [apply np_err|].
      destruct (re_parse rule); [apply np_ok|apply np_err|apply np_unsup].
  - destruct (Nat.ltb e st || Nat.eqb (S st) e || false) eqn:G; [apply np_err|].
    apply orb_false_iff in G. destruct G as [G _]. apply orb_false_iff in G. destruct G as [G1 G2].
    apply Nat.ltb_ge in G1. apply Nat.eqb_neq in G2.
    apply np_bind; [rewrite slice_ok by lia; apply np_ok|]. intros name0 H0.
    apply slice_len in H0.
    apply np_bind; [apply np_ok|]. intros name1 H1. inversion H1; subst name1.
    apply np_bind; [rewrite slice_ok by lia; apply np_ok|]. intros suffix Hs.
    apply np_bind; [apply clean_name_np; lia|]. intros [ign name] Hx. apply np_ok.
Qed.

(* the hypothesis is the weakest possible one: on every string of admissible length that
   satisfies colon_before_brace, new_segment faults (at the slice val[start+1:separator]) *)
Lemma new_segment_panics : forall ic val, (N.of_nat (length val) <= max_int16)%N ->
  colon_before_brace val ->
  new_segment ic val = Panic (bs "NewSegment:rname").
Proof.
  intros ic val Hlen [st [e [sp [Est [Ee [Esp [L1 L2]]]]]]].
  pose proof (index_byte_lt _ _ _ Ee) as Le.
  unfold new_segment.
  assert (Hl : N.ltb max_int16 (N.of_nat (length val)) = false)
    by (apply N.ltb_ge; exact Hlen).
  rewrite Hl, Est, Ee. cbv zeta. rewrite Esp.
  assert (B1 : Nat.ltb e st = false) by (apply Nat.ltb_ge; lia).
  assert (B2 : Nat.eqb (S st) e = false) by (apply Nat.eqb_neq; lia).
  assert (B3 : Nat.eqb (S st) sp = false) by (apply Nat.eqb_neq; lia).
  assert (B4 : Nat.eqb (S sp) e = false) by (apply Nat.eqb_neq; lia).
  assert (B5 : Nat.ltb e sp = false) by (apply Nat.ltb_ge; lia).
  rewrite B1, B2, B3, B4, B5. rewrite andb_false_r. cbv [orb].
  rewrite (slice_ok _ val (S sp) e) by lia.
  rewrite (slice_panics _ val (S st) sp) by lia.
  reflexivity.
Qed.

Lemma new_segment_panic_iff : forall ic val,
  (exists s, new_segment ic val = Panic s) <->
  (N.of_nat (length val) <= max_int16)%N /\ colon_before_brace val.
Proof.
  intros ic val. split.
  - intros [s H]. split.
    + unfold new_segment in H.
      destruct (N.ltb max_int16 (N.of_nat (length val))) eqn:Hl; [discriminate H|].
      apply N.ltb_ge. exact Hl.
    + destruct (colon_before_brace_dec val) as [C|C]; [exact C|].
      exfalso. exact (new_segment_np ic val C s H).
  - intros [Hl C]. eexists. apply new_segment_panics; assumption.
Qed.

Lemma new_segment_panic_refuted : exists ic val s, new_segment ic val = Panic s.
Proof. exists [], (bs ":{a}"), (bs "NewSegment:rname"). vm_compute. reflexivity. Qed.

Lemma new_segment_no_panic_is_false : ~ (forall ic val s, new_segment ic val <> Panic s).
Proof.
  intros H. apply (H [] (bs ":{a}") (bs "NewSegment:rname")). vm_compute. reflexivity.
Qed.

Lemma new_segment_no_panic_partial : forall ic val s,
  ~ colon_before_brace val -> new_segment ic val <> Panic s.
Proof. intros ic val s H. apply new_segment_np. exact H. Qed.

Lemma colon_before_brace_def : forall val,
  colon_before_brace val <->
  exists st e sp, index_byte val 123 = Some st /\ index_byte val 125 = Some e /\
                  index_byte val 58 = Some sp /\ sp < st /\ S st < e.
Proof. intros val. reflexivity. Qed.

(* handy sufficient conditions *)
Lemma brace_first_not_cbb : forall val, index_byte val 123 = Some 0 -> ~ colon_before_brace val.
Proof.
  intros val H [st [e [sp [H1 [_ [_ [L _]]]]]]]. rewrite H in H1. inversion H1; subst. lia.
Qed.
Lemma no_open_not_cbb : forall val, index_byte val 123 = None -> ~ colon_before_brace val.
Proof. intros val H [st [e [sp [H1 _]]]]. rewrite H in H1. discriminate H1. Qed.
Lemma no_close_not_cbb : forall val, index_byte val 125 = None -> ~ colon_before_brace val.
Proof. intros val H [st [e [sp [_ [H1 _]]]]]. rewrite H in H1. discriminate H1. Qed.
Lemma no_colon_not_cbb : forall val, index_byte val 58 = None -> ~ colon_before_brace val.
Proof. intros val H [st [e [sp [_ [_ [H1 _]]]]]]. rewrite H in H1. discriminate H1. Qed.

Lemma new_segment_brace_first_no_panic : forall ic val s,
  index_byte val 123 = Some 0 -> new_segment ic val <> Panic s.
Proof. intros ic val s H. apply new_segment_no_panic_partial. apply brace_first_not_cbb. exact H. Qed.

(* ---------- split_string ---------- *)

Lemma skipn_add : forall (l : bytes) x y, skipn x (skipn y l) = skipn (x + y) l.
Proof.
  intros l x y. revert l. induction y as [|y IH]; intros l.
  - rewrite Nat.add_0_r. reflexivity.
  - destruct l as [|c l].
    + rewrite !skipn_nil. reflexivity.
    + rewrite Nat.add_succ_r. simpl. apply IH.
Qed.

Definition good_piece (p : bytes) : Prop :=
  p <> [] /\ (index_byte p 123 = None \/ index_byte p 125 = None \/ index_byte p 123 = Some 0).

Lemma good_piece_not_cbb : forall p, good_piece p -> ~ colon_before_brace p.
Proof.
  intros p [_ [H|[H|H]]].
  - apply no_open_not_cbb. exact H.
  - apply no_close_not_cbb. exact H.
  - apply brace_first_not_cbb. exact H.
Qed.

Lemma Forall_rev_cons : forall (P : bytes -> Prop) x acc,
  P x -> Forall P acc -> Forall P (rev (x :: acc)).
Proof. intros P x acc Hx Ha. apply Forall_rev. constructor; assumption. Qed.

Lemma split_string_loop_good : forall fuel str end_ acc,
  Forall good_piece acc -> str <> [] ->
  (index_byte str 123 = Some 0 \/ (end_ = 0 /\ 1 <= fuel)) ->
  Forall good_piece (split_string_loop fuel str end_ acc).
Proof.
  induction fuel as [|f IH]; intros str end_ acc Hacc Hne Hinv.
  - simpl. apply Forall_rev_cons; [|exact Hacc].
    destruct Hinv as [H|[_ H]]; [|lia]. split; [exact Hne|]. right. right. exact H.
  - cbn [split_string_loop].
    destruct (index_byte (skipn end_ str) 123) as [start|] eqn:Es.
    2:{ apply Forall_rev_cons; [|exact Hacc]. split; [exact Hne|].
        destruct Hinv as [H|[H _]].
        - right. right. exact H.
        - subst end_. simpl in Es. left. exact Es. }
    destruct (Nat.ltb 0 start) eqn:Lt.
    + apply Nat.ltb_lt in Lt.
      assert (Hstr' : index_byte (skipn (start + end_) str) 123 = Some 0).
      { rewrite <- skipn_add. apply index_byte_skipn_zero. exact Es. }
      assert (Hne' : skipn (start + end_) str <> []) by (eapply index_byte_some_nonempty; exact Hstr').
      assert (Hpiece : good_piece (firstn (start + end_) str)).
      { split.
        - destruct str as [|c str]; [congruence|].
          destruct (start + end_) as [|k] eqn:Ek; [lia|]. simpl. discriminate.
        - destruct Hinv as [H|[H _]].
          + right. right. destruct (start + end_) as [|k] eqn:Ek; [lia|].
            apply index_byte_zero_firstn. exact H.
          + subst end_. simpl in Es. rewrite Nat.add_0_r. left.
            apply index_byte_firstn_none. exact Es. }
      destruct (index_byte (skipn (start + end_) str) 125) as [e|] eqn:Ee.
      * apply IH; [constructor; assumption|exact Hne'|left; exact Hstr'].
      * apply Forall_rev_cons; [|constructor; assumption].
        split; [exact Hne'|]. right. left. exact Ee.
    + apply Nat.ltb_ge in Lt. assert (start = 0) by lia. subst start.
      assert (Hstr0 : index_byte str 123 = Some 0).
      { destruct Hinv as [H|[H _]]; [exact H|]. subst end_. simpl in Es. exact Es. }
      destruct (index_byte str 125) as [e|] eqn:Ee.
      * apply IH; [exact Hacc|exact Hne|left; exact Hstr0].
      * apply Forall_rev_cons; [|exact Hacc]. split; [exact Hne|]. right. left. exact Ee.
Qed.

Lemma split_string_good : forall str, str <> [] -> Forall good_piece (split_string str).
Proof.
  intros str Hne. unfold split_string. apply split_string_loop_good.
  - constructor.
  - exact Hne.
  - right. split; [reflexivity|lia].
Qed.

Lemma split_string_nonempty_pieces : forall str, str <> [] -> Forall (fun p => p <> []) (split_string str).
Proof.
  intros str Hne. eapply Forall_impl; [|apply split_string_good; exact Hne].
  intros p [H _]. exact H.
Qed.

(* ---------- split_pieces / split ---------- *)

Lemma split_pieces_np : forall ic ss last_flag names,
  Forall good_piece ss -> np (split_pieces ic ss last_flag names).
Proof.
  intros ic ss. induction ss as [|p ss IH]; intros last_flag names Hg.
  - simpl. apply np_ok.
  - inversion Hg as [|p' ss' Hp Hss]; subst.
    cbn [split_pieces]. destruct p as [|c0 p]; [destruct Hp as [Hp _]; congruence|].
    cbn [first_byte].
    destruct (last_flag && N.eqb c0 123); [apply np_err|].
    apply np_bind; [apply new_segment_np; apply good_piece_not_cbb; exact Hp|].
    intros seg Hseg.
    destruct (negb (stype_eqb (styp seg) TString) && mem (sname seg) names); [apply np_err|].
    apply np_bind; [apply IH; exact Hss|]. intros rest Hrest. apply np_ok.
Qed.

Lemma split_np : forall ic str, np (split ic str).
Proof.
  intros ic str. unfold split. destruct str as [|c str]; [apply np_err|].
  apply split_pieces_np. apply split_string_good. discriminate.
Qed.

Lemma split_no_panic : forall ic str s, split ic str <> Panic s.
Proof. intros ic str s. apply split_np. Qed.

Lemma split_err_or_ok : forall ic str,
  (exists segs, split ic str = Ok segs) \/ (exists e, split ic str = Err e) \/ split ic str = Unsup.
Proof.
  intros ic str. pose proof (split_np ic str) as H.
  destruct (split ic str) as [segs|e|s|].
  - left. exists segs. reflexivity.
  - right. left. exists e. reflexivity.
  - exfalso. apply (H s). reflexivity.
  - right. right. reflexivity.
Qed.

Lemma check_syntax_no_panic : forall p s, check_syntax p <> Panic s.
Proof.
  intros p. change (np (check_syntax p)). unfold check_syntax.
  apply np_bind; [apply split_np|]. intros x Hx. apply np_ok.
Qed.

Lemma url_segs_np : forall segs ps, np (url_segs segs ps).
Proof.
  induction segs as [|seg segs IH]; intros ps; cbn [url_segs]; [apply np_ok|].
  destruct (styp seg).
  - apply np_bind; [apply IH|]. intros r Hr. apply np_ok.
  - destruct (ctx_get ps (sname seg)); [|apply np_err].
    apply np_bind; [apply IH|]. intros r Hr. apply np_ok.
  - destruct (ctx_get ps (sname seg)); [|apply np_err].
    apply np_bind; [apply IH|]. intros r Hr. apply np_ok.
  - destruct (ctx_get ps (sname seg)); [|apply np_err].
    apply np_bind; [apply IH|]. intros r Hr. apply np_ok.
Qed.

Lemma url_nonstrict_no_panic : forall p ps s, url_nonstrict p ps <> Panic s.
Proof.
  intros p ps. change (np (url_nonstrict p ps)). unfold url_nonstrict.
  destruct p as [|c p]; [apply np_ok|].
  apply np_bind; [apply split_np|]. intros segs Hsegs. apply url_segs_np.
Qed.

Lemma mux_url_no_panic : forall p ps s, mux_url p ps <> Panic s.
Proof.
  intros p ps s. unfold mux_url. destruct ps as [|x ps]; [discriminate|].
  apply url_nonstrict_no_panic.
Qed.

(* ---------- seg_split ---------- *)

Lemma seg_split_np : forall ic seg pos, pos <= length (sval seg) ->
  ~ colon_before_brace (firstn pos (sval seg)) ->
  ~ colon_before_brace (skipn pos (sval seg)) ->
  np (seg_split ic seg pos).
Proof.
  intros ic seg pos Hpos H1 H2. unfold seg_split.
  apply np_bind; [rewrite slice_ok by lia; apply np_ok|]. intros v1 Hv1.
  apply np_bind; [rewrite slice_ok by lia; apply np_ok|]. intros v2 Hv2.
  apply slice_inv in Hv1. destruct Hv1 as [Hv1 _].
  apply slice_inv in Hv2. destruct Hv2 as [Hv2 _].
  rewrite Nat.sub_0_r in Hv1. simpl skipn in Hv1.
  rewrite firstn_all2 in Hv2 by (rewrite skipn_length; lia).
  subst v1 v2.
  apply np_bind; [apply new_segment_np; exact H1|]. intros s1 Hs1.
  apply np_bind; [apply new_segment_np; exact H2|]. intros s2 Hs2.
  apply np_ok.
Qed.

Lemma seg_split_no_panic_partial : forall ic seg pos s, pos <= length (sval seg) ->
  ~ colon_before_brace (firstn pos (sval seg)) ->
  ~ colon_before_brace (skipn pos (sval seg)) ->
  seg_split ic seg pos <> Panic s.
Proof. intros ic seg pos s Hpos H1 H2. apply seg_split_np; assumption. Qed.

(* a segment without ':' (every Named or String segment written without a colon) can be split
   anywhere *)
Lemma index_byte_none_firstn : forall s c n, index_byte s c = None -> index_byte (firstn n s) c = None.
Proof.
  induction s as [|x s IH]; intros c n H; [destruct n; reflexivity|].
  destruct n as [|n]; [reflexivity|]. simpl in H. simpl.
  destruct (N.eqb x c); [discriminate H|].
  destruct (index_byte s c) eqn:E; [discriminate H|]. rewrite (IH c n E). reflexivity.
Qed.
Lemma index_byte_none_skipn : forall s c n, index_byte s c = None -> index_byte (skipn n s) c = None.
Proof.
  induction s as [|x s IH]; intros c n H; [destruct n; reflexivity|].
  destruct n as [|n]; [exact H|]. simpl in H. simpl.
  destruct (N.eqb x c); [discriminate H|].
  destruct (index_byte s c) eqn:E; [discriminate H|]. apply IH. exact E.
Qed.

Lemma seg_split_no_colon : forall ic seg pos s, pos <= length (sval seg) ->
  index_byte (sval seg) 58 = None -> seg_split ic seg pos <> Panic s.
Proof.
  intros ic seg pos s Hpos Hc. apply seg_split_np; [exact Hpos| |].
  - apply no_colon_not_cbb. apply index_byte_none_firstn. exact Hc.
  - apply no_colon_not_cbb. apply index_byte_none_skipn. exact Hc.
Qed.

Lemma seg_split_panic_refuted : exists ic seg pos s,
  pos <= length (sval seg) /\ seg_split ic seg pos = Panic s.
Proof.
  exists [], (string_seg (bs ":{a}")), 0, (bs "NewSegment:rname").
  split; [simpl; lia|]. vm_compute. reflexivity.
Qed.

Lemma seg_split_no_panic_is_false :
  ~ (forall ic seg pos s, pos <= length (sval seg) -> seg_split ic seg pos <> Panic s).
Proof.
  intros H. apply (H [] (string_seg (bs ":{a}")) 0 (bs "NewSegment:rname")).
  - simpl. lia.
  - vm_compute. reflexivity.
Qed.

(* ---------- longest_prefix ---------- *)

Lemma lp_loop_bounds : forall s1 s2 i st en b,
  (-10 <= st)%Z -> (st <= Z.of_nat i)%Z ->
  (-10 <= lp_loop s1 s2 i st en b)%Z /\
  (lp_loop s1 s2 i st en b <= Z.of_nat (i + Nat.min (length s1) (length s2)))%Z.
Proof.
  induction s1 as [|a s1 IH]; intros s2 i st en b H1 H2.
  - cbn [lp_loop length Nat.min]. destruct (Z.eqb en (Z.of_nat i - 1)); lia.
  - destruct s2 as [|c s2].
    + cbn [lp_loop length]. rewrite Nat.min_0_r. destruct (Z.eqb en (Z.of_nat i - 1)); lia.
    + cbn [lp_loop length]. rewrite <- Nat.succ_min_distr.
      destruct (negb (N.eqb a c)).
      * destruct (b || Z.eqb (en + 1) (Z.of_nat i)); lia.
      * destruct (N.eqb a 123).
        { pose proof (IH s2 (S i) (Z.of_nat i) en true) as P. lia. }
        destruct (N.eqb a 125).
        { pose proof (IH s2 (S i) st (Z.of_nat i) false) as P. lia. }
        pose proof (IH s2 (S i) st en b) as P. lia.
Qed.

Lemma longest_prefix_bounds : forall s1 s2,
  (-10 <= longest_prefix s1 s2)%Z /\
  (longest_prefix s1 s2 <= Z.of_nat (Nat.min (length s1) (length s2)))%Z.
Proof.
  intros s1 s2. unfold longest_prefix.
  pose proof (lp_loop_bounds s1 s2 0 (-10)%Z (-10)%Z false) as P. simpl Nat.add in P.
  apply P; lia.
Qed.

(* a positive result is a position inside both strings *)
Lemma longest_prefix_pos_in_range : forall s1 s2, (0 < longest_prefix s1 s2)%Z ->
  Z.to_nat (longest_prefix s1 s2) <= length s1 /\ Z.to_nat (longest_prefix s1 s2) <= length s2.
Proof.
  intros s1 s2 H. pose proof (longest_prefix_bounds s1 s2) as [_ P]. lia.
Qed.

(* ---------- views used by the examples in Props/C05parse.v ---------- *)

Definition seg_summary (r : res segment) : res (stype * bytes * bytes * bytes) :=
  do s <- r; Ok (styp s, sname s, srule s, ssuffix s).
Definition segs_values (r : res (list segment)) : res (list bytes) :=
  do l <- r; Ok (map sval l).
