(* C02 / C03 for LITERAL routes on every tree reachable by a history of patterns accepted by the
   specification's tokenizer ([hist_tokens], Proofs/TokensSplit.v):
   - Part 1: the literal children of every node start with pairwise different bytes
     (C02_lit_first_distinct_reachable); FALSE under the weaker guard [hist_wf]
     (lfd_hist_wf_refuted: "/x{a" and "/x{b" are two literal siblings starting with '{');
   - Part 2: the first-byte index of every node is exact (C02_idx_complete_reachable);
   - Part 3: a registered brace-free route is served by the node that spells it
     (C03_literal_route_served_partial), provided no parameter child of that node accepts the
     EMPTY rest: the statement without this proviso is false
     (C03_literal_route_served_refuted: with "/a" and "/a{id}" registered, GET "/a" is answered
     by "/a{id}" with id = "").  In general the request is never a 404
     (C03_literal_route_not_404).
   Theorems are re-exported by Props/C03lit.v. *)
From Coq Require Import String Permutation.
From Mux Require Import Model.Bytes Model.Regex Model.Context Model.Syntax Model.Tree
  Proofs.BytesFacts Proofs.MatchSound Proofs.TreeSafe Proofs.TreeOrder Proofs.MatchOrder.
From Mux Require Spec.Table Proofs.Misc1 Proofs.TreeText Proofs.TreeOnion Proofs.TreeNames Proofs.TokensSplit Proofs.TreeFind.

Local Open Scope nat_scope.

Notation NB := TokensSplit.NB.
Notation isparam := TreeNames.isparam.

(* ================================================================ Part A : brace-free text *)

Lemma In_firstn_In : forall (A : Type) n (l : list A) x, In x (firstn n l) -> In x l.
Proof.
  intros A n l x H. rewrite <- (firstn_skipn n l). apply in_or_app. now left.
Qed.

Lemma In_skipn_In : forall (A : Type) n (l : list A) x, In x (skipn n l) -> In x l.
Proof.
  intros A n l x H. rewrite <- (firstn_skipn n l). apply in_or_app. now right.
Qed.

Lemma NB_firstn : forall v n, NB v -> NB (firstn n v).
Proof. intros v n [H1 H2]. split; intro I; [apply H1 | apply H2]; exact (In_firstn_In _ _ _ _ I). Qed.

Lemma NB_skipn : forall v n, NB v -> NB (skipn n v).
Proof. intros v n [H1 H2]. split; intro I; [apply H1 | apply H2]; exact (In_skipn_In _ _ _ _ I). Qed.

Lemma NB_plain : forall v, NB v -> TreeNames.plain v.
Proof. intros v [H1 _]. left. now apply TreeNames.index_byte_notIn. Qed.

Lemma NB_app : forall a b, NB (a ++ b) -> NB a /\ NB b.
Proof.
  intros a b [H1 H2]. split; split; intro I.
  - apply H1. apply in_or_app. now left.
  - apply H2. apply in_or_app. now left.
  - apply H1. apply in_or_app. now right.
  - apply H2. apply in_or_app. now right.
Qed.

(* longest_prefix of brace-free text never reports a position before the current one *)
Lemma lp_loop_nb : forall s1 s2 i st, NB s1 ->
  (Z.of_nat i <= lp_loop s1 s2 i st (-10)%Z false)%Z.
Proof.
  induction s1 as [|a s1 IH]; intros s2 i st Hnb.
  - cbn [lp_loop]. destruct (Z.eqb_spec (-10)%Z (Z.of_nat i - 1)%Z) as [E|_]; lia.
  - destruct s2 as [|c s2].
    + cbn [lp_loop]. destruct (Z.eqb_spec (-10)%Z (Z.of_nat i - 1)%Z) as [E|_]; lia.
    + cbn [lp_loop]. destruct Hnb as [N3 N5].
      assert (Hnb' : NB s1) by (split; intro I; [apply N3 | apply N5]; now right).
      destruct (negb (N.eqb a c)).
      * cbn [orb]. destruct (Z.eqb_spec (-10 + 1)%Z (Z.of_nat i)) as [E|_]; lia.
      * destruct (N.eqb_spec a 123) as [E|_]; [elim N3; now left|].
        destruct (N.eqb_spec a 125) as [E|_]; [elim N5; now left|].
        specialize (IH s2 (S i) st Hnb'). lia.
Qed.

Lemma longest_prefix_nb_pos : forall b r1 r2, NB (b :: r1) -> (0 < longest_prefix (b :: r1) (b :: r2))%Z.
Proof.
  intros b r1 r2 [N3 N5]. unfold longest_prefix. cbn [lp_loop]. rewrite N.eqb_refl. cbn [negb].
  destruct (N.eqb_spec b 123) as [E|_]; [elim N3; now left|].
  destruct (N.eqb_spec b 125) as [E|_]; [elim N5; now left|].
  assert (Hnb : NB r1) by (split; intro I; [apply N3 | apply N5]; now right).
  pose proof (lp_loop_nb r1 r2 1 (-10)%Z Hnb). lia.
Qed.

(* ================================================================ Part B : first bytes of literal children *)

Definition hd1 (s : segment) : list N :=
  if isparam s then [] else match sval s with b :: _ => [b] | [] => [] end.
Definition heads (cs : list node) : list N := flat_map (fun x => hd1 (nseg x)) cs.

Lemma is_lit_isparam : forall x, is_lit x = negb (isparam (nseg x)).
Proof. intro x. unfold is_lit, TreeNames.isparam. now rewrite negb_involutive. Qed.

Lemma is_lit_true_param : forall x, is_lit x = true -> isparam (nseg x) = false.
Proof. intros x H. rewrite is_lit_isparam in H. now apply negb_true_iff in H. Qed.

Lemma hd1_lit : forall x b r, is_lit x = true -> sval (nseg x) = b :: r -> hd1 (nseg x) = [b].
Proof. intros x b r L S. unfold hd1. now rewrite (is_lit_true_param x L), S. Qed.

Lemma NoDup_hd1 : forall s, NoDup (hd1 s).
Proof.
  intro s. unfold hd1. destruct (isparam s); [constructor|].
  destruct (sval s); [constructor|]. constructor; [intros [] | constructor].
Qed.

Lemma heads_cons : forall x c, heads (x :: c) = hd1 (nseg x) ++ heads c.
Proof. reflexivity. Qed.

Lemma heads_app : forall a b, heads (a ++ b) = heads a ++ heads b.
Proof. intros a b. unfold heads. apply flat_map_app. Qed.

Lemma In_heads : forall cs b, In b (heads cs) ->
  exists x r, In x cs /\ is_lit x = true /\ sval (nseg x) = b :: r.
Proof.
  intros cs b H. unfold heads in H. apply in_flat_map in H. destruct H as [x [Ix Hb]].
  unfold hd1 in Hb. destruct (isparam (nseg x)) eqn:P; [destruct Hb|].
  destruct (sval (nseg x)) as [|b0 r] eqn:S; [destruct Hb|]. destruct Hb as [<-|[]].
  exists x, r. split; [exact Ix|]. split; [|exact S]. rewrite is_lit_isparam, P. reflexivity.
Qed.

Lemma heads_In : forall cs x b r, In x cs -> is_lit x = true -> sval (nseg x) = b :: r -> In b (heads cs).
Proof.
  intros cs x b r Ix L S. unfold heads. apply in_flat_map. exists x. split; [exact Ix|].
  rewrite (hd1_lit x b r L S). now left.
Qed.

Lemma heads_perm : forall cs cs', Permutation cs cs' -> Permutation (heads cs) (heads cs').
Proof. intros cs cs' P. unfold heads. now apply Permutation_flat_map. Qed.

Lemma NoDup_app_remove_l : forall (l m : list N), NoDup (l ++ m) -> NoDup m.
Proof.
  induction l as [|a l IH]; intros m H; [exact H|].
  cbn [app] in H. inversion H as [|x t _ Ht]; subst. exact (IH m Ht).
Qed.

(* NoDup of the first bytes is the positional statement of MatchOrder *)
Lemma heads_lt : forall cs i j ci cj b ri rj, NoDup (heads cs) -> i < j ->
  nth_error cs i = Some ci -> nth_error cs j = Some cj -> is_lit ci = true -> is_lit cj = true ->
  sval (nseg ci) = b :: ri -> sval (nseg cj) = b :: rj -> False.
Proof.
  induction cs as [|a cs IH]; intros i j ci cj b ri rj ND Hij Hi Hj Li Lj Si Sj.
  - destruct i; discriminate Hi.
  - rewrite heads_cons in ND. destruct j as [|j]; [lia|]. cbn [nth_error] in Hj.
    destruct i as [|i]; cbn [nth_error] in Hi.
    + injection Hi as ->. rewrite (hd1_lit ci b ri Li Si) in ND. cbn [app] in ND.
      inversion ND as [|x l Nin _]; subst. apply Nin.
      exact (heads_In cs cj b rj (nth_error_In _ _ Hj) Lj Sj).
    + apply NoDup_app_remove_l in ND.
      apply (IH i j ci cj b ri rj ND); [lia | assumption ..].
Qed.

Lemma heads_lfd : forall cs, NoDup (heads cs) -> lfd cs.
Proof.
  intros cs ND i j ci cj b ri rj Hi Hj Li Lj Si Sj.
  destruct (Nat.lt_trichotomy i j) as [L|[E|L]]; [exfalso | exact E | exfalso].
  - exact (heads_lt cs i j ci cj b ri rj ND L Hi Hj Li Lj Si Sj).
  - exact (heads_lt cs j i cj ci b rj ri ND L Hj Hi Lj Li Sj Si).
Qed.

Lemma NoDup_app_sub : forall (l m m' : list N), NoDup (l ++ m) -> NoDup m' -> incl m' m -> NoDup (l ++ m').
Proof.
  induction l as [|a l IH]; intros m m' ND ND' Hin; [exact ND'|].
  cbn [app] in *. inversion ND as [|x t Nin NDt]; subst. constructor.
  - intro I. apply Nin. apply in_app_or in I. apply in_or_app.
    destruct I as [I|I]; [now left | right; now apply Hin].
  - exact (IH m m' NDt ND' Hin).
Qed.

Lemma NoDup_snoc_list : forall (l h : list N), NoDup l -> NoDup h -> (forall b, In b h -> ~ In b l) -> NoDup (l ++ h).
Proof.
  induction l as [|a l IH]; intros h NDl NDh Hd; [exact NDh|].
  cbn [app]. inversion NDl as [|x t Nin NDt]; subst. constructor.
  - intro I. apply in_app_or in I. destruct I as [I|I]; [now apply Nin|].
    apply (Hd a I). now left.
  - apply IH; [exact NDt | exact NDh|]. intros b Ib I. apply (Hd b Ib). now right.
Qed.

Lemma heads_remove_incl : forall c i b, In b (heads (remove_nth i c)) -> In b (heads c).
Proof.
  induction c as [|x c IH]; intros i b H; [destruct i; exact H|].
  destruct i as [|i]; cbn [remove_nth] in H.
  - rewrite heads_cons. apply in_or_app. now right.
  - rewrite heads_cons in *. apply in_app_or in H. apply in_or_app.
    destruct H as [H|H]; [now left | right; exact (IH i b H)].
Qed.

Lemma heads_remove_nodup : forall c i, NoDup (heads c) -> NoDup (heads (remove_nth i c)).
Proof.
  induction c as [|x c IH]; intros i ND; [destruct i; exact ND|].
  destruct i as [|i]; cbn [remove_nth].
  - rewrite heads_cons in ND. exact (NoDup_app_remove_l _ _ ND).
  - rewrite heads_cons in *. apply (NoDup_app_sub _ (heads c)); [exact ND | |].
    + apply IH. exact (NoDup_app_remove_l _ _ ND).
    + intros b Ib. exact (heads_remove_incl c i b Ib).
Qed.

Lemma remove_nth_perm : forall (c : list node) i ch, nth_error c i = Some ch ->
  Permutation c (ch :: remove_nth i c).
Proof.
  induction c as [|x c IH]; intros i ch H; [destruct i; discriminate H|].
  destruct i as [|i]; cbn [nth_error remove_nth] in *.
  - injection H as ->. apply Permutation_refl.
  - eapply Permutation_trans; [apply perm_skip; exact (IH i ch H) | apply perm_swap].
Qed.

Lemma heads_replace : forall c i ch ch', nth_error c i = Some ch -> nseg ch' = nseg ch ->
  heads (replace_nth i ch' c) = heads c.
Proof.
  induction c as [|x c IH]; intros i ch ch' H E; [destruct i; discriminate H|].
  destruct i as [|i]; cbn [nth_error replace_nth] in *.
  - injection H as ->. rewrite !heads_cons. now rewrite E.
  - rewrite !heads_cons. f_equal. exact (IH i ch ch' H E).
Qed.

Lemma nth_replace_nseg : forall (c : list node) i ch ch' j x, nth_error c i = Some ch -> nseg ch' = nseg ch ->
  nth_error (replace_nth i ch' c) j = Some x ->
  exists x0, nth_error c j = Some x0 /\ nseg x = nseg x0.
Proof.
  induction c as [|y c IH]; intros i ch ch' j x H E Hj; [destruct i; discriminate H|].
  destruct i as [|i]; cbn [nth_error replace_nth] in *.
  - injection H as ->. destruct j as [|j]; cbn [nth_error] in *.
    + injection Hj as <-. exists ch. now split.
    + exists x. now split.
  - destruct j as [|j]; cbn [nth_error] in *.
    + injection Hj as <-. exists y. now split.
    + exact (IH i ch ch' j x H E Hj).
Qed.

Lemma sinsert_perm : forall x l, Permutation (sinsert x l) (x :: l).
Proof.
  intros x l. induction l as [|y l IH]; cbn [sinsert]; [apply Permutation_refl|].
  destruct (Nat.ltb (fst y) (fst x)); [|apply Permutation_refl].
  eapply Permutation_trans; [apply perm_skip; exact IH | apply perm_swap].
Qed.

Lemma ssort_perm : forall keyed, Permutation (ssort keyed) (map snd keyed).
Proof.
  intro keyed. unfold ssort. apply Permutation_map.
  induction keyed as [|x l IH]; cbn [fold_right]; [apply Permutation_refl|].
  eapply Permutation_trans; [apply sinsert_perm | now apply perm_skip].
Qed.

(* ================================================================ Part C : the exact index *)

Definition idx_exact (n : node) : Prop :=
  nindexes n <> [] -> forall i c b r, nth_error (nchildren n) i = Some c -> is_lit c = true ->
    sval (nseg c) = b :: r -> idx_get b (nindexes n) = i.

Lemma idx_exact_complete : forall n, idx_exact n -> idx_complete n.
Proof.
  intros n H Hne c i Hi L b rest S. exists c. rewrite (H Hne i c b rest Hi L S).
  split; [exact Hi|]. split; [exact L|]. now exists rest.
Qed.

(* ================================================================ Part D : the invariant *)

Section Lit.
Variable ic : icpts.

(* the text of a parameter label of a tokenizer-accepted pattern: one token, then literal text *)
Definition pshape (v : bytes) : Prop :=
  exists body suf, v = 123%N :: body ++ 125%N :: suf /\ NB body /\ NB suf.

(* a label: what new_segment returns on its own non-empty text; literal text has no brace *)
Definition nbseg (s : segment) : Prop :=
  new_segment ic (sval s) = Ok s /\ sval s <> [] /\
  (isparam s = false -> NB (sval s)) /\ (isparam s = true -> pshape (sval s)).

Definition good (n : node) : Prop :=
  (forall ch, In ch (nchildren n) -> nbseg (nseg ch)) /\ NoDup (heads (nchildren n)) /\ idx_exact n.
Definition G (n : node) : Prop := all_nodes good n.

Lemma pshape_tok1 : forall v, pshape v -> TreeNames.tok1 v.
Proof.
  intros v [body [suf [-> [[B3 _] [S3 _]]]]]. exists (body ++ 125%N :: suf). split; [reflexivity|].
  intro I. apply in_app_or in I. destruct I as [I|[E|I]]; [now apply B3 | discriminate E | now apply S3].
Qed.

Lemma pshape_close : forall v, pshape v -> exists e, index_byte v 125%N = Some e /\
  forall l, e < l -> NB (skipn l v) /\ pshape (firstn l v).
Proof.
  intros v [body [suf [-> [[B3 B5] Hs]]]]. exists (S (length body)). split.
  - cbn [index_byte]. destruct (N.eqb_spec 123 125) as [E|_]; [discriminate E|].
    now rewrite (TokensSplit.ib_app_notin body 125%N suf B5).
  - intros l Hl. destruct l as [|l]; [lia|]. cbn [skipn firstn].
    assert (El : l = length body + S (l - S (length body))) by lia.
    split.
    + rewrite El, <- TreeText.skipn_skipn_add. rewrite TokensSplit.skipn_len_app by reflexivity.
      cbn [skipn]. now apply NB_skipn.
    + exists body, (firstn (l - S (length body)) suf). split; [|split; [now split | now apply NB_firstn]].
      f_equal. rewrite firstn_app. rewrite firstn_all2 by lia. f_equal.
      replace (l - length body) with (S (l - S (length body))) by lia. reflexivity.
Qed.

Lemma nbseg_lab_ok : forall s, nbseg s -> TreeNames.lab_ok ic s.
Proof. intros s [H [_ [_ P]]]. split; [exact H|]. intro Q. exact (pshape_tok1 _ (P Q)). Qed.

Lemma isparam_false_lit : forall x, isparam (nseg x) = false -> is_lit x = true.
Proof. intros x H. rewrite is_lit_isparam, H. reflexivity. Qed.

(* new_segment on non-empty brace-free text / on token text *)
Lemma nbseg_new_nb : forall v s, new_segment ic v = Ok s -> v <> [] -> NB v -> nbseg s /\ s = string_seg v.
Proof.
  intros v s H Hne Hnb. pose proof (TreeNames.new_segment_plain _ _ _ (NB_plain v Hnb) H) as E.
  split; [|exact E]. subst s. cbn [sval string_seg]. split; [exact H|]. split; [exact Hne|].
  split; [intros _; exact Hnb | intro Q; discriminate Q].
Qed.

Lemma nbseg_new_param : forall v s, new_segment ic v = Ok s -> pshape v -> nbseg s /\ isparam s = true.
Proof.
  intros v s H P. pose proof (TreeText.new_segment_value _ _ _ H) as V.
  destruct (pshape_close v P) as [e [Ie _]].
  assert (Q : isparam s = true).
  { apply (TreeNames.new_segment_braces_param ic v s 0 e H); [|exact Ie].
    exact (TreeNames.tok1_index _ (pshape_tok1 _ P)). }
  split; [|exact Q]. rewrite <- V in H, P. split; [exact H|]. split.
  - destruct P as [body [suf [-> _]]]. discriminate.
  - split; [intro F; congruence | intros _; exact P].
Qed.

(* ---------------------------------------------------------------- one level *)

Lemma good_build : forall n cs ix, (forall ch, In ch cs -> nbseg (nseg ch)) -> NoDup (heads cs) ->
  build_indexes cs = Ok ix -> good (set_children n cs ix).
Proof.
  intros n cs ix Hc ND B. unfold good, idx_exact.
  rewrite nchildren_set_children, nindexes_set_children.
  split; [exact Hc|]. split; [exact ND|]. intros Hne i c b r Hi L S.
  destruct (build_indexes_complete cs ix B (heads_lfd cs ND) Hne) as [Hix _].
  exact (Hix i c b r Hi L S).
Qed.

Lemma G_set_children : forall n cs ix, good (set_children n cs ix) ->
  (forall ch, In ch cs -> G ch) -> G (set_children n cs ix).
Proof.
  intros n cs ix Hg Hc. apply all_nodes_intro; [exact Hg|].
  rewrite nchildren_set_children. exact Hc.
Qed.

Lemma G_same_children : forall n n', G n -> nchildren n' = nchildren n -> nindexes n' = nindexes n -> G n'.
Proof.
  intros n n' Hn Hc Hx. apply all_nodes_intro.
  - pose proof (all_nodes_here _ _ Hn) as [H1 [H2 H3]]. unfold good, idx_exact. rewrite Hc, Hx.
    split; [exact H1|]. split; [exact H2 | exact H3].
  - rewrite Hc. intros ch Ich. exact (all_nodes_child _ n ch Hn Ich).
Qed.

Lemma G_set_handlers : forall n hs i, G n -> G (set_handlers n hs i).
Proof.
  intros n hs i Hn.
  apply (G_same_children n); [exact Hn | apply nchildren_set_handlers | apply nindexes_set_handlers].
Qed.

Lemma G_set_seg : forall n sg, G n -> G (set_seg n sg).
Proof.
  intros n sg Hn.
  apply (G_same_children n); [exact Hn | apply nchildren_set_seg | apply nindexes_set_seg].
Qed.

Lemma G_leaf : forall sg p i hs, G (Node sg p i hs [] []).
Proof.
  intros sg p i hs. apply all_nodes_intro.
  - split; [intros ch []|]. split; [constructor|]. intro Hne. now elim Hne.
  - intros ch [].
Qed.

Lemma G_replace : forall n i ch ch', G n -> nth_error (nchildren n) i = Some ch -> G ch' ->
  nseg ch' = nseg ch -> G (set_children n (replace_nth i ch' (nchildren n)) (nindexes n)).
Proof.
  intros n i ch ch' Hn Hi Hc E. pose proof (all_nodes_here _ _ Hn) as [H1 [H2 H3]].
  apply G_set_children.
  - unfold good, idx_exact. rewrite nchildren_set_children, nindexes_set_children.
    split; [|split].
    + intros x Ix. apply In_replace_nth in Ix. destruct Ix as [->|Ix]; [|now apply H1].
      rewrite E. apply H1. exact (nth_error_In _ _ Hi).
    + now rewrite (heads_replace _ i ch ch' Hi E).
    + intros Hne j c b r Hj L S.
      destruct (nth_replace_nseg _ i ch ch' j c Hi E Hj) as [c0 [Hj0 E0]].
      apply (H3 Hne j c0 b r Hj0); [unfold is_lit in *; now rewrite <- E0 | now rewrite <- E0].
  - intros x Ix. apply In_replace_nth in Ix. destruct Ix as [->|Ix]; [exact Hc|].
    exact (all_nodes_child _ n x Hn Ix).
Qed.

Lemma G_sort : forall n keyed n', sort_node n keyed = Ok n' ->
  (forall x, In x (map snd keyed) -> nbseg (nseg x) /\ G x) -> NoDup (heads (map snd keyed)) ->
  G n' /\ nseg n' = nseg n.
Proof.
  intros n keyed n' H Hk ND. pose proof (sort_node_nseg _ _ _ H) as Hs.
  apply sort_node_inv in H. destruct H as [ix [B ->]]. split; [|exact Hs].
  apply G_set_children.
  - apply good_build; [| |exact B].
    + intros ch Ich. exact (proj1 (Hk ch (In_ssort _ _ Ich))).
    + apply (Permutation_NoDup (l := heads (map snd keyed))); [|exact ND].
      apply heads_perm, Permutation_sym, ssort_perm.
  - intros ch Ich. exact (proj2 (Hk ch (In_ssort _ _ Ich))).
Qed.

(* ---------------------------------------------------------------- the scan of addSegment *)

Lemma scan_sim_none : forall seg c i best, scan_sim seg c i best = (None, None) ->
  best = None /\ forall x, In x c -> similarity (nseg x) seg <> (-1)%Z /\ (similarity (nseg x) seg <= 0)%Z.
Proof.
  intros seg c. induction c as [|y c IH]; intros i best H; cbn [scan_sim] in H.
  - injection H as ->. split; [reflexivity | intros x []].
  - cbv zeta in H. destruct (Z.eqb_spec (similarity (nseg y) seg) (-1)%Z) as [E|N]; [discriminate H|].
    destruct (Z.ltb_spec (match best with Some (_, l) => l | None => 0%Z end) (similarity (nseg y) seg)) as [L|L].
    + destruct (IH _ _ H) as [E _]. discriminate E.
    + destruct (IH _ _ H) as [-> Hc]. split; [reflexivity|].
      intros x [<-|Ix]; [split; [exact N | exact L] | exact (Hc x Ix)].
Qed.

(* a new literal sibling starts with a byte no literal child starts with *)
Lemma new_child_head : forall seg c, nbseg seg -> (forall x, In x c -> nbseg (nseg x)) ->
  scan_sim seg c 0 None = (None, None) -> forall b, In b (hd1 seg) -> ~ In b (heads c).
Proof.
  intros seg c Hseg Hc SC b Ib I.
  destruct (scan_sim_none _ _ _ _ SC) as [_ Hsim].
  destruct (In_heads c b I) as [x [r [Ix [L S]]]].
  destruct (Hsim x Ix) as [N1 N0].
  unfold hd1 in Ib. destruct (isparam seg) eqn:P; [destruct Ib|].
  destruct (sval seg) as [|b0 r0] eqn:Sseg; [destruct Ib|]. destruct Ib as [->|[]].
  destruct Hseg as [_ [_ [Hnb _]]]. specialize (Hnb P). rewrite Sseg in Hnb.
  unfold similarity in N1, N0. rewrite Sseg, S in N1, N0.
  destruct (beqb (b :: r0) (b :: r)); [now apply N1|].
  assert (T : stype_eqb (styp seg) (styp (nseg x)) = true).
  { apply TreeNames.isparam_false in P. unfold is_lit in L. rewrite P.
    destruct (styp (nseg x)); try discriminate L. reflexivity. }
  rewrite T in N0. cbn [negb] in N0.
  pose proof (longest_prefix_nb_pos b r0 r Hnb). lia.
Qed.

(* the split of addSegment between the label of a child and the segment being added *)
Lemma split_nb : forall sch seg l, nbseg sch -> nbseg seg ->
  (0 < similarity sch seg)%Z -> l = Z.to_nat (similarity sch seg) ->
  (forall s1, new_segment ic (firstn l (sval sch)) = Ok s1 -> nbseg s1 /\ hd1 s1 = hd1 sch) /\
  (forall s2, new_segment ic (skipn l (sval sch)) = Ok s2 -> l < length (sval sch) -> nbseg s2) /\
  (forall s, new_segment ic (skipn l (sval seg)) = Ok s -> l < length (sval seg) -> nbseg s).
Proof.
  intros sch seg l Hch Hseg Hpos Hl.
  destruct (TreeNames.similarity_pos _ _ Hpos) as [Hty Hlp].
  pose proof (TreeNames.stype_eqb_isparam _ _ Hty) as Hip.
  pose proof (TreeOnion.similarity_cpre sch seg) as [C1 [C2 C3]]. rewrite <- Hl in C1, C2, C3.
  assert (L0 : 0 < l) by lia.
  assert (Hne : forall (v : bytes) k, k < length v -> skipn k v <> []).
  { intros v k Hk E. apply (f_equal (@length N)) in E. rewrite skipn_length in E. simpl in E. lia. }
  destruct Hch as [Nch [Ech [Lch Pch]]]. destruct Hseg as [Nseg [Eseg [Lseg Pseg]]].
  destruct (isparam sch) eqn:Qch.
  - (* two parameter labels *)
    specialize (Pch eq_refl). specialize (Pseg Hip).
    pose proof (pshape_tok1 _ Pch) as Tv. pose proof (pshape_tok1 _ Pseg) as Tw.
    destruct (pshape_close _ Pseg) as [ew [Iw Cw]]. destruct (pshape_close _ Pch) as [ev [Iv0 Cv]].
    assert (Lt : ew < l).
    { destruct (TreeNames.longest_prefix_tok _ _ _ Tw Iw (TreeNames.tok1_index _ Tv)
                  (TreeNames.index_byte_In _ _ _ Iv0)) as [Gt|Gt]; lia. }
    assert (Iv : index_byte (sval sch) 125%N = Some ew) by exact (TreeNames.index_byte_cpre _ _ _ _ _ C3 Iw Lt).
    rewrite Iv in Iv0. injection Iv0 as <-.
    destruct (Cv l Lt) as [NBv PSv]. destruct (Cw l Lt) as [NBw _].
    split; [|split].
    + intros s1 H1. destruct (nbseg_new_param _ _ H1 PSv) as [R1 Q1]. split; [exact R1|].
      unfold hd1. now rewrite Q1, Qch.
    + intros s2 H2 Hlt. exact (proj1 (nbseg_new_nb _ _ H2 (Hne _ _ Hlt) NBv)).
    + intros s H2 Hlt. exact (proj1 (nbseg_new_nb _ _ H2 (Hne _ _ Hlt) NBw)).
  - (* two literal labels *)
    specialize (Lch eq_refl). specialize (Lseg Hip).
    split; [|split].
    + intros s1 H1.
      assert (Hf : firstn l (sval sch) <> []).
      { intro E. apply (f_equal (@length N)) in E. rewrite firstn_length in E. simpl in E. lia. }
      destruct (nbseg_new_nb _ _ H1 Hf (NB_firstn _ l Lch)) as [R1 ->]. split; [exact R1|].
      unfold hd1. rewrite Qch. cbn [sval string_seg].
      change (isparam (string_seg (firstn l (sval sch)))) with false. cbv iota.
      destruct (sval sch) as [|b r]; [now elim Ech|]. destruct l as [|l']; [lia|]. reflexivity.
    + intros s2 H2 Hlt. exact (proj1 (nbseg_new_nb _ _ H2 (Hne _ _ Hlt) (NB_skipn _ l Lch))).
    + intros s H2 Hlt. exact (proj1 (nbseg_new_nb _ _ H2 (Hne _ _ Hlt) (NB_skipn _ l Lseg))).
Qed.

(* ---------------------------------------------------------------- registration *)

Definition kG (k : node -> res node) : Prop :=
  forall ch ch', G ch -> k ch = Ok ch' -> G ch' /\ nseg ch' = nseg ch.

Lemma NoDup_heads_one : forall x, NoDup (heads [x]).
Proof. intro x. unfold heads. cbn [flat_map]. rewrite app_nil_r. apply NoDup_hd1. Qed.

Lemma add_segment_G : forall fuel n seg k n', G n -> nbseg seg -> kG k ->
  add_segment fuel ic n seg k = Ok n' -> G n' /\ nseg n' = nseg n.
Proof.
  induction fuel as [|f IH]; intros n seg k n' Hn Hseg Hk H; [discriminate|].
  rewrite add_segment_S in H. cbv zeta in H.
  pose proof (all_nodes_here _ _ Hn) as [Hlab [Hnd Hix]].
  destruct (scan_sim seg (nchildren n) 0 None) as [[i|] best] eqn:SC.
  - (* identical child *)
    destruct (nth_error (nchildren n) i) as [ch|] eqn:NTH; [|discriminate].
    apply bind_ok in H. destruct H as [ch' [K H]]. injection H as <-.
    assert (Ich : In ch (nchildren n)) by (eapply nth_error_In; eassumption).
    destruct (Hk ch ch' (all_nodes_child _ n ch Hn Ich) K) as [Hch' Es].
    split; [|apply nseg_set_children]. exact (G_replace n i ch ch' Hn NTH Hch' Es).
  - destruct best as [[i l]|].
    + (* a child shares a prefix *)
      destruct (nth_error (nchildren n) i) as [ch|] eqn:NTH; [|discriminate].
      assert (Ich : In ch (nchildren n)) by (eapply nth_error_In; eassumption).
      pose proof (all_nodes_child _ n ch Hn Ich) as Hch.
      assert (Hpos : (0 < l)%Z).
      { apply (TreeNames.scan_sim_pos _ _ _ _ _ _ SC). intros j' l' E. discriminate E. }
      assert (Hsim : similarity (nseg ch) seg = l).
      { destruct (TreeOnion.scan_sim_best _ _ _ _ _ _ SC) as [E|[ch0 [_ [N0 S0]]]]; [discriminate E|].
        rewrite Nat.sub_0_r, NTH in N0. now injection N0 as <-. }
      rewrite <- Hsim in Hpos.
      destruct (split_nb (nseg ch) seg (Z.to_nat l) (Hlab ch Ich) Hseg Hpos (f_equal Z.to_nat (eq_sym Hsim)))
        as [F1 [F2 F3]].
      pose proof (TreeOnion.similarity_cpre (nseg ch) seg) as [C1 [C2 _]]. rewrite Hsim in C1, C2.
      assert (Hcont : kG (cont_of f ic seg (Z.to_nat l) k)).
      { intros p p' Hp Hc. unfold cont_of in Hc.
        destruct (Nat.eqb_spec (length (sval seg)) (Z.to_nat l)) as [E|NE]; [exact (Hk _ _ Hp Hc)|].
        apply bind_ok in Hc. destruct Hc as [rest [R Hc]].
        apply bind_ok in Hc. destruct Hc as [s [S Hc]].
        apply TreeText.slice_or_panic_ok in R. apply TreeText.gslice_to_end in R. subst rest.
        assert (Hs : nbseg s) by (apply (F3 s S); lia).
        exact (IH p s k p' Hp Hs Hk Hc). }
      destruct (Nat.leb_spec (length (sval (nseg ch))) (Z.to_nat l)) as [LE|GT].
      * apply bind_ok in H. destruct H as [ch' [K H]]. injection H as <-.
        destruct (Hcont ch ch' Hch K) as [Hch' Es].
        split; [|apply nseg_set_children]. exact (G_replace n i ch ch' Hn NTH Hch' Es).
      * apply bind_ok in H. destruct H as [[s1 s2] [SP H]].
        apply bind_ok in H. destruct H as [ret [SR H]].
        apply bind_ok in H. destruct H as [ret' [K H]].
        destruct (TreeNames.seg_split_inv _ _ _ _ _ SP) as [N1 N2].
        destruct (F1 _ N1) as [L1 H1]. pose proof (F2 _ N2 GT) as L2.
        assert (Hret : G ret /\ nseg ret = s1).
        { apply (G_sort _ _ _ SR).
          - rewrite map_snd_with_prio. intros x [<-|[]]. rewrite TreeNames.nseg_set_seg.
            split; [exact L2 | now apply G_set_seg].
          - rewrite map_snd_with_prio. apply NoDup_heads_one. }
        destruct Hret as [Gret Sret].
        destruct (Hcont ret ret' Gret K) as [Gret' Sret'].
        apply (G_sort _ _ _ H).
        -- intros x Ix. apply In_keyed_app in Ix. destruct Ix as [Ix| ->].
           ++ apply In_remove_nth in Ix. split; [now apply Hlab | exact (all_nodes_child _ n x Hn Ix)].
           ++ rewrite Sret', Sret. split; [exact L1 | exact Gret'].
        -- rewrite map_app, map_snd_with_prio. cbn [map snd]. rewrite heads_app.
           apply (Permutation_NoDup (l := heads (nchildren n))); [|exact Hnd].
           eapply Permutation_trans; [apply heads_perm; exact (remove_nth_perm _ i ch NTH)|].
           rewrite heads_cons. unfold heads at 3. cbn [flat_map]. rewrite app_nil_r.
           rewrite Sret', Sret, H1. apply Permutation_app_comm.
    + (* a new child *)
      apply bind_ok in H. destruct H as [nn' [K H]].
      destruct (Hk (new_node n seg) nn' (G_leaf _ _ _ _) K) as [Gnn' Snn']. cbn [new_node nseg] in Snn'.
      apply (G_sort _ _ _ H).
      * intros x Ix. apply In_keyed_app in Ix. destruct Ix as [Ix| ->].
        -- split; [now apply Hlab | exact (all_nodes_child _ n x Hn Ix)].
        -- rewrite Snn'. split; [exact Hseg | exact Gnn'].
      * rewrite map_app, map_snd_with_prio. cbn [map snd]. rewrite heads_app.
        unfold heads at 2. cbn [flat_map]. rewrite app_nil_r, Snn'.
        apply NoDup_snoc_list; [exact Hnd | apply NoDup_hd1|].
        exact (new_child_head seg (nchildren n) Hseg Hlab SC).
Qed.

Lemma get_node_G : forall segs fuel n upd n', G n -> Forall nbseg segs -> kG upd ->
  get_node fuel ic n segs upd = Ok n' -> G n' /\ nseg n' = nseg n.
Proof.
  induction segs as [|seg rest IH]; intros fuel n upd n' Hn HL Hk H; [discriminate|].
  inversion HL as [|s0 r0 Lseg Lrest]; subst.
  destruct rest as [|seg2 rest].
  - cbn [get_node] in H. exact (add_segment_G _ _ _ _ _ Hn Lseg Hk H).
  - cbn [get_node] in H. refine (add_segment_G _ _ _ _ _ Hn Lseg _ H).
    intros ch ch' Hch Hc. exact (IH fuel ch upd ch' Hch Lrest Hk Hc).
Qed.

Lemma add_methods_kG : forall trace router h pattern mws ms, kG (add_methods trace router h pattern mws ms).
Proof.
  intros trace router h pattern mws ms ch ch' Hch H. unfold add_methods in H.
  apply bind_ok in H. destruct H as [u [_ H]]. injection H as <-.
  split; [now apply G_set_handlers | apply nseg_set_handlers].
Qed.

(* ---------------------------------------------------------------- Remove *)

Lemma remove_at_node_G : forall trace ms n n' rm, G n -> remove_at_node trace ms n = (n', rm) ->
  G n' /\ nseg n' = nseg n.
Proof.
  intros trace ms n n' rm Hn H. unfold remove_at_node in H.
  destruct (match ms with [] => _ | _ => _ end) as [hs removed].
  injection H as <- _. split; [now apply G_set_handlers | apply nseg_set_handlers].
Qed.

Lemma remove_finish_G : forall n i ch ch' rm n' rm', G n -> nth_error (nchildren n) i = Some ch ->
  G ch' -> nseg ch' = nseg ch ->
  remove_finish n i ch' rm = Ok (Some (n', rm')) -> G n' /\ nseg n' = nseg n.
Proof.
  intros n i ch ch' rm n' rm' Hn Hi Hc Es H. unfold remove_finish in H.
  pose proof (all_nodes_here _ _ Hn) as [Hlab [Hnd _]].
  destruct (prunable ch').
  - cbv zeta in H. apply bind_ok in H. destruct H as [ix [B H]]. injection H as <- _.
    split; [|apply nseg_set_children]. apply G_set_children.
    + apply good_build; [| |exact B].
      * intros x Ix. apply In_remove_nth in Ix. now apply Hlab.
      * now apply heads_remove_nodup.
    + intros x Ix. apply In_remove_nth in Ix. exact (all_nodes_child _ n x Hn Ix).
  - injection H as <- _. split; [|apply nseg_set_children]. exact (G_replace n i ch ch' Hn Hi Hc Es).
Qed.

Lemma remove_in_G : forall fuel trace ms n pattern n' rm, G n ->
  remove_in fuel trace ms n pattern = Ok (Some (n', rm)) -> G n' /\ nseg n' = nseg n.
Proof.
  induction fuel as [|f IH]; intros trace ms n pattern n' rm Hn H; [discriminate|].
  rewrite remove_in_S in H.
  assert (Hgo : forall c i,
            (forall j ch, nth_error c j = Some ch -> nth_error (nchildren n) (i + j) = Some ch) ->
            remove_go f trace ms n pattern c i = Ok (Some (n', rm)) -> G n' /\ nseg n' = nseg n).
  { induction c as [|ch c IHc]; intros i Hc Hg; cbn [remove_go] in Hg; [discriminate|].
    assert (Hpos : nth_error (nchildren n) i = Some ch).
    { rewrite <- (Nat.add_0_r i). now apply Hc. }
    assert (Hch : G ch).
    { apply (all_nodes_child _ n); [exact Hn | now apply (nth_error_In _ i)]. }
    assert (Hc' : forall j x, nth_error c j = Some x -> nth_error (nchildren n) (S i + j) = Some x).
    { intros j x Hj. replace (S i + j) with (i + S j) by lia. now apply Hc. }
    destruct (beqb (sval (nseg ch)) pattern).
    - destruct (remove_at_node trace ms ch) as [ch' removed] eqn:RA.
      destruct (remove_at_node_G _ _ _ _ _ Hch RA) as [Gc Es].
      exact (remove_finish_G _ _ _ _ _ _ _ Hn Hpos Gc Es Hg).
    - destruct (has_prefix pattern (sval (nseg ch))); [|now apply (IHc (S i))].
      apply bind_ok in Hg. destruct Hg as [r [R Hg]].
      destruct r as [[ch' removed]|]; [|now apply (IHc (S i))].
      destruct (IH _ _ _ _ _ _ Hch R) as [Gc Es].
      exact (remove_finish_G _ _ _ _ _ _ _ Hn Hpos Gc Es Hg). }
  apply (Hgo (nchildren n) O); [|exact H]. intros j ch Hj. exact Hj.
Qed.

(* ---------------------------------------------------------------- Clean *)

Lemma clean_in_G : forall fuel n prefix n', G n -> clean_in fuel n prefix = Ok n' ->
  G n' /\ nseg n' = nseg n.
Proof.
  induction fuel as [|f IH]; intros n prefix n' Hn H; [discriminate|].
  rewrite clean_in_S in H. destruct prefix as [|b prefix].
  - injection H as <-. split; [|apply nseg_set_children]. apply G_set_children; [|intros ch []].
    unfold good, idx_exact. rewrite nchildren_set_children, nindexes_set_children.
    split; [intros ch []|]. split; [constructor|]. intro Hne. now elim Hne.
  - remember (b :: prefix) as pf eqn:Epf. clear Epf.
    assert (Hgo : forall c cs, (forall ch, In ch c -> nbseg (nseg ch) /\ G ch) ->
              clean_go f pf c = Ok cs ->
              (forall x, In x cs -> nbseg (nseg x) /\ G x) /\
              (forall y, In y (heads cs) -> In y (heads c)) /\
              (NoDup (heads c) -> NoDup (heads cs))).
    { induction c as [|ch c IHc]; intros cs Hc Hg; cbn [clean_go] in Hg.
      - injection Hg as <-. split; [intros x []|]. split; [intros y [] | intros _; constructor].
      - destruct (Hc ch (or_introl eq_refl)) as [Lch Gch].
        assert (Hc' : forall y, In y c -> nbseg (nseg y) /\ G y) by (intros y Iy; apply Hc; now right).
        cbv zeta in Hg. apply bind_ok in Hg. destruct Hg as [ch' [C Hg]].
        apply bind_ok in Hg. destruct Hg as [rest [R Hg]].
        assert (Hch' : G ch' /\ nseg ch' = nseg ch).
        { destruct (Nat.ltb (length (sval (nseg ch))) (length pf) && has_prefix pf (sval (nseg ch))).
          - exact (IH _ _ _ Gch C).
          - injection C as <-. split; [exact Gch | reflexivity]. }
        destruct Hch' as [Gch' Es].
        destruct (IHc rest Hc' R) as [Hall [Hin Hnd]].
        rewrite heads_cons.
        destruct (has_prefix (sval (nseg ch)) pf); injection Hg as <-.
        + split; [exact Hall|]. split.
          * intros y Iy. apply in_or_app. right. now apply Hin.
          * intro ND. apply Hnd. exact (NoDup_app_remove_l _ _ ND).
        + rewrite heads_cons, Es. split; [|split].
          * intros x [<-|Ix]; [rewrite Es; now split | now apply Hall].
          * intros y Iy. apply in_app_or in Iy. apply in_or_app.
            destruct Iy as [Iy|Iy]; [now left | right; now apply Hin].
          * intro ND. apply (NoDup_app_sub _ (heads c)); [exact ND | | exact Hin].
            apply Hnd. exact (NoDup_app_remove_l _ _ ND). }
    apply bind_ok in H. destruct H as [cs [Hg H]].
    apply bind_ok in H. destruct H as [ix [B H]]. injection H as <-.
    split; [|apply nseg_set_children].
    pose proof (all_nodes_here _ _ Hn) as [Hlab [Hnd _]].
    destruct (Hgo (nchildren n) cs) as [Hall [_ Hnd']];
      [intros ch Ich; split; [now apply Hlab | exact (all_nodes_child _ n ch Hn Ich)] | exact Hg |].
    apply G_set_children.
    + apply good_build; [intros ch Ich; exact (proj1 (Hall ch Ich)) | now apply Hnd' | exact B].
    + intros ch Ich. exact (proj2 (Hall ch Ich)).
Qed.

(* ---------------------------------------------------------------- Use *)

Lemma heads_map_nseg : forall (g : node -> node) c, (forall x, nseg (g x) = nseg x) -> heads (map g c) = heads c.
Proof.
  intros g c Hg. induction c as [|x c IH]; [reflexivity|]. cbn [map]. rewrite !heads_cons, Hg. now f_equal.
Qed.

Lemma apply_mw_node_G : forall fuel router mws n, G n -> G (apply_mw_node fuel router mws n).
Proof.
  induction fuel as [|f IH]; intros router mws n Hn; [exact Hn|].
  pose proof (all_nodes_here _ _ Hn) as [Hlab [Hnd Hix]].
  destruct n as [s p i h x c]. cbn [apply_mw_node]. cbn [nchildren nindexes] in *.
  apply all_nodes_intro.
  - unfold good, idx_exact. cbn [nchildren nindexes]. split; [|split].
    + intros ch Ich. apply in_map_iff in Ich. destruct Ich as [ch0 [<- Ich]].
      rewrite apply_mw_node_nseg. now apply Hlab.
    + rewrite heads_map_nseg; [exact Hnd | intro y; apply apply_mw_node_nseg].
    + intros Hne j c0 b r Hj L S. rewrite nth_error_map in Hj.
      destruct (nth_error c j) as [c1|] eqn:Hj1; [|discriminate Hj]. cbn [option_map] in Hj.
      injection Hj as <-. rewrite apply_mw_node_nseg in S. unfold is_lit in L.
      rewrite apply_mw_node_nseg in L. exact (Hix Hne j c1 b r Hj1 L S).
  - cbn [nchildren]. intros ch Ich. apply in_map_iff in Ich. destruct Ich as [ch0 [<- Ich]].
    apply IH. exact (all_nodes_child _ _ ch0 Hn Ich).
Qed.
End Lit.

(* ================================================================ Part E : trees and histories *)

Definition tree_lit_ok (ic : icpts) (t : tree) : Prop := tic t = ic /\ G ic (troot t).

Lemma build_methods_lit : forall ic t root num ms, tic t = ic -> G ic root ->
  tree_lit_ok ic (tree_build_methods t root num ms).
Proof.
  intros ic t root num ms Hic Hg. unfold tree_lit_ok, tree_build_methods. cbn [tic troot].
  split; [exact Hic | now apply G_set_handlers].
Qed.

Lemma lit_new_tree : forall name ic trace, tree_lit_ok ic (new_tree name ic trace).
Proof. intros name ic trace. unfold new_tree. apply build_methods_lit; [reflexivity | apply G_leaf]. Qed.

(* the segments of a pattern accepted by the tokenizer *)
Lemma chunks_nbseg : forall ic rest cs, Forall2 (TokensSplit.seg_chunk ic) rest cs ->
  Forall TokensSplit.chunk_ok cs -> Forall (TreeNames.lab_ok ic) rest -> Forall (nbseg ic) rest.
Proof.
  intros ic rest cs F. induction F as [|s c rest cs CS F IH]; intros Hcs HL; [constructor|].
  inversion Hcs as [|c0 cs0 Hc Hcs']; subst. inversion HL as [|s0 r0 Ls Lr]; subst.
  constructor; [|exact (IH Hcs' Lr)].
  destruct (TokensSplit.chunk_seg_ok _ _ _ _ _ _ _ CS) as [Hv [_ [_ [_ [_ [P _]]]]]].
  destruct Hc as [[Hb Hl] _].
  assert (PS : pshape (sval s)).
  { rewrite Hv. exists (fst c), (snd c). split; [reflexivity | now split]. }
  split; [exact (proj1 Ls)|]. split; [rewrite Hv; discriminate|].
  split; [|intros _; exact PS].
  intro Q. change (TreeNames.isparam s) with (Misc1.param_seg s) in Q. congruence.
Qed.

Lemma split_nbseg : forall ic p ts segs, Table.tokens p = Some ts -> split ic p = Ok segs ->
  Forall (nbseg ic) segs.
Proof.
  intros ic p ts segs T H.
  destruct (TreeNames.split_ok ic p segs H (TokensSplit.tokens_imply_pat_wf p ts T)) as [HL _].
  destruct (TokensSplit.tokens_shape p ts T) as [l0 [cs [E [Hne [N0 [Hcs _]]]]]]. subst p.
  destruct (TokensSplit.split_ok_shape ic l0 cs segs N0 Hcs Hne H) as [rest [-> [F _]]].
  apply Forall_app in HL. destruct HL as [HL0 HLr]. apply Forall_app. split.
  - destruct l0 as [|c l0]; [constructor|]. cbn [TokensSplit.lit_segs] in *.
    inversion HL0 as [|s0 r0 Ls _]; subst. constructor; [|constructor].
    split; [exact (proj1 Ls)|]. cbn [sval string_seg]. split; [discriminate|].
    split; [intros _; exact N0 | intro Q; discriminate Q].
  - exact (chunks_nbseg ic rest cs F Hcs HLr).
Qed.

Lemma lit_add : forall ic t p ts h mws ms t', tree_lit_ok ic t -> Table.tokens p = Some ts ->
  tree_add t p h mws ms = Ok t' -> tree_lit_ok ic t'.
Proof.
  intros ic t p ts h mws ms t' [Hic Hg] T H. unfold tree_add in H. cbv zeta in H.
  apply bind_ok in H. destruct H as [amb [_ H]].
  assert (Hm : forall ms0,
    (do segs <- split (tic t) p;
     do _ <- check_methods (has_trace t)
               (match find (tree_fuel t + length p + 2) (troot t) p with Some n => nhandlers n | None => [] end) [] ms0;
     do root' <- get_node (tree_fuel t + length p + 2) (tic t) (troot t) segs
                   (add_methods (has_trace t) (tname t) h p mws ms0);
     Ok (tree_build_methods t root' 1 ms0)) = Ok t' -> tree_lit_ok ic t').
  { intros ms0 H0. rewrite Hic in H0.
    apply bind_ok in H0. destruct H0 as [segs [SP H0]].
    apply bind_ok in H0. destruct H0 as [u [_ H0]].
    apply bind_ok in H0. destruct H0 as [root' [GN H0]]. injection H0 as <-.
    destruct (get_node_G ic segs _ _ _ _ Hg (split_nbseg ic p ts segs T SP) (add_methods_kG ic _ _ _ _ _ _) GN)
      as [Hg' _].
    now apply build_methods_lit. }
  destruct amb as [[p0 [|]]|]; [discriminate H | exact (Hm _ H) | exact (Hm _ H)].
Qed.

Lemma lit_remove : forall ic t p ms t', tree_lit_ok ic t -> tree_remove t p ms = Ok t' -> tree_lit_ok ic t'.
Proof.
  intros ic t p ms t' [Hic Hg] H. unfold tree_remove in H.
  apply bind_ok in H. destruct H as [r [R H]].
  destruct r as [[root' removed]|]; injection H as <-; [|now split].
  destruct (remove_in_G ic _ _ _ _ _ _ _ Hg R) as [Hg' _]. now apply build_methods_lit.
Qed.

Lemma lit_clean : forall ic t prefix t', tree_lit_ok ic t -> tree_clean t prefix = Ok t' -> tree_lit_ok ic t'.
Proof.
  intros ic t prefix t' [Hic Hg] H. unfold tree_clean in H.
  apply bind_ok in H. destruct H as [root' [C H]]. injection H as <-.
  destruct (clean_in_G ic _ _ _ _ Hg C) as [Hg' _]. now apply build_methods_lit.
Qed.

Lemma lit_use : forall ic t mws, tree_lit_ok ic t -> tree_lit_ok ic (tree_apply_mw t mws).
Proof.
  intros ic t mws [Hic Hg]. unfold tree_lit_ok, tree_apply_mw. cbn [tic troot].
  split; [exact Hic | now apply apply_mw_node_G].
Qed.

Lemma lit_tstep : forall ic t op, tree_lit_ok ic t -> TokensSplit.op_tokens op = true ->
  tree_lit_ok ic (tstep t op).
Proof.
  intros ic t op Ht W. destruct op as [p h mws ms|p ms|prefix|mws]; cbn [tstep].
  - destruct (tree_add t p h mws ms) as [t'| | |] eqn:E; cbn [keep]; try exact Ht.
    cbn [TokensSplit.op_tokens] in W. destruct (Table.tokens p) as [ts|] eqn:T; [|discriminate W].
    exact (lit_add _ _ _ _ _ _ _ _ Ht T E).
  - destruct (tree_remove t p ms) as [t'| | |] eqn:E; cbn [keep]; try exact Ht.
    exact (lit_remove _ _ _ _ _ Ht E).
  - destruct (tree_clean t prefix) as [t'| | |] eqn:E; cbn [keep]; try exact Ht.
    exact (lit_clean _ _ _ _ Ht E).
  - now apply lit_use.
Qed.

Lemma lit_fold : forall ic hist t, tree_lit_ok ic t -> TokensSplit.hist_tokens hist = true ->
  tree_lit_ok ic (fold_left tstep hist t).
Proof.
  intros ic hist. induction hist as [|op hist IH]; intros t Ht W; [exact Ht|].
  unfold TokensSplit.hist_tokens in W. cbn [forallb] in W.
  apply andb_true_iff in W. destruct W as [W1 W2].
  cbn [fold_left]. apply IH; [now apply lit_tstep | exact W2].
Qed.

Theorem lit_reachable : forall name ic trace hist, TokensSplit.hist_tokens hist = true ->
  G ic (troot (fold_left tstep hist (new_tree name ic trace))).
Proof.
  intros name ic trace hist W. exact (proj2 (lit_fold ic hist _ (lit_new_tree name ic trace) W)).
Qed.

(* ---------------------------------------------------------------- Part 1 and Part 2 *)

Lemma good_lfd : forall ic n, good ic n -> lit_first_distinct n.
Proof. intros ic n [_ [ND _]]. exact (heads_lfd _ ND). Qed.

Lemma good_idx_complete : forall ic n, good ic n -> idx_complete n.
Proof. intros ic n [_ [_ X]]. exact (idx_exact_complete n X). Qed.

Lemma good_lit_nonempty_all : forall ic n, good ic n ->
  forall c, In c (nchildren n) -> sval (nseg c) <> [].
Proof. intros ic n [L _] c Ic. exact (proj1 (proj2 (L c Ic))). Qed.

Lemma good_lit_nonempty : forall ic n, good ic n -> lit_nonempty n.
Proof. intros ic n Hg _ c Ic _. exact (good_lit_nonempty_all ic n Hg c Ic). Qed.

Theorem lit_first_distinct_reachable : forall name ic trace hist, TokensSplit.hist_tokens hist = true ->
  all_nodes lit_first_distinct (troot (fold_left tstep hist (new_tree name ic trace))).
Proof.
  intros name ic trace hist W.
  exact (all_nodes_impl _ _ (good_lfd ic) _ (lit_reachable name ic trace hist W)).
Qed.

Theorem idx_complete_reachable : forall name ic trace hist, TokensSplit.hist_tokens hist = true ->
  all_nodes idx_complete (troot (fold_left tstep hist (new_tree name ic trace))) /\
  all_nodes lit_nonempty (troot (fold_left tstep hist (new_tree name ic trace))) /\
  all_nodes idx_exact (troot (fold_left tstep hist (new_tree name ic trace))).
Proof.
  intros name ic trace hist W. pose proof (lit_reachable name ic trace hist W) as Hg.
  split; [exact (all_nodes_impl _ _ (good_idx_complete ic) _ Hg)|].
  split; [exact (all_nodes_impl _ _ (good_lit_nonempty ic) _ Hg)|].
  apply (all_nodes_impl _ _ (fun n (H : good ic n) => proj2 (proj2 H)) _ Hg).
Qed.

(* the guard [hist_wf] of Proofs/TreeNames.v is NOT enough: a literal piece may contain one kind
   of brace; longest_prefix then reports no common prefix *)
Definition cx_wf_hist : list top :=
  [OAdd (bs "/x{a") (HUser (bs "a")) [] [GET]; OAdd (bs "/x{b") (HUser (bs "b")) [] [GET]].
Definition cx_wf_tree : tree := fold_left tstep cx_wf_hist (new_tree (bs "r") [] false).

Example cx_wf_hist_facts : TreeNames.hist_wf cx_wf_hist = true /\ TokensSplit.hist_tokens cx_wf_hist = false /\
  all_accepted (new_tree (bs "r") [] false) cx_wf_hist = true /\
  map (fun c => (sval (nseg c), map (fun d => sval (nseg d)) (nchildren c))) (nchildren (troot cx_wf_tree)) =
    [(bs "/x", [bs "{a"; bs "{b"])].
Proof. vm_compute. repeat split. Qed.

Theorem lfd_hist_wf_refuted :
  ~ (forall name ic trace hist, TreeNames.hist_wf hist = true ->
       all_nodes lit_first_distinct (troot (fold_left tstep hist (new_tree name ic trace)))).
Proof.
  intro H. specialize (H (bs "r") [] false cx_wf_hist eq_refl). fold cx_wf_tree in H.
  set (x := TreeNames.kid 0 (troot cx_wf_tree)).
  assert (Ix : In x (nchildren (troot cx_wf_tree))) by (vm_compute; left; reflexivity).
  pose proof (all_nodes_here _ _ (all_nodes_child _ _ x H Ix)) as Hd.
  assert (E : 0 = 1).
  { apply (Hd 0 1 (TreeNames.kid 0 x) (TreeNames.kid 1 x) 123%N [97%N] [98%N]); vm_compute; reflexivity. }
  discriminate E.
Qed.

(* ================================================================ Part F : serving a literal route *)

Lemma all_nodes_desc : forall (P : node -> Prop) m n, all_nodes P m -> desc m n -> all_nodes P n.
Proof.
  intros P m n H D. induction D as [m ch Ich|m ch d Ich D IH].
  - exact (all_nodes_child _ m ch H Ich).
  - exact (IH (all_nodes_child _ m ch H Ich)).
Qed.

Lemma desc_trans : forall a b c, desc a b -> desc b c -> desc a c.
Proof.
  intros a b c D1 D2. induction D1 as [a ch Ich|a ch d Ich D IH].
  - exact (desc_step a ch c Ich D2).
  - exact (desc_step a ch c Ich (IH D2)).
Qed.

Lemma lit_styp : forall c, is_lit c = true -> styp (nseg c) = TString.
Proof. exact is_lit_styp. Qed.

Lemma lit_match : forall c rest ps, is_lit c = true ->
  seg_match (nseg c) (sval (nseg c) ++ rest) ps = Some (rest, ps).
Proof.
  intros c rest ps L. unfold seg_match. rewrite (lit_styp c L), has_prefix_app.
  now rewrite TreeFind.skipn_len_app.
Qed.

Lemma lit_no_match : forall c b r b' path ps, is_lit c = true -> sval (nseg c) = b :: r -> b <> b' ->
  seg_match (nseg c) (b' :: path) ps = None.
Proof.
  intros c b r b' path ps L S Nb. unfold seg_match. rewrite (lit_styp c L), S. cbn [has_prefix].
  destruct (N.eqb_spec b b') as [E|_]; [now elim Nb | reflexivity].
Qed.

Lemma lit_no_match_nil : forall c ps, is_lit c = true -> sval (nseg c) <> [] -> seg_match (nseg c) [] ps = None.
Proof.
  intros c ps L Hne. unfold seg_match. rewrite (lit_styp c L).
  destruct (sval (nseg c)) as [|b r]; [now elim Hne | reflexivity].
Qed.

Lemma mc_loop_skip : forall f n path pre l ps,
  (forall d, In d pre -> seg_match (nseg d) path ps = None) ->
  mc_loop f n path (pre ++ l) ps = mc_loop f n path l ps.
Proof.
  intros f n path pre l ps. induction pre as [|d pre IH]; intro H; [reflexivity|].
  cbn [app]. rewrite mc_loop_cons_eq, (H d (or_introl eq_refl)). apply IH.
  intros x Ix. apply H. now right.
Qed.

(* one step down the chain: the literal child that spells the next part of the path wins *)
Lemma lit_step : forall ic f m c rest r q, good ic m -> order_ok m -> In c (nchildren m) -> is_lit c = true ->
  match_children f c rest [] = MFound r q ->
  match_children (S f) m (sval (nseg c) ++ rest) [] = MFound r q.
Proof.
  intros ic f m c rest r q Hg Ho Ic L MC.
  pose proof (good_lfd ic m Hg) as Hfd.
  destruct (nindexes m) as [|ix0 ixs] eqn:IX.
  - rewrite match_children_S. cbv zeta. rewrite IX. cbn [length skipn].
    destruct (in_split c (nchildren m) Ic) as [pre [post E]].
    assert (Hc : nth_error (nchildren m) (length pre) = Some c).
    { rewrite E, nth_error_app2 by lia. now rewrite Nat.sub_diag. }
    destruct (sval (nseg c)) as [|b lab] eqn:S; [elim (good_lit_nonempty_all ic m Hg c Ic S)|].
    rewrite E, mc_loop_skip.
    + rewrite mc_loop_cons_eq. rewrite <- S, (lit_match c rest [] L), MC. reflexivity.
    + intros d Id. destruct (In_nth_error _ _ Id) as [i Hi].
      assert (Hlt : i < length pre) by (apply nth_error_Some; congruence).
      assert (Hd : nth_error (nchildren m) i = Some d) by (rewrite E, nth_error_app1 by exact Hlt; exact Hi).
      assert (Ld : is_lit d = true) by exact (literal_children_first m Ho i (length pre) d c Hlt Hd Hc L).
      assert (Idm : In d (nchildren m)) by exact (nth_error_In _ _ Hd).
      destruct (sval (nseg d)) as [|b' lab'] eqn:Sd; [elim (good_lit_nonempty_all ic m Hg d Idm Sd)|].
      cbn [app]. apply (lit_no_match d b' lab' b _ [] Ld Sd). intros ->.
      assert (Ei : i = length pre) by exact (Hfd i (length pre) d c b lab' lab Hd Hc Ld L Sd S). lia.
  - apply (literal_indexed f m _ [] c rest r q).
    + rewrite IX. discriminate.
    + exact (good_idx_complete ic m Hg).
    + exact Hfd.
    + exact (good_lit_nonempty ic m Hg).
    + exact Ic.
    + exact L.
    + exact (lit_match c rest [] L).
    + exact MC.
Qed.

(* what the search does at the node that spells the whole path *)
Lemma mc_loop_all_none : forall f n l ps, (forall d, In d l -> seg_match (nseg d) [] ps = None) ->
  mc_loop f n [] l ps = if Nat.ltb O (nsize n) then MFound n ps else MNone ps.
Proof.
  intros f n l ps H. rewrite <- (app_nil_r l), mc_loop_skip by exact H. reflexivity.
Qed.

Definition no_empty_param (n : node) : Prop :=
  forall c, In c (nchildren n) -> is_lit c = true \/ seg_match (nseg c) [] [] = None.

Lemma lit_here : forall ic f n, good ic n -> nhandlers n <> [] -> no_empty_param n ->
  match_children (S f) n [] [] = MFound n [].
Proof.
  intros ic f n Hg Hh He. rewrite match_children_S. cbv zeta.
  assert (E : mc_loop f n [] (skipn (length (nindexes n)) (nchildren n)) [] = MFound n []).
  { rewrite mc_loop_all_none.
    - unfold nsize. destruct (nhandlers n); [now elim Hh | reflexivity].
    - intros d Id. apply incl_skipn in Id. destruct (He d Id) as [L|N]; [|exact N].
      exact (lit_no_match_nil d [] L (good_lit_nonempty_all ic n Hg d Id)). }
  destruct (nindexes n); exact E.
Qed.

(* whatever the search finds lies in the subtree and has handlers *)
Lemma match_found_below : forall f n path ps r q, match_children f n path ps = MFound r q ->
  (r = n \/ desc n r) /\ 0 < nsize r.
Proof.
  induction f as [|f IH]; intros n path ps r q H; [discriminate H|].
  destruct (match_children_found_cases _ _ _ _ _ _ H) as
    [[Hr [_ [_ [Hs _]]]] | [[c [p1 [ps1 [Hi [_ MC]]]]] | [pre [c [post [p1 [ps1 [Hl [_ [_ [_ MC]]]]]]]]]]].
  - subst r. split; [now left | exact Hs].
  - assert (Ic : In c (nchildren n)) by (apply (idx_child_In n path); rewrite Hi; now left).
    destruct (IH _ _ _ _ _ MC) as [[->|D] Hs]; (split; [right | exact Hs]);
      [now apply desc_child | now apply (desc_step n c)].
  - assert (Ic : In c (nchildren n)).
    { apply tail_of_incl. rewrite Hl. apply in_or_app. right. now left. }
    destruct (IH _ _ _ _ _ MC) as [[->|D] Hs]; (split; [right | exact Hs]);
      [now apply desc_child | now apply (desc_step n c)].
Qed.

Lemma lit_here_general : forall f n, all_nodes idx_ok n -> height n <= S f -> nhandlers n <> [] ->
  exists r q, match_children (S f) n [] [] = MFound r q.
Proof.
  intros f n Hi Hh Hn.
  destruct (match_children (S f) n [] []) as [r q|q|s] eqn:MC.
  - now exists r, q.
  - apply match_children_none_cases in MC. destruct MC as [_ [_ [_ [Hp|Hz]]]]; [now elim Hp|].
    unfold nsize in Hz. destruct (nhandlers n); [now elim Hn | discriminate Hz].
  - elim (match_children_no_panic (S f) n [] [] Hi Hh s MC).
Qed.

Definition no_brace (p : bytes) : Prop := forall c, In c p -> c <> 123%N /\ c <> 125%N.

Lemma nbseg_no_brace_lit : forall ic x, nbseg ic (nseg x) -> no_brace (sval (nseg x)) -> is_lit x = true.
Proof.
  intros ic x [_ [_ [_ P]]] Hnb. apply isparam_false_lit.
  destruct (isparam (nseg x)) eqn:Q; [|reflexivity]. exfalso.
  destruct (P eq_refl) as [body [suf [E _]]].
  assert (I : In 123%N (sval (nseg x))) by (rewrite E; now left).
  exact (proj1 (Hnb _ I) eq_refl).
Qed.

Lemma no_brace_app : forall a b, no_brace (a ++ b) -> no_brace a /\ no_brace b.
Proof.
  intros a b H. split; intros c I; apply H; apply in_or_app; [now left | now right].
Qed.

(* down the chain of literal labels from m to its descendant n: the search at m on the text
   between them ends with whatever the search at n finds on the empty rest *)
Lemma lit_chain : forall ic m n, desc m n -> G ic m -> all_nodes order_ok m -> all_nodes TreeText.pat_ok m ->
  exists rest, npat n = npat m ++ rest /\
    (no_brace rest -> forall f, height m <= f -> exists f', height n <= f' /\
       forall r q, match_children f' n [] [] = MFound r q -> match_children f m rest [] = MFound r q).
Proof.
  intros ic m n D. induction D as [m ch Ich|m ch d Ich D IH]; intros Hg Ho Hp.
  - exists (sval (nseg ch)). split; [exact (all_nodes_here _ _ Hp ch Ich)|].
    intros Hnb f Hf. pose proof (height_child m ch Ich) as Hh.
    destruct f as [|f1]; [lia|]. exists f1. split; [lia|]. intros r q MC.
    pose proof (all_nodes_here _ _ Hg) as Hgm.
    assert (L : is_lit ch = true) by exact (nbseg_no_brace_lit ic ch (proj1 Hgm ch Ich) Hnb).
    rewrite <- (app_nil_r (sval (nseg ch))).
    exact (lit_step ic f1 m ch [] r q Hgm (all_nodes_here _ _ Ho) Ich L MC).
  - destruct (IH (all_nodes_child _ m ch Hg Ich) (all_nodes_child _ m ch Ho Ich) (all_nodes_child _ m ch Hp Ich))
      as [rest' [E Hrest]].
    exists (sval (nseg ch) ++ rest'). split.
    + rewrite E, (all_nodes_here _ _ Hp ch Ich). now rewrite app_assoc.
    + intros Hnb f Hf. pose proof (height_child m ch Ich) as Hh.
      destruct (no_brace_app _ _ Hnb) as [Hnb1 Hnb2].
      destruct f as [|f1]; [lia|].
      destruct (Hrest Hnb2 f1) as [f' [Hf' Himp]]; [lia|].
      exists f'. split; [exact Hf'|]. intros r q MC.
      pose proof (all_nodes_here _ _ Hg) as Hgm.
      assert (L : is_lit ch = true) by exact (nbseg_no_brace_lit ic ch (proj1 Hgm ch Ich) Hnb1).
      exact (lit_step ic f1 m ch rest' r q Hgm (all_nodes_here _ _ Ho) Ich L (Himp r q MC)).
Qed.


(* ---------------------------------------------------------------- the dispatch *)

Lemma reach_facts : forall name ic trace hist, TokensSplit.hist_tokens hist = true ->
  let t := fold_left tstep hist (new_tree name ic trace) in
  G ic (troot t) /\ all_nodes order_ok (troot t) /\ all_nodes TreeText.pat_ok (troot t) /\
  npat (troot t) = [] /\ tree_safe t.
Proof.
  intros name ic trace hist W t. split; [exact (lit_reachable name ic trace hist W)|].
  split; [exact (order_reachable name ic trace hist)|].
  assert (Hp : TreeText.tree_pat_ok t).
  { unfold t. rewrite <- TreeNames.fold_tt. apply TreeText.pat_reachable. }
  split; [exact (proj1 Hp)|]. split; [exact (proj2 Hp)|].
  exact (hist_safe hist _ (new_tree_safe name ic trace)).
Qed.

Lemma handler_found : forall t method p r q, ttrace t = None \/ method <> TRACE -> p <> [] -> p <> bs "*" ->
  match_children (tree_fuel t) (troot t) p [] = MFound r q -> 0 < nsize r -> h405_ok r ->
  exists h405, alookup M405 (nhandlers r) = Some h405 /\
    tree_handler t method p [] =
    match lookup_handler method (nhandlers r) with
    | Some h => HFound true (Some r) h q
    | None => HFound false (Some r) h405 q
    end.
Proof.
  intros t method p r q Htr Hne Hstar MC Hs H405.
  assert (A : exists h405, alookup M405 (nhandlers r) = Some h405).
  { destruct H405 as [E|E]; [unfold nsize in Hs; rewrite E in Hs; simpl in Hs; lia|].
    unfold ahas in E. destruct (alookup M405 (nhandlers r)) as [h|]; [now exists h | discriminate E]. }
  destruct A as [h405 A]. exists h405. split; [exact A|].
  rewrite tree_handler_eq.
  assert (T : match ttrace t with Some h => if beqb method TRACE then Some h else None | None => None end = None).
  { destruct (ttrace t) as [h|]; [|reflexivity].
    destruct Htr as [E|Nm]; [discriminate E|]. apply beqb_neq in Nm. now rewrite Nm. }
  rewrite T. apply beqb_neq in Hne. apply beqb_neq in Hstar. rewrite Hne, Hstar. cbn [orb].
  rewrite MC. unfold handler_of.
  destruct (Nat.eqb_spec (nsize r) 0) as [E|_]; [lia|]. now rewrite A.
Qed.

(* the search from the root on the text of a brace-free route ends with the search at its node *)
Lemma root_chain : forall name ic trace hist n, TokensSplit.hist_tokens hist = true ->
  let t := fold_left tstep hist (new_tree name ic trace) in
  desc (troot t) n -> no_brace (npat n) ->
  exists f', height n <= f' /\
    forall r q, match_children f' n [] [] = MFound r q ->
                match_children (tree_fuel t) (troot t) (npat n) [] = MFound r q.
Proof.
  intros name ic trace hist n W t D Hnb.
  destruct (reach_facts name ic trace hist W) as [Hg [Ho [Hp [Hroot _]]]]. fold t in Hg, Ho, Hp, Hroot.
  destruct (lit_chain ic (troot t) n D Hg Ho Hp) as [rest [E Hrest]].
  rewrite Hroot in E. cbn [app] in E. rewrite E in Hnb |- *.
  apply (Hrest Hnb). unfold tree_fuel. lia.
Qed.

Definition served (t : tree) (method p : bytes) (n : node) (ps : params) : Prop :=
  exists h405, alookup M405 (nhandlers n) = Some h405 /\
    tree_handler t method p [] =
    match lookup_handler method (nhandlers n) with
    | Some h => HFound true (Some n) h ps
    | None => HFound false (Some n) h405 ps
    end.

(* Part 3, method level: the node spelling p answers, with the handler of the method or the 405 *)
Theorem literal_route_method : forall name ic trace hist p n method,
  TokensSplit.hist_tokens hist = true ->
  let t := fold_left tstep hist (new_tree name ic trace) in
  desc (troot t) n -> npat n = p -> nhandlers n <> [] -> no_brace p -> p <> [] -> p <> bs "*" ->
  ttrace t = None \/ method <> TRACE -> no_empty_param n ->
  served t method p n [].
Proof.
  intros name ic trace hist p n method W t D Ep Hh Hnb Hne Hstar Htr He. subst p.
  destruct (reach_facts name ic trace hist W) as [Hg [_ [_ [_ [Hsafe _]]]]]. fold t in Hg, Hsafe.
  destruct (root_chain name ic trace hist n W D Hnb) as [f' [Hf' Himp]]. fold t in Himp.
  pose proof (all_nodes_here _ _ (all_nodes_desc _ _ _ Hg D)) as Hgn.
  pose proof (height_eq n) as Hhn. destruct f' as [|f2]; [lia|].
  pose proof (Himp n [] (lit_here ic f2 n Hgn Hh He)) as MC.
  apply (handler_found t method (npat n) n [] Htr Hne Hstar MC).
  - unfold nsize. destruct (nhandlers n); [now elim Hh | simpl; lia].
  - exact (proj2 (all_nodes_here _ _ (all_nodes_desc _ _ _ Hsafe D))).
Qed.

Lemma served_found : forall t method p n ps, served t method p n ps ->
  exists ok h, tree_handler t method p [] = HFound ok (Some n) h ps /\
    (ok = true <-> lookup_handler method (nhandlers n) <> None).
Proof.
  intros t method p n ps [h405 [A E]]. destruct (lookup_handler method (nhandlers n)) as [h|].
  - exists true, h. split; [exact E|]. split; [discriminate | reflexivity].
  - exists false, h405. split; [exact E|]. split; [discriminate | intro X; now elim X].
Qed.

(* the statement of the task with the proviso [no_empty_param n] *)
Theorem literal_route_served_partial : forall name ic trace hist p n method,
  TokensSplit.hist_tokens hist = true ->
  let t := fold_left tstep hist (new_tree name ic trace) in
  desc (troot t) n -> npat n = p -> nhandlers n <> [] -> no_brace p -> p <> [] -> p <> bs "*" ->
  ttrace t = None \/ method <> TRACE -> no_empty_param n ->
  exists ok n' h ps, tree_handler t method p [] = HFound ok (Some n') h ps /\ npat n' = p /\
    nhandlers n' <> [] /\ ps = [].
Proof.
  intros name ic trace hist p n method W t D Ep Hh Hnb Hne Hstar Htr He.
  destruct (served_found _ _ _ _ _ (literal_route_method name ic trace hist p n method W D Ep Hh Hnb Hne Hstar Htr He))
    as [ok [h [E _]]].
  exists ok, n, h, []. split; [exact E|]. split; [exact Ep|]. split; [exact Hh | reflexivity].
Qed.

(* without the proviso: never a 404; the answer comes from the node or from below it *)
Theorem literal_route_not_404 : forall name ic trace hist p n method,
  TokensSplit.hist_tokens hist = true ->
  let t := fold_left tstep hist (new_tree name ic trace) in
  desc (troot t) n -> npat n = p -> nhandlers n <> [] -> no_brace p -> p <> [] -> p <> bs "*" ->
  ttrace t = None \/ method <> TRACE ->
  exists n' ps, (n' = n \/ desc n n') /\ nhandlers n' <> [] /\ served t method p n' ps.
Proof.
  intros name ic trace hist p n method W t D Ep Hh Hnb Hne Hstar Htr. subst p.
  destruct (reach_facts name ic trace hist W) as [_ [_ [_ [_ [Hsafe _]]]]]. fold t in Hsafe.
  destruct (root_chain name ic trace hist n W D Hnb) as [f' [Hf' Himp]]. fold t in Himp.
  pose proof (all_nodes_desc _ _ _ Hsafe D) as Hsn.
  pose proof (height_eq n) as Hhn. destruct f' as [|f2]; [lia|].
  assert (Hi : all_nodes idx_ok n).
  { apply (all_nodes_impl node_safe idx_ok); [intros x Hx; exact (proj1 Hx) | exact Hsn]. }
  destruct (lit_here_general f2 n Hi Hf' Hh) as [r [q MCn]].
  destruct (match_found_below _ _ _ _ _ _ MCn) as [Hb Hs].
  pose proof (Himp r q MCn) as MC.
  exists r, q. split; [exact Hb|]. split.
  - intro E. unfold nsize in Hs. rewrite E in Hs. simpl in Hs. lia.
  - apply (handler_found t method (npat n) r q Htr Hne Hstar MC Hs).
    assert (Hr : all_nodes node_safe r).
    { destruct Hb as [->|Dr]; [exact Hsn | exact (all_nodes_desc _ _ _ Hsn Dr)]. }
    exact (proj2 (all_nodes_here _ _ Hr)).
Qed.

(* ---------------------------------------------------------------- the statement as given is false *)

Definition cx_served_hist : list top :=
  [OAdd (bs "/a") (HUser (bs "/a")) [] [GET]; OAdd (bs "/a{id}") (HUser (bs "/a{id}")) [] [GET]].
Definition cx_served_tree : tree := fold_left tstep cx_served_hist (new_tree (bs "r") [] false).

Example cx_served_facts :
  TokensSplit.hist_tokens cx_served_hist = true /\
  all_accepted (new_tree (bs "r") [] false) cx_served_hist = true /\
  match tree_handler cx_served_tree GET (bs "/a") [] with
  | HFound true (Some n) (HUser u) ps => npat n = bs "/a{id}" /\ u = bs "/a{id}" /\ ps = [(bs "id", [])]
  | _ => False
  end.
Proof. vm_compute. repeat split. Qed.

Theorem literal_route_served_refuted :
  ~ (forall name ic trace hist p n method, TokensSplit.hist_tokens hist = true ->
       let t := fold_left tstep hist (new_tree name ic trace) in
       desc (troot t) n -> npat n = p -> nhandlers n <> [] -> no_brace p -> p <> [] -> p <> bs "*" ->
       ttrace t = None \/ method <> TRACE ->
       exists ok n' h ps, tree_handler t method p [] = HFound ok (Some n') h ps /\ npat n' = p /\
         nhandlers n' <> [] /\ ps = []).
Proof.
  intro H.
  specialize (H (bs "r") [] false cx_served_hist (bs "/a") (TreeNames.kid 0 (troot cx_served_tree)) GET eq_refl).
  cbv zeta in H. fold cx_served_tree in H.
  destruct H as [ok [n' [h [ps [E [_ [_ Eps]]]]]]].
  - apply desc_child. vm_compute. left. reflexivity.
  - vm_compute. reflexivity.
  - vm_compute. discriminate.
  - intros c I. vm_compute in I. destruct I as [<-|[<-|[]]]; split; discriminate.
  - discriminate.
  - vm_compute. discriminate.
  - left. reflexivity.
  - subst ps. vm_compute in E. discriminate E.
Qed.

(* ================================================================ example *)

Definition ex_add (p : String.string) : top := OAdd (bs p) (HUser (bs p)) [] [GET].
Definition ex_lit_hist : list top :=
  [ex_add "/a"; ex_add "/b"; ex_add "/c"; ex_add "/d"; ex_add "/e"; ex_add "/{id}"; ex_add "/ab/c";
   ORemove (bs "/c") []].
Notation ex_lit_tree := (fold_left tstep ex_lit_hist (new_tree (bs "r") [] false)).
Definition ex_node_e : node := TreeNames.kid 3 (TreeNames.kid 0 (troot ex_lit_tree)).
Definition ex_node_abc : node := TreeNames.kid 0 (TreeNames.kid 0 (TreeNames.kid 0 (troot ex_lit_tree))).

Example ex_lit_accepted : TokensSplit.hist_tokens ex_lit_hist = true /\
  all_accepted (new_tree (bs "r") [] false) ex_lit_hist = true /\
  length (nindexes (TreeNames.kid 0 (troot ex_lit_tree))) = 4.
Proof. vm_compute. repeat split. Qed.

Example ex_lit_dispatch :
  tree_handler ex_lit_tree GET (bs "/ab/c") [] = HFound true (Some ex_node_abc) (HUser (bs "/ab/c")) [] /\
  tree_handler ex_lit_tree GET (bs "/e") [] = HFound true (Some ex_node_e) (HUser (bs "/e")) [] /\
  tree_handler ex_lit_tree POST (bs "/e") [] = HFound false (Some ex_node_e) HNotAllowed [] /\
  npat ex_node_abc = bs "/ab/c" /\ npat ex_node_e = bs "/e" /\
  match tree_handler ex_lit_tree GET (bs "/c") [] with
  | HFound true (Some n) _ ps => npat n = bs "/{id}" /\ ps = [(bs "id", bs "c")]
  | _ => False
  end.
Proof. vm_compute. repeat split. Qed.

Lemma ex_no_brace : forall s, TokensSplit.nobr s = true -> no_brace s.
Proof. intros s H c I. destruct (TokensSplit.nobr_NB s H) as [N3 N5]. split; intros ->; auto. Qed.

(* the premises of the theorems hold for the two routes *)
Example ex_lit_premises :
  desc (troot ex_lit_tree) ex_node_e /\ npat ex_node_e = bs "/e" /\ nhandlers ex_node_e <> [] /\
  no_brace (bs "/e") /\ no_empty_param ex_node_e /\
  desc (troot ex_lit_tree) ex_node_abc /\ npat ex_node_abc = bs "/ab/c" /\ nhandlers ex_node_abc <> [] /\
  no_brace (bs "/ab/c") /\ no_empty_param ex_node_abc.
Proof.
  assert (I0 : In (TreeNames.kid 0 (troot ex_lit_tree)) (nchildren (troot ex_lit_tree)))
    by (vm_compute; left; reflexivity).
  assert (Ie : In ex_node_e (nchildren (TreeNames.kid 0 (troot ex_lit_tree))))
    by (vm_compute; do 3 right; left; reflexivity).
  assert (Ia : In (TreeNames.kid 0 (TreeNames.kid 0 (troot ex_lit_tree))) (nchildren (TreeNames.kid 0 (troot ex_lit_tree))))
    by (vm_compute; left; reflexivity).
  assert (Iabc : In ex_node_abc (nchildren (TreeNames.kid 0 (TreeNames.kid 0 (troot ex_lit_tree)))))
    by (vm_compute; left; reflexivity).
  split; [exact (desc_step _ _ _ I0 (desc_child _ _ Ie))|].
  split; [vm_compute; reflexivity|]. split; [vm_compute; discriminate|].
  split; [apply ex_no_brace; vm_compute; reflexivity|].
  split; [intros c Ic; vm_compute in Ic; destruct Ic|].
  split; [exact (desc_step _ _ _ I0 (desc_step _ _ _ Ia (desc_child _ _ Iabc)))|].
  split; [vm_compute; reflexivity|]. split; [vm_compute; discriminate|].
  split; [apply ex_no_brace; vm_compute; reflexivity|].
  intros c Ic. vm_compute in Ic. destruct Ic.
Qed.

(* the theorem applied to the example *)
Example ex_lit_served : served ex_lit_tree GET (bs "/e") ex_node_e [] /\
                        served ex_lit_tree POST (bs "/ab/c") ex_node_abc [].
Proof.
  destruct ex_lit_premises as [D1 [P1 [H1 [B1 [E1 [D2 [P2 [H2 [B2 E2]]]]]]]]].
  assert (S1 : bs "/e" <> bs "*") by (vm_compute; discriminate).
  assert (S2 : bs "/ab/c" <> bs "*") by (vm_compute; discriminate).
  assert (N1 : bs "/e" <> []) by (vm_compute; discriminate).
  assert (N2 : bs "/ab/c" <> []) by (vm_compute; discriminate).
  split.
  - exact (literal_route_method (bs "r") [] false ex_lit_hist (bs "/e") ex_node_e GET
             (proj1 ex_lit_accepted) D1 P1 H1 B1 N1 S1 (or_introl eq_refl) E1).
  - exact (literal_route_method (bs "r") [] false ex_lit_hist (bs "/ab/c") ex_node_abc POST
             (proj1 ex_lit_accepted) D2 P2 H2 B2 N2 S2 (or_introl eq_refl) E2).
Qed.
