(* Lifting the tree-level theorems to the ROUTER (Model/Router.v) and to the Prefix / Resource
   facades.

   Model/Router.v: a router is (rtree, rms, rdomain).
     r_handle r p h mws ms = tree_add (rtree r) p h (mws ++ rms r) ms      (registration middlewares,
                                                                           then the router's Use list)
     r_remove / r_clean    = tree_remove / tree_clean on rtree, other fields kept
     r_use r mws           = tree_apply_mw on rtree, rms := rms ++ mws
   Router histories are [rop] / [rstep] of Proofs/TreeOnion.v (a rejected call keeps the router).
   A request is served by Router.serveContext = [serve_ctx] (Model/Group.v):
     serve_ctx r recover rs method path ps0 = tree_handler (rtree r) method path ps0, then [finish]
   (run the handler term, recover).  So the router's dispatch function IS [tree_handler (rtree r)];
   the theorems below are stated on it, and [serve_ctx] forms are given where the wrapping matters.

   Part 1: the translation [tr_hist] of a router history into a tree history and the simulation.
   Part 2: the corollaries (frame, removed-not-served, witnesses, table, resolver, totality, text).
   Part 3: facade programs [fop] and their desugaring to [rop].
   Theorems are re-exported by Props/C03router.v. *)
From Coq Require Import String Permutation.
From Mux Require Import Model.Bytes Model.Regex Model.Context Model.Syntax Model.Tree Model.Router Model.Group
     Spec.Table Spec.Resolve
     Proofs.BytesFacts Proofs.MatchSound Proofs.TreeSafe Proofs.TreeText Proofs.TreeOrder Proofs.MatchOrder
     Proofs.TreeFind Proofs.TreeNames Proofs.TokensSplit Proofs.TreeLit Proofs.TreeOnion
     Proofs.TreeFrame Proofs.TreeGone Proofs.TreeWitness Proofs.TreeAbs Proofs.TreeResolve Proofs.TreeResolve2
     Proofs.Facade.

(* ================================================================ Part 1 : the translation *)

(* the tree operation a router operation performs when the router's Use list is [uses] *)
Definition top_of (uses : list bytes) (op : rop) : top :=
  match op with
  | RHandle p id mws ms => OAdd p (HUser id) (mws ++ uses) ms
  | RRemove p ms => ORemove p ms
  | RClean prefix => OClean prefix
  | RUse mws => OUse mws
  end.

(* the router's Use list after the operation *)
Definition uses_after (uses : list bytes) (op : rop) : list bytes :=
  match op with RUse mws => uses ++ mws | _ => uses end.

Fixpoint tr_from (uses : list bytes) (rhist : list rop) : list top :=
  match rhist with
  | [] => []
  | op :: rest => top_of uses op :: tr_from (uses_after uses op) rest
  end.

Definition tr_hist (rhist : list rop) : list top := tr_from [] rhist.

(* all middlewares given to Use, in order *)
Definition rhist_uses (rhist : list rop) : list bytes := fold_left uses_after rhist [].

(* what a call names: the pattern of Handle / Remove, the prefix of Clean *)
Definition top_pattern (op : top) : option bytes :=
  match op with OAdd p _ _ _ => Some p | ORemove p _ => Some p | OClean p => Some p | OUse _ => None end.
Definition rop_pattern (op : rop) : option bytes :=
  match op with RHandle p _ _ _ => Some p | RRemove p _ => Some p | RClean p => Some p | RUse _ => None end.

(* the method list of a call *)
Definition top_methods (op : top) : list bytes :=
  match op with OAdd _ _ _ ms => ms | ORemove _ ms => ms | _ => [] end.
Definition rop_methods (op : rop) : list bytes :=
  match op with RHandle _ _ _ ms => ms | RRemove _ ms => ms | _ => [] end.

(* the kind of a call: 0 Handle, 1 Remove, 2 Clean, 3 Use *)
Definition top_kind (op : top) : nat :=
  match op with OAdd _ _ _ _ => 0 | ORemove _ _ => 1 | OClean _ => 2 | OUse _ => 3 end.
Definition rop_kind (op : rop) : nat :=
  match op with RHandle _ _ _ _ => 0 | RRemove _ _ => 1 | RClean _ => 2 | RUse _ => 3 end.

(* the guards, at router level *)
Definition rop_tokens (op : rop) : bool :=
  match op with
  | RHandle p _ _ _ => match tokens p with Some _ => true | None => false end
  | _ => true
  end.
Definition rhist_tokens (rhist : list rop) : bool := forallb rop_tokens rhist.

Definition rop_add_only (op : rop) : bool :=
  match op with RHandle _ _ _ _ | RUse _ => true | _ => false end.
Definition rhist_add_only (rhist : list rop) : bool := forallb rop_add_only rhist.

Definition rop_canon (op : rop) : Prop := match op with RHandle p _ _ _ => pat_canon p | _ => True end.
Definition rhist_canon (rhist : list rop) : Prop := Forall rop_canon rhist.
Definition rop_canonb (op : rop) : bool := match op with RHandle p _ _ _ => colon_ok 0 p | _ => true end.
Definition rhist_canonb (rhist : list rop) : bool := forallb rop_canonb rhist.

(* ---------------------------------------------------------------- one step *)

Lemma rkeep_with_tree : forall rt x,
  rkeep rt (do t <- x; Ok (with_tree rt t)) = with_tree rt (keep (rtree rt) x).
Proof.
  intros [t u d] x. destruct x as [t'|e|s|]; reflexivity.
Qed.

Lemma rstep_tree : forall rt op, rtree (rstep rt op) = tstep (rtree rt) (top_of (rms rt) op).
Proof.
  intros rt op. destruct op as [p id mws ms|p ms|prefix|mws]; cbn [rstep top_of tstep].
  - unfold r_handle. rewrite rkeep_with_tree. reflexivity.
  - unfold r_remove. rewrite rkeep_with_tree. reflexivity.
  - unfold r_clean. rewrite rkeep_with_tree. reflexivity.
  - reflexivity.
Qed.

Lemma rstep_rms : forall rt op, rms (rstep rt op) = uses_after (rms rt) op.
Proof.
  intros rt op. destruct op as [p id mws ms|p ms|prefix|mws]; cbn [rstep uses_after].
  - unfold r_handle. rewrite rkeep_with_tree. reflexivity.
  - unfold r_remove. rewrite rkeep_with_tree. reflexivity.
  - unfold r_clean. rewrite rkeep_with_tree. reflexivity.
  - reflexivity.
Qed.

Lemma rstep_domain : forall rt op, rdomain (rstep rt op) = rdomain rt.
Proof.
  intros rt op. destruct op as [p id mws ms|p ms|prefix|mws]; cbn [rstep].
  - unfold r_handle. rewrite rkeep_with_tree. reflexivity.
  - unfold r_remove. rewrite rkeep_with_tree. reflexivity.
  - unfold r_clean. rewrite rkeep_with_tree. reflexivity.
  - reflexivity.
Qed.

Lemma router_eta : forall rt, rt = {| rtree := rtree rt; rms := rms rt; rdomain := rdomain rt |}.
Proof. intros [t u d]. reflexivity. Qed.

Lemma rstep_eq : forall rt op,
  rstep rt op = {| rtree := tstep (rtree rt) (top_of (rms rt) op); rms := uses_after (rms rt) op;
                   rdomain := rdomain rt |}.
Proof.
  intros rt op. rewrite (router_eta (rstep rt op)). now rewrite rstep_tree, rstep_rms, rstep_domain.
Qed.

(* ---------------------------------------------------------------- histories *)

Lemma rfold_eq : forall rhist rt,
  fold_left rstep rhist rt =
  {| rtree := fold_left tstep (tr_from (rms rt) rhist) (rtree rt);
     rms := fold_left uses_after rhist (rms rt);
     rdomain := rdomain rt |}.
Proof.
  induction rhist as [|op rest IH]; intro rt.
  - cbn [fold_left tr_from]. apply router_eta.
  - cbn [fold_left tr_from]. rewrite IH. now rewrite rstep_tree, rstep_rms, rstep_domain.
Qed.

Lemma router_history_state : forall name ic trace domain rhist,
  fold_left rstep rhist (new_router name ic trace domain) =
  {| rtree := fold_left tstep (tr_hist rhist) (new_tree name ic trace);
     rms := rhist_uses rhist;
     rdomain := sanitize_domain domain |}.
Proof. intros name ic trace domain rhist. rewrite rfold_eq. reflexivity. Qed.

Lemma router_history_tree : forall name ic trace domain rhist,
  rtree (fold_left rstep rhist (new_router name ic trace domain)) =
  fold_left tstep (tr_hist rhist) (new_tree name ic trace).
Proof. intros name ic trace domain rhist. now rewrite router_history_state. Qed.

Lemma router_history_rms : forall name ic trace domain rhist,
  rms (fold_left rstep rhist (new_router name ic trace domain)) = rhist_uses rhist.
Proof. intros name ic trace domain rhist. now rewrite router_history_state. Qed.

(* the translation keeps everything but the middleware lists *)
Lemma tr_from_map : forall (A : Type) (f : top -> A) (g : rop -> A),
  (forall u op, f (top_of u op) = g op) -> forall rhist u, map f (tr_from u rhist) = map g rhist.
Proof.
  intros A f g H. induction rhist as [|op rest IH]; intro u; [reflexivity|].
  cbn [tr_from map]. now rewrite H, IH.
Qed.

Lemma tr_from_forallb : forall (f : top -> bool) (g : rop -> bool),
  (forall u op, f (top_of u op) = g op) -> forall rhist u, forallb f (tr_from u rhist) = forallb g rhist.
Proof.
  intros f g H. induction rhist as [|op rest IH]; intro u; [reflexivity|].
  cbn [tr_from forallb]. now rewrite H, IH.
Qed.

Lemma tr_from_length : forall rhist u, length (tr_from u rhist) = length rhist.
Proof. induction rhist as [|op rest IH]; intro u; [reflexivity|]. cbn [tr_from length]. now rewrite IH. Qed.

Lemma tr_patterns : forall rhist, map top_pattern (tr_hist rhist) = map rop_pattern rhist.
Proof. intro rhist. apply tr_from_map. intros u [p id mws ms|p ms|prefix|mws]; reflexivity. Qed.
Lemma tr_methods : forall rhist, map top_methods (tr_hist rhist) = map rop_methods rhist.
Proof. intro rhist. apply tr_from_map. intros u [p id mws ms|p ms|prefix|mws]; reflexivity. Qed.
Lemma tr_kinds : forall rhist, map top_kind (tr_hist rhist) = map rop_kind rhist.
Proof. intro rhist. apply tr_from_map. intros u [p id mws ms|p ms|prefix|mws]; reflexivity. Qed.

Lemma tr_tokens : forall rhist, hist_tokens (tr_hist rhist) = rhist_tokens rhist.
Proof. intro rhist. apply tr_from_forallb. intros u [p id mws ms|p ms|prefix|mws]; reflexivity. Qed.
Lemma tr_add_only : forall rhist, add_only (tr_hist rhist) = rhist_add_only rhist.
Proof. intro rhist. apply tr_from_forallb. intros u [p id mws ms|p ms|prefix|mws]; reflexivity. Qed.
Lemma tr_canonb : forall rhist, hist_canonb (tr_hist rhist) = rhist_canonb rhist.
Proof. intro rhist. apply tr_from_forallb. intros u [p id mws ms|p ms|prefix|mws]; reflexivity. Qed.

Lemma tr_from_canon : forall rhist u, hist_canon (tr_from u rhist) <-> rhist_canon rhist.
Proof.
  unfold hist_canon, rhist_canon. induction rhist as [|op rest IH]; intro u; cbn [tr_from].
  - split; intros _; constructor.
  - split; intro H; inversion H as [|x l Hx Hl]; subst; constructor.
    + destruct op as [p id mws ms|p ms|prefix|mws]; exact Hx.
    + now apply (IH (uses_after u op)).
    + destruct op as [p id mws ms|p ms|prefix|mws]; exact Hx.
    + now apply (IH (uses_after u op)).
Qed.
Lemma tr_canon : forall rhist, hist_canon (tr_hist rhist) <-> rhist_canon rhist.
Proof. intro rhist. apply tr_from_canon. Qed.

Lemma rhist_canonb_canon : forall rhist, rhist_canonb rhist = true -> rhist_canon rhist.
Proof. intros rhist H. apply tr_canon. apply hist_canonb_canon. now rewrite tr_canonb. Qed.

(* the i-th translated operation, explicitly *)
Lemma tr_from_app : forall a b u, tr_from u (a ++ b) = tr_from u a ++ tr_from (fold_left uses_after a u) b.
Proof.
  induction a as [|op rest IH]; intros b u; [reflexivity|].
  cbn [app tr_from fold_left]. now rewrite IH.
Qed.

Lemma tr_hist_snoc : forall rhist op,
  tr_hist (rhist ++ [op]) = tr_hist rhist ++ [top_of (rhist_uses rhist) op].
Proof. intros rhist op. unfold tr_hist. now rewrite tr_from_app. Qed.

Theorem router_history_is_tree_history : forall name ic trace domain rhist,
  rtree (fold_left rstep rhist (new_router name ic trace domain)) =
    fold_left tstep (tr_hist rhist) (new_tree name ic trace) /\
  rms (fold_left rstep rhist (new_router name ic trace domain)) = rhist_uses rhist /\
  map top_pattern (tr_hist rhist) = map rop_pattern rhist /\
  map top_methods (tr_hist rhist) = map rop_methods rhist /\
  map top_kind (tr_hist rhist) = map rop_kind rhist /\
  hist_tokens (tr_hist rhist) = rhist_tokens rhist.
Proof.
  intros name ic trace domain rhist.
  split; [apply router_history_tree|]. split; [apply router_history_rms|].
  split; [apply tr_patterns|]. split; [apply tr_methods|]. split; [apply tr_kinds|apply tr_tokens].
Qed.

(* ================================================================ Part 2 : corollaries at router level *)

(* Router.Remove / Router.Clean succeed exactly when the tree operation does *)
Lemma r_remove_ok : forall rt p ms rt', r_remove rt p ms = Ok rt' ->
  exists t', tree_remove (rtree rt) p ms = Ok t' /\ rt' = with_tree rt t'.
Proof.
  intros rt p ms rt' H. unfold r_remove in H. apply bind_ok in H. destruct H as [t' [Ht Hr]].
  exists t'. split; [exact Ht|]. now inversion Hr.
Qed.

Lemma r_clean_ok : forall rt prefix rt', r_clean rt prefix = Ok rt' ->
  exists t', tree_clean (rtree rt) prefix = Ok t' /\ rt' = with_tree rt t'.
Proof.
  intros rt prefix rt' H. unfold r_clean in H. apply bind_ok in H. destruct H as [t' [Ht Hr]].
  exists t'. split; [exact Ht|]. now inversion Hr.
Qed.

Lemma r_handle_ok : forall rt p h mws ms rt', r_handle rt p h mws ms = Ok rt' ->
  exists t', tree_add (rtree rt) p h (mws ++ rms rt) ms = Ok t' /\ rt' = with_tree rt t'.
Proof.
  intros rt p h mws ms rt' H. unfold r_handle in H. apply bind_ok in H. destruct H as [t' [Ht Hr]].
  exists t'. split; [exact Ht|]. now inversion Hr.
Qed.

Lemma rtree_with_tree : forall rt t, rtree (with_tree rt t) = t.
Proof. reflexivity. Qed.

(* ---------------------------------------------------------------- totality (C05) *)

Theorem router_serve_total : forall name ic trace domain rhist method path ps s,
  tree_handler (rtree (fold_left rstep rhist (new_router name ic trace domain))) method path ps <> HPanic s.
Proof.
  intros name ic trace domain rhist method path ps s. rewrite router_history_tree. apply serve_total.
Qed.

Lemma finish_ok : forall recover rs h rname path ps n, exists s, finish recover rs h rname path ps n = SOk s.
Proof.
  intros recover rs h rname path ps n. unfold finish. destruct (run_h rs h) as [|v]; eexists; reflexivity.
Qed.

Theorem router_serve_ctx_total : forall name ic trace domain rhist recover rs method path ps,
  serve_ctx (fold_left rstep rhist (new_router name ic trace domain)) recover rs method path ps <> SPanic.
Proof.
  intros name ic trace domain rhist recover rs method path ps. unfold serve_ctx.
  destruct (tree_handler _ method path ps) as [ok n h q|s] eqn:E.
  - destruct (finish_ok recover rs h (tname (rtree (fold_left rstep rhist (new_router name ic trace domain)))) path q n)
      as [s Hs]. rewrite Hs. discriminate.
  - exfalso. exact (router_serve_total _ _ _ _ _ _ _ _ _ E).
Qed.

(* what ServeHTTP does is determined by the answer of the tree *)
Lemma serve_ctx_found : forall rt recover rs method path ps0 ok n h ps,
  tree_handler (rtree rt) method path ps0 = HFound ok n h ps ->
  serve_ctx rt recover rs method path ps0 = finish recover rs h (tname (rtree rt)) path ps n.
Proof. intros rt recover rs method path ps0 ok n h ps H. unfold serve_ctx. now rewrite H. Qed.

(* Remove / Clean never fault on a router reached by a well-formed history *)
Theorem router_remove_total : forall name ic trace domain rhist p ms, rhist_tokens rhist = true ->
  exists rt', r_remove (fold_left rstep rhist (new_router name ic trace domain)) p ms = Ok rt'.
Proof.
  intros name ic trace domain rhist p ms W. unfold r_remove. rewrite router_history_tree.
  rewrite <- tr_tokens in W.
  destruct (remove_total_reachable name ic trace (tr_hist rhist) p ms W) as [t' Ht]. rewrite Ht.
  eexists. reflexivity.
Qed.

Theorem router_clean_total : forall name ic trace domain rhist prefix, rhist_tokens rhist = true ->
  exists rt', r_clean (fold_left rstep rhist (new_router name ic trace domain)) prefix = Ok rt'.
Proof.
  intros name ic trace domain rhist prefix W. unfold r_clean. rewrite router_history_tree.
  rewrite <- tr_tokens in W.
  destruct (clean_total_reachable name ic trace (tr_hist rhist) prefix W) as [t' Ht]. rewrite Ht.
  eexists. reflexivity.
Qed.

(* ---------------------------------------------------------------- frame (C03) *)

Theorem router_remove_frame : forall name ic trace domain rhist p ms method path ok n h ps rt',
  rhist_tokens rhist = true ->
  let rt := fold_left rstep rhist (new_router name ic trace domain) in
  tree_handler (rtree rt) method path [] = HFound ok (Some n) h ps ->
  npat n <> p ->
  r_remove rt p ms = Ok rt' ->
  exists n', tree_handler (rtree rt') method path [] = HFound ok (Some n') h ps /\ npat n' = npat n.
Proof.
  intros name ic trace domain rhist p ms method path ok n h ps rt' W rt H Hp Hr.
  apply r_remove_ok in Hr. destruct Hr as [t' [Ht ->]]. rewrite rtree_with_tree.
  subst rt. rewrite router_history_tree in H, Ht. rewrite <- tr_tokens in W.
  exact (C03_remove_frame_l name ic trace (tr_hist rhist) p ms method path ok n h ps t' W H Hp Ht).
Qed.

Theorem router_remove_frame_handlers : forall name ic trace domain rhist p ms method path ok n h ps rt',
  rhist_tokens rhist = true ->
  let rt := fold_left rstep rhist (new_router name ic trace domain) in
  tree_handler (rtree rt) method path [] = HFound ok (Some n) h ps ->
  npat n <> p ->
  r_remove rt p ms = Ok rt' ->
  exists n', tree_handler (rtree rt') method path [] = HFound ok (Some n') h ps /\ npat n' = npat n /\
    nhandlers n' = nhandlers n.
Proof.
  intros name ic trace domain rhist p ms method path ok n h ps rt' W rt H Hp Hr.
  apply r_remove_ok in Hr. destruct Hr as [t' [Ht ->]]. rewrite rtree_with_tree.
  subst rt. rewrite router_history_tree in H, Ht. rewrite <- tr_tokens in W.
  exact (C03_remove_frame_handlers_l name ic trace (tr_hist rhist) p ms method path ok n h ps t' W H Hp Ht).
Qed.

Theorem router_remove_frame_method : forall name ic trace domain rhist p ms method path n h ps rt',
  rhist_tokens rhist = true ->
  let rt := fold_left rstep rhist (new_router name ic trace domain) in
  tree_handler (rtree rt) method path [] = HFound true (Some n) h ps ->
  npat n = p ->
  ms <> [] -> ~ In method ms -> (In GET ms -> method <> HEAD) -> method <> OPTIONS ->
  r_remove rt p ms = Ok rt' ->
  exists n', tree_handler (rtree rt') method path [] = HFound true (Some n') h ps /\ npat n' = npat n.
Proof.
  intros name ic trace domain rhist p ms method path n h ps rt' W rt H Hp M1 M2 M3 M4 Hr.
  apply r_remove_ok in Hr. destruct Hr as [t' [Ht ->]]. rewrite rtree_with_tree.
  subst rt. rewrite router_history_tree in H, Ht. rewrite <- tr_tokens in W.
  exact (C03_remove_frame_method_l name ic trace (tr_hist rhist) p ms method path n h ps t' W H Hp M1 M2 M3 M4 Ht).
Qed.

Theorem router_remove_frame_404 : forall name ic trace domain rhist p ms method path h ps rt',
  rhist_tokens rhist = true ->
  let rt := fold_left rstep rhist (new_router name ic trace domain) in
  tree_handler (rtree rt) method path [] = HFound false None h ps ->
  r_remove rt p ms = Ok rt' ->
  tree_handler (rtree rt') method path [] = HFound false None h ps.
Proof.
  intros name ic trace domain rhist p ms method path h ps rt' W rt H Hr.
  apply r_remove_ok in Hr. destruct Hr as [t' [Ht ->]]. rewrite rtree_with_tree.
  subst rt. rewrite router_history_tree in H, Ht. rewrite <- tr_tokens in W.
  exact (C03_remove_frame_404_l name ic trace (tr_hist rhist) p ms method path h ps t' W H Ht).
Qed.

Theorem router_clean_frame : forall name ic trace domain rhist prefix method path ok n h ps rt',
  rhist_tokens rhist = true ->
  let rt := fold_left rstep rhist (new_router name ic trace domain) in
  tree_handler (rtree rt) method path [] = HFound ok (Some n) h ps ->
  has_prefix (npat n) prefix = false ->
  r_clean rt prefix = Ok rt' ->
  exists n', tree_handler (rtree rt') method path [] = HFound ok (Some n') h ps /\ npat n' = npat n.
Proof.
  intros name ic trace domain rhist prefix method path ok n h ps rt' W rt H Hp Hr.
  apply r_clean_ok in Hr. destruct Hr as [t' [Ht ->]]. rewrite rtree_with_tree.
  subst rt. rewrite router_history_tree in H, Ht. rewrite <- tr_tokens in W.
  exact (C03_clean_frame_l name ic trace (tr_hist rhist) prefix method path ok n h ps t' W H Hp Ht).
Qed.

Theorem router_clean_frame_handlers : forall name ic trace domain rhist prefix method path ok n h ps rt',
  rhist_tokens rhist = true ->
  let rt := fold_left rstep rhist (new_router name ic trace domain) in
  tree_handler (rtree rt) method path [] = HFound ok (Some n) h ps ->
  has_prefix (npat n) prefix = false ->
  r_clean rt prefix = Ok rt' ->
  exists n', tree_handler (rtree rt') method path [] = HFound ok (Some n') h ps /\ npat n' = npat n /\
    nhandlers n' = nhandlers n.
Proof.
  intros name ic trace domain rhist prefix method path ok n h ps rt' W rt H Hp Hr.
  apply r_clean_ok in Hr. destruct Hr as [t' [Ht ->]]. rewrite rtree_with_tree.
  subst rt. rewrite router_history_tree in H, Ht. rewrite <- tr_tokens in W.
  exact (C03_clean_frame_handlers_l name ic trace (tr_hist rhist) prefix method path ok n h ps t' W H Hp Ht).
Qed.

Theorem router_clean_frame_404 : forall name ic trace domain rhist prefix method path h ps rt',
  rhist_tokens rhist = true ->
  let rt := fold_left rstep rhist (new_router name ic trace domain) in
  tree_handler (rtree rt) method path [] = HFound false None h ps ->
  r_clean rt prefix = Ok rt' ->
  tree_handler (rtree rt') method path [] = HFound false None h ps.
Proof.
  intros name ic trace domain rhist prefix method path h ps rt' W rt H Hr.
  apply r_clean_ok in Hr. destruct Hr as [t' [Ht ->]]. rewrite rtree_with_tree.
  subst rt. rewrite router_history_tree in H, Ht. rewrite <- tr_tokens in W.
  exact (C03_clean_frame_404_l name ic trace (tr_hist rhist) prefix method path h ps t' W H Ht).
Qed.

(* the same at the level of ServeHTTP: the handler that runs, the parameters it sees, what is
   recovered and what escapes are unchanged; the answering node keeps its pattern *)
Definition same_service (s s' : Group.served) : Prop :=
  s_handler s' = s_handler s /\ s_router s' = s_router s /\ s_path s' = s_path s /\
  s_params s' = s_params s /\ s_recovered s' = s_recovered s /\ s_escaped s' = s_escaped s /\
  option_map npat (s_node s') = option_map npat (s_node s).

Lemma finish_same : forall recover rs h rname path ps n n', option_map npat n' = option_map npat n ->
  forall s, finish recover rs h rname path ps n = SOk s ->
  exists s', finish recover rs h rname path ps n' = SOk s' /\ same_service s s'.
Proof.
  intros recover rs h rname path ps n n' Hn s. unfold finish.
  destruct (run_h rs h) as [|v]; intro H; inversion H; subst; eexists; (split; [reflexivity|]);
    unfold same_service; cbn; repeat split; exact Hn.
Qed.

Lemma with_tree_name_remove : forall t p ms t', tree_remove t p ms = Ok t' -> tname t' = tname t.
Proof.
  intros t p ms t' H. pose proof (tname_tstep t (ORemove p ms)) as E. cbn [tstep] in E. rewrite H in E. exact E.
Qed.
Lemma with_tree_name_clean : forall t prefix t', tree_clean t prefix = Ok t' -> tname t' = tname t.
Proof.
  intros t prefix t' H. pose proof (tname_tstep t (OClean prefix)) as E. cbn [tstep] in E. rewrite H in E. exact E.
Qed.

Theorem router_remove_frame_served : forall name ic trace domain rhist p ms recover rs method path s rt',
  rhist_tokens rhist = true ->
  let rt := fold_left rstep rhist (new_router name ic trace domain) in
  serve_ctx rt recover rs method path [] = SOk s ->
  (forall n, s_node s = Some n -> npat n <> p) ->
  r_remove rt p ms = Ok rt' ->
  exists s', serve_ctx rt' recover rs method path [] = SOk s' /\ same_service s s'.
Proof.
  intros name ic trace domain rhist p ms recover rs method path s rt' W rt Hs Hn Hr.
  unfold serve_ctx in Hs. destruct (tree_handler (rtree rt) method path []) as [ok n h ps|site] eqn:E; [|discriminate].
  assert (Hnode : s_node s = n).
  { unfold finish in Hs. destruct (run_h rs h); inversion Hs; reflexivity. }
  assert (Hname : tname (rtree rt') = tname (rtree rt)).
  { destruct (r_remove_ok _ _ _ _ Hr) as [t' [Ht ->]]. rewrite rtree_with_tree. now apply with_tree_name_remove in Ht. }
  destruct n as [n|].
  - assert (Hp : npat n <> p) by (apply Hn; exact Hnode).
    destruct (router_remove_frame name ic trace domain rhist p ms method path ok n h ps rt' W E Hp Hr) as [n' [E' Hn']].
    rewrite (serve_ctx_found _ _ _ _ _ _ _ _ _ _ E'). rewrite Hname.
    apply (finish_same recover rs h _ path ps (Some n) (Some n')); [cbn; now rewrite Hn'|exact Hs].
  - assert (Hok : ok = false).
    { pose proof E as E0. unfold tree_handler in E0.
      destruct (match ttrace (rtree rt) with Some h0 => if beqb method TRACE then Some h0 else None | None => None end);
        [discriminate|].
      destruct (if beqb path (bs "*") || beqb path [] then MFound (troot (rtree rt)) []
                else match_children (tree_fuel (rtree rt)) (troot (rtree rt)) path []) as [m q|q|site]; try discriminate.
      - destruct (Nat.eqb (nsize m) 0); [now inversion E0|].
        destruct (lookup_handler method (nhandlers m)); [discriminate|].
        destruct (alookup M405 (nhandlers m)); discriminate.
      - now inversion E0. }
    subst ok.
    pose proof (router_remove_frame_404 name ic trace domain rhist p ms method path h ps rt' W E Hr) as E'.
    rewrite (serve_ctx_found _ _ _ _ _ _ _ _ _ _ E'). rewrite Hname.
    apply (finish_same recover rs h _ path ps None None); [reflexivity|exact Hs].
Qed.

(* ---------------------------------------------------------------- removed / cleaned is not served (C03) *)

Lemma rstep_remove_tree : forall name ic trace domain rhist p ms,
  rtree (rstep (fold_left rstep rhist (new_router name ic trace domain)) (RRemove p ms)) =
  tstep (fold_left tstep (tr_hist rhist) (new_tree name ic trace)) (ORemove p ms).
Proof. intros name ic trace domain rhist p ms. rewrite rstep_tree. cbn [top_of]. now rewrite router_history_tree. Qed.

Lemma rstep_clean_tree : forall name ic trace domain rhist prefix,
  rtree (rstep (fold_left rstep rhist (new_router name ic trace domain)) (RClean prefix)) =
  tstep (fold_left tstep (tr_hist rhist) (new_tree name ic trace)) (OClean prefix).
Proof. intros name ic trace domain rhist prefix. rewrite rstep_tree. cbn [top_of]. now rewrite router_history_tree. Qed.

Theorem router_removed_pair_not_served : forall name ic trace domain rhist p ms method path ok n h ps,
  rhist_tokens rhist = true ->
  let rt := fold_left rstep rhist (new_router name ic trace domain) in
  let rt' := rstep rt (RRemove p ms) in
  (ms = [] \/ In method ms) -> is_auto method = false -> p <> [] ->
  tree_handler (rtree rt') method path [] = HFound ok (Some n) h ps -> npat n = p -> ok = false.
Proof.
  intros name ic trace domain rhist p ms method path ok n h ps W rt rt' M A Hp H Hn.
  subst rt' rt. rewrite rstep_remove_tree in H. rewrite <- tr_tokens in W.
  exact (removed_pair_not_served name ic trace (tr_hist rhist) p ms method path ok n h ps W M A Hp H Hn).
Qed.

Theorem router_removed_not_served : forall name ic trace domain rhist p ms method path ok n h ps,
  rhist_tokens rhist = true ->
  let rt := fold_left rstep rhist (new_router name ic trace domain) in
  let rt' := rstep rt (RRemove p ms) in
  removes ms method -> p <> [] ->
  tree_handler (rtree rt') method path [] = HFound ok (Some n) h ps -> npat n = p -> ok = false.
Proof.
  intros name ic trace domain rhist p ms method path ok n h ps W rt rt' M Hp H Hn.
  subst rt' rt. rewrite rstep_remove_tree in H. rewrite <- tr_tokens in W.
  exact (removed_not_served name ic trace (tr_hist rhist) p ms method path ok n h ps W M Hp H Hn).
Qed.

Theorem router_removed_get_removes_head : forall name ic trace domain rhist p ms path ok n h ps,
  rhist_tokens rhist = true ->
  let rt := fold_left rstep rhist (new_router name ic trace domain) in
  let rt' := rstep rt (RRemove p ms) in
  (ms = [] \/ In GET ms) -> p <> [] ->
  tree_handler (rtree rt') HEAD path [] = HFound ok (Some n) h ps -> npat n = p -> ok = false.
Proof.
  intros name ic trace domain rhist p ms path ok n h ps W rt rt' M Hp H Hn.
  subst rt' rt. rewrite rstep_remove_tree in H. rewrite <- tr_tokens in W.
  exact (removed_get_removes_head name ic trace (tr_hist rhist) p ms path ok n h ps W M Hp H Hn).
Qed.

Theorem router_removed_route_not_answered : forall name ic trace domain rhist p method path ok n h ps,
  rhist_tokens rhist = true ->
  let rt := fold_left rstep rhist (new_router name ic trace domain) in
  let rt' := rstep rt (RRemove p []) in
  p <> [] -> tree_handler (rtree rt') method path [] = HFound ok (Some n) h ps -> npat n <> p.
Proof.
  intros name ic trace domain rhist p method path ok n h ps W rt rt' Hp H.
  subst rt' rt. rewrite rstep_remove_tree in H. rewrite <- tr_tokens in W.
  exact (removed_route_not_answered name ic trace (tr_hist rhist) p method path ok n h ps W Hp H).
Qed.

Theorem router_cleaned_not_served : forall name ic trace domain rhist prefix method path ok n h ps,
  rhist_tokens rhist = true ->
  let rt := fold_left rstep rhist (new_router name ic trace domain) in
  let rt' := rstep rt (RClean prefix) in
  tree_handler (rtree rt') method path [] = HFound ok (Some n) h ps ->
  (prefix <> [] -> has_prefix (npat n) prefix = false) /\ (prefix = [] -> n = troot (rtree rt')).
Proof.
  intros name ic trace domain rhist prefix method path ok n h ps W rt rt' H.
  subst rt' rt. rewrite rstep_clean_tree in *. rewrite <- tr_tokens in W.
  exact (cleaned_not_served name ic trace (tr_hist rhist) prefix method path ok n h ps W H).
Qed.

(* two nodes of the router's tree that spell the same pattern are the same node *)
Theorem router_pattern_unique : forall name ic trace domain rhist a b, rhist_tokens rhist = true ->
  let t := rtree (fold_left rstep rhist (new_router name ic trace domain)) in
  desc (troot t) a -> desc (troot t) b -> npat a = npat b -> a = b.
Proof.
  intros name ic trace domain rhist a b W t Ha Hb E. subst t. rewrite router_history_tree in Ha, Hb.
  rewrite <- tr_tokens in W.
  exact (pattern_unique_reachable name ic trace (tr_hist rhist) a b W Ha Hb E).
Qed.

(* ---------------------------------------------------------------- live routes are served (C03) *)

Theorem router_simple_witness_served : forall name ic trace domain rhist chain n method,
  rhist_tokens rhist = true ->
  let t := rtree (fold_left rstep rhist (new_router name ic trace domain)) in
  chain_to (troot t) chain n -> nhandlers n <> [] -> simple t chain ->
  wpath chain <> [] -> wpath chain <> bs "*" -> (ttrace t = None \/ method <> TRACE) ->
  exists ok n' h ps, tree_handler t method (wpath chain) [] = HFound ok (Some n') h ps /\ nhandlers n' <> [].
Proof.
  intros name ic trace domain rhist chain n method W t. subst t. rewrite router_history_tree.
  rewrite <- tr_tokens in W.
  exact (simple_witness_served name ic trace (tr_hist rhist) chain n method W).
Qed.

Theorem router_simple_witness_exact : forall name ic trace domain rhist chain n method,
  rhist_tokens rhist = true ->
  let t := rtree (fold_left rstep rhist (new_router name ic trace domain)) in
  chain_to (troot t) chain n -> nhandlers n <> [] -> simple t chain -> first_at (troot t) chain ->
  wpath chain <> [] -> wpath chain <> bs "*" -> (ttrace t = None \/ method <> TRACE) ->
  exists h405, alookup M405 (nhandlers n) = Some h405 /\
    tree_handler t method (wpath chain) [] =
    match lookup_handler method (nhandlers n) with
    | Some h => HFound true (Some n) h (wparams chain [])
    | None => HFound false (Some n) h405 (wparams chain [])
    end.
Proof.
  intros name ic trace domain rhist chain n method W t. subst t. rewrite router_history_tree.
  rewrite <- tr_tokens in W.
  exact (simple_witness_exact name ic trace (tr_hist rhist) chain n method W).
Qed.

Theorem router_literal_route_method : forall name ic trace domain rhist p n method,
  rhist_tokens rhist = true ->
  let t := rtree (fold_left rstep rhist (new_router name ic trace domain)) in
  desc (troot t) n -> npat n = p -> nhandlers n <> [] -> (forall c, In c p -> c <> 123 /\ c <> 125) ->
  p <> [] -> p <> bs "*" -> (ttrace t = None \/ method <> TRACE) ->
  (forall c, In c (nchildren n) -> is_lit c = true \/ seg_match (nseg c) [] [] = None) ->
  exists h405, alookup M405 (nhandlers n) = Some h405 /\
    tree_handler t method p [] =
    match lookup_handler method (nhandlers n) with
    | Some h => HFound true (Some n) h []
    | None => HFound false (Some n) h405 []
    end.
Proof.
  intros name ic trace domain rhist p n method W t. subst t. rewrite router_history_tree.
  rewrite <- tr_tokens in W.
  exact (literal_route_method name ic trace (tr_hist rhist) p n method W).
Qed.

Theorem router_literal_route_not_404 : forall name ic trace domain rhist p n method,
  rhist_tokens rhist = true ->
  let t := rtree (fold_left rstep rhist (new_router name ic trace domain)) in
  desc (troot t) n -> npat n = p -> nhandlers n <> [] -> (forall c, In c p -> c <> 123 /\ c <> 125) ->
  p <> [] -> p <> bs "*" -> (ttrace t = None \/ method <> TRACE) ->
  exists n' ps, (n' = n \/ desc n n') /\ nhandlers n' <> [] /\
    exists h405, alookup M405 (nhandlers n') = Some h405 /\
      tree_handler t method p [] =
      match lookup_handler method (nhandlers n') with
      | Some h => HFound true (Some n') h ps
      | None => HFound false (Some n') h405 ps
      end.
Proof.
  intros name ic trace domain rhist p n method W t. subst t. rewrite router_history_tree.
  rewrite <- tr_tokens in W.
  exact (literal_route_not_404 name ic trace (tr_hist rhist) p n method W).
Qed.

(* ---------------------------------------------------------------- the text of a match (C01) *)

Theorem router_dispatch_text : forall name ic trace domain rhist method path n h ps ok,
  rhist_tokens rhist = true ->
  let t := rtree (fold_left rstep rhist (new_router name ic trace domain)) in
  tree_handler t method path [] = HFound ok (Some n) h ps ->
  ttrace t = None \/ method <> TRACE -> path <> bs "*" -> path <> [] ->
  walk (troot t) path [] n ps /\
  exists chain pieces, npat n = concat (map (fun c => sval (nseg c)) chain) /\
    path = concat pieces /\ length pieces = length chain /\
    Forall TreeText.node_label_ok chain /\ Forall2 TreeText.piece_ok chain pieces.
Proof.
  intros name ic trace domain rhist method path n h ps ok W t. subst t. rewrite router_history_tree.
  rewrite <- tr_tokens in W. apply hist_tokens_wf in W.
  exact (dispatch_text_wf_partial name ic trace (tr_hist rhist) method path n h ps ok W).
Qed.

(* ---------------------------------------------------------------- the router is the table (C03) *)

(* the table of Spec/Table.v driven by ROUTER calls: Handle (when the router accepted it) installs
   the handler wrapped with the registration middlewares followed by everything given to Use so
   far; Use wraps every stored handler *)
Definition rtab_step (c : tcfg) (T : table) (rt : router) (op : rop) : table :=
  match op with
  | RHandle p id mws ms =>
    match r_handle rt p (HUser id) mws ms with
    | Ok _ => t_handle c T p (HUser id) (mws ++ rms rt) ms
    | _ => T
    end
  | RRemove p ms => t_remove T p ms
  | RClean prefix => t_clean T prefix
  | RUse mws => t_use c T mws
  end.

Definition rlock_step (c : tcfg) (s : router * table) (op : rop) : router * table :=
  (rstep (fst s) op, rtab_step c (snd s) (fst s) op).

Definition rlock_run (c : tcfg) (rhist : list rop) (rt0 : router) : router * table :=
  fold_left (rlock_step c) rhist (rt0, []).

Definition router_table (name : bytes) (ic : icpts) (trace : bool) (domain : bytes) (rhist : list rop) : table :=
  snd (rlock_run (cfg_of name ic trace) rhist (new_router name ic trace domain)).

Lemma rtab_step_eq : forall c T rt op, rtab_step c T rt op = tab_step c T (rtree rt) (top_of (rms rt) op).
Proof.
  intros c T rt op. destruct op as [p id mws ms|p ms|prefix|mws]; cbn [rtab_step tab_step top_of]; try reflexivity.
  unfold r_handle. destruct (tree_add (rtree rt) p (HUser id) (mws ++ rms rt) ms); reflexivity.
Qed.

Lemma rlock_fold : forall c rhist rt T,
  fold_left (rlock_step c) rhist (rt, T) =
  (fold_left rstep rhist rt, snd (fold_left (lock_step c) (tr_from (rms rt) rhist) (rtree rt, T))).
Proof.
  intros c. induction rhist as [|op rest IH]; intros rt T; [reflexivity|].
  cbn [fold_left tr_from]. unfold rlock_step at 2. cbn [fst snd]. rewrite IH.
  unfold lock_step at 2. cbn [fst snd]. now rewrite rstep_tree, rstep_rms, rtab_step_eq.
Qed.

Lemma rlock_run_fst : forall c rhist rt0, fst (rlock_run c rhist rt0) = fold_left rstep rhist rt0.
Proof. intros c rhist rt0. unfold rlock_run. now rewrite rlock_fold. Qed.

Theorem router_table_is_table_of : forall name ic trace domain rhist,
  router_table name ic trace domain rhist = table_of name ic trace (tr_hist rhist).
Proof.
  intros name ic trace domain rhist. unfold router_table, rlock_run. rewrite rlock_fold. reflexivity.
Qed.

Theorem router_tree_is_table : forall name ic trace domain rhist p, rhist_tokens rhist = true ->
  let rt := fold_left rstep rhist (new_router name ic trace domain) in
  let T := router_table name ic trace domain rhist in
  alookup p (abs_tree (rtree rt)) = alookup p T.
Proof.
  intros name ic trace domain rhist p W rt T. subst rt T.
  rewrite router_history_tree, router_table_is_table_of. rewrite <- tr_tokens in W.
  exact (C03_tree_is_table_l name ic trace (tr_hist rhist) p W).
Qed.

Theorem router_tree_table_perm : forall name ic trace domain rhist, rhist_tokens rhist = true ->
  Permutation (abs_tree (rtree (fold_left rstep rhist (new_router name ic trace domain))))
              (router_table name ic trace domain rhist).
Proof.
  intros name ic trace domain rhist W.
  rewrite router_history_tree, router_table_is_table_of. rewrite <- tr_tokens in W.
  exact (lock_perm name ic trace (tr_hist rhist) W).
Qed.

Theorem router_table_nodup : forall name ic trace domain rhist, rhist_tokens rhist = true ->
  NoDup (akeys (abs_tree (rtree (fold_left rstep rhist (new_router name ic trace domain))))) /\
  NoDup (akeys (router_table name ic trace domain rhist)).
Proof.
  intros name ic trace domain rhist W.
  rewrite router_history_tree, router_table_is_table_of. rewrite <- tr_tokens in W.
  exact (C03_abs_tree_nodup_l name ic trace (tr_hist rhist) W).
Qed.

Theorem router_served_handler_is_table_entry : forall name ic trace domain rhist method path n h ps,
  rhist_tokens rhist = true ->
  let rt := fold_left rstep rhist (new_router name ic trace domain) in
  let T := router_table name ic trace domain rhist in
  tree_handler (rtree rt) method path [] = HFound true (Some n) h ps -> n <> troot (rtree rt) ->
  alookup (npat n) T = Some (nhandlers n) /\
  alookup method (opt_default [] (alookup (npat n) T)) = Some h.
Proof.
  intros name ic trace domain rhist method path n h ps W rt T. subst rt T.
  rewrite router_history_tree, router_table_is_table_of. rewrite <- tr_tokens in W.
  exact (C03_served_handler_is_table_entry_partial_l name ic trace (tr_hist rhist) method path n h ps W).
Qed.

Theorem router_405_handler_is_table_entry : forall name ic trace domain rhist method path n h ps,
  rhist_tokens rhist = true ->
  let rt := fold_left rstep rhist (new_router name ic trace domain) in
  let T := router_table name ic trace domain rhist in
  tree_handler (rtree rt) method path [] = HFound false (Some n) h ps -> n <> troot (rtree rt) ->
  alookup (npat n) T = Some (nhandlers n) /\ lookup_handler method (nhandlers n) = None /\
  alookup M405 (nhandlers n) = Some h.
Proof.
  intros name ic trace domain rhist method path n h ps W rt T. subst rt T.
  rewrite router_history_tree, router_table_is_table_of. rewrite <- tr_tokens in W.
  exact (C03_405_handler_is_table_entry_l name ic trace (tr_hist rhist) method path n h ps W).
Qed.

Theorem router_routes_exact : forall name ic trace domain rhist, rhist_tokens rhist = true ->
  let rt := fold_left rstep rhist (new_router name ic trace domain) in
  let T := router_table name ic trace domain rhist in
  ~ In (bs "*") (akeys T) ->
  tree_routes (rtree rt) = spec_routes (has_trace (rtree rt)) T.
Proof.
  intros name ic trace domain rhist W rt T. subst rt T.
  rewrite router_history_tree, router_table_is_table_of. rewrite <- tr_tokens in W.
  exact (C03_routes_exact_partial_l name ic trace (tr_hist rhist) W).
Qed.

(* ---------------------------------------------------------------- the router refines the resolver (C02) *)

Theorem router_refines_resolver_partial : forall name ic trace domain rhist method path,
  rhist_add_only rhist = true -> rhist_tokens rhist = true -> rhist_canon rhist ->
  path <> [] -> path <> bs "*" ->
  let t := rtree (fold_left rstep rhist (new_router name ic trace domain)) in
  (ttrace t = None \/ method <> TRACE) ->
  match tree_handler t method path [] with
  | HFound _ (Some n) _ ps => In (npat n, ps) (resolve ic (tree_table t) path)
  | HFound _ None _ _ => resolve ic (tree_table t) path = []
  | HPanic _ => False
  end.
Proof.
  intros name ic trace domain rhist method path A W C Hne Hstar t. subst t. rewrite router_history_tree.
  rewrite <- tr_tokens in W. rewrite <- tr_add_only in A. apply tr_canon in C.
  exact (tree_refines_resolver_partial name ic trace (tr_hist rhist) method path A W C Hne Hstar).
Qed.

Theorem router_refines_resolver_canon : forall name ic trace domain rhist method path,
  rhist_add_only rhist = true -> rhist_tokens rhist = true -> rhist_canonb rhist = true ->
  path <> [] -> path <> bs "*" ->
  let t := rtree (fold_left rstep rhist (new_router name ic trace domain)) in
  (ttrace t = None \/ method <> TRACE) ->
  match tree_handler t method path [] with
  | HFound _ (Some n) _ ps => In (npat n, ps) (resolve ic (tree_table t) path)
  | HFound _ None _ _ => resolve ic (tree_table t) path = []
  | HPanic _ => False
  end.
Proof.
  intros name ic trace domain rhist method path A W C Hne Hstar t Htr.
  exact (router_refines_resolver_partial name ic trace domain rhist method path A W (rhist_canonb_canon rhist C)
           Hne Hstar Htr).
Qed.

(* without the guard on "{name:}" the statement is false, as at tree level *)
Definition rcx_add (p : String.string) : rop := RHandle (bs p) (bs p) [] [GET].
Definition rcx_hist : list rop := [rcx_add "/{id}/ab"; rcx_add "/{id:}/ac"].

Theorem router_refines_resolver_refuted :
  ~ (forall name ic trace domain rhist method path,
       rhist_add_only rhist = true -> rhist_tokens rhist = true ->
       path <> [] -> path <> bs "*" ->
       let t := rtree (fold_left rstep rhist (new_router name ic trace domain)) in
       (ttrace t = None \/ method <> TRACE) ->
       match tree_handler t method path [] with
       | HFound _ (Some n) _ ps => In (npat n, ps) (resolve ic (tree_table t) path)
       | HFound _ None _ _ => resolve ic (tree_table t) path = []
       | HPanic _ => False
       end).
Proof.
  intro H.
  assert (N1 : cx_path <> []) by discriminate. assert (N2 : cx_path <> bs "*") by discriminate.
  specialize (H (bs "r") [] false [] rcx_hist GET cx_path eq_refl eq_refl N1 N2 (or_introl eq_refl)).
  vm_compute in H. exact H.
Qed.

Example rcx_facts :
  rhist_add_only rcx_hist = true /\ rhist_tokens rcx_hist = true /\ rhist_canonb rcx_hist = false /\
  tr_hist rcx_hist = cx_hist /\
  let t := rtree (fold_left rstep rcx_hist (new_router (bs "r") [] false [])) in
  map fst (tree_table t) = [bs "/{id}/ab"; bs "/{id:}/ac"] /\
  resolve [] (tree_table t) cx_path = [] /\
  match tree_handler t GET cx_path [] with
  | HFound true (Some n) (HUser u) ps => npat n = bs "/{id}/ab" /\ ps = [(bs "id", bs "1/a/2")]
  | _ => False
  end.
Proof. vm_compute. repeat split; reflexivity. Qed.

(* ================================================================ Part 3 : Prefix / Resource programs *)

(* A facade (Model/Router.v) is pure data: (is-a-Prefix, accumulated pattern, accumulated middlewares),
   built by f_prefix / f_resource.  A facade program is a list of calls, each made on the router
   directly or through a facade value; a rejected call keeps the router ([rkeep]), as in [rstep]. *)
Inductive fop :=
| FDirect (op : rop)
| FHandle (f : facade) (pat : bytes) (id : bytes) (mws ms : list bytes)
| FRemove (f : facade) (pat : bytes) (ms : list bytes)
| FClean (f : facade).

Definition fstep (rt : router) (op : fop) : router :=
  match op with
  | FDirect o => rstep rt o
  | FHandle f pat id mws ms => rkeep rt (f_handle rt f pat (HUser id) mws ms)
  | FRemove f pat ms => rkeep rt (f_remove rt f pat ms)
  | FClean f => rkeep rt (f_clean rt f)
  end.

(* the Router call a facade call stands for *)
Definition desugar (op : fop) : rop :=
  match op with
  | FDirect o => o
  | FHandle f pat id mws ms => RHandle (f_pattern f pat) id (mws ++ fms f) ms
  | FRemove f pat ms => RRemove (f_pattern f pat) ms
  | FClean f => if fprefix f then RClean (fpat f) else RRemove (fpat f) []
  end.

Lemma fstep_is_rstep : forall rt op, fstep rt op = rstep rt (desugar op).
Proof.
  intros rt op. destruct op as [o|f pat id mws ms|f pat ms|f]; cbn [fstep desugar]; try reflexivity.
  unfold f_clean. destruct (fprefix f); reflexivity.
Qed.

Theorem facade_history_is_router_history : forall fhist rt,
  fold_left fstep fhist rt = fold_left rstep (map desugar fhist) rt.
Proof.
  induction fhist as [|op rest IH]; intro rt; [reflexivity|].
  cbn [fold_left map]. now rewrite fstep_is_rstep, IH.
Qed.

(* the guards of a facade program, read off the program itself *)
Definition fop_tokens (op : fop) : bool :=
  match op with
  | FDirect o => rop_tokens o
  | FHandle f pat _ _ _ => match tokens (f_pattern f pat) with Some _ => true | None => false end
  | _ => true
  end.
Definition fhist_tokens (fhist : list fop) : bool := forallb fop_tokens fhist.

Lemma fop_tokens_desugar : forall op, rop_tokens (desugar op) = fop_tokens op.
Proof.
  intros [o|f pat id mws ms|f pat ms|f]; cbn [desugar fop_tokens]; try reflexivity.
  destruct (fprefix f); reflexivity.
Qed.

Lemma fhist_tokens_desugar : forall fhist, rhist_tokens (map desugar fhist) = fhist_tokens fhist.
Proof.
  intro fhist. unfold rhist_tokens, fhist_tokens. induction fhist as [|op rest IH]; [reflexivity|].
  cbn [map forallb]. now rewrite fop_tokens_desugar, IH.
Qed.

Definition ftr_hist (fhist : list fop) : list top := tr_hist (map desugar fhist).

Theorem facade_history_is_tree_history : forall name ic trace domain fhist,
  fold_left fstep fhist (new_router name ic trace domain) =
    fold_left rstep (map desugar fhist) (new_router name ic trace domain) /\
  rtree (fold_left fstep fhist (new_router name ic trace domain)) =
    fold_left tstep (ftr_hist fhist) (new_tree name ic trace) /\
  hist_tokens (ftr_hist fhist) = fhist_tokens fhist.
Proof.
  intros name ic trace domain fhist. split; [apply facade_history_is_router_history|]. split.
  - rewrite facade_history_is_router_history. apply router_history_tree.
  - unfold ftr_hist. now rewrite tr_tokens, fhist_tokens_desugar.
Qed.

(* everything that holds of all router histories holds of all facade programs *)
Theorem facade_transfer : forall (rt0 : router) (P : router -> Prop),
  (forall rhist, P (fold_left rstep rhist rt0)) -> forall fhist, P (fold_left fstep fhist rt0).
Proof. intros rt0 P H fhist. rewrite facade_history_is_router_history. apply H. Qed.

Theorem facade_transfer_tokens : forall (rt0 : router) (P : router -> Prop),
  (forall rhist, rhist_tokens rhist = true -> P (fold_left rstep rhist rt0)) ->
  forall fhist, fhist_tokens fhist = true -> P (fold_left fstep fhist rt0).
Proof.
  intros rt0 P H fhist W. rewrite facade_history_is_router_history. apply H. now rewrite fhist_tokens_desugar.
Qed.

(* ---------------------------------------------------------------- the shapes of Props/C19.v *)

Lemma desugar_prefix_handle : forall pre pms pat id m ms,
  desugar (FHandle (f_prefix None pre pms) pat id m ms) = RHandle (pre ++ pat) id (m ++ pms) ms.
Proof. reflexivity. Qed.

Lemma desugar_nested_prefix_handle : forall pre1 ms1 pre2 ms2 pat id m ms,
  desugar (FHandle (f_prefix (Some (f_prefix None pre1 ms1)) pre2 ms2) pat id m ms) =
  RHandle (pre1 ++ pre2 ++ pat) id (m ++ ms2 ++ ms1) ms.
Proof.
  intros pre1 ms1 pre2 ms2 pat id m ms. unfold desugar, f_pattern, f_prefix. cbn [fprefix fpat fms].
  now rewrite <- app_assoc.
Qed.

Lemma desugar_resource_handle : forall parent pat rms anypat id m ms,
  desugar (FHandle (f_resource parent pat rms) anypat id m ms) =
  RHandle (match parent with None => pat | Some p => fpat p ++ pat end) id
          (m ++ rms ++ match parent with None => [] | Some p => fms p end) ms.
Proof.
  intros parent pat rms0 anypat id m ms. destruct parent as [p|]; unfold desugar, f_pattern, f_resource;
    cbn [fprefix fpat fms]; [reflexivity|]. now rewrite app_nil_r.
Qed.

Lemma desugar_prefix_remove : forall parent pre pms pat ms,
  desugar (FRemove (f_prefix parent pre pms) pat ms) =
  RRemove (match parent with None => pre ++ pat | Some p => fpat p ++ pre ++ pat end) ms.
Proof.
  intros parent pre pms pat ms. destruct parent as [p|]; unfold desugar, f_pattern, f_prefix;
    cbn [fprefix fpat fms]; [|reflexivity]. now rewrite <- app_assoc.
Qed.

Lemma desugar_resource_remove : forall parent pat rms anypat ms,
  desugar (FRemove (f_resource parent pat rms) anypat ms) =
  RRemove (match parent with None => pat | Some p => fpat p ++ pat end) ms.
Proof. intros parent pat rms0 anypat ms. destruct parent as [p|]; reflexivity. Qed.

Lemma desugar_prefix_clean : forall parent pre pms,
  desugar (FClean (f_prefix parent pre pms)) = RClean (match parent with None => pre | Some p => fpat p ++ pre end).
Proof. intros parent pre pms. destruct parent as [p|]; reflexivity. Qed.

Lemma desugar_resource_clean : forall parent pat rms,
  desugar (FClean (f_resource parent pat rms)) = RRemove (match parent with None => pat | Some p => fpat p ++ pat end) [].
Proof. intros parent pat rms0. destruct parent as [p|]; reflexivity. Qed.

(* Prefix objects nested to any depth: [nest l] for l = [(pre1, ms1); ...; (prek, msk)], outermost first *)
Definition nest (l : list (bytes * list bytes)) : option facade :=
  fold_left (fun parent x => Some (f_prefix parent (fst x) (snd x))) l None.

Lemma nest_snoc : forall l x, nest (l ++ [x]) = Some (f_prefix (nest l) (fst x) (snd x)).
Proof. intros l x. unfold nest. now rewrite fold_left_app. Qed.

Lemma nest_closed : forall l, l <> [] ->
  nest l = Some {| fprefix := true; fpat := concat (map fst l); fms := concat (map snd (rev l)) |}.
Proof.
  induction l as [|x l IH] using rev_ind; intro Hne; [congruence|].
  rewrite nest_snoc. destruct l as [|y l'].
  - cbn. now rewrite !app_nil_r.
  - rewrite IH by discriminate. unfold f_prefix. cbn [fpat fms].
    rewrite map_app, concat_app, rev_app_distr. cbn [map concat rev app]. now rewrite !app_nil_r.
Qed.

Theorem desugar_nest_handle : forall l f pat id m ms, l <> [] -> nest l = Some f ->
  desugar (FHandle f pat id m ms) = RHandle (concat (map fst l) ++ pat) id (m ++ concat (map snd (rev l))) ms.
Proof.
  intros l f pat id m ms Hne Hf. rewrite (nest_closed l Hne) in Hf. inversion Hf. reflexivity.
Qed.

Theorem desugar_nest_resource_handle : forall l pat rms anypat id m ms,
  desugar (FHandle (f_resource (nest l) pat rms) anypat id m ms) =
  RHandle (concat (map fst l) ++ pat) id (m ++ rms ++ concat (map snd (rev l))) ms.
Proof.
  intros l pat rms0 anypat id m ms. rewrite desugar_resource_handle. destruct l as [|x l'].
  - reflexivity.
  - rewrite (nest_closed (x :: l')) by discriminate. reflexivity.
Qed.

(* ---------------------------------------------------------------- corollaries for facade programs *)

Theorem facade_serve_total : forall name ic trace domain fhist recover rs method path ps,
  (forall s, tree_handler (rtree (fold_left fstep fhist (new_router name ic trace domain))) method path ps <> HPanic s) /\
  serve_ctx (fold_left fstep fhist (new_router name ic trace domain)) recover rs method path ps <> SPanic.
Proof.
  intros name ic trace domain fhist recover rs method path ps. rewrite facade_history_is_router_history. split.
  - intro s. apply router_serve_total.
  - apply router_serve_ctx_total.
Qed.

(* Remove through a facade does not disturb other routes *)
Theorem facade_remove_frame : forall name ic trace domain fhist f pat ms method path ok n h ps rt',
  fhist_tokens fhist = true ->
  let rt := fold_left fstep fhist (new_router name ic trace domain) in
  tree_handler (rtree rt) method path [] = HFound ok (Some n) h ps ->
  npat n <> f_pattern f pat ->
  f_remove rt f pat ms = Ok rt' ->
  exists n', tree_handler (rtree rt') method path [] = HFound ok (Some n') h ps /\ npat n' = npat n.
Proof.
  intros name ic trace domain fhist f pat ms method path ok n h ps rt' W rt. subst rt.
  rewrite facade_history_is_router_history. rewrite <- fhist_tokens_desugar in W. unfold f_remove.
  exact (router_remove_frame name ic trace domain (map desugar fhist) (f_pattern f pat) ms method path ok n h ps rt' W).
Qed.

(* Prefix.Clean removes the routes under the prefix only; Resource.Clean removes its route only *)
Theorem facade_clean_frame : forall name ic trace domain fhist f method path ok n h ps rt',
  fhist_tokens fhist = true ->
  let rt := fold_left fstep fhist (new_router name ic trace domain) in
  tree_handler (rtree rt) method path [] = HFound ok (Some n) h ps ->
  (if fprefix f then has_prefix (npat n) (fpat f) = false else npat n <> fpat f) ->
  f_clean rt f = Ok rt' ->
  exists n', tree_handler (rtree rt') method path [] = HFound ok (Some n') h ps /\ npat n' = npat n.
Proof.
  intros name ic trace domain fhist f method path ok n h ps rt' W rt. subst rt.
  rewrite facade_history_is_router_history. rewrite <- fhist_tokens_desugar in W. unfold f_clean.
  destruct (fprefix f).
  - exact (router_clean_frame name ic trace domain (map desugar fhist) (fpat f) method path ok n h ps rt' W).
  - exact (router_remove_frame name ic trace domain (map desugar fhist) (fpat f) [] method path ok n h ps rt' W).
Qed.

Theorem facade_removed_pair_not_served : forall name ic trace domain fhist f pat ms method path ok n h ps,
  fhist_tokens fhist = true ->
  let rt := fold_left fstep fhist (new_router name ic trace domain) in
  let rt' := fstep rt (FRemove f pat ms) in
  (ms = [] \/ In method ms) -> is_auto method = false -> f_pattern f pat <> [] ->
  tree_handler (rtree rt') method path [] = HFound ok (Some n) h ps -> npat n = f_pattern f pat -> ok = false.
Proof.
  intros name ic trace domain fhist f pat ms method path ok n h ps W rt rt'. subst rt' rt.
  rewrite fstep_is_rstep, facade_history_is_router_history. rewrite <- fhist_tokens_desugar in W. cbn [desugar].
  exact (router_removed_pair_not_served name ic trace domain (map desugar fhist) (f_pattern f pat) ms method path ok n h ps W).
Qed.

Theorem facade_tree_is_table : forall name ic trace domain fhist p, fhist_tokens fhist = true ->
  alookup p (abs_tree (rtree (fold_left fstep fhist (new_router name ic trace domain)))) =
  alookup p (router_table name ic trace domain (map desugar fhist)).
Proof.
  intros name ic trace domain fhist p W. rewrite facade_history_is_router_history.
  rewrite <- fhist_tokens_desugar in W.
  exact (router_tree_is_table name ic trace domain (map desugar fhist) p W).
Qed.


(* ================================================================ examples *)

(* a program on the router "main" (domain "https://h/"): Use before the first registration, a
   direct registration, a rejected duplicate, registrations through a Prefix, a nested Prefix and a
   Resource (whose pattern argument is ignored), a second Use, a registration after it, a removal
   through the Prefix and a direct removal *)
Definition exr_dom : bytes := bs "https://h/".
Definition exr_api : facade := f_prefix None (bs "/api") [bs "pm"].
Definition exr_v1 : facade := f_prefix (Some exr_api) (bs "/v1") [bs "vm"].
Definition exr_item : facade := f_resource (Some exr_api) (bs "/items/{id:\d+}") [bs "im"].
Definition exr_prog : list fop :=
  [ FDirect (RUse [bs "u0"]);
    FDirect (RHandle (bs "/a") (bs "ha") [bs "r1"] [GET]);
    FDirect (RHandle (bs "/a") (bs "dup") [] [GET]);
    FHandle exr_api (bs "/users/{id}") (bs "hu") [bs "hm"] [GET; POST];
    FHandle exr_v1 (bs "/ping") (bs "hp") [] [];
    FHandle exr_item (bs "ignored") (bs "hi") [] [GET; DELETE];
    FDirect (RUse [bs "u1"]);
    FDirect (RHandle (bs "/b/{x}") (bs "hb") [] [GET]);
    FRemove exr_api (bs "/users/{id}") [POST];
    FDirect (RRemove (bs "/a") []) ].
Definition exr_rhist : list rop := map desugar exr_prog.
Definition exr_new : router := new_router (bs "main") [] false exr_dom.
Definition exr_rt : router := fold_left fstep exr_prog exr_new.

(* the middlewares around a served handler, outermost first, and the handler itself *)
Fixpoint hwraps (h : hterm) : list bytes * hterm :=
  match h with
  | HWrap mw _ _ _ inner => let (l, c) := hwraps inner in (mw :: l, c)
  | _ => ([], h)
  end.
Definition exr_show (r : hres) : option (bool * bytes * (list bytes * hterm) * params) :=
  match r with HFound ok (Some n) h ps => Some (ok, npat n, hwraps h, ps) | _ => None end.

Example exr_desugared :
  exr_rhist =
  [ RUse [bs "u0"];
    RHandle (bs "/a") (bs "ha") [bs "r1"] [GET];
    RHandle (bs "/a") (bs "dup") [] [GET];
    RHandle (bs "/api/users/{id}") (bs "hu") [bs "hm"; bs "pm"] [GET; POST];
    RHandle (bs "/api/v1/ping") (bs "hp") [bs "vm"; bs "pm"] [];
    RHandle (bs "/api/items/{id:\d+}") (bs "hi") [bs "im"; bs "pm"] [GET; DELETE];
    RUse [bs "u1"];
    RHandle (bs "/b/{x}") (bs "hb") [] [GET];
    RRemove (bs "/api/users/{id}") [POST];
    RRemove (bs "/a") [] ].
Proof. vm_compute. reflexivity. Qed.

Example exr_translated :
  ftr_hist exr_prog =
  [ OUse [bs "u0"];
    OAdd (bs "/a") (HUser (bs "ha")) [bs "r1"; bs "u0"] [GET];
    OAdd (bs "/a") (HUser (bs "dup")) [bs "u0"] [GET];
    OAdd (bs "/api/users/{id}") (HUser (bs "hu")) [bs "hm"; bs "pm"; bs "u0"] [GET; POST];
    OAdd (bs "/api/v1/ping") (HUser (bs "hp")) [bs "vm"; bs "pm"; bs "u0"] [];
    OAdd (bs "/api/items/{id:\d+}") (HUser (bs "hi")) [bs "im"; bs "pm"; bs "u0"] [GET; DELETE];
    OUse [bs "u1"];
    OAdd (bs "/b/{x}") (HUser (bs "hb")) [bs "u0"; bs "u1"] [GET];
    ORemove (bs "/api/users/{id}") [POST];
    ORemove (bs "/a") [] ].
Proof. vm_compute. reflexivity. Qed.

(* the guards hold; the duplicate is rejected and keeps the router; every other call is accepted;
   the router's own fields *)
Example exr_premises :
  fhist_tokens exr_prog = true /\ rhist_tokens exr_rhist = true /\ hist_tokens (ftr_hist exr_prog) = true /\
  (match r_handle (fold_left fstep (firstn 2 exr_prog) exr_new) (bs "/a") (HUser (bs "dup")) [] [GET] with
   | Err _ => True | _ => False end) /\
  fold_left fstep (firstn 3 exr_prog) exr_new = fold_left fstep (firstn 2 exr_prog) exr_new /\
  map (fun i => match nth_error (ftr_hist exr_prog) i with
                | Some (OAdd p h mws ms) =>
                  match tree_add (fold_left tstep (firstn i (ftr_hist exr_prog)) (new_tree (bs "main") [] false)) p h mws ms with
                  | Ok _ => true | _ => false end
                | _ => true end) (seq 0 10) =
    [true; true; false; true; true; true; true; true; true; true] /\
  rms exr_rt = [bs "u0"; bs "u1"] /\ rdomain exr_rt = bs "https://h" /\
  rtree exr_rt = fold_left tstep (ftr_hist exr_prog) (new_tree (bs "main") [] false) /\
  exr_rt = fold_left rstep exr_rhist exr_new.
Proof. vm_compute. repeat split; reflexivity. Qed.

(* what the final router serves: the handler with its middlewares, outermost first (the router's
   Use list, then the facade's, then the registration's) *)
Example exr_dispatch :
  map (fun mp => exr_show (tree_handler (rtree exr_rt) (fst mp) (snd mp) []))
      [(GET, bs "/a"); (GET, bs "/api/users/7"); (POST, bs "/api/users/7"); (GET, bs "/api/v1/ping");
       (DELETE, bs "/api/items/42"); (GET, bs "/api/items/x"); (GET, bs "/b/q")] =
  [ None;
    Some (true, bs "/api/users/{id}", ([bs "u1"; bs "u0"; bs "pm"; bs "hm"], HUser (bs "hu")), [(bs "id", bs "7")]);
    Some (false, bs "/api/users/{id}", ([bs "u1"; bs "u0"; bs "pm"; bs "hm"], HNotAllowed), [(bs "id", bs "7")]);
    Some (true, bs "/api/v1/ping", ([bs "u1"; bs "u0"; bs "pm"; bs "vm"], HUser (bs "hp")), []);
    Some (true, bs "/api/items/{id:\d+}", ([bs "u1"; bs "u0"; bs "pm"; bs "im"], HUser (bs "hi")), [(bs "id", bs "42")]);
    None;
    Some (true, bs "/b/{x}", ([bs "u1"; bs "u0"], HUser (bs "hb")), [(bs "x", bs "q")]) ].
Proof. vm_compute. reflexivity. Qed.

(* the table machine driven by the desugared router calls holds the rows of the router's tree *)
Example exr_table :
  map (fun pe => (fst pe, akeys (snd pe))) (router_table (bs "main") [] false exr_dom exr_rhist) =
  [ (bs "/api/users/{id}", [HEAD; GET; OPTIONS; M405]);
    (bs "/api/v1/ping", [HEAD; GET; POST; DELETE; PUT; PATCH; CONNECT; OPTIONS; M405]);
    (bs "/api/items/{id:\d+}", [HEAD; GET; DELETE; OPTIONS; M405]);
    (bs "/b/{x}", [HEAD; GET; OPTIONS; M405]) ] /\
  abs_tree (rtree exr_rt) = router_table (bs "main") [] false exr_dom exr_rhist.
Proof. vm_compute. split; reflexivity. Qed.

(* the frame theorem applied: the removal made through the Prefix (9th call) leaves GET /b/q as it was *)
Local Notation exr_r8 := (fold_left fstep (firstn 8 exr_prog) (new_router (bs "main") [] false exr_dom)).
Local Notation exr_hb :=
  (HWrap (bs "u1") GET (bs "/b/{x}") (bs "main") (HWrap (bs "u0") GET (bs "/b/{x}") (bs "main") (HUser (bs "hb")))).

Example exr_frame_applied :
  exists n', tree_handler (rtree (fstep exr_r8 (FRemove exr_api (bs "/users/{id}") [POST]))) GET (bs "/b/q") [] =
             HFound true (Some n') exr_hb [(bs "x", bs "q")] /\ npat n' = bs "/b/{x}".
Proof.
  assert (W : fhist_tokens (firstn 8 exr_prog) = true) by reflexivity.
  assert (E : exists n, tree_handler (rtree exr_r8) GET (bs "/b/q") [] = HFound true (Some n) exr_hb [(bs "x", bs "q")] /\
                        npat n = bs "/b/{x}").
  { vm_compute. eexists. split; reflexivity. }
  destruct E as [n [E Hn]].
  assert (R : exists rt', f_remove exr_r8 exr_api (bs "/users/{id}") [POST] = Ok rt').
  { vm_compute. eexists. reflexivity. }
  destruct R as [rt' R].
  assert (Hne : npat n <> f_pattern exr_api (bs "/users/{id}")) by (rewrite Hn; vm_compute; discriminate).
  destruct (facade_remove_frame (bs "main") [] false exr_dom (firstn 8 exr_prog) exr_api (bs "/users/{id}") [POST]
              GET (bs "/b/q") true n exr_hb [(bs "x", bs "q")] rt' W E Hne R) as [n' [E' Hn']].
  exists n'.
  change (fstep exr_r8 (FRemove exr_api (bs "/users/{id}") [POST]))
    with (rkeep exr_r8 (f_remove exr_r8 exr_api (bs "/users/{id}") [POST])).
  rewrite R. unfold rkeep. split; [exact E'|]. now rewrite Hn', Hn.
Qed.

(* the removed pair POST /api/users/{id} is answered 405 by its node, as the theorem says *)
Example exr_removed_applied : forall ok n h ps,
  tree_handler (rtree (fstep exr_r8 (FRemove exr_api (bs "/users/{id}") [POST]))) POST (bs "/api/users/7") [] =
    HFound ok (Some n) h ps -> npat n = bs "/api/users/{id}" -> ok = false.
Proof.
  intros ok n h ps H Hn.
  assert (W : fhist_tokens (firstn 8 exr_prog) = true) by reflexivity.
  assert (Hp : f_pattern exr_api (bs "/users/{id}") <> []) by (vm_compute; discriminate).
  exact (facade_removed_pair_not_served (bs "main") [] false exr_dom (firstn 8 exr_prog) exr_api (bs "/users/{id}") [POST]
           POST (bs "/api/users/7") ok n h ps W (or_intror (or_introl eq_refl)) eq_refl Hp H Hn).
Qed.

(* Prefixes nested three deep and a Resource below them *)
Example exr_nest :
  desugar (FHandle (f_resource (nest [(bs "/a", [bs "m1"]); (bs "/b", [bs "m2"]); (bs "/c", [bs "m3"])]) (bs "/r/{id}") [bs "rm"])
                   [] (bs "h") [bs "hm"] [GET]) =
  RHandle (bs "/a/b/c/r/{id}") (bs "h") [bs "hm"; bs "rm"; bs "m3"; bs "m2"; bs "m1"] [GET].
Proof. rewrite desugar_nest_resource_handle. vm_compute. reflexivity. Qed.
