(* C17, the ambiguity pre-check of registration (checkAmbiguous):
   - Part A: what [is_ambiguous] means ([seg_twin]: same label up to the parameter's name and '-' flag);
   - Part B: soundness of [check_amb]: the route it names is a live route of the tree, reached by a walk
     ([amb_walk]) in which every step consumes either the identical label text or, for a label that
     [is_ambiguous] with the first segment of the remaining pattern, that segment's own text; the text
     form [amb_text] relates the remaining pattern with the text spelled by the labels;
   - Part C: the flag [false] never produces the error "ambiguous" (no other error of Tree.Add is
     spelled "ambiguous");
   - Part D: split of a suffix that starts at a piece boundary = the remaining pieces;
   - Part E: the tree after one registration is a single chain labelled by the segments of the
     pattern; completeness of the check against a twin of the only route.
   Theorems are re-exported by Props/C17amb.v. *)
From Coq Require Import String.
From Mux Require Import Model.Bytes Model.Regex Model.Context Model.Syntax Model.Tree
  Proofs.BytesFacts Proofs.MatchSound Proofs.ParseTotal.
From Mux Require Proofs.TreeText Proofs.TreeOnion.
From Mux Require Import Proofs.TreeSafe Proofs.RegTotal.
Local Open Scope nat_scope.

(* ================================================================ Part A : segments *)

(* same label up to the parameter's name and '-' flag *)
Definition seg_twin (a b : segment) : bool :=
  match styp a, styp b with
  | TString, TString => beqb (sval a) (sval b)
  | TString, _ => false
  | _, TString => false
  | _, _ => stype_eqb (styp a) (styp b) && beqb (srule a) (srule b) &&
            beqb (ssuffix a) (ssuffix b) && Bool.eqb (sendpoint a) (sendpoint b)
  end.

(* the two labels differ in the parameter's name or in the '-' flag *)
Definition seg_differs (a b : segment) : Prop :=
  beqb (sname a) (sname b) = false \/ signore a <> signore b.

Definition pat_twin (ic : icpts) (p q : bytes) : Prop :=
  exists sp sq, split ic p = Ok sp /\ split ic q = Ok sq /\
                Forall2 (fun a b => seg_twin a b = true) sp sq.

(* what new_segment guarantees of a literal label: no name, no '-' flag *)
Definition lit_plain (s : segment) : Prop := styp s = TString -> sname s = [] /\ signore s = false.

Lemma stype_eqb_refl : forall t, stype_eqb t t = true.
Proof. intros []; reflexivity. Qed.

Lemma stype_eqb_sym : forall a b, stype_eqb a b = stype_eqb b a.
Proof. intros [] []; reflexivity. Qed.

Lemma eqb_sym : forall a b, Bool.eqb a b = Bool.eqb b a.
Proof. intros [] []; reflexivity. Qed.

Lemma seg_twin_sym : forall a b, seg_twin a b = seg_twin b a.
Proof.
  intros a b. unfold seg_twin.
  rewrite (stype_eqb_sym (styp a)), (beqb_sym (srule a)), (beqb_sym (ssuffix a)),
    (eqb_sym (sendpoint a)), (beqb_sym (sval a)).
  destruct (styp a), (styp b); reflexivity.
Qed.

Lemma seg_twin_refl : forall a, seg_twin a a = true.
Proof.
  intro a. unfold seg_twin. rewrite stype_eqb_refl, !beqb_refl, Bool.eqb_reflx.
  destruct (styp a); reflexivity.
Qed.

Lemma seg_differs_sym : forall a b, seg_differs a b -> seg_differs b a.
Proof.
  intros a b [H|H]; [left; now rewrite beqb_sym | right; intro E; apply H; now symmetry].
Qed.

(* the conjunction [same] of is_ambiguous *)
Lemma is_ambiguous_inv : forall a b, is_ambiguous a b = true ->
  Bool.eqb (sendpoint a) (sendpoint b) = true /\ stype_eqb (styp a) (styp b) = true /\
  beqb (srule a) (srule b) = true /\ beqb (ssuffix a) (ssuffix b) = true /\ seg_differs a b.
Proof.
  intros a b H. unfold is_ambiguous in H.
  destruct (Bool.eqb (signore a) (signore b)) eqn:Ei; cbn [negb] in H.
  - apply andb_true_iff in H. destruct H as [H Hs]. apply andb_true_iff in H. destruct H as [Hn _].
    apply andb_true_iff in Hs. destruct Hs as [Hs H4]. apply andb_true_iff in Hs. destruct Hs as [Hs H3].
    apply andb_true_iff in Hs. destruct Hs as [H1 H2].
    split; [exact H1|]. split; [exact H2|]. split; [exact H3|]. split; [exact H4|].
    left. now apply negb_true_iff in Hn.
  - apply andb_true_iff in H. destruct H as [Hs H4]. apply andb_true_iff in Hs. destruct Hs as [Hs H3].
    apply andb_true_iff in Hs. destruct Hs as [H1 H2].
    split; [exact H1|]. split; [exact H2|]. split; [exact H3|]. split; [exact H4|].
    right. intro E. rewrite E, Bool.eqb_reflx in Ei. discriminate Ei.
Qed.

(* for parameter labels the statement of the task holds as given *)
Lemma is_ambiguous_twin_param : forall a b, styp a <> TString -> is_ambiguous a b = true ->
  seg_twin a b = true /\ seg_differs a b.
Proof.
  intros a b Ta H. destruct (is_ambiguous_inv _ _ H) as [H1 [H2 [H3 [H4 H5]]]].
  split; [|exact H5]. unfold seg_twin. rewrite H1, H2, H3, H4.
  pose proof (stype_eqb_eq _ _ H2) as Eab. rewrite <- Eab.
  destruct (styp a); [now elim Ta | reflexivity ..].
Qed.

(* two literal labels as produced by new_segment are never ambiguous *)
Lemma is_ambiguous_lit_false : forall a b, lit_plain a -> lit_plain b -> styp a = TString ->
  is_ambiguous a b = false.
Proof.
  intros a b La Lb Ta. destruct (is_ambiguous a b) eqn:H; [|reflexivity]. exfalso.
  destruct (is_ambiguous_inv _ _ H) as [_ [H2 [_ [_ H5]]]].
  apply stype_eqb_eq in H2. rewrite Ta in H2. symmetry in H2.
  destruct (La Ta) as [Na Ia]. destruct (Lb H2) as [Nb Ib].
  destruct H5 as [H5|H5]; [rewrite Na, Nb in H5; discriminate H5 | apply H5; congruence].
Qed.

Theorem is_ambiguous_twin_plain : forall a b, lit_plain a -> lit_plain b -> is_ambiguous a b = true ->
  seg_twin a b = true /\ seg_differs a b.
Proof.
  intros a b La Lb H. apply is_ambiguous_twin_param; [|exact H].
  intro Ta. rewrite (is_ambiguous_lit_false _ _ La Lb Ta) in H. discriminate H.
Qed.

Lemma new_segment_lit_plain : forall ic val seg, new_segment ic val = Ok seg -> lit_plain seg.
Proof.
  intros ic val seg H Ts. apply TreeText.new_segment_inv in H.
  destruct H as [->|[st [e [_ [_ [_ [_ [_ N]]]]]]]]; [now split | now elim N].
Qed.

Theorem is_ambiguous_twin_parsed : forall ic va a ic' vb b,
  new_segment ic va = Ok a -> new_segment ic' vb = Ok b -> is_ambiguous a b = true ->
  seg_twin a b = true /\ seg_differs a b.
Proof.
  intros ic va a ic' vb b Ha Hb. apply is_ambiguous_twin_plain; eapply new_segment_lit_plain; eassumption.
Qed.

(* on arbitrary segment records the statement is false: a "literal" record with the '-' flag set *)
Definition odd_lit : segment :=
  {| sval := [97%N]; sname := []; srule := []; ssuffix := []; styp := TString; samb := O;
     sendpoint := false; signore := true; sre := REmpty; smatch := fun _ => true |}.

Theorem is_ambiguous_twin_refuted :
  ~ (forall a b, is_ambiguous a b = true -> seg_twin a b = true /\ seg_differs a b).
Proof.
  intro H. destruct (H odd_lit (string_seg [98%N]) eq_refl) as [H1 _]. discriminate H1.
Qed.

(* ================================================================ Part B : soundness of the walk *)

Inductive amb_walk (ic : icpts) : node -> bytes -> bool -> node -> bool -> Prop :=
| aw_here : forall n f, nhandlers n <> [] -> amb_walk ic n [] f n f
| aw_same : forall n ch pattern f r f', In ch (nchildren n) -> pattern <> [] ->
    has_prefix pattern (sval (nseg ch)) = true ->
    amb_walk ic ch (skipn (length (sval (nseg ch))) pattern) f r f' ->
    amb_walk ic n pattern f r f'
| aw_amb : forall n ch pattern s0 segs f r f', In ch (nchildren n) -> pattern <> [] ->
    has_prefix pattern (sval (nseg ch)) = false ->
    split ic pattern = Ok (s0 :: segs) -> is_ambiguous (nseg ch) s0 = true ->
    amb_walk ic ch (concat (map sval segs)) true r f' ->
    amb_walk ic n pattern f r f'.

Lemma nsize_pos_handlers : forall n, Nat.ltb 0 (nsize n) = true -> nhandlers n <> [].
Proof.
  intros n H E. unfold nsize in H. rewrite E in H. discriminate H.
Qed.

Lemma split_cons_rest : forall ic pattern s0 segs, split ic pattern = Ok (s0 :: segs) ->
  pattern = sval s0 ++ concat (map sval segs) /\
  skipn (length (sval s0)) pattern = concat (map sval segs).
Proof.
  intros ic pattern s0 segs H. apply TreeOnion.split_concat in H. cbn [map concat] in H.
  split; [now symmetry|]. rewrite <- H. rewrite skipn_app, skipn_all, Nat.sub_diag. reflexivity.
Qed.

Theorem check_amb_walk : forall fuel ic n pattern f0 q flag,
  check_amb fuel ic n pattern f0 = Ok (Some (q, flag)) ->
  exists r, amb_walk ic n pattern f0 r flag /\ npat r = q.
Proof.
  induction fuel as [|f IH]; intros ic n pattern f0 q flag H; [discriminate H|].
  rewrite check_amb_S in H. destruct pattern as [|b pattern].
  - destruct (Nat.ltb 0 (nsize n)) eqn:Hs; [|discriminate H]. injection H as <- <-.
    exists n. split; [|reflexivity]. constructor. now apply nsize_pos_handlers.
  - remember (b :: pattern) as pat eqn:Epat.
    assert (Hpat : pat <> []) by (rewrite Epat; discriminate). clear Epat.
    assert (Hgo : forall c, incl c (nchildren n) -> amb_go f ic pat f0 c = Ok (Some (q, flag)) ->
              exists r, amb_walk ic n pat f0 r flag /\ npat r = q).
    { induction c as [|ch c IHc]; intros Hin Hc; cbn [amb_go] in Hc; [discriminate Hc|].
      assert (Ich : In ch (nchildren n)) by (apply Hin; now left).
      assert (Hin' : incl c (nchildren n)) by (intros y Iy; apply Hin; now right).
      cbv zeta in Hc. destruct (has_prefix pat (sval (nseg ch))) eqn:Hp.
      - destruct (check_amb f ic ch (skipn (length (sval (nseg ch))) pat) f0) as [[[q1 f1]|]| | |] eqn:E;
          cbn [bind] in Hc; try discriminate Hc; [|now apply IHc].
        injection Hc as -> ->. destruct (IH _ _ _ _ _ _ E) as [r [Hw Hq]].
        exists r. split; [|exact Hq]. now apply (aw_same ic n ch).
      - destruct (split ic pat) as [segs| | |] eqn:Es; cbn [bind] in Hc; try discriminate Hc.
        destruct segs as [|s0 segs]; [discriminate Hc|].
        destruct (is_ambiguous (nseg ch) s0) eqn:Ea; [|now apply IHc].
        destruct (split_cons_rest _ _ _ _ Es) as [Hcat Hsk].
        destruct (slice_or_panic "checkAmbiguous:slice" pat (length (sval s0)) (length pat)) as [rest| | |] eqn:Er;
          cbn [bind] in Hc; try discriminate Hc.
        apply TreeText.slice_or_panic_ok in Er. apply TreeText.gslice_to_end in Er. rewrite Hsk in Er. subst rest.
        destruct (check_amb f ic ch (concat (map sval segs)) true) as [[[q1 f1]|]| | |] eqn:E;
          cbn [bind] in Hc; try discriminate Hc; [|now apply IHc].
        injection Hc as -> ->. destruct (IH _ _ _ _ _ _ E) as [r [Hw Hq]].
        exists r. split; [|exact Hq]. now apply (aw_amb ic n ch pat s0 segs). }
    apply (Hgo (nchildren n)); [apply incl_refl | exact H].
Qed.

Lemma amb_walk_node : forall ic n pattern f r f', amb_walk ic n pattern f r f' ->
  (r = n \/ desc n r) /\ nhandlers r <> [].
Proof.
  intros ic n pattern f r f' H.
  induction H as [n f Hh | n ch pattern f r f' Ich Hne Hp Hw [IH1 IH2]
                 | n ch pattern s0 segs f r f' Ich Hne Hp Hs Ha Hw [IH1 IH2]].
  - split; [now left | exact Hh].
  - split; [right | exact IH2].
    destruct IH1 as [->|Hd]; [now apply desc_child | now apply (desc_step n ch)].
  - split; [right | exact IH2].
    destruct IH1 as [->|Hd]; [now apply desc_child | now apply (desc_step n ch)].
Qed.

(* the flag only ever goes up *)
Lemma amb_walk_flag_mono : forall ic n pattern f r f', amb_walk ic n pattern f r f' ->
  f = true -> f' = true.
Proof.
  intros ic n pattern f r f' H.
  induction H as [n f Hh | n ch pattern f r f' Ich Hne Hp Hw IH
                 | n ch pattern s0 segs f r f' Ich Hne Hp Hs Ha Hw IH]; intro Hf.
  - exact Hf.
  - now apply IH.
  - now apply IH.
Qed.

(* with the flag still down the whole remaining pattern was consumed literally *)
Lemma amb_walk_false_text : forall ic n pattern f r f', amb_walk ic n pattern f r f' ->
  f' = false -> all_nodes TreeText.pat_ok n -> npat r = npat n ++ pattern.
Proof.
  intros ic n pattern f r f' H.
  induction H as [n f Hh | n ch pattern f r f' Ich Hne Hp Hw IH
                 | n ch pattern s0 segs f r f' Ich Hne Hp Hs Ha Hw IH]; intros Hf Hn.
  - now rewrite app_nil_r.
  - rewrite (IH Hf (all_nodes_child _ _ _ Hn Ich)).
    rewrite (all_nodes_here _ _ Hn ch Ich), <- app_assoc. f_equal.
    symmetry. now apply has_prefix_skipn.
  - exfalso. rewrite (amb_walk_flag_mono _ _ _ _ _ _ Hw eq_refl) in Hf. discriminate Hf.
Qed.

Theorem check_amb_sound : forall fuel ic n pattern f0 q flag,
  check_amb fuel ic n pattern f0 = Ok (Some (q, flag)) ->
  exists r, (r = n \/ desc n r) /\ npat r = q /\ nhandlers r <> [].
Proof.
  intros fuel ic n pattern f0 q flag H. destruct (check_amb_walk _ _ _ _ _ _ _ H) as [r [Hw Hq]].
  exists r. destruct (amb_walk_node _ _ _ _ _ _ Hw) as [H1 H2]. split; [exact H1|]. now split.
Qed.

Theorem check_amb_false_exact : forall fuel ic n pattern q,
  all_nodes TreeText.pat_ok n -> check_amb fuel ic n pattern false = Ok (Some (q, false)) ->
  q = npat n ++ pattern.
Proof.
  intros fuel ic n pattern q Hn H. destruct (check_amb_walk _ _ _ _ _ _ _ H) as [r [Hw Hq]].
  rewrite <- Hq. exact (amb_walk_false_text _ _ _ _ _ _ Hw eq_refl Hn).
Qed.

(* ---------------------------------------------------------------- the text form
   [amb_text ic x y f f']: [x] is the remaining text of the new pattern, [y] the text spelled by the
   labels walked through; a step consumes the same non-empty text on both sides, or one whole first
   segment [s0] of [x] (as the model's parser sees it) against a label [a] with [is_ambiguous a s0]. *)
Inductive amb_text (ic : icpts) : bytes -> bytes -> bool -> bool -> Prop :=
| at_nil : forall f, amb_text ic [] [] f f
| at_same : forall l x y f f', amb_text ic x y f f' -> amb_text ic (l ++ x) (l ++ y) f f'
| at_amb : forall a s0 segs y f f', split ic (sval s0 ++ concat (map sval segs)) = Ok (s0 :: segs) ->
    is_ambiguous a s0 = true -> amb_text ic (concat (map sval segs)) y true f' ->
    amb_text ic (sval s0 ++ concat (map sval segs)) (sval a ++ y) f f'.

Lemma amb_walk_text : forall ic n pattern f r f', amb_walk ic n pattern f r f' ->
  all_nodes TreeText.pat_ok n -> exists y, npat r = npat n ++ y /\ amb_text ic pattern y f f'.
Proof.
  intros ic n pattern f r f' H.
  induction H as [n f Hh | n ch pattern f r f' Ich Hne Hp Hw IH
                 | n ch pattern s0 segs f r f' Ich Hne Hp Hs Ha Hw IH]; intro Hn.
  - exists []. split; [now rewrite app_nil_r | constructor].
  - destruct (IH (all_nodes_child _ _ _ Hn Ich)) as [y [Hy Ht]].
    exists (sval (nseg ch) ++ y). split.
    + rewrite Hy, (all_nodes_here _ _ Hn ch Ich), <- app_assoc. reflexivity.
    + rewrite (has_prefix_skipn _ _ Hp) at 1. now constructor.
  - destruct (IH (all_nodes_child _ _ _ Hn Ich)) as [y [Hy Ht]].
    exists (sval (nseg ch) ++ y). split.
    + rewrite Hy, (all_nodes_here _ _ Hn ch Ich), <- app_assoc. reflexivity.
    + destruct (split_cons_rest _ _ _ _ Hs) as [Hcat _]. rewrite Hcat in Hs |- *.
      now apply (at_amb ic (nseg ch) s0 segs).
Qed.

Lemma skipn_app_exact : forall (a b : bytes), skipn (length a) (a ++ b) = b.
Proof. intros a b. rewrite skipn_app, skipn_all, Nat.sub_diag. reflexivity. Qed.

Theorem check_amb_text : forall fuel ic n pattern q flag,
  all_nodes TreeText.pat_ok n -> check_amb fuel ic n pattern false = Ok (Some (q, flag)) ->
  firstn (length (npat n)) q = npat n /\
  amb_text ic pattern (skipn (length (npat n)) q) false flag.
Proof.
  intros fuel ic n pattern q flag Hn H. destruct (check_amb_walk _ _ _ _ _ _ _ H) as [r [Hw Hq]].
  destruct (amb_walk_text _ _ _ _ _ _ Hw Hn) as [y [Hy Ht]]. rewrite <- Hq, Hy.
  split; [|now rewrite skipn_app_exact].
  rewrite firstn_app, firstn_all, Nat.sub_diag. cbn [firstn]. now rewrite app_nil_r.
Qed.

(* ================================================================ Part C : no other error is "ambiguous" *)

Definition amb_err : bytes := bs "ambiguous".
Definition not_amb {T} (r : res T) : Prop := forall e, r = Err e -> beqb e amb_err = false.

Lemma not_amb_ok : forall T (x : T), not_amb (Ok x).
Proof. intros T x e H. discriminate H. Qed.
Lemma not_amb_panic : forall T s, not_amb (@Panic T s).
Proof. intros T s e H. discriminate H. Qed.
Lemma not_amb_unsup : forall T, not_amb (@Unsup T).
Proof. intros T e H. discriminate H. Qed.
Lemma not_amb_err : forall T e, beqb e amb_err = false -> not_amb (@Err T e).
Proof. intros T e He e' H. injection H as <-. exact He. Qed.

Lemma not_amb_bind : forall A B (r : res A) (f : A -> res B),
  not_amb r -> (forall x, r = Ok x -> not_amb (f x)) -> not_amb (bind r f).
Proof.
  intros A B r f Hr Hf. destruct r as [x|e|s|]; cbn [bind].
  - now apply Hf.
  - intros e' H. injection H as <-. now apply Hr.
  - apply not_amb_panic.
  - apply not_amb_unsup.
Qed.

Lemma not_amb_slice : forall site s lo hi, not_amb (slice_or_panic site s lo hi).
Proof.
  intros site s lo hi. unfold slice_or_panic. destruct (gslice s lo hi); [apply not_amb_ok | apply not_amb_panic].
Qed.

Lemma not_amb_clean_name : forall name, not_amb (clean_name name).
Proof.
  intros [|c n]; [apply not_amb_panic|].
  destruct (clean_name_cases (c :: n) ltac:(discriminate)) as [E|E]; rewrite E; apply not_amb_ok.
Qed.

Lemma not_amb_new_segment : forall ic val, not_amb (new_segment ic val).
Proof.
  intros ic val. unfold new_segment.
  destruct (N.ltb max_int16 (N.of_nat (length val))); [apply not_amb_err; reflexivity|].
  destruct (index_byte val 123) as [start|]; [|apply not_amb_ok].
  destruct (index_byte val 125) as [end_|]; [|apply not_amb_ok].
  destruct (Nat.ltb end_ start || Nat.eqb (S start) end_ || _); [apply not_amb_err; reflexivity|].
  cbv zeta.
  destruct (match index_byte val 58 with None => true | Some sp => Nat.eqb (S sp) end_ || Nat.ltb end_ sp end).
  - apply not_amb_bind; [apply not_amb_slice|]. intros name0 _.
    apply not_amb_bind.
    { destruct (index_byte val 58) as [sp|]; [|apply not_amb_ok].
      destruct (Nat.ltb sp end_); [apply not_amb_slice | apply not_amb_ok]. }
    intros name1 _. apply not_amb_bind; [apply not_amb_slice|]. intros suffix _.
    apply not_amb_bind; [apply not_amb_clean_name|]. intros [ign name] _. apply not_amb_ok.
  - apply not_amb_bind; [apply not_amb_slice|]. intros rule _.
    apply not_amb_bind; [apply not_amb_slice|]. intros name1 _.
    apply not_amb_bind; [apply not_amb_clean_name|]. intros [ign name] _.
    apply not_amb_bind; [apply not_amb_slice|]. intros suffix _.
    destruct (alookup rule ic); [apply not_amb_ok|].
    destruct (negb ign && negb _); [apply not_amb_err; reflexivity|].
    destruct (re_parse rule); [apply not_amb_ok | apply not_amb_err; reflexivity | apply not_amb_unsup].
Qed.

Lemma not_amb_split_pieces : forall ic ss flag names, not_amb (split_pieces ic ss flag names).
Proof.
  intros ic ss. induction ss as [|s ss IH]; intros flag names; cbn [split_pieces]; [apply not_amb_ok|].
  destruct (first_byte s) as [c0|]; [|apply not_amb_panic].
  destruct (flag && N.eqb c0 123); [apply not_amb_err; reflexivity|].
  apply not_amb_bind; [apply not_amb_new_segment|]. intros seg _. cbv zeta.
  destruct (negb (stype_eqb (styp seg) TString) && mem (sname seg) names); [apply not_amb_err; reflexivity|].
  apply not_amb_bind; [apply IH|]. intros rest _. apply not_amb_ok.
Qed.

Lemma not_amb_split : forall ic p, not_amb (split ic p).
Proof.
  intros ic [|b p]; cbn [split]; [apply not_amb_err; reflexivity | apply not_amb_split_pieces].
Qed.

Lemma not_amb_check_methods : forall trace existing ms seen, not_amb (check_methods trace existing seen ms).
Proof.
  intros trace existing. induction ms as [|m ms IH]; intro seen; cbn [check_methods]; [apply not_amb_ok|].
  destruct (beqb m OPTIONS || beqb m HEAD || (trace && beqb m TRACE)); [apply not_amb_err; reflexivity|].
  destruct (negb (is_method m)); [apply not_amb_err; reflexivity|].
  destruct (ahas m existing || mem m seen); [apply not_amb_err; reflexivity | apply IH].
Qed.

Lemma not_amb_add_methods : forall trace router h pattern mws ms n,
  not_amb (add_methods trace router h pattern mws ms n).
Proof.
  intros trace router h pattern mws ms n. unfold add_methods.
  apply not_amb_bind; [apply not_amb_check_methods|]. intros u _. apply not_amb_ok.
Qed.

Lemma not_amb_sort_node : forall n keyed, not_amb (sort_node n keyed).
Proof.
  intros n keyed. unfold sort_node. apply not_amb_bind; [|intros ix _; apply not_amb_ok].
  unfold build_indexes. destruct (Nat.ltb _ _); [apply not_amb_ok|].
  destruct (build_indexes_from _ _ _); [apply not_amb_ok | apply not_amb_panic].
Qed.

Lemma not_amb_seg_split : forall ic seg pos, not_amb (seg_split ic seg pos).
Proof.
  intros ic seg pos. unfold seg_split.
  apply not_amb_bind; [apply not_amb_slice|]. intros v1 _.
  apply not_amb_bind; [apply not_amb_slice|]. intros v2 _.
  apply not_amb_bind; [apply not_amb_new_segment|]. intros s1 _.
  apply not_amb_bind; [apply not_amb_new_segment|]. intros s2 _. apply not_amb_ok.
Qed.

Lemma not_amb_add_segment : forall fuel ic n seg k, (forall ch, not_amb (k ch)) ->
  not_amb (add_segment fuel ic n seg k).
Proof.
  induction fuel as [|f IH]; intros ic n seg k Hk; [apply not_amb_panic|].
  rewrite add_segment_S. cbv zeta.
  assert (Hcont : forall l ch, not_amb (cont_of f ic seg l k ch)).
  { intros l ch. unfold cont_of. destruct (Nat.eqb (length (sval seg)) l); [apply Hk|].
    apply not_amb_bind; [apply not_amb_slice|]. intros rest _.
    apply not_amb_bind; [apply not_amb_new_segment|]. intros s _. now apply IH. }
  destruct (scan_sim seg (nchildren n) 0 None) as [[i|] [[j l]|]].
  - destruct (nth_error (nchildren n) i) as [ch|]; [|apply not_amb_panic].
    apply not_amb_bind; [apply Hk|]. intros ch' _. apply not_amb_ok.
  - destruct (nth_error (nchildren n) i) as [ch|]; [|apply not_amb_panic].
    apply not_amb_bind; [apply Hk|]. intros ch' _. apply not_amb_ok.
  - destruct (nth_error (nchildren n) j) as [ch|]; [|apply not_amb_panic].
    destruct (Nat.leb (length (sval (nseg ch))) (Z.to_nat l)).
    + apply not_amb_bind; [apply Hcont|]. intros ch' _. apply not_amb_ok.
    + apply not_amb_bind; [apply not_amb_seg_split|]. intros [s1 s2] _.
      apply not_amb_bind; [apply not_amb_sort_node|]. intros ret _.
      apply not_amb_bind; [apply Hcont|]. intros ret' _. apply not_amb_sort_node.
  - apply not_amb_bind; [apply Hk|]. intros nn' _. apply not_amb_sort_node.
Qed.

Lemma not_amb_get_node : forall segs fuel ic n upd, (forall ch, not_amb (upd ch)) ->
  not_amb (get_node fuel ic n segs upd).
Proof.
  induction segs as [|seg rest IH]; intros fuel ic n upd Hk; [apply not_amb_panic|].
  destruct rest as [|seg2 rest]; cbn [get_node].
  - now apply not_amb_add_segment.
  - apply not_amb_add_segment. intro ch. now apply IH.
Qed.

Lemma not_amb_check_amb : forall fuel ic n pattern f0, not_amb (check_amb fuel ic n pattern f0).
Proof.
  induction fuel as [|f IH]; intros ic n pattern f0; [apply not_amb_panic|].
  rewrite check_amb_S. destruct pattern as [|b pattern]; [apply not_amb_ok|].
  generalize (b :: pattern) as pat. intro pat.
  induction (nchildren n) as [|ch c IHc]; cbn [amb_go]; [apply not_amb_ok|].
  cbv zeta. destruct (has_prefix pat (sval (nseg ch))).
  - apply not_amb_bind; [apply IH|]. intros [x|] _; [apply not_amb_ok | exact IHc].
  - apply not_amb_bind; [apply not_amb_split|]. intros [|s0 segs] _; [apply not_amb_panic|].
    destruct (is_ambiguous (nseg ch) s0); [|exact IHc].
    apply not_amb_bind; [apply not_amb_slice|]. intros rest _.
    apply not_amb_bind; [apply IH|]. intros [x|] _; [apply not_amb_ok | exact IHc].
Qed.

(* Tree.Add after the ambiguity check *)
Definition add_rest (t : tree) (pattern : bytes) (h : hterm) (mws ms : list bytes) : res tree :=
  let fuel := (tree_fuel t + length pattern + 2)%nat in
  let ms := match ms with [] => any_methods | _ => ms end in
  do segs <- split (tic t) pattern;
  do _ <- check_methods (has_trace t)
            (match find fuel (troot t) pattern with Some n => nhandlers n | None => [] end) [] ms;
  do root' <- get_node fuel (tic t) (troot t) segs
                (add_methods (has_trace t) (tname t) h pattern mws ms);
  Ok (tree_build_methods t root' 1 ms).

Lemma tree_add_unfold : forall t p h mws ms,
  tree_add t p h mws ms =
  do amb <- check_amb (tree_fuel t + length p + 2) (tic t) (troot t) p false;
  match amb with
  | Some (_, true) => Err amb_err
  | _ => add_rest t p h mws ms
  end.
Proof. reflexivity. Qed.

Lemma not_amb_add_rest : forall t p h mws ms, not_amb (add_rest t p h mws ms).
Proof.
  intros t p h mws ms. unfold add_rest. cbv zeta.
  apply not_amb_bind; [apply not_amb_split|]. intros segs _.
  apply not_amb_bind; [apply not_amb_check_methods|]. intros u _.
  apply not_amb_bind; [|intros root' _; apply not_amb_ok].
  apply not_amb_get_node. intro ch. apply not_amb_add_methods.
Qed.

(* the error "ambiguous" is reported exactly when the walk answers with the flag up *)
Theorem tree_add_ambiguous_iff : forall t p h mws ms,
  tree_add t p h mws ms = Err amb_err <->
  exists q, check_amb (tree_fuel t + length p + 2) (tic t) (troot t) p false = Ok (Some (q, true)).
Proof.
  intros t p h mws ms. rewrite tree_add_unfold. split.
  - intro H.
    destruct (check_amb (tree_fuel t + length p + 2) (tic t) (troot t) p false) as [amb|e|s|] eqn:E;
      cbn [bind] in H; try discriminate H.
    + assert (Hr : add_rest t p h mws ms = Err amb_err -> False).
      { intro Hr. apply not_amb_add_rest in Hr. discriminate Hr. }
      destruct amb as [[q [|]]|]; [now exists q | now elim Hr | now elim Hr].
    + exfalso. injection H as ->. apply not_amb_check_amb in E. discriminate E.
  - intros [q ->]. reflexivity.
Qed.

Theorem not_ambiguous_when_flag_false : forall t p h mws ms,
  (exists q, check_amb (tree_fuel t + length p + 2) (tic t) (troot t) p false = Ok (Some (q, false))) ->
  forall e, tree_add t p h mws ms = Err e -> e <> bs "ambiguous".
Proof.
  intros t p h mws ms [q Hq] e H E. subst e.
  apply tree_add_ambiguous_iff in H. destruct H as [q' H]. rewrite Hq in H. discriminate H.
Qed.

(* ================================================================ Part D : split of a suffix *)

Lemma ssl_S : forall f str e acc,
  split_string_loop (S f) str e acc =
  match index_byte (skipn e str) 123 with
  | None => rev (str :: acc)
  | Some start =>
    if Nat.ltb 0 start then
      match index_byte (skipn (start + e) str) 125 with
      | None => rev (skipn (start + e) str :: firstn (start + e) str :: acc)
      | Some e' => split_string_loop f (skipn (start + e) str) e' (firstn (start + e) str :: acc)
      end
    else
      match index_byte str 125 with
      | None => rev (str :: acc)
      | Some e' => split_string_loop f str e' acc
      end
  end.
Proof.
  intros f str e acc. cbn [split_string_loop].
  destruct (index_byte (skipn e str) 123) as [start|]; [|reflexivity].
  destruct (Nat.ltb 0 start); reflexivity.
Qed.

Lemma ssl_acc : forall f str e acc,
  split_string_loop f str e acc = rev acc ++ split_string_loop f str e [].
Proof.
  induction f as [|f IH]; intros str e acc.
  - cbn [split_string_loop rev app]. reflexivity.
  - rewrite !ssl_S. destruct (index_byte (skipn e str) 123) as [start|]; [|reflexivity].
    destruct (Nat.ltb 0 start).
    + destruct (index_byte (skipn (start + e) str) 125) as [e'|].
      * rewrite IH, (IH _ _ [_]). cbn [rev app]. now rewrite <- app_assoc.
      * cbn [rev app]. now rewrite <- app_assoc.
    + destruct (index_byte str 125) as [e'|]; [apply IH | reflexivity].
Qed.

(* the state of the loop after a piece has been cut off: the rest starts with '{' and [e] is its first '}' *)
Definition tok_state (str : bytes) (e : nat) : Prop :=
  index_byte str 123 = Some 0 /\ index_byte str 125 = Some e.

Lemma tok_state_start_pos : forall str e start, tok_state str e ->
  index_byte (skipn e str) 123 = Some start -> 0 < start.
Proof.
  intros str e start [H0 He] Es.
  assert (Hc0 : index_byte (skipn e str) 125 = Some 0) by (apply index_byte_skipn_zero; exact He).
  destruct start as [|start]; [|lia]. exfalso.
  destruct (skipn e str) as [|x r]; [discriminate Es|]. simpl in Es, Hc0.
  destruct (N.eqb x 123) eqn:X1.
  - apply N.eqb_eq in X1. subst x. simpl in Hc0. destruct (index_byte r 125); discriminate Hc0.
  - destruct (index_byte r 123); discriminate Es.
Qed.

Lemma tok_state_next : forall str e start e', index_byte (skipn e str) 123 = Some start ->
  index_byte (skipn (start + e) str) 125 = Some e' -> tok_state (skipn (start + e) str) e'.
Proof.
  intros str e start e' Es Ee. split; [|exact Ee].
  rewrite <- skipn_add. apply index_byte_skipn_zero. exact Es.
Qed.

Lemma skipn_shorter : forall (str : bytes) k, 0 < k -> str <> [] -> length (skipn k str) < length str.
Proof.
  intros str k Hk Hne. rewrite skipn_length. destruct str as [|c str]; [congruence|]. cbn [length]. lia.
Qed.

Lemma tok_state_ne : forall str e, tok_state str e -> str <> [].
Proof. intros str e [H _]. eapply index_byte_some_nonempty; exact H. Qed.

(* enough fuel is enough *)
Lemma ssl_fuel : forall f1 f2 str e, tok_state str e -> length str < f1 -> length str < f2 ->
  split_string_loop f1 str e [] = split_string_loop f2 str e [].
Proof.
  induction f1 as [|f1 IH]; intros f2 str e Ht H1 H2; [lia|].
  destruct f2 as [|f2]; [lia|]. rewrite !ssl_S.
  destruct (index_byte (skipn e str) 123) as [start|] eqn:Es; [|reflexivity].
  pose proof (tok_state_start_pos _ _ _ Ht Es) as Hs.
  rewrite (proj2 (Nat.ltb_lt 0 start) Hs).
  destruct (index_byte (skipn (start + e) str) 125) as [e'|] eqn:Ee; [|reflexivity].
  rewrite ssl_acc, (ssl_acc f2). f_equal.
  pose proof (skipn_shorter str (start + e) ltac:(lia) (tok_state_ne _ _ Ht)) as Hl.
  apply IH; [exact (tok_state_next _ _ _ _ Es Ee) | lia | lia].
Qed.

(* splitString on a string that starts with '{' *)
Lemma split_string_tok : forall str e, tok_state str e ->
  split_string str = split_string_loop (S (length str)) str e [].
Proof.
  intros str e [H0 He]. unfold split_string. rewrite ssl_S. cbn [skipn]. rewrite H0.
  cbn [Nat.ltb Nat.leb]. now rewrite He.
Qed.

Lemma split_string_open : forall str, index_byte str 123 = Some 0 -> index_byte str 125 = None ->
  split_string str = [str].
Proof.
  intros str H0 He. unfold split_string. rewrite ssl_S. cbn [skipn]. rewrite H0.
  cbn [Nat.ltb Nat.leb]. now rewrite He.
Qed.

Lemma ssl_concat_nil : forall f str e, concat (split_string_loop f str e []) = str.
Proof. intros f str e. now rewrite TreeOnion.split_string_loop_concat. Qed.

Lemma tail_eq : forall (x y : bytes) (a b : list bytes), x :: a = y :: b -> a = b.
Proof. intros x y a b H. now injection H. Qed.

(* the pieces after the first one, from a token state *)
Lemma ssl_tail : forall f str e y l2, tok_state str e -> length str < f ->
  split_string_loop f str e [] = y :: l2 -> l2 <> [] -> split_string (concat l2) = l2.
Proof.
  intros f str e y l2 Ht Hf H Hne. destruct f as [|f]; [lia|]. rewrite ssl_S in H.
  destruct (index_byte (skipn e str) 123) as [start|] eqn:Es.
  2:{ cbn [rev app] in H. apply tail_eq in H; subst l2. now elim Hne. }
  pose proof (tok_state_start_pos _ _ _ Ht Es) as Hs.
  rewrite (proj2 (Nat.ltb_lt 0 start) Hs) in H.
  pose proof (skipn_shorter str (start + e) ltac:(lia) (tok_state_ne _ _ Ht)) as Hl.
  assert (H0' : index_byte (skipn (start + e) str) 123 = Some 0).
  { rewrite <- skipn_add. apply index_byte_skipn_zero. exact Es. }
  destruct (index_byte (skipn (start + e) str) 125) as [e'|] eqn:Ee.
  - rewrite ssl_acc in H. cbn [rev app] in H. apply tail_eq in H; subst l2.
    rewrite ssl_concat_nil.
    rewrite (split_string_tok _ e' (conj H0' Ee)).
    apply ssl_fuel; [now split | lia | lia].
  - cbn [rev app] in H. apply tail_eq in H; subst l2. cbn [concat]. rewrite app_nil_r.
    now apply split_string_open.
Qed.

Theorem split_string_tail : forall str y l2, split_string str = y :: l2 -> l2 <> [] ->
  split_string (concat l2) = l2.
Proof.
  intros str y l2 H Hne. unfold split_string in H. rewrite ssl_S in H. cbn [skipn] in H.
  destruct (index_byte str 123) as [start|] eqn:Es.
  2:{ cbn [rev app] in H. apply tail_eq in H; subst l2. now elim Hne. }
  destruct (Nat.ltb_spec 0 start) as [Hs|Hs].
  - rewrite Nat.add_0_r in H.
    assert (Hne' : str <> []) by (eapply index_byte_some_nonempty; exact Es).
    pose proof (skipn_shorter str start Hs Hne') as Hl.
    assert (H0' : index_byte (skipn start str) 123 = Some 0) by (apply index_byte_skipn_zero; exact Es).
    destruct (index_byte (skipn start str) 125) as [e'|] eqn:Ee.
    + rewrite ssl_acc in H. cbn [rev app] in H. apply tail_eq in H; subst l2.
      rewrite ssl_concat_nil. rewrite (split_string_tok _ e' (conj H0' Ee)).
      apply ssl_fuel; [now split | lia | lia].
    + cbn [rev app] in H. apply tail_eq in H; subst l2. cbn [concat]. rewrite app_nil_r.
      now apply split_string_open.
  - assert (start = 0) by lia. subst start.
    destruct (index_byte str 125) as [e'|] eqn:Ee.
    + apply (ssl_tail (S (length str)) str e' y l2 (conj Es Ee)); [lia | exact H | exact Hne].
    + cbn [rev app] in H. apply tail_eq in H; subst l2. now elim Hne.
Qed.

(* fewer names seen and no '}' just before: split_pieces accepts at least as much *)
Lemma split_pieces_weaken : forall ic ss flag names flag' names' segs,
  (flag' = true -> flag = true) -> (forall x, mem x names' = true -> mem x names = true) ->
  split_pieces ic ss flag names = Ok segs -> split_pieces ic ss flag' names' = Ok segs.
Proof.
  intros ic ss. induction ss as [|s ss IH]; intros flag names flag' names' segs Hf Hn H; cbn [split_pieces] in *.
  - exact H.
  - destruct (first_byte s) as [c0|]; [|discriminate H].
    destruct (flag && N.eqb c0 123) eqn:C; [discriminate H|].
    assert (C' : flag' && N.eqb c0 123 = false).
    { destruct flag'; [|reflexivity]. rewrite (Hf eq_refl) in C. exact C. }
    rewrite C'. TreeText.res_step H. rename x into seg. cbn [bind]. cbv zeta in *.
    destruct (negb (stype_eqb (styp seg) TString) && mem (sname seg) names) eqn:D; [discriminate H|].
    assert (D' : negb (stype_eqb (styp seg) TString) && mem (sname seg) names' = false).
    { destruct (negb (stype_eqb (styp seg) TString)); [|reflexivity]. cbn [andb] in *.
      destruct (mem (sname seg) names') eqn:M; [|reflexivity]. rewrite (Hn _ M) in D. discriminate D. }
    rewrite D'. TreeText.res_step H. injection H as <-.
    assert (Hn' : forall y, mem y (if negb (stype_eqb (styp seg) TString) then sname seg :: names' else names') = true ->
                        mem y (if negb (stype_eqb (styp seg) TString) then sname seg :: names else names) = true).
    { intros y Hy. destruct (negb (stype_eqb (styp seg) TString)); [|now apply Hn].
      cbn [mem] in *. apply orb_true_iff in Hy. apply orb_true_iff.
      destruct Hy as [Hy|Hy]; [now left | right; now apply Hn]. }
    rewrite (IH _ _ (ends_with s 125) _ _ (fun h => h) Hn' E0). reflexivity.
Qed.

Lemma split_pieces_cons : forall ic s ss flag names seg segs,
  split_pieces ic (s :: ss) flag names = Ok (seg :: segs) ->
  new_segment ic s = Ok seg /\ exists flag' names', split_pieces ic ss flag' names' = Ok segs.
Proof.
  intros ic s ss flag names seg segs H. cbn [split_pieces] in H.
  destruct (first_byte s) as [c0|]; [|discriminate H].
  destruct (flag && N.eqb c0 123); [discriminate H|].
  TreeText.res_step H. cbv zeta in H.
  destruct (negb (stype_eqb (styp x) TString) && mem (sname x) names); [discriminate H|].
  TreeText.res_step H. injection H as <- <-. split; [reflexivity|]. eauto.
Qed.

Lemma split_first_parsed : forall ic p s0 segs, split ic p = Ok (s0 :: segs) ->
  new_segment ic (sval s0) = Ok s0.
Proof.
  intros ic p s0 segs H. unfold split in H. destruct p as [|b p]; [discriminate H|].
  pose proof (TreeOnion.split_pieces_vals _ _ _ _ _ H) as Hv.
  destruct (split_string (b :: p)) as [|y l2]; [discriminate Hv|].
  cbn [map] in Hv. injection Hv as Hy _. subst y.
  exact (proj1 (split_pieces_cons _ _ _ _ _ _ _ H)).
Qed.

(* split of the text after the first piece = the remaining pieces *)
Theorem split_tail : forall ic p s0 segs, split ic p = Ok (s0 :: segs) -> segs <> [] ->
  split ic (concat (map sval segs)) = Ok segs.
Proof.
  intros ic p s0 segs H Hne.
  destruct (split_good _ _ _ H) as [_ HF]. inversion HF as [|x l _ HF']; subst.
  unfold split in H. destruct p as [|b p]; [discriminate H|].
  pose proof (TreeOnion.split_pieces_vals _ _ _ _ _ H) as Hv. cbn [map] in Hv.
  destruct (split_string (b :: p)) as [|y l2] eqn:Ess; [discriminate Hv|].
  injection Hv as _ Hl2.
  assert (Hne2 : l2 <> []) by (intro E; rewrite E in Hl2; destruct segs; [now elim Hne | discriminate Hl2]).
  pose proof (split_string_tail _ _ _ Ess Hne2) as Ht. rewrite <- Hl2 in Ht.
  destruct (split_pieces_cons _ _ _ _ _ _ _ H) as [_ [flag' [names' Hp]]].
  unfold split. rewrite Ht.
  destruct (concat (map sval segs)) as [|c r] eqn:Ec.
  - exfalso. destruct segs as [|s1 segs]; [now elim Hne|].
    inversion HF' as [|x l [[Hs1 _] _] _]; subst. cbn [map concat] in Ec.
    apply app_eq_nil in Ec. now apply Hs1.
  - rewrite <- Hl2 in Hp. refine (split_pieces_weaken _ _ _ _ _ _ _ _ _ Hp); [discriminate|].
    intros x Hx. discriminate Hx.
Qed.

(* ================================================================ Part E : the twin of the only route *)

(* ---------------------------------------------------------------- the pieces of split *)
Definition piece_ok (ic : icpts) (s : segment) : Prop := new_segment ic (sval s) = Ok s /\ Jseg s.

Lemma split_pieces_parsed : forall ic ss flag names segs,
  split_pieces ic ss flag names = Ok segs -> Forall (fun s => new_segment ic (sval s) = Ok s) segs.
Proof.
  intros ic ss. induction ss as [|s ss IH]; intros flag names segs H; cbn [split_pieces] in H.
  - injection H as <-. constructor.
  - destruct (first_byte s) as [c0|]; [|discriminate H].
    destruct (flag && N.eqb c0 123); [discriminate H|].
    TreeText.res_step H. rename x into seg. cbv zeta in H.
    destruct (negb (stype_eqb (styp seg) TString) && mem (sname seg) names); [discriminate H|].
    TreeText.res_step H. injection H as <-. constructor; [|exact (IH _ _ _ E0)].
    now rewrite (TreeText.new_segment_value _ _ _ E).
Qed.

Lemma split_pieces_ok : forall ic p segs, split ic p = Ok segs -> Forall (piece_ok ic) segs.
Proof.
  intros ic p segs H. destruct (split_good _ _ _ H) as [_ HF].
  assert (HP : Forall (fun s => new_segment ic (sval s) = Ok s) segs).
  { unfold split in H. destruct p as [|b p]; [discriminate H|]. exact (split_pieces_parsed _ _ _ _ _ H). }
  rewrite Forall_forall in *. intros s Is. split; [now apply HP | exact (proj1 (HF s Is))].
Qed.

Lemma new_segment_samb : forall ic val seg, new_segment ic val = Ok seg -> styp seg <> TString ->
  samb seg = calc_amb (signore seg) (srule seg) (ssuffix seg).
Proof.
  intros ic val seg H T. unfold new_segment in H.
  destruct (N.ltb max_int16 (N.of_nat (length val))); [discriminate H|].
  destruct (index_byte val 123) as [start|]; [|injection H as <-; now elim T].
  destruct (index_byte val 125) as [end_|]; [|injection H as <-; now elim T].
  destruct (Nat.ltb end_ start || Nat.eqb (S start) end_ || _); [discriminate H|].
  cbv zeta in H.
  repeat TreeText.res_step H; injection H as <-; reflexivity.
Qed.

Lemma index_byte_app_first : forall l c r, ~ In c l -> index_byte (l ++ c :: r) c = Some (length l).
Proof.
  induction l as [|x l IH]; intros c r Hn; cbn [app index_byte length].
  - now rewrite N.eqb_refl.
  - destruct (N.eqb_spec x c) as [->|Nx]; [exfalso; apply Hn; now left|].
    rewrite IH; [reflexivity|]. intro Hin. apply Hn. now right.
Qed.

(* the text of a parameter piece: '{' body '}' suffix *)
Lemma param_text : forall ic s, piece_ok ic s -> styp s <> TString ->
  exists body, sval s = 123%N :: body ++ 125%N :: ssuffix s /\ noc body.
Proof.
  intros ic s [Hp [_ [_ HJ]]] T. destruct (HJ T) as [body [tail [Hv [Hb Ht]]]].
  exists body. split; [|exact Hb]. rewrite Hv at 1. f_equal. f_equal. f_equal.
  apply TreeText.new_segment_inv in Hp.
  destruct Hp as [E|[st [e [_ [I2 [_ [_ [Hs _]]]]]]]].
  - exfalso. apply T. rewrite E. reflexivity.
  - rewrite Hs. rewrite Hv in I2 |- *.
    assert (I2' : index_byte (123%N :: body ++ 125%N :: tail) 125 = Some (S (length body))).
    { cbn [index_byte]. change (N.eqb 123 125) with false. cbv iota.
      now rewrite (index_byte_app_first body 125%N tail Hb). }
    rewrite I2' in I2. injection I2 as <-.
    rewrite skipn_cons, skipn_app, skipn_all2 by lia.
    replace (S (length body) - length body) with 1 by lia. reflexivity.
Qed.

Lemma first_sep_eq : forall (c : N) l1 l2 r1 r2, ~ In c l1 -> ~ In c l2 ->
  l1 ++ c :: r1 = l2 ++ c :: r2 -> l1 = l2.
Proof.
  induction l1 as [|x l1 IH]; intros l2 r1 r2 H1 H2 E; destruct l2 as [|y l2]; cbn [app] in E.
  - reflexivity.
  - injection E as E _. exfalso. apply H2. left. now symmetry.
  - injection E as E _. exfalso. apply H1. now left.
  - injection E as -> E. f_equal. apply (IH l2 r1 r2); [|  | exact E].
    + intro Hin. apply H1. now right.
    + intro Hin. apply H2. now right.
Qed.

Lemma seg_twin_param_inv : forall a b, styp a <> TString -> seg_twin a b = true ->
  styp b <> TString /\ styp a = styp b /\ srule a = srule b /\ ssuffix a = ssuffix b /\
  sendpoint a = sendpoint b.
Proof.
  intros a b Ta H. unfold seg_twin in H.
  assert (G : styp b <> TString /\
              stype_eqb (styp a) (styp b) && beqb (srule a) (srule b) && beqb (ssuffix a) (ssuffix b) &&
              Bool.eqb (sendpoint a) (sendpoint b) = true).
  { destruct (styp a); [now elim Ta | | |]; (destruct (styp b); [discriminate H | | |]);
      (split; [discriminate | exact H]). }
  destruct G as [Tb G]. split; [exact Tb|].
  apply andb_true_iff in G. destruct G as [G H4]. apply andb_true_iff in G. destruct G as [G H3].
  apply andb_true_iff in G. destruct G as [H1 H2].
  split; [now apply stype_eqb_eq|]. split; [now apply beqb_eq|]. split; [now apply beqb_eq|].
  now apply Bool.eqb_prop.
Qed.

Lemma seg_twin_lit_inv : forall a b, styp a = TString -> seg_twin a b = true -> sval a = sval b.
Proof.
  intros a b Ta H. unfold seg_twin in H. rewrite Ta in H.
  destruct (styp b); [now apply beqb_eq | discriminate H ..].
Qed.

(* a twin label that is a prefix of the remaining text is the first piece itself *)
Lemma twin_prefix_same : forall ic a b rest, piece_ok ic a -> piece_ok ic b -> seg_twin a b = true ->
  has_prefix (sval a ++ rest) (sval b) = true -> sval a = sval b.
Proof.
  intros ic a b rest Pa Pb Ht Hp.
  destruct (stype_eqb (styp a) TString) eqn:Ta.
  - apply stype_eqb_eq in Ta. now apply seg_twin_lit_inv.
  - assert (Ta' : styp a <> TString) by (intro E; rewrite E in Ta; discriminate Ta).
    destruct (seg_twin_param_inv _ _ Ta' Ht) as [Tb [_ [_ [Hs _]]]].
    destruct (param_text _ _ Pa Ta') as [ba [Va Na]].
    destruct (param_text _ _ Pb Tb) as [bb [Vb Nb]].
    apply has_prefix_spec in Hp. destruct Hp as [r Hr].
    rewrite Va, Vb in Hr |- *. rewrite Hs in Hr |- *.
    cbn [app] in Hr. injection Hr as Hr. rewrite <- !app_assoc in Hr. cbn [app] in Hr.
    now rewrite (first_sep_eq _ _ _ _ _ Na Nb Hr).
Qed.

Lemma twin_differs_ambiguous : forall ic a b, piece_ok ic a -> piece_ok ic b ->
  styp a <> TString -> seg_twin a b = true -> seg_differs a b -> is_ambiguous b a = true.
Proof.
  intros ic a b [Pa _] [Pb _] Ta Ht Hd.
  destruct (seg_twin_param_inv _ _ Ta Ht) as [Tb [H1 [H2 [H3 H4]]]].
  pose proof (new_segment_samb _ _ _ Pa Ta) as Sa. pose proof (new_segment_samb _ _ _ Pb Tb) as Sb.
  unfold is_ambiguous. rewrite <- H1, <- H2, <- H3, <- H4.
  rewrite Bool.eqb_reflx, stype_eqb_refl, !beqb_refl. cbn [andb].
  destruct (Bool.eqb (signore b) (signore a)) eqn:Ei; cbn [negb]; [|reflexivity].
  apply Bool.eqb_prop in Ei. rewrite andb_true_r.
  destruct Hd as [Hd|Hd]; [|exfalso; apply Hd; now symmetry].
  rewrite beqb_sym, Hd. cbn [negb andb]. rewrite Sa, Sb, Ei, H2, H3. apply Nat.eqb_refl.
Qed.

(* ---------------------------------------------------------------- the shape after one registration *)

(* a single chain of nodes labelled by [segs], the last one a live route *)
Inductive chain : node -> list segment -> Prop :=
| chain_leaf : forall n, nhandlers n <> [] -> chain n []
| chain_cons : forall n ch s segs, nchildren n = [ch] -> nseg ch = s -> chain ch segs ->
    chain n (s :: segs).

Lemma add_segment_fresh : forall f ic n seg k n', nchildren n = [] ->
  add_segment (S f) ic n seg k = Ok n' ->
  exists nn', k (new_node n seg) = Ok nn' /\ nchildren n' = [nn'] /\ nseg n' = nseg n /\ npat n' = npat n.
Proof.
  intros f ic n seg k n' Hc H. rewrite add_segment_S in H. cbv zeta in H. rewrite Hc in H.
  cbn [scan_sim] in H. TreeText.res_step H. rename x into nn'. exists nn'. split; [reflexivity|].
  unfold sort_node in H. cbn in H. injection H as <-.
  destruct (TreeText.set_children_facts n [nn'] []) as [Hp [Hs Hch]]. now split; [|split].
Qed.

Definition leaf_upd (upd : node -> res node) : Prop :=
  forall ch ch', upd ch = Ok ch' -> nseg ch' = nseg ch /\ npat ch' = npat ch /\ nhandlers ch' <> [].

Lemma get_node_chain : forall segs f ic n upd n', segs <> [] -> nchildren n = [] -> leaf_upd upd ->
  get_node (S f) ic n segs upd = Ok n' ->
  chain n' segs /\ nseg n' = nseg n /\ npat n' = npat n.
Proof.
  induction segs as [|seg rest IH]; intros f ic n upd n' Hne Hc Hu H; [congruence|].
  destruct rest as [|seg2 rest]; cbn [get_node] in H.
  - destruct (add_segment_fresh _ _ _ _ _ _ Hc H) as [nn' [Hk [Hch [Hs Hp]]]].
    split; [|now split]. destruct (Hu _ _ Hk) as [Hs' [_ Hh]].
    apply (chain_cons n' nn'); [exact Hch | now rewrite Hs' | now constructor].
  - destruct (add_segment_fresh _ _ _ _ _ _ Hc H) as [nn' [Hk [Hch [Hs Hp]]]].
    split; [|now split].
    destruct (IH f ic (new_node n seg) upd nn' ltac:(discriminate) eq_refl Hu Hk) as [Hcn [Hs' _]].
    apply (chain_cons n' nn'); [exact Hch | now rewrite Hs' | exact Hcn].
Qed.

Lemma add_methods_leaf_upd : forall trace router h pattern mws ms,
  leaf_upd (add_methods trace router h pattern mws ms).
Proof.
  intros trace router h pattern mws ms ch ch' H. unfold add_methods in H.
  apply bind_ok in H. destruct H as [u [_ H]]. injection H as <-.
  match goal with |- context [set_handlers ch ?hs ?i] =>
    destruct (TreeText.set_handlers_facts ch hs i) as [Hp [Hs _]]; rewrite Hs, Hp;
    split; [reflexivity|]; split; [reflexivity|]; rewrite nhandlers_set_handlers;
    assert (H405 : ahas M405 hs = true)
  end.
  { match goal with |- ahas M405 (if ahas M405 ?x then _ else _) = true => destruct (ahas M405 x) eqn:E end;
      [exact E | apply ahas_aset_same]. }
  intro E. rewrite E in H405. discriminate H405.
Qed.

Lemma check_amb_S_ne : forall f ic n pattern f0, pattern <> [] ->
  check_amb (S f) ic n pattern f0 = amb_go f ic pattern f0 (nchildren n).
Proof. intros f ic n [|b pattern] f0 H; [congruence | reflexivity]. Qed.

Theorem first_add_chain : forall name ic trace q hq mq t1,
  tree_add (new_tree name ic trace) q hq [] mq = Ok t1 ->
  exists sq, split ic q = Ok sq /\ chain (troot t1) sq /\ tic t1 = ic /\ npat (troot t1) = [].
Proof.
  intros name ic trace q hq mq t1 H. rewrite tree_add_unfold in H.
  set (t0 := new_tree name ic trace) in *.
  assert (Hc0 : nchildren (troot t0) = []) by reflexivity.
  assert (Hrest : add_rest t0 q hq [] mq = Ok t1).
  { destruct (tree_fuel t0 + length q + 2) as [|f] eqn:Ef; [unfold tree_fuel in Ef; lia|].
    destruct q as [|b q].
    - cbn [check_amb bind] in H. destruct (Nat.ltb 0 (nsize (troot t0))); exact H.
    - rewrite check_amb_S_ne, Hc0 in H by discriminate. exact H. }
  clear H. unfold add_rest in Hrest. cbv zeta in Hrest.
  change (tic t0) with ic in Hrest.
  TreeText.res_step Hrest. rename x into sq. TreeText.res_step Hrest. TreeText.res_step Hrest.
  rename x0 into root'. injection Hrest as <-.
  exists sq. split; [reflexivity|].
  destruct (tree_fuel t0 + length q + 2) as [|f] eqn:Ef; [unfold tree_fuel in Ef; lia|].
  destruct (split_good _ _ _ E) as [Hne _].
  destruct (get_node_chain _ _ _ _ _ _ Hne Hc0 (add_methods_leaf_upd _ _ _ _ _ _) E1) as [Hch [_ Hp]].
  unfold tree_build_methods. cbn [troot tic].
  split; [|split; [reflexivity|]].
  - inversion Hch as [|n ch s segs Hc Hs Hcc]; subst.
    + now elim Hne.
    + apply (chain_cons _ ch); [|reflexivity | exact Hcc].
      now rewrite nchildren_set_handlers.
  - match goal with |- npat (set_handlers ?r ?hs ?i) = _ =>
      rewrite (proj1 (TreeText.set_handlers_facts r hs i)) end.
    rewrite Hp. reflexivity.
Qed.

(* ---------------------------------------------------------------- the walk down the chain *)

(* twins whose texts are equal unless the names or the '-' flags differ *)
Definition seg_twin_strict (a b : segment) : Prop :=
  seg_twin a b = true /\ (sval a = sval b \/ seg_differs a b).

Definition pat_twin_strict (ic : icpts) (p q : bytes) : Prop :=
  exists sp sq, split ic p = Ok sp /\ split ic q = Ok sq /\ Forall2 seg_twin_strict sp sq.

Fixpoint any_text_diff (sp sq : list segment) : bool :=
  match sp, sq with
  | a :: sp', b :: sq' => negb (beqb (sval a) (sval b)) || any_text_diff sp' sq'
  | _, _ => false
  end.

Lemma chain_walk : forall ic sq n sp fuel f0, chain n sq -> Forall2 seg_twin_strict sp sq ->
  Forall (piece_ok ic) sp -> Forall (piece_ok ic) sq ->
  (sp = [] \/ split ic (concat (map sval sp)) = Ok sp) -> length sq < fuel ->
  exists qq, check_amb fuel ic n (concat (map sval sp)) f0 = Ok (Some (qq, f0 || any_text_diff sp sq)).
Proof.
  intros ic sq. induction sq as [|b sq IH]; intros n sp fuel f0 Hch HF Hsp Hsq Hsplit Hfuel.
  - inversion HF; subst. inversion Hch; subst. destruct fuel as [|f]; [cbn [length] in Hfuel; lia|].
    cbn [map concat any_text_diff]. rewrite check_amb_S.
    destruct (Nat.ltb 0 (nsize n)) eqn:Hs.
    + exists (npat n). now rewrite orb_false_r.
    + exfalso. unfold nsize in Hs. destruct (nhandlers n); [congruence | discriminate Hs].
  - inversion HF as [|a b' sp' sq' [Ht Hd] HF']; subst.
    inversion Hch as [|n0 ch s segs Hc Hs Hcc]; subst.
    inversion Hsp as [|x l Pa Hsp']; subst. inversion Hsq as [|x l Pb Hsq']; subst.
    destruct Hsplit as [Hsplit|Hsplit]; [discriminate Hsplit|].
    destruct fuel as [|f]; [lia|]. cbn [length] in Hfuel.
    cbn [map concat any_text_diff] in *.
    assert (Hne : sval a ++ concat (map sval sp') <> []).
    { intro E. apply app_eq_nil in E. destruct Pa as [_ [Hv _]]. now apply Hv. }
    assert (Hsplit' : sp' = [] \/ split ic (concat (map sval sp')) = Ok sp').
    { destruct sp' as [|a2 sp']; [now left | right]. apply (split_tail _ _ _ _ Hsplit). discriminate. }
    rewrite (check_amb_S_ne _ _ _ _ _ Hne), Hc. cbn [amb_go]. cbv zeta.
    destruct (has_prefix (sval a ++ concat (map sval sp')) (sval (nseg ch))) eqn:Hp.
    + pose proof (twin_prefix_same _ _ _ _ Pa Pb Ht Hp) as Ev.
      rewrite <- Ev, skipn_app_exact.
      destruct (IH ch sp' f f0 Hcc HF' Hsp' Hsq' Hsplit' ltac:(lia)) as [qq Hq].
      rewrite Hq. cbn [bind]. exists qq. rewrite Ev, beqb_refl. reflexivity.
    + assert (Nv : sval a <> sval (nseg ch)).
      { intro Ev. rewrite <- Ev, has_prefix_app in Hp. discriminate Hp. }
      destruct Hd as [Hd|Hd]; [now elim Nv|].
      assert (Ta : styp a <> TString).
      { intro Ta. apply Nv. now apply seg_twin_lit_inv. }
      rewrite Hsplit. cbn [bind].
      rewrite (twin_differs_ambiguous _ _ _ Pa Pb Ta Ht Hd).
      rewrite slice_ok by (rewrite ?app_length; lia).
      cbn [bind]. rewrite firstn_all2 by (rewrite skipn_length; lia). rewrite skipn_app_exact.
      destruct (IH ch sp' f true Hcc HF' Hsp' Hsq' Hsplit' ltac:(lia)) as [qq Hq].
      rewrite Hq. cbn [bind]. exists qq.
      apply beqb_neq in Nv. rewrite Nv. cbn [negb orb]. now rewrite orb_true_r.
Qed.

Lemma no_text_diff_same : forall sp sq, length sp = length sq -> any_text_diff sp sq = false ->
  map sval sp = map sval sq.
Proof.
  induction sp as [|a sp IH]; intros [|b sq] Hl H; cbn [length] in Hl; try discriminate Hl; [reflexivity|].
  cbn [any_text_diff] in H. apply orb_false_iff in H. destruct H as [H1 H2].
  apply negb_false_iff in H1. apply beqb_eq in H1. cbn [map]. rewrite H1. f_equal.
  apply IH; [lia | exact H2].
Qed.

Lemma pieces_length : forall ic segs, Forall (piece_ok ic) segs ->
  length segs <= length (concat (map sval segs)).
Proof.
  intros ic segs H. induction H as [|s segs [_ [Hv _]] _ IH]; [apply Nat.le_refl|].
  cbn [map concat length]. rewrite app_length.
  destruct (sval s); [congruence | cbn [length]; lia].
Qed.

Lemma Forall2_len : forall (A B : Type) (R : A -> B -> Prop) l1 l2, Forall2 R l1 l2 -> length l1 = length l2.
Proof. intros A B R l1 l2 H. induction H as [|x y l1 l2 _ _ IH]; [reflexivity | cbn [length]; now rewrite IH]. Qed.

Theorem twin_of_only_route_rejected : forall name ic trace q hq mq p h mws ms t1,
  tree_add (new_tree name ic trace) q hq [] mq = Ok t1 -> pat_twin_strict ic p q -> p <> q ->
  tree_add t1 p h mws ms = Err (bs "ambiguous").
Proof.
  intros name ic trace q hq mq p h mws ms t1 H1 [sp [sq [Hp [Hq HF]]]] Hne.
  destruct (first_add_chain _ _ _ _ _ _ _ H1) as [sq' [Hq' [Hch [Hic _]]]].
  rewrite Hq in Hq'. injection Hq' as <-.
  apply tree_add_ambiguous_iff. rewrite Hic.
  pose proof (split_pieces_ok _ _ _ Hp) as Psp. pose proof (split_pieces_ok _ _ _ Hq) as Psq.
  pose proof (TreeOnion.split_concat _ _ _ Hp) as Cp. pose proof (TreeOnion.split_concat _ _ _ Hq) as Cq.
  pose proof (Forall2_len _ _ _ _ _ HF) as Hlen.
  assert (Hsplit : sp = [] \/ split ic (concat (map sval sp)) = Ok sp) by (right; now rewrite Cp).
  assert (Hfuel : length sq < tree_fuel t1 + length p + 2).
  { pose proof (pieces_length _ _ Psp) as Hl. rewrite Cp in Hl. lia. }
  destruct (chain_walk ic sq (troot t1) sp _ false Hch HF Psp Psq Hsplit Hfuel) as [qq Hw].
  rewrite Cp in Hw. exists qq. rewrite Hw. cbn [orb].
  destruct (any_text_diff sp sq) eqn:D; [reflexivity|]. exfalso. apply Hne.
  rewrite <- Cp, <- Cq. now rewrite (no_text_diff_same _ _ Hlen D).
Qed.

(* ---------------------------------------------------------------- canonical spelling *)
Lemma index_byte_app_some : forall l r c i, index_byte l c = Some i -> index_byte (l ++ r) c = Some i.
Proof.
  induction l as [|x l IH]; intros r c i H; cbn [index_byte app] in *; [discriminate H|].
  destruct (N.eqb x c); [exact H|].
  destruct (index_byte l c) as [j|] eqn:E; [|discriminate H]. now rewrite (IH r c j E).
Qed.

Lemma index_byte_app_none : forall l r c, index_byte l c = None ->
  index_byte (l ++ r) c = match index_byte r c with Some j => Some (length l + j) | None => None end.
Proof.
  induction l as [|x l IH]; intros r c H; cbn [index_byte app length] in *.
  - destruct (index_byte r c); reflexivity.
  - destruct (N.eqb x c); [discriminate H|].
    destruct (index_byte l c) as [j|] eqn:E; [discriminate H|]. rewrite (IH r c E).
    destruct (index_byte r c); reflexivity.
Qed.

Lemma clean_name_inv : forall raw ign name, clean_name raw = Ok (ign, name) ->
  raw = (if ign then [45%N] else []) ++ name.
Proof.
  intros [|c n] ign name H; [discriminate H|]. unfold clean_name in H.
  destruct c as [|p]; [injection H as <- <-; reflexivity|].
  destruct p as [p|p|]; try (injection H as <- <-; reflexivity).
  destruct p as [p|p|]; try (injection H as <- <-; reflexivity).
  destruct p as [p|p|]; try (injection H as <- <-; reflexivity).
  destruct p as [p|p|]; try (injection H as <- <-; reflexivity).
  destruct p as [p|p|]; try (injection H as <- <-; reflexivity).
  destruct p as [p|p|]; try (injection H as <- <-; reflexivity).
Qed.

(* a slice of the text between the braces *)
Lemma slice_body : forall site (c : N) body r lo hi, lo <= hi -> hi <= length body ->
  slice_or_panic site (c :: body ++ r) (S lo) (S hi) = Ok (firstn (hi - lo) (skipn lo body)).
Proof.
  intros site c body r lo hi H1 H2. rewrite slice_ok; [|lia|cbn [length]; rewrite app_length; lia].
  f_equal. rewrite skipn_cons, skipn_app. replace (S hi - S lo) with (hi - lo) by lia.
  rewrite firstn_app. rewrite skipn_length.
  replace (hi - lo - (length body - lo)) with 0 by lia. cbn [firstn]. now rewrite app_nil_r.
Qed.

Definition raw_name (s : segment) : bytes := (if signore s then [45%N] else []) ++ sname s.
Definition colon_rule (s : segment) : bytes := match srule s with [] => [] | r => 58%N :: r end.
(* the canonical text of a parameter piece *)
Definition spell (s : segment) : bytes := 123%N :: raw_name s ++ colon_rule s ++ 125%N :: ssuffix s.

Lemma param_spelling : forall ic s, piece_ok ic s -> styp s <> TString ->
  sval s = spell s \/ (srule s = [] /\ sval s = 123%N :: raw_name s ++ 58%N :: 125%N :: ssuffix s).
Proof.
  intros ic s Hok T. destruct (param_text _ _ Hok T) as [body [Hv Hb]].
  destruct Hok as [Hp _].
  assert (G : body = raw_name s ++ colon_rule s \/ (srule s = [] /\ body = raw_name s ++ [58%N])).
  2:{ destruct G as [G|[G1 G2]]; [left | right; split; [exact G1|]]; rewrite Hv; unfold spell.
      - rewrite G, <- app_assoc. reflexivity.
      - rewrite G2, <- app_assoc. reflexivity. }
  remember (ssuffix s) as suf eqn:Hsuf. rewrite Hv in Hp. clear Hv.
  unfold new_segment in Hp.
  destruct (N.ltb max_int16 _); [discriminate Hp|].
  assert (I1 : index_byte (123%N :: body ++ 125%N :: suf) 123 = Some 0) by reflexivity.
  assert (I2 : index_byte (123%N :: body ++ 125%N :: suf) 125 = Some (S (length body))).
  { cbn [index_byte]. change (N.eqb 123 125) with false. cbv iota.
    now rewrite (index_byte_app_first body 125%N suf Hb). }
  rewrite I1, I2 in Hp.
  assert (I3 : index_byte (123%N :: body ++ 125%N :: suf) 58 =
               match index_byte (body ++ 125%N :: suf) 58 with Some i => Some (S i) | None => None end)
    by reflexivity.
  rewrite I3 in Hp. clear I1 I2 I3.
  destruct (index_byte body 58) as [i|] eqn:Eb.
  - (* a ':' between the braces *)
    rewrite (index_byte_app_some _ (125%N :: suf) _ _ Eb) in Hp.
    pose proof (index_byte_lt _ _ _ Eb) as Hi.
    destruct (TreeText.index_byte_split _ _ _ Eb) as [Sb _].
    destruct (Nat.ltb (S (length body)) 0 || Nat.eqb 1 (S (length body)) || (Nat.ltb 0 (S i) && Nat.eqb 1 (S i))) eqn:C;
      [discriminate Hp|].
    cbv zeta in Hp.
    assert (Hlt : Nat.ltb (S (length body)) (S i) = false) by (apply Nat.ltb_ge; lia).
    rewrite Hlt, orb_false_r in Hp.
    destruct (Nat.eqb_spec (S (S i)) (S (length body))) as [El|Nl].
    + (* "{name:}" *)
      right. rewrite (slice_body _ _ _ _ 0 (length body)) in Hp by lia. cbn [bind] in Hp.
      assert (Hlt2 : Nat.ltb (S i) (S (length body)) = true) by (apply Nat.ltb_lt; lia).
      rewrite Hlt2 in Hp. rewrite (slice_body _ _ _ _ 0 i) in Hp by lia. cbn [bind] in Hp.
      TreeText.res_step Hp. TreeText.res_step Hp. destruct x0 as [ign name].
      injection Hp as <-. cbn [srule]. split; [reflexivity|]. unfold raw_name. cbn [signore sname].
      apply clean_name_inv in E0. rewrite <- E0. rewrite Nat.sub_0_r. cbn [skipn].
      rewrite Sb at 1. f_equal. f_equal. apply skipn_all2. lia.
    + (* "{name:rule}" *)
      left. rewrite (slice_body _ _ _ _ (S i) (length body)) in Hp by lia. cbn [bind] in Hp.
      rewrite (slice_body _ _ _ _ 0 i) in Hp by lia. cbn [bind] in Hp.
      rewrite Nat.sub_0_r in Hp. cbn [skipn] in Hp.
      rewrite (firstn_all2 (skipn (S i) body)) in Hp by (rewrite skipn_length; lia).
      TreeText.res_step Hp. destruct x as [ign name]. apply clean_name_inv in E.
      TreeText.res_step Hp.
      assert (Hs : sname s = name /\ signore s = ign /\ srule s = skipn (S i) body).
      { repeat TreeText.res_step Hp; injection Hp as <-; cbn [sname signore srule]; now split; [|split]. }
      destruct Hs as [Hs1 [Hs2 Hs3]]. unfold raw_name, colon_rule. rewrite Hs1, Hs2, Hs3, <- E.
      destruct (skipn (S i) body) as [|c0 r0] eqn:Er.
      { exfalso. apply (f_equal (@length N)) in Er. rewrite skipn_length in Er. cbn [length] in Er. lia. }
      exact Sb.
  - (* no ':' between the braces *)
    left. rewrite (index_byte_app_none _ (125%N :: suf) _ Eb) in Hp.
    cbn [index_byte] in Hp. change (N.eqb 125 58) with false in Hp. cbv iota in Hp.
    assert (Fin : forall name1 ign name sfx f1 f2 f3 f4,
              name1 = body -> clean_name name1 = Ok (ign, name) ->
              body = raw_name {| sval := 123%N :: body ++ 125%N :: suf; sname := name; srule := []; ssuffix := sfx;
                                 styp := TNamed; samb := f1; sendpoint := f2; signore := ign; sre := f3; smatch := f4 |} ++
                     colon_rule {| sval := 123%N :: body ++ 125%N :: suf; sname := name; srule := []; ssuffix := sfx;
                                 styp := TNamed; samb := f1; sendpoint := f2; signore := ign; sre := f3; smatch := f4 |}).
    { intros name1 ign name sfx f1 f2 f3 f4 -> Hc. apply clean_name_inv in Hc.
      unfold raw_name, colon_rule. cbn [signore sname srule]. now rewrite app_nil_r. }
    assert (Hbody : firstn (length body - 0) (skipn 0 body) = body).
    { rewrite Nat.sub_0_r. cbn [skipn]. apply firstn_all. }
    destruct (index_byte suf 58) as [j|].
    + match type of Hp with (if ?c then _ else _) = _ => destruct c eqn:C; [discriminate Hp|] end.
      cbv zeta in Hp.
      assert (Hn : Nat.eqb (S (S (length body + S j))) (S (length body)) ||
                   Nat.ltb (S (length body)) (S (length body + S j)) = true).
      { apply orb_true_iff. right. apply Nat.ltb_lt. lia. }
      rewrite Hn in Hp.
      rewrite (slice_body _ _ _ _ 0 (length body)) in Hp by lia. cbn [bind] in Hp.
      assert (Hlt : Nat.ltb (S (length body + S j)) (S (length body)) = false) by (apply Nat.ltb_ge; lia).
      rewrite Hlt in Hp. cbn [bind] in Hp.
      TreeText.res_step Hp. TreeText.res_step Hp. destruct x0 as [ign name]. injection Hp as <-.
      now apply (Fin _ _ _ _ _ _ _ _ Hbody).
    + match type of Hp with (if ?c then _ else _) = _ => destruct c eqn:C; [discriminate Hp|] end.
      cbv zeta in Hp.
      rewrite (slice_body _ _ _ _ 0 (length body)) in Hp by lia. cbn [bind] in Hp.
      TreeText.res_step Hp. TreeText.res_step Hp. destruct x0 as [ign name]. injection Hp as <-.
      now apply (Fin _ _ _ _ _ _ _ _ Hbody).
Qed.

(* the canonical spelling: no empty-rule colon ("{name:}"); the model's AmbiguousLen is the length of
   the canonical text *)
Definition canon_seg (s : segment) : Prop := styp s <> TString -> length (sval s) = ambiguous_len s.
Definition pat_canon (ic : icpts) (p : bytes) : Prop := forall sp, split ic p = Ok sp -> Forall canon_seg sp.

Lemma raw_name_length : forall s, length (raw_name s) = (if signore s then 1 else 0) + length (sname s).
Proof. intro s. unfold raw_name. rewrite app_length. destruct (signore s); reflexivity. Qed.

Lemma canon_spell : forall ic s, piece_ok ic s -> styp s <> TString -> canon_seg s -> sval s = spell s.
Proof.
  intros ic s Hok T Hc. destruct (param_spelling _ _ Hok T) as [E|[Er Ev]]; [exact E|]. exfalso.
  specialize (Hc T). unfold ambiguous_len in Hc.
  rewrite (new_segment_samb _ _ _ (proj1 Hok) T), Er, Ev in Hc. unfold calc_amb in Hc.
  cbn [length] in Hc. rewrite app_length, raw_name_length in Hc. cbn [length] in Hc. lia.
Qed.

Lemma spell_canon : forall ic s, piece_ok ic s -> styp s <> TString -> sval s = spell s -> canon_seg s.
Proof.
  intros ic s Hok T Ev _. unfold ambiguous_len.
  rewrite (new_segment_samb _ _ _ (proj1 Hok) T), Ev. unfold spell, calc_amb, colon_rule.
  cbn [length]. rewrite !app_length, raw_name_length. cbn [length].
  destruct (srule s); cbn [length]; lia.
Qed.

(* canonical twins: equal texts unless the names or the '-' flags differ *)
Lemma twin_canon_strict : forall ic a b, piece_ok ic a -> piece_ok ic b -> canon_seg a -> canon_seg b ->
  seg_twin a b = true -> seg_twin_strict a b.
Proof.
  intros ic a b Pa Pb Ca Cb Ht. split; [exact Ht|].
  destruct (stype_eqb (styp a) TString) eqn:Ta.
  - left. apply stype_eqb_eq in Ta. now apply seg_twin_lit_inv.
  - assert (Ta' : styp a <> TString) by (intro E; rewrite E in Ta; discriminate Ta).
    destruct (seg_twin_param_inv _ _ Ta' Ht) as [Tb [_ [Hr [Hs _]]]].
    destruct (beqb (sname a) (sname b)) eqn:En; [|right; now left].
    destruct (Bool.eqb (signore a) (signore b)) eqn:Ei.
    + left. apply beqb_eq in En. apply Bool.eqb_prop in Ei.
      rewrite (canon_spell _ _ Pa Ta' Ca), (canon_spell _ _ Pb Tb Cb).
      unfold spell, raw_name, colon_rule. now rewrite En, Ei, Hr, Hs.
    + right. right. intro E. rewrite E, Bool.eqb_reflx in Ei. discriminate Ei.
Qed.

Theorem pat_twin_canon_strict : forall ic p q, pat_twin ic p q -> pat_canon ic p -> pat_canon ic q ->
  pat_twin_strict ic p q.
Proof.
  intros ic p q [sp [sq [Hp [Hq HF]]]] Cp Cq. exists sp, sq. split; [exact Hp|]. split; [exact Hq|].
  pose proof (split_pieces_ok _ _ _ Hp) as Psp. pose proof (split_pieces_ok _ _ _ Hq) as Psq.
  specialize (Cp _ Hp). specialize (Cq _ Hq). clear Hp Hq.
  induction HF as [|a b sp sq Ht HF IH]; [constructor|].
  inversion Psp; subst. inversion Psq; subst. inversion Cp; subst. inversion Cq; subst.
  constructor; [now apply (twin_canon_strict ic) | now apply IH].
Qed.

Theorem twin_of_only_route_rejected_canon : forall name ic trace q hq mq p h mws ms t1,
  tree_add (new_tree name ic trace) q hq [] mq = Ok t1 -> pat_twin ic p q ->
  pat_canon ic p -> pat_canon ic q -> p <> q ->
  tree_add t1 p h mws ms = Err (bs "ambiguous").
Proof.
  intros name ic trace q hq mq p h mws ms t1 H1 Ht Cp Cq Hne.
  apply (twin_of_only_route_rejected name ic trace q hq mq p h mws ms t1 H1); [|exact Hne].
  now apply pat_twin_canon_strict.
Qed.

(* ---------------------------------------------------------------- the statement without the spelling
   condition is false: "{id:}" and "{id}" parse to the same name, rule and suffix but are different texts;
   the walk takes neither the prefix branch nor the is_ambiguous branch at that label *)
Definition some_differs (sp sq : list segment) : Prop :=
  exists i a b, nth_error sp i = Some a /\ nth_error sq i = Some b /\ seg_differs a b.

Definition cx_q : bytes := bs "/{id:}/{a}".
Definition cx_p : bytes := bs "/{id}/{b}".
Definition cx_t1 : tree :=
  match tree_add (new_tree (bs "r") [] false) cx_q (HUser (bs "q")) [] [GET] with
  | Ok t => t
  | _ => new_tree (bs "r") [] false
  end.

Lemma cx_t1_registered : tree_add (new_tree (bs "r") [] false) cx_q (HUser (bs "q")) [] [GET] = Ok cx_t1.
Proof. vm_compute. reflexivity. Qed.

Lemma cx_twin : exists sp sq, split [] cx_p = Ok sp /\ split [] cx_q = Ok sq /\
  Forall2 (fun a b => seg_twin a b = true) sp sq /\ some_differs sp sq.
Proof.
  eexists. eexists. split; [vm_compute; reflexivity|]. split; [vm_compute; reflexivity|]. split.
  - repeat constructor.
  - exists 2. eexists. eexists. split; [reflexivity|]. split; [reflexivity|]. left. reflexivity.
Qed.

Lemma cx_accepted : exists t2, tree_add cx_t1 cx_p (HUser (bs "p")) [] [GET] = Ok t2.
Proof. eexists. vm_compute. reflexivity. Qed.

Theorem twin_of_only_route_rejected_refuted :
  ~ (forall name ic trace q hq mq p h mws ms t1,
       tree_add (new_tree name ic trace) q hq [] mq = Ok t1 -> pat_twin ic p q -> p <> q ->
       (exists sp sq, split ic p = Ok sp /\ split ic q = Ok sq /\
                      Forall2 (fun a b => seg_twin a b = true) sp sq /\ some_differs sp sq) ->
       tree_add t1 p h mws ms = Err (bs "ambiguous")).
Proof.
  intro H. destruct cx_accepted as [t2 H2].
  rewrite (H _ _ _ _ _ _ cx_p (HUser (bs "p")) [] [GET] _ cx_t1_registered) in H2.
  - discriminate H2.
  - destruct cx_twin as [sp [sq [Hp [Hq [HF _]]]]]. exists sp, sq. split; [exact Hp|]. split; [exact Hq | exact HF].
  - intro E. vm_compute in E. discriminate E.
  - exact cx_twin.
Qed.

(* being reported as ambiguous does not make the new pattern a well-formed twin: the check runs
   before the pattern is parsed as a whole ("/{a}/{a}" has a duplicate name) *)
Definition reg_or (t : tree) (p : bytes) (h : hterm) : tree :=
  match tree_add t p h [] [GET] with Ok t' => t' | _ => t end.
Definition dup_t1 : tree := reg_or (new_tree (bs "r") [] false) (bs "/{a}/{b}") (HUser (bs "q")).
Example ambiguous_before_syntax :
  tree_add (new_tree (bs "r") [] false) (bs "/{a}/{b}") (HUser (bs "q")) [] [GET] = Ok dup_t1 /\
  tree_add dup_t1 (bs "/{a}/{a}") (HUser (bs "p")) [] [GET] = Err (bs "ambiguous") /\
  split [] (bs "/{a}/{a}") = Err (bs "dupname").
Proof. split; [vm_compute; reflexivity|]. split; vm_compute; reflexivity. Qed.

(* with two routes the check is not complete: the label "{id}/a" shared by both routes is a cut
   piece whose suffix differs from the suffix of "{name}/author" *)
Definition two_t1 : tree := reg_or (new_tree (bs "r") [] false) (bs "/posts/{id}/author") (HUser (bs "a")).
Definition two_t2 : tree := reg_or two_t1 (bs "/posts/{id}/about") (HUser (bs "b")).
Definition is_ok {T} (r : res T) : bool := match r with Ok _ => true | _ => false end.

Example two_routes_twin_accepted :
  tree_add (new_tree (bs "r") [] false) (bs "/posts/{id}/author") (HUser (bs "a")) [] [GET] = Ok two_t1 /\
  tree_add two_t1 (bs "/posts/{id}/about") (HUser (bs "b")) [] [GET] = Ok two_t2 /\
  is_ok (tree_add two_t2 (bs "/posts/{name}/author") (HUser (bs "c")) [] [GET]) = true.
Proof. split; [vm_compute; reflexivity|]. split; vm_compute; reflexivity. Qed.

(* ================================================================ Part F : trees *)

(* the text relation with the meaning of [is_ambiguous] spelled out: available when the labels of the
   tree are parse results (literal labels carry no name and no '-' flag) *)
Inductive twin_text (ic : icpts) : bytes -> bytes -> bool -> bool -> Prop :=
| tt_nil : forall f, twin_text ic [] [] f f
| tt_same : forall l x y f f', twin_text ic x y f f' -> twin_text ic (l ++ x) (l ++ y) f f'
| tt_amb : forall a s0 segs y f f', split ic (sval s0 ++ concat (map sval segs)) = Ok (s0 :: segs) ->
    seg_twin a s0 = true -> seg_differs a s0 -> twin_text ic (concat (map sval segs)) y true f' ->
    twin_text ic (sval s0 ++ concat (map sval segs)) (sval a ++ y) f f'.

Definition lit_inv (n : node) : Prop := TreeText.inv lit_plain n.

Lemma amb_walk_twin_text : forall ic n pattern f r f', amb_walk ic n pattern f r f' ->
  all_nodes lit_inv n -> exists y, npat r = npat n ++ y /\ twin_text ic pattern y f f'.
Proof.
  intros ic n pattern f r f' H.
  induction H as [n f Hh | n ch pattern f r f' Ich Hne Hp Hw IH
                 | n ch pattern s0 segs f r f' Ich Hne Hp Hs Ha Hw IH]; intro Hn.
  - exists []. split; [now rewrite app_nil_r | constructor].
  - destruct (TreeText.all_pat_child _ _ _ Hn Ich) as [Pch Ach].
    destruct (IH Ach) as [y [Hy Ht]].
    exists (sval (nseg ch) ++ y). split.
    + rewrite Hy, Pch, <- app_assoc. reflexivity.
    + rewrite (has_prefix_skipn _ _ Hp) at 1. now constructor.
  - destruct (TreeText.all_pat_child _ _ _ Hn Ich) as [Pch Ach].
    destruct (IH Ach) as [y [Hy Ht]].
    exists (sval (nseg ch) ++ y). split.
    + rewrite Hy, Pch, <- app_assoc. reflexivity.
    + destruct (split_cons_rest _ _ _ _ Hs) as [Hcat _].
      pose proof (new_segment_lit_plain _ _ _ (split_first_parsed _ _ _ _ Hs)) as L0.
      pose proof (TreeText.all_pat_Q _ _ Ach) as Lch.
      destruct (is_ambiguous_twin_plain _ _ Lch L0 Ha) as [Tw Df].
      rewrite Hcat in Hs |- *. now apply (tt_amb ic (nseg ch) s0 segs).
Qed.

(* the flag goes up only at a label that differs from the pattern's segment in a name or a '-' flag *)
Lemma twin_text_flag : forall ic x y f f', twin_text ic x y f f' -> f = false -> f' = true ->
  exists l a s0 x' y', x = l ++ sval s0 ++ x' /\ y = l ++ sval a ++ y' /\
                       seg_twin a s0 = true /\ seg_differs a s0.
Proof.
  intros ic x y f f' H.
  induction H as [f | l x y f f' H IH | a s0 segs y f f' Hs Ht Hd H IH]; intros Hf Hf'.
  - congruence.
  - destruct (IH Hf Hf') as [l' [a [s0 [x' [y' [Ex [Ey [Ht Hd]]]]]]]].
    exists (l ++ l'), a, s0, x', y'. rewrite Ex, Ey, <- !app_assoc. now split; [|split; [|split]].
  - exists [], a, s0, (concat (map sval segs)), y. now split; [|split; [|split]].
Qed.

Theorem ambiguous_names_live_route : forall t p h mws ms, TreeText.tree_inv lit_plain t ->
  tree_add t p h mws ms = Err (bs "ambiguous") ->
  exists r, (r = troot t \/ desc (troot t) r) /\ nhandlers r <> [] /\
            twin_text (tic t) p (npat r) false true.
Proof.
  intros t p h mws ms [Ht Hroot] H. apply tree_add_ambiguous_iff in H. destruct H as [q H].
  destruct (check_amb_walk _ _ _ _ _ _ _ H) as [r [Hw Hq]].
  destruct (amb_walk_node _ _ _ _ _ _ Hw) as [H1 H2].
  destruct (amb_walk_twin_text _ _ _ _ _ _ Hw Ht) as [y [Hy Hty]].
  rewrite Hroot in Hy. cbn [app] in Hy. exists r. split; [exact H1|]. split; [exact H2|]. now rewrite Hy.
Qed.

Lemma lit_tstep : forall t op, TreeText.tree_inv lit_plain t -> TreeText.tree_inv lit_plain (tstep t op).
Proof.
  intros t op Ht. destruct op as [p h mws ms|p ms|prefix|mws]; cbn [tstep].
  - destruct (tree_add t p h mws ms) as [t'| | |] eqn:E; cbn [keep]; try exact Ht.
    exact (TreeText.inv_add lit_plain new_segment_lit_plain _ _ _ _ _ _ Ht E).
  - destruct (tree_remove t p ms) as [t'| | |] eqn:E; cbn [keep]; try exact Ht.
    exact (TreeText.inv_remove lit_plain _ _ _ _ Ht E).
  - destruct (tree_clean t prefix) as [t'| | |] eqn:E; cbn [keep]; try exact Ht.
    exact (TreeText.inv_clean lit_plain _ _ _ Ht E).
  - now apply TreeText.inv_use.
Qed.

Lemma lit_reachable : forall name ic trace hist,
  TreeText.tree_inv lit_plain (fold_left tstep hist (new_tree name ic trace)).
Proof.
  intros name ic trace hist.
  assert (G : forall hist t, TreeText.tree_inv lit_plain t -> TreeText.tree_inv lit_plain (fold_left tstep hist t)).
  { induction hist0 as [|op hist0 IH]; intros t Ht; [exact Ht|]. cbn [fold_left]. apply IH. now apply lit_tstep. }
  apply G. exact (TreeText.inv_new_tree lit_plain new_segment_lit_plain name ic trace).
Qed.

(* on every router reached by any history *)
Theorem ambiguous_names_live_route_reachable : forall name ic trace hist p h mws ms,
  let t := fold_left tstep hist (new_tree name ic trace) in
  tree_add t p h mws ms = Err (bs "ambiguous") ->
  exists r, (r = troot t \/ desc (troot t) r) /\ nhandlers r <> [] /\
            twin_text (tic t) p (npat r) false true.
Proof.
  intros name ic trace hist p h mws ms t H.
  exact (ambiguous_names_live_route t p h mws ms (lit_reachable name ic trace hist) H).
Qed.

(* ---------------------------------------------------------------- the statements as exported *)
Lemma check_amb_sound_l : forall fuel ic n pattern q flag, all_nodes TreeText.pat_ok n ->
  check_amb fuel ic n pattern false = Ok (Some (q, flag)) ->
  exists r, (r = n \/ desc n r) /\ npat r = q /\ nhandlers r <> [].
Proof. intros fuel ic n pattern q flag _ H. exact (check_amb_sound _ _ _ _ _ _ _ H). Qed.

Lemma is_ambiguous_twin_partial_l : forall a b, styp a <> TString -> is_ambiguous a b = true ->
  seg_twin a b = true /\ (beqb (sname a) (sname b) = false \/ signore a <> signore b).
Proof. exact is_ambiguous_twin_param. Qed.

Lemma is_ambiguous_twin_parsed_l : forall ic va a ic' vb b,
  new_segment ic va = Ok a -> new_segment ic' vb = Ok b -> is_ambiguous a b = true ->
  seg_twin a b = true /\ (beqb (sname a) (sname b) = false \/ signore a <> signore b).
Proof. exact is_ambiguous_twin_parsed. Qed.

Lemma is_ambiguous_twin_refuted_l :
  ~ (forall a b, is_ambiguous a b = true ->
       seg_twin a b = true /\ (beqb (sname a) (sname b) = false \/ signore a <> signore b)).
Proof. exact is_ambiguous_twin_refuted. Qed.

(* ================================================================ examples *)
Definition ex_t1 : tree :=
  match tree_add (new_tree (bs "r") [] false) (bs "/posts/{id}/author") (HUser (bs "h")) [] [GET] with
  | Ok t => t
  | _ => new_tree (bs "r") [] false
  end.
Example ex_registered :
  tree_add (new_tree (bs "r") [] false) (bs "/posts/{id}/author") (HUser (bs "h")) [] [GET] = Ok ex_t1.
Proof. vm_compute. reflexivity. Qed.
Example ex_other_name : tree_add ex_t1 (bs "/posts/{name}/author") (HUser (bs "k")) [] [GET] = Err (bs "ambiguous").
Proof. vm_compute. reflexivity. Qed.
Example ex_ignore_flag : tree_add ex_t1 (bs "/posts/{-id}/author") (HUser (bs "k")) [] [GET] = Err (bs "ambiguous").
Proof. vm_compute. reflexivity. Qed.
Example ex_other_rule : is_ok (tree_add ex_t1 (bs "/posts/{id:\d+}/author") (HUser (bs "k")) [] [GET]) = true.
Proof. vm_compute. reflexivity. Qed.
Example ex_other_suffix : is_ok (tree_add ex_t1 (bs "/posts/{id}/authors") (HUser (bs "k")) [] [GET]) = true.
Proof. vm_compute. reflexivity. Qed.

(* the hypotheses of the completeness theorem on this input *)
Example ex_twin_strict : pat_twin_strict [] (bs "/posts/{name}/author") (bs "/posts/{id}/author").
Proof.
  eexists. eexists. split; [vm_compute; reflexivity|]. split; [vm_compute; reflexivity|].
  constructor; [split; [reflexivity | left; reflexivity]|].
  constructor; [split; [reflexivity | right; left; reflexivity]|]. constructor.
Qed.
Example ex_canon : pat_canon [] (bs "/posts/{name}/author") /\ ~ pat_canon [] (bs "/posts/{name:}/author").
Proof.
  split.
  - intros sp H. vm_compute in H. injection H as <-.
    constructor; [intro T; now elim T|]. constructor; [intros _; reflexivity|]. constructor.
  - intro H.
    assert (E : exists a b, split [] (bs "/posts/{name:}/author") = Ok [a; b] /\ styp b <> TString /\
                            length (sval b) <> ambiguous_len b).
    { eexists. eexists. split; [vm_compute; reflexivity|]. split; [discriminate|].
      intro X. vm_compute in X. discriminate X. }
    destruct E as [a [b [E [T L]]]]. specialize (H _ E).
    apply Forall_inv_tail in H. apply Forall_inv in H. exact (L (H T)).
Qed.
(* the walk that the soundness theorem describes, on the rejected registration *)
Example ex_walk_flag : exists q,
  check_amb (tree_fuel ex_t1 + 20 + 2) (tic ex_t1) (troot ex_t1) (bs "/posts/{name}/author") false =
  Ok (Some (q, true)) /\ q = bs "/posts/{id}/author".
Proof. eexists. split; vm_compute; reflexivity. Qed.
