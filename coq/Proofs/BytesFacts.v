From Coq Require Import String.
From Mux Require Import Model.Bytes.
From Coq Require Import Permutation.

Lemma beqb_eq : forall a b, beqb a b = true <-> a = b.
Proof.
  induction a as [|x a IH]; destruct b as [|y b]; simpl; split; intro H; try easy.
  - apply andb_true_iff in H. destruct H as [H1 H2]. apply N.eqb_eq in H1. apply IH in H2. now subst.
  - inversion H; subst. rewrite N.eqb_refl. simpl. now apply IH.
Qed.

Lemma beqb_refl : forall a, beqb a a = true.
Proof. intro a. now apply beqb_eq. Qed.

Lemma beqb_neq : forall a b, beqb a b = false <-> a <> b.
Proof.
  intros a b. split; intro H.
  - intro E. apply beqb_eq in E. congruence.
  - destruct (beqb a b) eqn:E; [apply beqb_eq in E; contradiction | reflexivity].
Qed.

Lemma beqb_sym : forall a b, beqb a b = beqb b a.
Proof.
  intros a b. destruct (beqb a b) eqn:E.
  - apply beqb_eq in E. subst. symmetry. apply beqb_refl.
  - apply beqb_neq in E. symmetry. apply beqb_neq. congruence.
Qed.

Lemma beqb_spec : forall a b, reflect (a = b) (beqb a b).
Proof. intros a b. destruct (beqb a b) eqn:E; constructor; [now apply beqb_eq | now apply beqb_neq]. Qed.

Lemma has_prefix_app : forall p s, has_prefix (p ++ s) p = true.
Proof. induction p as [|x p IH]; intro s; simpl; [reflexivity|]. now rewrite N.eqb_refl, IH. Qed.

Lemma has_prefix_spec : forall s p, has_prefix s p = true <-> exists r, s = p ++ r.
Proof.
  intros s p. revert s. induction p as [|x p IH]; intro s; simpl.
  - split; [intros _; now exists s | reflexivity].
  - destruct s as [|y s]; [split; [discriminate | intros [r H]; discriminate]|].
    rewrite andb_true_iff, N.eqb_eq, IH. split.
    + intros [-> [r ->]]. now exists r.
    + intros [r H]. inversion H; subst. split; [reflexivity | now exists r].
Qed.

Lemma has_prefix_skipn : forall s p, has_prefix s p = true -> s = p ++ skipn (length p) s.
Proof.
  intros s p H. apply has_prefix_spec in H. destruct H as [r ->].
  now rewrite skipn_app, skipn_all, Nat.sub_diag.
Qed.

(* association lists *)
Section AssocFacts.
  Context {V : Type}.
  Implicit Types (l : list (bytes * V)) (k : bytes).

  Lemma alookup_aset : forall l k v k',
    alookup k' (aset k v l) = if beqb k' k then Some v else alookup k' l.
  Proof.
    induction l as [|[k0 v0] l IH]; intros k v k'; simpl.
    - reflexivity.
    - destruct (beqb_spec k k0) as [->|N]; simpl.
      + destruct (beqb k' k0); reflexivity.
      + destruct (beqb_spec k' k0) as [->|N'].
        * destruct (beqb_spec k0 k); [congruence | reflexivity].
        * apply IH.
  Qed.

  Lemma alookup_adelete : forall l k k',
    alookup k' (adelete k l) = if beqb k' k then None else alookup k' l.
  Proof.
    induction l as [|[k0 v0] l IH]; intros k k'; simpl.
    - now destruct (beqb k' k).
    - destruct (beqb_spec k k0) as [->|N]; simpl.
      + rewrite IH. destruct (beqb k' k0); reflexivity.
      + destruct (beqb_spec k' k0) as [->|N'].
        * destruct (beqb_spec k0 k); [congruence | reflexivity].
        * apply IH.
  Qed.

  Lemma alookup_In : forall l k v, alookup k l = Some v -> In (k, v) l.
  Proof.
    induction l as [|[k0 v0] l IH]; intros k v H; simpl in *; [discriminate|].
    destruct (beqb_spec k k0) as [->|N]; [inversion H; now left | right; now apply IH].
  Qed.

  Lemma alookup_None : forall l k, alookup k l = None <-> ~ In k (akeys l).
  Proof.
    induction l as [|[k0 v0] l IH]; intros k; simpl; [tauto|].
    destruct (beqb_spec k k0) as [->|N]; split; intro H; try discriminate.
    - exfalso. apply H. now left.
    - intros [E|I]; [congruence | now apply IH in H].
    - apply IH. tauto.
  Qed.

  Lemma In_alookup_nodup : forall l k v, NoDup (akeys l) -> In (k, v) l -> alookup k l = Some v.
  Proof.
    induction l as [|[k0 v0] l IH]; intros k v ND I; simpl in *; [contradiction|].
    inversion ND as [|? ? NI ND']; subst.
    destruct I as [E|I].
    - inversion E; subst. now rewrite beqb_refl.
    - destruct (beqb_spec k k0) as [->|N]; [|now apply IH].
      exfalso. apply NI. unfold akeys. change k0 with (fst (k0, v)). now apply in_map.
  Qed.

  Lemma akeys_aset_in : forall l k v x, In x (akeys (aset k v l)) <-> x = k \/ In x (akeys l).
  Proof.
    induction l as [|[k0 v0] l IH]; intros k v x; simpl; [intuition|].
    destruct (beqb_spec k k0) as [->|N]; simpl; [intuition|]. rewrite IH. intuition.
  Qed.

  Lemma nodup_aset : forall l k v, NoDup (akeys l) -> NoDup (akeys (aset k v l)).
  Proof.
    induction l as [|[k0 v0] l IH]; intros k v ND; simpl.
    - constructor; [easy | constructor].
    - inversion ND as [|? ? NI ND']; subst.
      destruct (beqb_spec k k0) as [->|N]; simpl; [now constructor|].
      constructor; [|now apply IH]. rewrite akeys_aset_in. intros [E|I]; [congruence | contradiction].
  Qed.

  Lemma akeys_adelete_in : forall l k x, In x (akeys (adelete k l)) <-> x <> k /\ In x (akeys l).
  Proof.
    induction l as [|[k0 v0] l IH]; intros k x; simpl; [intuition|].
    destruct (beqb_spec k k0) as [->|N]; simpl; rewrite IH.
    - split; [intuition|]. intros [Nx [E|I]]; [congruence | intuition].
    - split; [intros [E|[Nx I]]; [subst; split; [congruence | now left] | intuition] | intuition].
  Qed.

  Lemma nodup_adelete : forall l k, NoDup (akeys l) -> NoDup (akeys (adelete k l)).
  Proof.
    induction l as [|[k0 v0] l IH]; intros k ND; simpl; [constructor|].
    inversion ND as [|? ? NI ND']; subst.
    destruct (beqb_spec k k0) as [->|N]; simpl; [now apply IH|].
    constructor; [|now apply IH]. rewrite akeys_adelete_in. tauto.
  Qed.

  Lemma ainsert_sorted_perm : forall kv l, Permutation (kv :: l) (ainsert_sorted kv l).
  Proof.
    intros kv l. induction l as [|y l IH]; simpl; [reflexivity|].
    destruct (bltb (fst y) (fst kv)); [|reflexivity].
    rewrite perm_swap. now constructor.
  Qed.

  Lemma asort_perm : forall l, Permutation l (asort l).
  Proof.
    induction l as [|x l IH]; simpl; [constructor|].
    rewrite <- ainsert_sorted_perm. now constructor.
  Qed.
End AssocFacts.
