(* C05 over histories: every tree reachable from [new_tree] by registrations, removals, cleans
   and middleware applications satisfies [tree_safe], and on a [tree_safe] tree no request makes
   [tree_handler] fault. *)
From Coq Require Import String.
From Mux Require Import Model.Bytes Model.Regex Model.Context Model.Syntax Model.Tree
  Proofs.BytesFacts Proofs.MatchSound.

Definition h405_ok (n : node) : Prop := nhandlers n = [] \/ ahas M405 (nhandlers n) = true.
Definition node_safe (n : node) : Prop := idx_ok n /\ h405_ok n.
Definition tree_safe (t : tree) : Prop :=
  all_nodes node_safe (troot t) /\ ahas M405 (nhandlers (troot t)) = true.

Inductive top :=
| OAdd (p : bytes) (h : hterm) (mws ms : list bytes)
| ORemove (p : bytes) (ms : list bytes)
| OClean (prefix : bytes)
| OUse (mws : list bytes).

(* a rejected / faulting call leaves the tree as it was *)
Definition keep (t : tree) (r : res tree) : tree := match r with Ok t' => t' | _ => t end.

Definition tstep (t : tree) (op : top) : tree :=
  match op with
  | OAdd p h mws ms => keep t (tree_add t p h mws ms)
  | ORemove p ms => keep t (tree_remove t p ms)
  | OClean prefix => keep t (tree_clean t prefix)
  | OUse mws => tree_apply_mw t mws
  end.

(* ================================================================ generic facts *)

Lemma bind_ok : forall (A B : Type) (r : res A) (f : A -> res B) (y : B),
  bind r f = Ok y -> exists x, r = Ok x /\ f x = Ok y.
Proof.
  intros A B r f y H. destruct r as [x|e|s|]; simpl in H; try discriminate.
  exists x. split; [reflexivity | exact H].
Qed.

Lemma nchildren_set_children : forall n c ix, nchildren (set_children n c ix) = c.
Proof. intros [s p i h x c0] c ix. reflexivity. Qed.
Lemma nindexes_set_children : forall n c ix, nindexes (set_children n c ix) = ix.
Proof. intros [s p i h x c0] c ix. reflexivity. Qed.
Lemma nhandlers_set_children : forall n c ix, nhandlers (set_children n c ix) = nhandlers n.
Proof. intros [s p i h x c0] c ix. reflexivity. Qed.

Lemma nchildren_set_handlers : forall n hs i, nchildren (set_handlers n hs i) = nchildren n.
Proof. intros [s p i0 h x c] hs i. reflexivity. Qed.
Lemma nindexes_set_handlers : forall n hs i, nindexes (set_handlers n hs i) = nindexes n.
Proof. intros [s p i0 h x c] hs i. reflexivity. Qed.
Lemma nhandlers_set_handlers : forall n hs i, nhandlers (set_handlers n hs i) = hs.
Proof. intros [s p i0 h x c] hs i. reflexivity. Qed.

Lemma nchildren_set_seg : forall n sg, nchildren (set_seg n sg) = nchildren n.
Proof. intros [s p i h x c] sg. reflexivity. Qed.
Lemma nindexes_set_seg : forall n sg, nindexes (set_seg n sg) = nindexes n.
Proof. intros [s p i h x c] sg. reflexivity. Qed.
Lemma nhandlers_set_seg : forall n sg, nhandlers (set_seg n sg) = nhandlers n.
Proof. intros [s p i h x c] sg. reflexivity. Qed.

Lemma all_nodes_impl : forall (P Q : node -> Prop), (forall n, P n -> Q n) ->
  forall n, all_nodes P n -> all_nodes Q n.
Proof.
  intros P Q HPQ n H. induction H as [n Hn _ IH].
  apply all_nodes_intro; [now apply HPQ | exact IH].
Qed.

Lemma In_replace_nth : forall (A : Type) (l : list A) i (y x : A),
  In x (replace_nth i y l) -> x = y \/ In x l.
Proof.
  intros A l. induction l as [|a l IHl]; intros i y x H; simpl in H.
  - destruct i; destruct H.
  - destruct i as [|i]; simpl in H.
    + destruct H as [<-|H]; [now left | right; now right].
    + destruct H as [<-|H]; [right; now left|].
      apply IHl in H. destruct H as [->|H]; [now left | right; now right].
Qed.

Lemma length_replace_nth : forall (A : Type) (l : list A) i (y : A),
  length (replace_nth i y l) = length l.
Proof.
  intros A l. induction l as [|a l IHl]; intros i y; simpl.
  - now destruct i.
  - destruct i as [|i]; simpl; [reflexivity | now rewrite IHl].
Qed.

Lemma In_remove_nth : forall (A : Type) (l : list A) i (x : A), In x (remove_nth i l) -> In x l.
Proof.
  intros A l. induction l as [|a l IHl]; intros i x H; simpl in H.
  - destruct i; destruct H.
  - destruct i as [|i]; simpl in H; [now right|].
    destruct H as [<-|H]; [now left | right; now apply (IHl i)].
Qed.

Lemma In_sinsert : forall l y x, In x (sinsert y l) -> x = y \/ In x l.
Proof.
  induction l as [|a l IHl]; intros y x H; simpl in H.
  - destruct H as [<-|[]]. now left.
  - destruct (Nat.ltb (fst a) (fst y)).
    + destruct H as [<-|H]; [right; now left|].
      apply IHl in H. destruct H as [->|H]; [now left | right; now right].
    + destruct H as [<-|H]; [now left | now right].
Qed.

Lemma In_ssort : forall l x, In x (ssort l) -> In x (map snd l).
Proof.
  intros l x H. unfold ssort in H. apply in_map_iff in H. destruct H as [kx [<- H]].
  apply in_map. induction l as [|a l IHl]; simpl in H; [destruct H|].
  apply In_sinsert in H. destruct H as [->|H]; [now left | right; now apply IHl].
Qed.

Lemma map_snd_with_prio : forall c, map snd (with_prio c) = c.
Proof.
  intro c. unfold with_prio. rewrite map_map. simpl. apply map_id.
Qed.

Lemma In_keyed_app : forall c p y x, In x (map snd (with_prio c ++ [(p, y)])) -> In x c \/ x = y.
Proof.
  intros c p y x H. rewrite map_app, map_snd_with_prio in H. simpl in H.
  apply in_app_or in H. destruct H as [H|[<-|[]]]; [now left | now right].
Qed.

(* ================================================================ safety of one level *)

Lemma idx_ok_build : forall n cs ix, build_indexes cs = Ok ix -> idx_ok (set_children n cs ix).
Proof.
  intros n cs ix B. apply build_indexes_ok in B. unfold idx_ok.
  rewrite nindexes_set_children, nchildren_set_children. intros b Hne.
  destruct B as [->|B]; [congruence | apply B].
Qed.

Lemma safe_set_children : forall n cs ix, h405_ok n -> idx_ok (set_children n cs ix) ->
  (forall ch, In ch cs -> all_nodes node_safe ch) ->
  all_nodes node_safe (set_children n cs ix).
Proof.
  intros n cs ix Hh Hi Hc. apply all_nodes_intro.
  - split; [exact Hi|]. unfold h405_ok. rewrite nhandlers_set_children. exact Hh.
  - rewrite nchildren_set_children. exact Hc.
Qed.

Lemma safe_replace : forall n i ch', all_nodes node_safe n -> all_nodes node_safe ch' ->
  all_nodes node_safe (set_children n (replace_nth i ch' (nchildren n)) (nindexes n)).
Proof.
  intros n i ch' Hn Hc. destruct (all_nodes_here _ _ Hn) as [Hi Hh].
  apply safe_set_children; [exact Hh | |].
  - unfold idx_ok in *.
    rewrite nindexes_set_children, nchildren_set_children, length_replace_nth. exact Hi.
  - intros x Ix. apply In_replace_nth in Ix. destruct Ix as [->|Ix]; [exact Hc|].
    now apply (all_nodes_child _ n).
Qed.

Lemma sort_node_inv : forall n keyed n', sort_node n keyed = Ok n' ->
  exists ix, build_indexes (ssort keyed) = Ok ix /\ n' = set_children n (ssort keyed) ix.
Proof.
  intros n keyed n' H. unfold sort_node in H. apply bind_ok in H.
  destruct H as [ix [B H]]. injection H as <-. exists ix. split; [exact B | reflexivity].
Qed.

Lemma sort_node_handlers : forall n keyed n', sort_node n keyed = Ok n' -> nhandlers n' = nhandlers n.
Proof.
  intros n keyed n' H. apply sort_node_inv in H. destruct H as [ix [_ ->]].
  apply nhandlers_set_children.
Qed.

Lemma safe_sort : forall n keyed n', h405_ok n ->
  (forall ch, In ch (map snd keyed) -> all_nodes node_safe ch) ->
  sort_node n keyed = Ok n' -> all_nodes node_safe n'.
Proof.
  intros n keyed n' Hh Hc H. apply sort_node_inv in H. destruct H as [ix [B ->]].
  apply safe_set_children; [exact Hh | now apply idx_ok_build |].
  intros ch Ich. apply Hc. now apply In_ssort.
Qed.

Lemma safe_set_handlers : forall n hs i, all_nodes node_safe n ->
  (hs = [] \/ ahas M405 hs = true) -> all_nodes node_safe (set_handlers n hs i).
Proof.
  intros n hs i Hn Hhs. destruct (all_nodes_here _ _ Hn) as [Hi _].
  apply all_nodes_intro.
  - split.
    + unfold idx_ok in *. rewrite nindexes_set_handlers, nchildren_set_handlers. exact Hi.
    + unfold h405_ok. rewrite nhandlers_set_handlers. exact Hhs.
  - rewrite nchildren_set_handlers. intros ch Ich. now apply (all_nodes_child _ n).
Qed.

Lemma safe_set_seg : forall n sg, all_nodes node_safe n -> all_nodes node_safe (set_seg n sg).
Proof.
  intros n sg Hn. destruct (all_nodes_here _ _ Hn) as [Hi Hh].
  apply all_nodes_intro.
  - split.
    + unfold idx_ok in *. rewrite nindexes_set_seg, nchildren_set_seg. exact Hi.
    + unfold h405_ok. rewrite nhandlers_set_seg. exact Hh.
  - rewrite nchildren_set_seg. intros ch Ich. now apply (all_nodes_child _ n).
Qed.

Lemma safe_leaf : forall sg p i, all_nodes node_safe (Node sg p i [] [] []).
Proof.
  intros sg p i. apply all_nodes_intro.
  - split; [intros b Hne; now elim Hne | now left].
  - intros ch [].
Qed.

(* ================================================================ registration *)

Definition safe_k (k : node -> res node) : Prop :=
  forall ch ch', all_nodes node_safe ch -> k ch = Ok ch' -> all_nodes node_safe ch'.

Definition cont_of (f : nat) (ic : icpts) (seg : segment) (l : nat) (k : node -> res node)
  : node -> res node :=
  fun parent =>
    if Nat.eqb (length (sval seg)) l then k parent
    else
      do rest <- slice_or_panic "addSegment:slice" (sval seg) l (length (sval seg));
      do s <- new_segment ic rest;
      add_segment f ic parent s k.

Lemma add_segment_S : forall f ic n seg k,
  add_segment (S f) ic n seg k =
  let c := nchildren n in
  match scan_sim seg c O None with
  | (Some i, _) =>
    match nth_error c i with
    | Some ch => do ch' <- k ch; Ok (set_children n (replace_nth i ch' c) (nindexes n))
    | None => Panic (bs "addSegment:nth")
    end
  | (None, None) =>
    let nn := new_node n seg in
    do nn' <- k nn;
    sort_node n (with_prio c ++ [(priority nn, nn')])
  | (None, Some (i, l)) =>
    let l := Z.to_nat l in
    match nth_error c i with
    | None => Panic (bs "addSegment:nth")
    | Some ch =>
      if Nat.leb (length (sval (nseg ch))) l then
        do ch' <- cont_of f ic seg l k ch; Ok (set_children n (replace_nth i ch' c) (nindexes n))
      else
        do '(s1, s2) <- seg_split ic (nseg ch) l;
        let others := remove_nth i c in
        let lower := set_seg ch s2 in
        let ret0 := Node s1 (npat n ++ sval s1) 0 [] [] [] in
        do ret <- sort_node ret0 (with_prio [lower]);
        do ret' <- cont_of f ic seg l k ret;
        sort_node n (with_prio others ++ [(priority ret, ret')])
    end
  end.
Proof. reflexivity. Qed.

Lemma add_segment_handlers : forall fuel ic n seg k n',
  add_segment fuel ic n seg k = Ok n' -> nhandlers n' = nhandlers n.
Proof.
  intros [|f] ic n seg k n' H; [discriminate|].
  rewrite add_segment_S in H. cbv zeta in H.
  destruct (scan_sim seg (nchildren n) 0 None) as [[i|] best] eqn:SC.
  - destruct (nth_error (nchildren n) i) as [ch|] eqn:NTH; [|discriminate].
    apply bind_ok in H. destruct H as [ch' [_ H]]. injection H as <-.
    apply nhandlers_set_children.
  - destruct best as [[i l]|].
    + destruct (nth_error (nchildren n) i) as [ch|] eqn:NTH; [|discriminate].
      destruct (Nat.leb (length (sval (nseg ch))) (Z.to_nat l)).
      * apply bind_ok in H. destruct H as [ch' [_ H]]. injection H as <-.
        apply nhandlers_set_children.
      * apply bind_ok in H. destruct H as [[s1 s2] [_ H]].
        apply bind_ok in H. destruct H as [ret [_ H]].
        apply bind_ok in H. destruct H as [ret' [_ H]].
        now apply sort_node_handlers in H.
    + apply bind_ok in H. destruct H as [nn' [_ H]]. now apply sort_node_handlers in H.
Qed.

Lemma add_segment_safe : forall fuel ic n seg k n', all_nodes node_safe n -> safe_k k ->
  add_segment fuel ic n seg k = Ok n' -> all_nodes node_safe n'.
Proof.
  induction fuel as [|f IH]; intros ic n seg k n' Hn Hk H; [discriminate|].
  rewrite add_segment_S in H. cbv zeta in H.
  destruct (all_nodes_here _ _ Hn) as [Hi Hh].
  destruct (scan_sim seg (nchildren n) 0 None) as [[i|] best] eqn:SC.
  - (* identical child *)
    destruct (nth_error (nchildren n) i) as [ch|] eqn:NTH; [|discriminate].
    apply bind_ok in H. destruct H as [ch' [K H]]. injection H as <-.
    apply safe_replace; [exact Hn|]. apply (Hk ch ch'); [|exact K].
    apply (all_nodes_child _ n); [exact Hn | now apply (nth_error_In _ i)].
  - destruct best as [[i l]|].
    + (* split *)
      destruct (nth_error (nchildren n) i) as [ch|] eqn:NTH; [|discriminate].
      assert (Hch : all_nodes node_safe ch).
      { apply (all_nodes_child _ n); [exact Hn | now apply (nth_error_In _ i)]. }
      assert (Hcont : safe_k (cont_of f ic seg (Z.to_nat l) k)).
      { intros p p' Hp Hc. unfold cont_of in Hc.
        destruct (Nat.eqb (length (sval seg)) (Z.to_nat l)); [now apply (Hk p p')|].
        apply bind_ok in Hc. destruct Hc as [rest [_ Hc]].
        apply bind_ok in Hc. destruct Hc as [s [_ Hc]].
        exact (IH ic p s k p' Hp Hk Hc). }
      destruct (Nat.leb (length (sval (nseg ch))) (Z.to_nat l)).
      * apply bind_ok in H. destruct H as [ch' [K H]]. injection H as <-.
        apply safe_replace; [exact Hn|]. now apply (Hcont ch ch').
      * apply bind_ok in H. destruct H as [[s1 s2] [_ H]].
        apply bind_ok in H. destruct H as [ret [SR H]].
        apply bind_ok in H. destruct H as [ret' [K H]].
        assert (Hret : all_nodes node_safe ret).
        { assert (H0 : h405_ok (Node s1 (npat n ++ sval s1) 0 [] [] [])) by (now left).
          apply (safe_sort _ _ _ H0) in SR; [exact SR|].
          intros x Ix. rewrite map_snd_with_prio in Ix. destruct Ix as [<-|[]].
          now apply safe_set_seg. }
        assert (Hret' : all_nodes node_safe ret') by now apply (Hcont ret ret').
        apply (safe_sort _ _ _ Hh) in H; [exact H|].
        intros x Ix. apply In_keyed_app in Ix. destruct Ix as [Ix| ->]; [|exact Hret'].
        apply In_remove_nth in Ix. now apply (all_nodes_child _ n).
    + (* new child *)
      apply bind_ok in H. destruct H as [nn' [K H]].
      assert (Hnn' : all_nodes node_safe nn').
      { apply (Hk (new_node n seg) nn'); [apply safe_leaf | exact K]. }
      apply (safe_sort _ _ _ Hh) in H; [exact H|].
      intros x Ix. apply In_keyed_app in Ix. destruct Ix as [Ix| ->]; [|exact Hnn'].
      now apply (all_nodes_child _ n).
Qed.

Lemma get_node_safe : forall segs fuel ic n upd n', all_nodes node_safe n -> safe_k upd ->
  get_node fuel ic n segs upd = Ok n' -> all_nodes node_safe n' /\ nhandlers n' = nhandlers n.
Proof.
  induction segs as [|seg rest IH]; intros fuel ic n upd n' Hn Hk H; simpl in H; [discriminate|].
  destruct rest as [|seg2 rest].
  - split; [exact (add_segment_safe _ _ _ _ _ _ Hn Hk H) | exact (add_segment_handlers _ _ _ _ _ _ H)].
  - split; [|exact (add_segment_handlers _ _ _ _ _ _ H)].
    apply (add_segment_safe _ _ _ _ _ _ Hn) in H; [exact H|].
    intros ch ch' Hch Hc. exact (proj1 (IH fuel ic ch upd ch' Hch Hk Hc)).
Qed.

Lemma ahas_aset_same : forall (V : Type) (l : list (bytes * V)) k v, ahas k (aset k v l) = true.
Proof.
  intros V l k v. unfold ahas. rewrite alookup_aset, beqb_refl. reflexivity.
Qed.

Lemma add_methods_safe : forall trace router h pattern mws ms,
  safe_k (add_methods trace router h pattern mws ms).
Proof.
  intros trace router h pattern mws ms n n' Hn H. unfold add_methods in H.
  apply bind_ok in H. destruct H as [u [_ H]]. injection H as <-.
  apply safe_set_handlers; [exact Hn|]. right.
  match goal with |- ahas M405 (if ahas M405 ?x then _ else _) = true => destruct (ahas M405 x) eqn:E end;
    [exact E | apply ahas_aset_same].
Qed.

Lemma tree_build_methods_safe : forall t root num ms, all_nodes node_safe root ->
  ahas M405 (nhandlers root) = true -> tree_safe (tree_build_methods t root num ms).
Proof.
  intros t root num ms Hr H405. unfold tree_safe, tree_build_methods. cbn [troot]. split.
  - apply safe_set_handlers; [exact Hr | now right].
  - rewrite nhandlers_set_handlers. exact H405.
Qed.

Theorem new_tree_safe : forall name ic trace, tree_safe (new_tree name ic trace).
Proof.
  intros name ic trace. unfold new_tree. apply tree_build_methods_safe; [|reflexivity].
  apply all_nodes_intro.
  - split; [intros b Hne; now elim Hne | right; reflexivity].
  - intros ch [].
Qed.

Theorem add_safe : forall t p h mws ms t', tree_safe t -> tree_add t p h mws ms = Ok t' -> tree_safe t'.
Proof.
  intros t p h mws ms t' [Hall Hroot] H. unfold tree_add in H.
  apply bind_ok in H. destruct H as [amb [_ H]].
  assert (H' : (do segs <- split (tic t) p;
                do _ <- check_methods (has_trace t)
                  (match find (tree_fuel t + length p + 2) (troot t) p with
                   | Some n => nhandlers n | None => [] end) []
                  (match ms with [] => any_methods | _ => ms end);
                do root' <- get_node (tree_fuel t + length p + 2) (tic t) (troot t) segs
                  (add_methods (has_trace t) (tname t) h p mws (match ms with [] => any_methods | _ => ms end));
                Ok (tree_build_methods t root' 1 (match ms with [] => any_methods | _ => ms end))) = Ok t').
  { destruct amb as [[p0 [|]]|]; [discriminate | exact H | exact H]. }
  clear H. apply bind_ok in H'. destruct H' as [segs [_ H]].
  apply bind_ok in H. destruct H as [u [_ H]].
  apply bind_ok in H. destruct H as [root' [G H]]. injection H as <-.
  apply get_node_safe in G; [|exact Hall|apply add_methods_safe].
  destruct G as [Hs Hh]. apply tree_build_methods_safe; [exact Hs | now rewrite Hh].
Qed.

(* ================================================================ removal *)

Lemma ahas_adelete_other : forall (V : Type) (l : list (bytes * V)) k k',
  beqb k' k = false -> ahas k' (adelete k l) = ahas k' l.
Proof.
  intros V l k k' N. unfold ahas. rewrite alookup_adelete, N. reflexivity.
Qed.

Lemma not_auto_405 : forall m, is_auto m = false -> beqb M405 m = false.
Proof.
  intros m H. unfold is_auto in H. apply orb_false_iff in H. destruct H as [_ H].
  now rewrite beqb_sym.
Qed.

Lemma remove_methods_405 : forall ms hs rm,
  ahas M405 (fst (remove_methods ms hs rm)) = ahas M405 hs.
Proof.
  induction ms as [|m ms IH]; intros hs rm; simpl; [reflexivity|].
  destruct (is_auto m) eqn:A; [apply IH|].
  assert (E : ahas M405 (if beqb m GET then adelete HEAD hs else hs) = ahas M405 hs).
  { destruct (beqb m GET); [|reflexivity]. now apply ahas_adelete_other. }
  destruct (ahas m (if beqb m GET then adelete HEAD hs else hs)); rewrite IH; [|exact E].
  rewrite ahas_adelete_other; [exact E | now apply not_auto_405].
Qed.

Lemma remove_methods_nil : forall ms rm, fst (remove_methods ms (@nil (bytes * hterm)) rm) = [].
Proof.
  induction ms as [|m ms IH]; intro rm; simpl; [reflexivity|].
  destruct (is_auto m); [apply IH|].
  destruct (beqb m GET); simpl; apply IH.
Qed.

Lemma remove_at_node_safe : forall trace ms n n' rm, all_nodes node_safe n ->
  remove_at_node trace ms n = (n', rm) -> all_nodes node_safe n'.
Proof.
  intros trace ms n n' rm Hn H. unfold remove_at_node in H.
  destruct (all_nodes_here _ _ Hn) as [_ Hh].
  destruct ms as [|m ms].
  - injection H as <- _. apply safe_set_handlers; [exact Hn | now left].
  - remember (m :: ms) as ms0 eqn:Ems. clear Ems.
    pose proof (remove_methods_405 ms0 (nhandlers n) []) as E405.
    pose proof (remove_methods_nil ms0 []) as Enil.
    destruct (remove_methods ms0 (nhandlers n) []) as [hs1 rm1] eqn:RM. simpl in E405.
    destruct (Nat.eqb (length hs1) 2 && ahas OPTIONS hs1 && ahas M405 hs1).
    + injection H as <- _. apply safe_set_handlers; [exact Hn | now left].
    + injection H as <- _. apply safe_set_handlers; [exact Hn|].
      destruct Hh as [Hnil|H405].
      * left. rewrite Hnil in RM. rewrite RM in Enil. exact Enil.
      * right. now rewrite E405.
Qed.

Definition remove_finish (n : node) (i : nat) (ch' : node) (removed : list bytes)
  : res (option (node * list bytes)) :=
  if prunable ch' then
    let cs := remove_nth i (nchildren n) in
    do ix <- build_indexes cs; Ok (Some (set_children n cs ix, removed))
  else Ok (Some (set_children n (replace_nth i ch' (nchildren n)) (nindexes n), removed)).

Definition remove_go (f : nat) (trace : bool) (ms : list bytes) (n : node) (pattern : bytes)
  : list node -> nat -> res (option (node * list bytes)) :=
  fix go (c : list node) (i : nat) : res (option (node * list bytes)) :=
    match c with
    | [] => Ok None
    | ch :: c' =>
      if beqb (sval (nseg ch)) pattern then
        let '(ch', removed) := remove_at_node trace ms ch in remove_finish n i ch' removed
      else if has_prefix pattern (sval (nseg ch)) then
        do r <- remove_in f trace ms ch (skipn (length (sval (nseg ch))) pattern);
        match r with
        | Some (ch', removed) => remove_finish n i ch' removed
        | None => go c' (S i)
        end
      else go c' (S i)
    end.

Lemma remove_in_S : forall f trace ms n pattern,
  remove_in (S f) trace ms n pattern = remove_go f trace ms n pattern (nchildren n) O.
Proof. reflexivity. Qed.

Lemma remove_finish_safe : forall n i ch' rm n' rm', all_nodes node_safe n ->
  all_nodes node_safe ch' -> remove_finish n i ch' rm = Ok (Some (n', rm')) ->
  all_nodes node_safe n' /\ nhandlers n' = nhandlers n.
Proof.
  intros n i ch' rm n' rm' Hn Hc H. unfold remove_finish in H.
  destruct (all_nodes_here _ _ Hn) as [_ Hh].
  destruct (prunable ch').
  - cbv zeta in H. apply bind_ok in H. destruct H as [ix [B H]]. injection H as <- _.
    split; [|apply nhandlers_set_children].
    apply safe_set_children; [exact Hh | now apply idx_ok_build |].
    intros x Ix. apply In_remove_nth in Ix. now apply (all_nodes_child _ n).
  - injection H as <- _. split; [now apply safe_replace | apply nhandlers_set_children].
Qed.

Lemma remove_in_safe : forall fuel trace ms n pattern n' rm, all_nodes node_safe n ->
  remove_in fuel trace ms n pattern = Ok (Some (n', rm)) ->
  all_nodes node_safe n' /\ nhandlers n' = nhandlers n.
Proof.
  induction fuel as [|f IH]; intros trace ms n pattern n' rm Hn H; [discriminate|].
  rewrite remove_in_S in H.
  assert (Hgo : forall c i, (forall ch, In ch c -> all_nodes node_safe ch) ->
            remove_go f trace ms n pattern c i = Ok (Some (n', rm)) ->
            all_nodes node_safe n' /\ nhandlers n' = nhandlers n).
  { induction c as [|ch c IHc]; intros i Hc G; simpl in G; [discriminate|].
    assert (Hch : all_nodes node_safe ch) by (apply Hc; now left).
    assert (Hc' : forall x, In x c -> all_nodes node_safe x) by (intros x Ix; apply Hc; now right).
    destruct (beqb (sval (nseg ch)) pattern).
    - destruct (remove_at_node trace ms ch) as [ch' removed] eqn:RA.
      apply (remove_finish_safe _ _ _ _ _ _ Hn) in G; [exact G|].
      exact (remove_at_node_safe _ _ _ _ _ Hch RA).
    - destruct (has_prefix pattern (sval (nseg ch))); [|now apply (IHc (S i))].
      apply bind_ok in G. destruct G as [r [R G]].
      destruct r as [[ch' removed]|]; [|now apply (IHc (S i))].
      apply (remove_finish_safe _ _ _ _ _ _ Hn) in G; [exact G|].
      exact (proj1 (IH _ _ _ _ _ _ Hch R)). }
  apply (Hgo (nchildren n) O); [|exact H].
  intros ch Ich. now apply (all_nodes_child _ n).
Qed.

Theorem remove_safe : forall t p ms t', tree_safe t -> tree_remove t p ms = Ok t' -> tree_safe t'.
Proof.
  intros t p ms t' [Hall Hroot] H. unfold tree_remove in H.
  apply bind_ok in H. destruct H as [r [R H]].
  destruct r as [[root' removed]|].
  - injection H as <-. apply remove_in_safe in R; [|exact Hall]. destruct R as [Hs Hh].
    apply tree_build_methods_safe; [exact Hs | now rewrite Hh].
  - injection H as <-. split; assumption.
Qed.

(* ================================================================ clean *)

Definition clean_go (f : nat) (prefix : bytes) : list node -> res (list node) :=
  fix go (c : list node) : res (list node) :=
    match c with
    | [] => Ok []
    | ch :: c' =>
      let v := sval (nseg ch) in
      do ch' <- (if Nat.ltb (length v) (length prefix) && has_prefix prefix v
                 then clean_in f ch (skipn (length v) prefix) else Ok ch);
      do rest <- go c';
      if has_prefix v prefix then Ok rest else Ok (ch' :: rest)
    end.

Lemma clean_in_S : forall f n prefix,
  clean_in (S f) n prefix =
  match prefix with
  | [] => Ok (set_children n [] [])
  | _ :: _ => do cs <- clean_go f prefix (nchildren n);
              do ix <- build_indexes cs;
              Ok (set_children n cs ix)
  end.
Proof. intros f n prefix. destruct prefix; reflexivity. Qed.

Lemma clean_in_safe : forall fuel n prefix n', all_nodes node_safe n ->
  clean_in fuel n prefix = Ok n' -> all_nodes node_safe n' /\ nhandlers n' = nhandlers n.
Proof.
  induction fuel as [|f IH]; intros n prefix n' Hn H; [discriminate|].
  rewrite clean_in_S in H. destruct (all_nodes_here _ _ Hn) as [_ Hh].
  destruct prefix as [|b prefix].
  - injection H as <-. split; [|apply nhandlers_set_children].
    apply safe_set_children; [exact Hh | | intros ch []].
    unfold idx_ok. rewrite nindexes_set_children. intros b0 Hne. now elim Hne.
  - remember (b :: prefix) as pf eqn:Epf. clear Epf.
    assert (Hgo : forall c cs, (forall ch, In ch c -> all_nodes node_safe ch) ->
              clean_go f pf c = Ok cs -> forall x, In x cs -> all_nodes node_safe x).
    { induction c as [|ch c IHc]; intros cs Hc G x Ix; simpl in G.
      - injection G as <-. destruct Ix.
      - assert (Hch : all_nodes node_safe ch) by (apply Hc; now left).
        assert (Hc' : forall y, In y c -> all_nodes node_safe y) by (intros y Iy; apply Hc; now right).
        apply bind_ok in G. destruct G as [ch' [C G]].
        apply bind_ok in G. destruct G as [rest [R G]].
        assert (Hch' : all_nodes node_safe ch').
        { destruct (Nat.ltb (length (sval (nseg ch))) (length pf) && has_prefix pf (sval (nseg ch))).
          - exact (proj1 (IH _ _ _ Hch C)).
          - injection C as <-. exact Hch. }
        destruct (has_prefix (sval (nseg ch)) pf); injection G as <-.
        + exact (IHc rest Hc' R x Ix).
        + destruct Ix as [<-|Ix]; [exact Hch' | exact (IHc rest Hc' R x Ix)]. }
    apply bind_ok in H. destruct H as [cs [G H]].
    apply bind_ok in H. destruct H as [ix [B H]]. injection H as <-.
    split; [|apply nhandlers_set_children].
    apply safe_set_children; [exact Hh | now apply idx_ok_build |].
    apply (Hgo (nchildren n) cs); [|exact G].
    intros ch Ich. now apply (all_nodes_child _ n).
Qed.

Theorem clean_safe : forall t prefix t', tree_safe t -> tree_clean t prefix = Ok t' -> tree_safe t'.
Proof.
  intros t prefix t' [Hall Hroot] H. unfold tree_clean in H.
  apply bind_ok in H. destruct H as [root' [C H]]. injection H as <-.
  apply clean_in_safe in C; [|exact Hall]. destruct C as [Hs Hh].
  apply tree_build_methods_safe; [exact Hs | now rewrite Hh].
Qed.

(* ================================================================ middleware *)

Lemma ahas_map_keys : forall (g : bytes * hterm -> hterm) (h : list (bytes * hterm)) k,
  ahas k (map (fun kv => (fst kv, g kv)) h) = ahas k h.
Proof.
  intros g h k. unfold ahas. induction h as [|[k0 v0] h IHh]; simpl; [reflexivity|].
  destruct (beqb k k0); [reflexivity | exact IHh].
Qed.

Lemma apply_mw_node_handlers : forall fuel router mws n,
  ahas M405 (nhandlers (apply_mw_node fuel router mws n)) = ahas M405 (nhandlers n).
Proof.
  intros [|f] router mws [s p i h x c]; simpl; [reflexivity|].
  apply (ahas_map_keys (fun kv => apply_mw (snd kv) (fst kv) p router mws)).
Qed.

Lemma apply_mw_node_safe : forall fuel router mws n, all_nodes node_safe n ->
  all_nodes node_safe (apply_mw_node fuel router mws n).
Proof.
  induction fuel as [|f IH]; intros router mws n Hn; [exact Hn|].
  destruct (all_nodes_here _ _ Hn) as [Hi Hh].
  destruct n as [s p i h x c]. simpl. apply all_nodes_intro.
  - split.
    + unfold idx_ok in *. simpl in *. rewrite map_length. exact Hi.
    + unfold h405_ok in *. simpl in *. destruct Hh as [->|Hh]; [now left | right].
      now rewrite (ahas_map_keys (fun kv => apply_mw (snd kv) (fst kv) p router mws)).
  - simpl. intros ch Ich. apply in_map_iff in Ich. destruct Ich as [ch0 [<- Ich]].
    apply IH. apply (all_nodes_child _ _ _ Hn). exact Ich.
Qed.

Theorem use_safe : forall t mws, tree_safe t -> tree_safe (tree_apply_mw t mws).
Proof.
  intros t mws [Hall Hroot]. unfold tree_safe, tree_apply_mw. cbn [troot]. split.
  - now apply apply_mw_node_safe.
  - now rewrite apply_mw_node_handlers.
Qed.

(* ================================================================ dispatch *)

Lemma match_children_found_all : forall (P : node -> Prop) fuel n path ps r ps',
  all_nodes P n -> match_children fuel n path ps = MFound r ps' -> P r.
Proof.
  intros P. induction fuel as [|f IH]; intros n path ps r ps' Hall H; [discriminate|].
  assert (Hch : forall ch path1 ps1, In ch (nchildren n) ->
            match_children f ch path1 ps1 = MFound r ps' -> P r).
  { intros ch path1 ps1 Ich MC. apply (IH ch path1 ps1 r ps'); [|exact MC].
    now apply (all_nodes_child _ n). }
  assert (Hloop : forall l psc, incl l (nchildren n) -> mc_loop f n path l psc = MFound r ps' -> P r).
  { induction l as [|ch l IHl]; intros psc Hin HL; simpl in HL.
    - destruct path; [|discriminate]. destruct (Nat.ltb 0 (nsize n)); [|discriminate].
      injection HL as <- _. now apply all_nodes_here.
    - assert (Ich : In ch (nchildren n)) by (apply Hin; now left).
      assert (Hin' : incl l (nchildren n)) by (intros x Ix; apply Hin; now right).
      destruct (seg_match (nseg ch) path psc) as [[path1 ps1]|] eqn:SM; [|now apply (IHl psc)].
      destruct (match_children f ch path1 ps1) as [r0 p|p|s0] eqn:MC; [| |discriminate].
      + injection HL as -> ->. exact (Hch ch path1 ps1 Ich MC).
      + exact (IHl _ Hin' HL). }
  rewrite match_children_S in H. cbv zeta in H.
  assert (Htail : incl (skipn (length (nindexes n)) (nchildren n)) (nchildren n)) by apply incl_skipn.
  destruct (nindexes n) as [|ix0 ixs] eqn:IX; [exact (Hloop _ _ Htail H)|].
  destruct path as [|b path]; [exact (Hloop _ _ Htail H)|].
  destruct (nth_error (nchildren n) (idx_get b (ix0 :: ixs))) as [ch|] eqn:NTH; [|discriminate].
  assert (Ich : In ch (nchildren n)) by (eapply nth_error_In; eassumption).
  destruct (seg_match (nseg ch) (b :: path) ps) as [[path1 ps1]|] eqn:SM; [|exact (Hloop _ _ Htail H)].
  destruct (match_children f ch path1 ps1) as [r0 p|p|s0] eqn:MC; [| |discriminate].
  - injection H as -> ->. exact (Hch ch path1 ps1 Ich MC).
  - exact (Hloop _ _ Htail H).
Qed.

Definition handler_of (t : tree) (method : bytes) (r : mres) : hres :=
  match r with
  | MPanic s => HPanic s
  | MNone ps' => HFound false None (tnotfound t) ps'
  | MFound n ps' =>
    if Nat.eqb (nsize n) O then HFound false None (tnotfound t) ps'
    else match lookup_handler method (nhandlers n) with
         | Some h => HFound true (Some n) h ps'
         | None => match alookup M405 (nhandlers n) with
                   | Some h => HFound false (Some n) h ps'
                   | None => HPanic (bs "Handler:nil-405")
                   end
         end
  end.

Lemma tree_handler_eq : forall t method path ps,
  tree_handler t method path ps =
  match (match ttrace t with Some h => if beqb method TRACE then Some h else None | None => None end) with
  | Some h => HFound true (Some (troot t)) h ps
  | None => handler_of t method
              (if beqb path (bs "*") || beqb path [] then MFound (troot t) ps
               else match_children (tree_fuel t) (troot t) path ps)
  end.
Proof. reflexivity. Qed.

Lemma handler_of_total : forall t method r s,
  (forall n ps', r = MFound n ps' -> h405_ok n) -> (forall s', r <> MPanic s') ->
  handler_of t method r <> HPanic s.
Proof.
  intros t method r s Hf Hp. destruct r as [n ps'|ps'|s']; simpl.
  - specialize (Hf n ps' eq_refl). unfold nsize.
    destruct Hf as [Hnil|H405].
    + rewrite Hnil. simpl. discriminate.
    + destruct (Nat.eqb (length (nhandlers n)) 0); [discriminate|].
      destruct (lookup_handler method (nhandlers n)); [discriminate|].
      unfold ahas in H405. destruct (alookup M405 (nhandlers n)); [discriminate | discriminate H405].
  - discriminate.
  - now elim (Hp s').
Qed.

Theorem handler_total : forall t method path ps s, tree_safe t ->
  tree_handler t method path ps <> HPanic s.
Proof.
  intros t method path ps s [Hall Hroot]. rewrite tree_handler_eq.
  destruct (match ttrace t with Some h => if beqb method TRACE then Some h else None | None => None end);
    [discriminate|].
  apply handler_of_total.
  - intros n ps' E. destruct (beqb path (bs "*") || beqb path []).
    + injection E as <- _. now right.
    + apply (match_children_found_all node_safe) in E; [exact (proj2 E) | exact Hall].
  - intros s' E. destruct (beqb path (bs "*") || beqb path []); [discriminate|].
    revert E. apply match_children_no_panic.
    + apply (all_nodes_impl node_safe idx_ok); [intros n Hs; exact (proj1 Hs) | exact Hall].
    + unfold tree_fuel. lia.
Qed.

(* ================================================================ histories *)

Lemma tstep_safe : forall t op, tree_safe t -> tree_safe (tstep t op).
Proof.
  intros t op Ht. destruct op as [p h mws ms|p ms|prefix|mws]; simpl.
  - destruct (tree_add t p h mws ms) as [t'|e|s0|] eqn:E; simpl; try exact Ht.
    exact (add_safe _ _ _ _ _ _ Ht E).
  - destruct (tree_remove t p ms) as [t'|e|s0|] eqn:E; simpl; try exact Ht.
    exact (remove_safe _ _ _ _ Ht E).
  - destruct (tree_clean t prefix) as [t'|e|s0|] eqn:E; simpl; try exact Ht.
    exact (clean_safe _ _ _ Ht E).
  - now apply use_safe.
Qed.

Lemma hist_safe : forall hist t, tree_safe t -> tree_safe (fold_left tstep hist t).
Proof.
  induction hist as [|op hist IH]; intros t Ht; simpl; [exact Ht|].
  apply IH. now apply tstep_safe.
Qed.

Theorem serve_total : forall name ic trace hist method path ps s,
  tree_handler (fold_left tstep hist (new_tree name ic trace)) method path ps <> HPanic s.
Proof.
  intros name ic trace hist method path ps s. apply handler_total, hist_safe, new_tree_safe.
Qed.

(* ================================================================ examples *)

Definition ex_hist : list top :=
  [ OAdd (bs "/a") (HUser (bs "ha")) [] [GET];
    OAdd (bs "/a/{id}") (HUser (bs "hid")) [bs "mw1"] [GET; POST];
    OAdd (bs "/b") (HUser (bs "hb")) [] [];
    ORemove (bs "/b") [POST];
    OClean (bs "/a/") ].

(* every call of the history is accepted (none is a no-op [keep]) *)
Fixpoint all_accepted (t : tree) (hist : list top) : bool :=
  match hist with
  | [] => true
  | op :: hist' =>
    (match op with
     | OAdd p h mws ms => match tree_add t p h mws ms with Ok _ => true | _ => false end
     | ORemove p ms => match tree_remove t p ms with Ok _ => true | _ => false end
     | OClean prefix => match tree_clean t prefix with Ok _ => true | _ => false end
     | OUse _ => true
     end) && all_accepted (tstep t op) hist'
  end.

Example ex_hist_accepted : all_accepted (new_tree (bs "r") [] true) ex_hist = true.
Proof. vm_compute. reflexivity. Qed.

Example ex_hist_found :
  match tree_handler (fold_left tstep ex_hist (new_tree (bs "r") [] true)) GET (bs "/a") [] with
  | HFound true (Some _) (HUser id) [] => id = bs "ha"
  | _ => False
  end.
Proof. vm_compute. reflexivity. Qed.

(* the cleaned route answers 404, the partially removed one 405, both without a fault *)
Example ex_hist_404_405 :
  (match tree_handler (fold_left tstep ex_hist (new_tree (bs "r") [] true)) GET (bs "/a/5") [] with
   | HFound false None HNotFound _ => True | _ => False end) /\
  (match tree_handler (fold_left tstep ex_hist (new_tree (bs "r") [] true)) POST (bs "/b") [] with
   | HFound false (Some _) _ _ => True | _ => False end).
Proof. vm_compute. split; exact I. Qed.
