(* C10 : URL building over segments (closed form, round trip with matching, strict mode). *)
From Coq Require Import String.
From Mux Require Import Model.Bytes Model.Regex Model.Context Model.Syntax Model.Tree Proofs.BytesFacts.

Fixpoint match_segs (segs : list segment) (path : bytes) (ps : params) : option params :=
  match segs with
  | [] => match path with [] => Some ps | _ => None end
  | s :: segs' => match seg_match s path ps with
                  | Some (rest, ps') => match_segs segs' rest ps'
                  | None => None
                  end
  end.

Definition param_seg (s : segment) : bool := negb (stype_eqb (styp s) TString).
Definition seg_names (segs : list segment) : list bytes := map sname (filter param_seg segs).
(* the shape NewSegment guarantees: an end-point parameter has no suffix *)
Definition seg_shape (s : segment) : Prop := sendpoint s = true -> ssuffix s = [].

(* ---------------------------------------------------------------- closed form *)
Lemma C10_url_segs_closed_form_l : forall segs ps,
  url_segs segs ps =
  (if forallb (fun s => negb (param_seg s) ||
                        match ctx_get ps (sname s) with Some _ => true | None => false end) segs
   then Ok (flat_map (fun s => if param_seg s
                               then opt_default [] (ctx_get ps (sname s)) ++ ssuffix s
                               else sval s) segs)
   else Err (bs "missing-param")).
Proof.
  induction segs as [|s segs IH]; intro ps; [reflexivity|].
  cbn [url_segs forallb flat_map]. rewrite IH. unfold param_seg.
  destruct (styp s) eqn:T; cbn [stype_eqb stype_rank Nat.eqb negb orb andb].
  - destruct (forallb _ segs); reflexivity.
  - destruct (ctx_get ps (sname s)) as [v|]; [|reflexivity].
    cbn [opt_default andb]. destruct (forallb _ segs); [|reflexivity].
    cbn [bind]. now rewrite <- app_assoc.
  - destruct (ctx_get ps (sname s)) as [v|]; [|reflexivity].
    cbn [opt_default andb]. destruct (forallb _ segs); [|reflexivity].
    cbn [bind]. now rewrite <- app_assoc.
  - destruct (ctx_get ps (sname s)) as [v|]; [|reflexivity].
    cbn [opt_default andb]. destruct (forallb _ segs); [|reflexivity].
    cbn [bind]. now rewrite <- app_assoc.
Qed.

(* ---------------------------------------------------------------- seg_match soundness *)
Lemma find_split_sound : forall m suffix s pre v rest,
  find_split m suffix pre s = Some (v, rest) -> rev pre ++ s = v ++ suffix ++ rest /\ m v = true.
Proof.
  intros m suffix. induction s as [|c s IH]; intros pre v rest H.
  - cbn [find_split] in H.
    destruct (has_prefix [] suffix && m (rev pre)) eqn:E; [|discriminate].
    apply andb_true_iff in E. destruct E as [E1 E2].
    inversion H; subst. split; [|exact E2].
    apply has_prefix_skipn in E1. now rewrite <- E1.
  - cbn [find_split] in H.
    destruct (has_prefix (c :: s) suffix && m (rev pre)) eqn:E.
    + apply andb_true_iff in E. destruct E as [E1 E2].
      inversion H; subst. split; [|exact E2].
      apply has_prefix_skipn in E1. now rewrite <- E1.
    + apply IH in H. destruct H as [H1 H2]. split; [|exact H2].
      rewrite <- H1. cbn [rev]. now rewrite <- app_assoc.
Qed.

Lemma seg_match_string : forall s path ps rest ps1,
  styp s = TString -> seg_match s path ps = Some (rest, ps1) -> path = sval s ++ rest /\ ps1 = ps.
Proof.
  intros s path ps rest ps1 T H. unfold seg_match in H. rewrite T in H.
  destruct (has_prefix path (sval s)) eqn:E; [|discriminate].
  inversion H; subst. split; [now apply has_prefix_skipn | reflexivity].
Qed.

Lemma seg_match_param : forall s path ps rest ps1,
  seg_shape s -> param_seg s = true -> seg_match s path ps = Some (rest, ps1) ->
  exists v, path = v ++ ssuffix s ++ rest /\ smatch s v = true /\
            ps1 = (if signore s then ps else ctx_set ps (sname s) v).
Proof.
  intros s path ps rest ps1 Sh P H. unfold seg_match in H. unfold param_seg in P.
  assert (Hp : (if sendpoint s || (stype_eqb (styp s) TRegexp && match ssuffix s with [] => true | _ => false end)
                then if smatch s path then Some ([], if signore s then ps else ctx_set ps (sname s) path) else None
                else match find_split (smatch s) (ssuffix s) [] path with
                     | Some (v, rest) => Some (rest, if signore s then ps else ctx_set ps (sname s) v)
                     | None => None
                     end) = Some (rest, ps1)).
  { destruct (styp s); [discriminate P | exact H | exact H | exact H]. }
  clear H.
  destruct (sendpoint s || (stype_eqb (styp s) TRegexp && match ssuffix s with [] => true | _ => false end)) eqn:E.
  - assert (Su : ssuffix s = []).
    { apply orb_true_iff in E. destruct E as [E|E]; [now apply Sh|].
      apply andb_true_iff in E. destruct E as [_ E]. destruct (ssuffix s); [reflexivity | discriminate]. }
    destruct (smatch s path) eqn:M; [|discriminate].
    inversion Hp; subst. exists path. rewrite Su. cbn [app]. rewrite app_nil_r. now split; [|split].
  - destruct (find_split (smatch s) (ssuffix s) [] path) as [[v r]|] eqn:F; [|discriminate].
    inversion Hp; subst. apply find_split_sound in F. destruct F as [F1 F2].
    exists v. cbn [rev app] in F1. now split; [|split].
Qed.

(* parameters whose name no later segment uses are left alone *)
Lemma match_segs_frame : forall segs path ps ps' k,
  match_segs segs path ps = Some ps' -> ~ In k (seg_names segs) -> ctx_get ps' k = ctx_get ps k.
Proof.
  induction segs as [|s segs IH]; intros path ps ps' k H NI.
  - cbn [match_segs] in H. destruct path; [|discriminate]. now inversion H.
  - cbn [match_segs] in H.
    destruct (seg_match s path ps) as [[rest ps1]|] eqn:M; [|discriminate].
    unfold seg_names in NI. cbn [filter] in NI.
    destruct (param_seg s) eqn:P.
    + cbn [map In] in NI.
      rewrite (IH rest ps1 ps' k H) by (intro I; apply NI; now right).
      unfold seg_match in M. unfold param_seg in P.
      assert (Hps : ps1 = ps \/ exists v, ps1 = ctx_set ps (sname s) v).
      { destruct (styp s); [discriminate P| | |];
        (destruct (sendpoint s || _);
         [destruct (smatch s path); [|discriminate]; inversion M; subst;
          destruct (signore s); [now left | right; now eexists]
         |destruct (find_split _ _ _ _) as [[v r]|]; [|discriminate]; inversion M; subst;
          destruct (signore s); [now left | right; now eexists]]). }
      destruct Hps as [->|[v ->]]; [reflexivity|].
      unfold ctx_get, ctx_set. rewrite alookup_aset.
      destruct (beqb_spec k (sname s)) as [->|N]; [|reflexivity].
      exfalso. apply NI. now left.
    + rewrite (IH rest ps1 ps' k H NI).
      unfold param_seg in P. apply negb_false_iff in P.
      assert (T : styp s = TString) by (destruct (styp s); [reflexivity | discriminate P ..]).
      apply (seg_match_string s path ps rest ps1 T) in M. now destruct M as [_ ->].
Qed.

Lemma C10_roundtrip_gen : forall segs path ps ps',
  Forall seg_shape segs -> NoDup (seg_names segs) ->
  (forall s, In s segs -> param_seg s = true -> signore s = false) ->
  match_segs segs path ps = Some ps' -> url_segs segs ps' = Ok path.
Proof.
  induction segs as [|s segs IH]; intros path ps ps' Sh ND Ig H.
  - cbn [match_segs] in H. destruct path; [reflexivity | discriminate].
  - cbn [match_segs] in H.
    destruct (seg_match s path ps) as [[rest ps1]|] eqn:M; [|discriminate].
    inversion Sh as [|? ? Sh1 Sh2]; subst.
    assert (Ig' : forall s0, In s0 segs -> param_seg s0 = true -> signore s0 = false)
      by (intros s0 I0; apply Ig; now right).
    unfold seg_names in ND. cbn [filter] in ND.
    destruct (param_seg s) eqn:P.
    + cbn [map] in ND. inversion ND as [|? ? NI ND']; subst.
      destruct (seg_match_param s path ps rest ps1 Sh1 P M) as [v [E [_ Eps]]].
      rewrite (Ig s (or_introl eq_refl) P) in Eps. subst ps1.
      pose proof (match_segs_frame segs rest _ ps' (sname s) H NI) as Fr.
      unfold ctx_get at 2 in Fr. unfold ctx_set in Fr. rewrite alookup_aset, beqb_refl in Fr.
      cbn [url_segs]. rewrite Fr.
      rewrite (IH rest _ ps' Sh2 ND' Ig' H). cbn [bind].
      unfold param_seg in P.
      destruct (styp s); [discriminate P | now rewrite E ..].
    + unfold param_seg in P. apply negb_false_iff in P.
      assert (T : styp s = TString) by (destruct (styp s); [reflexivity | discriminate P ..]).
      destruct (seg_match_string s path ps rest ps1 T M) as [E ->].
      cbn [url_segs]. rewrite T.
      rewrite (IH rest ps ps' Sh2 ND Ig' H). cbn [bind]. now rewrite E.
Qed.

Lemma C10_roundtrip_l : forall segs path ps',
  Forall seg_shape segs -> NoDup (seg_names segs) ->
  (forall s, In s segs -> param_seg s = true -> signore s = false) ->
  match_segs segs path [] = Some ps' -> url_segs segs ps' = Ok path.
Proof. intros segs path ps'. apply C10_roundtrip_gen. Qed.

(* ---------------------------------------------------------------- strict mode *)
Lemma bind_ok : forall {A B} (r : res A) (f : A -> res B) y,
  bind r f = Ok y -> exists x, r = Ok x /\ f x = Ok y.
Proof. intros A B r f y H. destruct r as [x| | |]; try discriminate. now exists x. Qed.

Lemma C10_strict_validates_l : forall chain ps u, url_chain chain ps = Ok u ->
  forall n, In n chain -> param_seg (nseg n) = true ->
  exists v, ctx_get ps (sname (nseg n)) = Some v /\ seg_valid (nseg n) v = true.
Proof.
  induction chain as [|n0 chain IH]; intros ps u H n I P; [contradiction|].
  cbn [url_chain] in H.
  assert (Tail : exists u', url_chain chain ps = Ok u').
  { destruct (styp (nseg n0)).
    - apply bind_ok in H. destruct H as [x [H _]]. now exists x.
    - destruct (ctx_get ps (sname (nseg n0))) as [v|]; [|discriminate].
      destruct (seg_valid (nseg n0) v); [|discriminate].
      apply bind_ok in H. destruct H as [x [H _]]. now exists x.
    - destruct (ctx_get ps (sname (nseg n0))) as [v|]; [|discriminate].
      destruct (seg_valid (nseg n0) v); [|discriminate].
      apply bind_ok in H. destruct H as [x [H _]]. now exists x.
    - destruct (ctx_get ps (sname (nseg n0))) as [v|]; [|discriminate].
      destruct (seg_valid (nseg n0) v); [|discriminate].
      apply bind_ok in H. destruct H as [x [H _]]. now exists x. }
  destruct I as [->|I].
  - unfold param_seg in P.
    destruct (styp (nseg n)); [discriminate P| | |];
      (destruct (ctx_get ps (sname (nseg n))) as [v|]; [|discriminate];
       destruct (seg_valid (nseg n) v) eqn:V; [|discriminate]; now exists v).
  - destruct Tail as [u' Hu']. exact (IH ps u' Hu' n I P).
Qed.

Lemma C10_strict_not_a_route_l : forall t pattern ps,
  find_chain (tree_fuel t) (troot t) pattern = None -> tree_url t pattern ps = Err (bs "not-a-route").
Proof. intros t pattern ps H. unfold tree_url. now rewrite H. Qed.

(* ---------------------------------------------------------------- non-vacuity *)
(* the segments of "/posts/{id}/{page}" *)
Definition ex_named (v n suf : bytes) (endp : bool) : segment :=
  {| sval := v; sname := n; srule := []; ssuffix := suf; styp := TNamed; samb := (2 + length suf)%nat;
     sendpoint := endp; signore := false; sre := REmpty; smatch := fun _ => true |}.
Definition ex_segs : list segment :=
  [string_seg (bs "/posts/"); ex_named (bs "{id}/") (bs "id") (bs "/") false;
   ex_named (bs "{page}") (bs "page") [] true].

Example ex_match : match_segs ex_segs (bs "/posts/5/2") [] = Some [(bs "id", bs "5"); (bs "page", bs "2")].
Proof. vm_compute. reflexivity. Qed.
Example ex_url : url_segs ex_segs [(bs "id", bs "5"); (bs "page", bs "2")] = Ok (bs "/posts/5/2").
Proof. vm_compute. reflexivity. Qed.
Example ex_url_missing : url_segs ex_segs [(bs "id", bs "5")] = Err (bs "missing-param").
Proof. vm_compute. reflexivity. Qed.
Example ex_hyps : Forall seg_shape ex_segs /\ NoDup (seg_names ex_segs) /\
  (forall s, In s ex_segs -> param_seg s = true -> signore s = false).
Proof.
  split; [|split].
  - repeat constructor; intro H; try reflexivity; discriminate H.
  - vm_compute. repeat constructor; cbn [In]; intros H; repeat (destruct H as [H|H]; [discriminate H|]); exact H.
  - intros s I _. cbn [ex_segs In] in I.
    destruct I as [<-|[<-|[<-|[]]]]; reflexivity.
Qed.
