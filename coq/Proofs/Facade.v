(* C19 – Prefix and Resource objects are shorthand for Router calls with the concatenated pattern
   and the concatenated middleware list. *)
From Coq Require Import String.
From Mux Require Import Model.Bytes Model.Regex Model.Context Model.Syntax Model.Tree Model.Router
     Spec.Table Proofs.BytesFacts.

Lemma prefix_handle : forall r pre pms pat h m ms,
    f_handle r (f_prefix None pre pms) pat h m ms = r_handle r (pre ++ pat) h (m ++ pms) ms.
Proof. reflexivity. Qed.

Lemma nested_prefix_handle : forall r pre1 ms1 pre2 ms2 pat h m ms,
    f_handle r (f_prefix (Some (f_prefix None pre1 ms1)) pre2 ms2) pat h m ms =
    r_handle r (pre1 ++ pre2 ++ pat) h (m ++ ms2 ++ ms1) ms.
Proof.
  intros r pre1 ms1 pre2 ms2 pat h m ms. unfold f_handle, f_pattern, f_prefix. cbn [fprefix fpat fms].
  rewrite <- app_assoc. reflexivity.
Qed.

Lemma resource_handle : forall r parent pat rms anypat h m ms,
    f_handle r (f_resource parent pat rms) anypat h m ms =
    r_handle r (match parent with None => pat | Some p => fpat p ++ pat end) h
             (m ++ rms ++ match parent with None => [] | Some p => fms p end) ms.
Proof.
  intros r parent pat rms0 anypat h m ms. destruct parent as [p|]; unfold f_handle, f_pattern, f_resource; cbn [fprefix fpat fms].
  - reflexivity.
  - rewrite app_nil_r. reflexivity.
Qed.

Lemma prefix_remove : forall r parent pre pms pat ms,
    f_remove r (f_prefix parent pre pms) pat ms =
    r_remove r (match parent with None => pre ++ pat | Some p => fpat p ++ pre ++ pat end) ms.
Proof.
  intros r parent pre pms pat ms. destruct parent as [p|]; unfold f_remove, f_pattern, f_prefix; cbn [fprefix fpat fms].
  - rewrite <- app_assoc. reflexivity.
  - reflexivity.
Qed.

Lemma resource_remove : forall r parent pat rms anypat ms,
    f_remove r (f_resource parent pat rms) anypat ms =
    r_remove r (match parent with None => pat | Some p => fpat p ++ pat end) ms.
Proof.
  intros r parent pat rms0 anypat ms. destruct parent as [p|]; reflexivity.
Qed.

Lemma prefix_clean : forall r parent pre pms,
    f_clean r (f_prefix parent pre pms) =
    r_clean r (match parent with None => pre | Some p => fpat p ++ pre end).
Proof.
  intros r parent pre pms. destruct parent as [p|]; reflexivity.
Qed.

Lemma resource_clean : forall r parent pat rms,
    f_clean r (f_resource parent pat rms) =
    r_remove r (match parent with None => pat | Some p => fpat p ++ pat end) [].
Proof.
  intros r parent pat rms0. destruct parent as [p|]; reflexivity.
Qed.

Lemma prefix_url : forall r parent pre pms strict pat ps,
    f_url r (f_prefix parent pre pms) strict pat ps =
    r_url r strict (match parent with None => pre ++ pat | Some p => fpat p ++ pre ++ pat end) ps.
Proof.
  intros r parent pre pms strict pat ps. destruct parent as [p|]; unfold f_url, f_pattern, f_prefix; cbn [fprefix fpat fms].
  - rewrite <- app_assoc. reflexivity.
  - reflexivity.
Qed.

Lemma resource_url : forall r parent pat rms strict anypat ps,
    f_url r (f_resource parent pat rms) strict anypat ps =
    r_url r strict (match parent with None => pat | Some p => fpat p ++ pat end) ps.
Proof.
  intros r parent pat rms0 strict anypat ps. destruct parent as [p|]; reflexivity.
Qed.

Lemma prefix_clean_table : forall (t : table) prefix p e,
    In (p, e) (t_clean t prefix) <-> In (p, e) t /\ has_prefix p prefix = false.
Proof.
  intros t prefix p e. unfold t_clean. rewrite filter_In. cbn [fst].
  rewrite negb_true_iff. reflexivity.
Qed.

(* ------------------------------------------------------------------ non-vacuity *)
(* a two-level Prefix with a Resource below it: Handle succeeds on a concrete router and equals the
   direct Router.Handle with the concatenated pattern and the middlewares innermost-first *)
Example facade_nonvacuous :
  let r := new_router (bs "main") [] false [] in
  let v1 := f_prefix None (bs "/v1") [bs "a"] in
  let adm := f_prefix (Some v1) (bs "/admin") [bs "b"] in
  let res := f_resource (Some adm) (bs "/users/{id}") [bs "c"] in
  f_handle r res [] (HUser (bs "h")) [bs "d"] [GET] =
    r_handle r (bs "/v1/admin/users/{id}") (HUser (bs "h")) [bs "d"; bs "c"; bs "b"; bs "a"] [GET] /\
  (exists r', f_handle r res [] (HUser (bs "h")) [bs "d"] [GET] = Ok r') /\
  f_pattern adm (bs "/x") = bs "/v1/admin/x".
Proof.
  split; [vm_compute; reflexivity|]. split; [eexists; vm_compute; reflexivity | vm_compute; reflexivity].
Qed.

Example clean_table_nonvacuous :
  let t : table := [(bs "/api/a", []); (bs "/web", []); (bs "/api", [])] in
  t_clean t (bs "/api") = [(bs "/web", [])] /\
  In (bs "/web", []) t /\ has_prefix (bs "/web") (bs "/api") = false.
Proof.
  split; [vm_compute; reflexivity|]. split; [right; left; reflexivity | vm_compute; reflexivity].
Qed.
