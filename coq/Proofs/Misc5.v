(* C04 (stretch) : the bit-set a node keeps renders exactly its methods.
   Finite sweep: a duplicate-free key list over [""; the nine methods] is a permutation of one of
   the 1024 sublists of that list, and the claim is checked on all of them by computation. *)
From Coq Require Import String Permutation.
From Mux Require Import Model.Bytes Model.Regex Model.Context Model.Syntax Model.Tree Spec.Table
  Proofs.BytesFacts Proofs.Misc2 Proofs.Misc4.

Definition sumbits (ks : list bytes) : N := fold_right (fun k acc => method_bit k + acc) 0 ks.
Definition is_nil {A} (l : list A) : bool := match l with [] => true | _ => false end.
Definition midx_keys (trace : bool) (ks : list bytes) : N :=
  sumbits ks + (if trace && negb (is_nil ks) then method_bit TRACE else 0).

Lemma node_midx_keys : forall trace hs, node_midx trace hs = midx_keys trace (map fst hs).
Proof.
  intros trace hs. unfold node_midx, midx_keys. f_equal.
  - induction hs as [|kv hs IH]; cbn [fold_right map sumbits]; [reflexivity|].
    fold (sumbits (map fst hs)). now rewrite IH.
  - destruct hs; reflexivity.
Qed.

Lemma sumbits_perm : forall l l', Permutation l l' -> sumbits l = sumbits l'.
Proof.
  intros l l' P. induction P as [|x l l' P IH|x y l|l l' l'' P1 IH1 P2 IH2]; cbn [sumbits fold_right].
  - reflexivity.
  - fold (sumbits l) (sumbits l'). now rewrite IH.
  - fold (sumbits l). lia.
  - congruence.
Qed.

Lemma is_nil_perm : forall (l l' : list bytes), Permutation l l' -> is_nil l = is_nil l'.
Proof.
  intros l l' P. destruct l as [|x l]; destruct l' as [|y l']; try reflexivity.
  - apply Permutation_nil in P. discriminate P.
  - apply Permutation_sym, Permutation_nil in P. discriminate P.
Qed.

Lemma midx_keys_perm : forall trace l l', Permutation l l' -> midx_keys trace l = midx_keys trace l'.
Proof. intros trace l l' P. unfold midx_keys. now rewrite (sumbits_perm l l' P), (is_nil_perm l l' P). Qed.

(* sublists *)
Fixpoint sublists {A} (l : list A) : list (list A) :=
  match l with
  | [] => [[]]
  | x :: l' => map (cons x) (sublists l') ++ sublists l'
  end.

Lemma filter_in_sublists : forall {A} (f : A -> bool) l, In (filter f l) (sublists l).
Proof.
  intros A f l. induction l as [|x l IH]; cbn [filter sublists]; [now left|].
  apply in_app_iff. destruct (f x); [left; now apply in_map | now right].
Qed.

Lemma nodupb_NoDup : forall l, nodupb l = true -> NoDup l.
Proof.
  induction l as [|x l IH]; intro H; [constructor|].
  cbn [nodupb] in H. apply andb_true_iff in H. destruct H as [H1 H2].
  constructor; [|now apply IH]. apply negb_true_iff in H1. now apply mem_false.
Qed.

Definition all_keys : list bytes := M405 :: methods_list.

Lemma all_keys_nodup : NoDup all_keys.
Proof. apply nodupb_NoDup. vm_compute. reflexivity. Qed.

(* the claim on one key list, as a boolean *)
Definition checkb (trace : bool) (ks : list bytes) : bool :=
  (trace && mem TRACE ks) ||
  forallb (fun m => Bool.eqb (N.eqb (N.land (midx_keys trace ks) (method_bit m)) (method_bit m))
                             (mem m ks || (trace && negb (is_nil ks) && beqb m TRACE))) methods_list.

Lemma sweep : forallb (fun ks => checkb true ks && checkb false ks) (sublists all_keys) = true.
Proof. vm_compute. reflexivity. Qed.

Lemma checkb_canon : forall trace f, checkb trace (filter f all_keys) = true.
Proof.
  intros trace f. pose proof sweep as S. rewrite forallb_forall in S.
  specialize (S _ (filter_in_sublists f all_keys)). apply andb_true_iff in S.
  destruct trace; tauto.
Qed.

Lemma methods_list_nonempty : forall m, In m methods_list -> m <> [].
Proof.
  intros m I E. subst m. apply mem_In in I. vm_compute in I. discriminate I.
Qed.

Lemma methods_of_In : forall idx m,
  In m (methods_of idx) <-> In m methods_list /\ N.land idx (method_bit m) = method_bit m.
Proof.
  intros idx m. unfold methods_of. rewrite sort_bytes_In, filter_In, N.eqb_eq. tauto.
Qed.

Lemma C04_bits_render_l : forall trace (hs : list (bytes * hterm)), NoDup (map fst hs) ->
  (forall k, In k (map fst hs) -> k = [] \/ In k methods_list) -> (trace = true -> ~ In TRACE (map fst hs)) ->
  forall m, In m (methods_of (node_midx trace hs)) <->
            ((In m (map fst hs) /\ m <> []) \/ (trace = true /\ hs <> [] /\ m = TRACE)).
Proof.
  intros trace hs ND Sub NT m.
  set (keys := map fst hs) in *.
  set (ks := filter (fun k => mem k keys) all_keys).
  assert (P : Permutation keys ks).
  { apply NoDup_Permutation; [exact ND | apply NoDup_filter, all_keys_nodup |].
    intro x. unfold ks. rewrite filter_In, mem_In. split; [|tauto].
    intro I. split; [|exact I]. destruct (Sub x I) as [->|Hx]; [now left | now right]. }
  assert (Hnil : is_nil ks = is_nil hs).
  { rewrite <- (is_nil_perm keys ks P). unfold keys. destruct hs; reflexivity. }
  assert (Hmem : forall x, mem x ks = mem x keys).
  { intro x. destruct (mem x keys) eqn:E.
    - apply mem_In. apply (Permutation_in x P). now apply mem_In.
    - apply mem_false. intro I. apply mem_false in E. apply E.
      apply (Permutation_in x (Permutation_sym P) I). }
  rewrite node_midx_keys. fold keys. rewrite (midx_keys_perm trace keys ks P).
  rewrite methods_of_In.
  pose proof (checkb_canon trace (fun k => mem k keys)) as C. fold ks in C.
  unfold checkb in C. apply orb_true_iff in C. destruct C as [C|C].
  { apply andb_true_iff in C. destruct C as [C1 C2]. rewrite Hmem in C2. apply mem_In in C2.
    exfalso. now apply (NT C1). }
  rewrite forallb_forall in C.
  split.
  - intros [I L]. specialize (C m I). apply eqb_prop in C.
    apply N.eqb_eq in L. rewrite L in C. symmetry in C. apply orb_true_iff in C. destruct C as [C|C].
    + left. rewrite Hmem in C. apply mem_In in C. split; [exact C | now apply methods_list_nonempty].
    + right. apply andb_true_iff in C. destruct C as [C C3]. apply andb_true_iff in C. destruct C as [C1 C2].
      split; [exact C1|]. split; [|now apply beqb_eq].
      rewrite Hnil in C2. intro E. subst hs. discriminate C2.
  - intros [[I Ne]|[T [Ne ->]]].
    + assert (IL : In m methods_list) by (destruct (Sub m I) as [E|IL]; [contradiction | exact IL]).
      split; [exact IL|]. specialize (C m IL). apply eqb_prop in C.
      apply N.eqb_eq. rewrite C, Hmem. apply mem_In in I. now rewrite I.
    + assert (IL : In TRACE methods_list) by (apply mem_In; vm_compute; reflexivity).
      split; [exact IL|]. specialize (C TRACE IL). apply eqb_prop in C.
      apply N.eqb_eq. rewrite C, T, Hnil, beqb_refl. destruct hs; [contradiction|].
      cbn [is_nil negb andb]. apply orb_true_r.
Qed.

(* ---------------------------------------------------------------- non-vacuity *)
Example ex_bits : methods_of (node_midx true [(GET, HUser []); (HEAD, HUser []); (OPTIONS, HOptions); (M405, HNotAllowed)])
                  = [GET; HEAD; OPTIONS; TRACE] /\
                  methods_of (node_midx true []) = [] /\
                  methods_of (node_midx false [(DELETE, HUser []); (OPTIONS, HOptions); (M405, HNotAllowed)]) = [DELETE; OPTIONS].
Proof. vm_compute. repeat split. Qed.
