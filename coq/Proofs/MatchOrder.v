(* C02: WHICH child wins in the depth-first search of [match_children].
   - the children are tried in the order [search_order n path] (the indexed child first when the
     node has a first-byte index and the path is not empty, then the children from position
     [length (nindexes n)] on);
   - the first child whose label matches and whose subtree yields a result wins; every child
     tried before it failed; a child is given up only by going on to the next one;
   - success / failure of a subtree does not depend on the parameters collected so far
     ([match_children_shape]); only the reported parameters do.
   Theorems are re-exported by Props/C02dfs.v. *)
From Coq Require Import String.
From Mux Require Import Model.Bytes Model.Regex Model.Context Model.Syntax Model.Tree
  Proofs.BytesFacts Proofs.MatchSound Proofs.TreeOrder.

Local Open Scope nat_scope.

(* ================================================================ definitions *)

(* the children in the order the search tries them *)
Definition search_order (n : node) (path : bytes) : list node :=
  match nindexes n, path with
  | _ :: _, b :: _ => match nth_error (nchildren n) (idx_get b (nindexes n)) with Some c => [c] | None => [] end
  | _, _ => []
  end ++ skipn (length (nindexes n)) (nchildren n).

(* child c fails on (path, ps): its label does not match, or nothing below it matches *)
Definition child_fails (f : nat) (c : node) (path : bytes) (ps : params) : Prop :=
  seg_match (nseg c) path ps = None \/
  exists path1 ps1 ps2, seg_match (nseg c) path ps = Some (path1, ps1) /\ match_children f c path1 ps1 = MNone ps2.

(* the two parts of [search_order] *)
Definition idx_child (n : node) (path : bytes) : list node :=
  match nindexes n, path with
  | _ :: _, b :: _ => match nth_error (nchildren n) (idx_get b (nindexes n)) with Some c => [c] | None => [] end
  | _, _ => []
  end.
Definition tail_of (n : node) : list node := skipn (length (nindexes n)) (nchildren n).

Lemma search_order_eq : forall n path, search_order n path = idx_child n path ++ tail_of n.
Proof. reflexivity. Qed.

(* the parameters after child d of the loop has been given up (what it wrote is deleted) *)
Definition step_params (f : nat) (path : bytes) (d : node) (ps : params) : params :=
  match seg_match (nseg d) path ps with
  | None => ps
  | Some (p1, ps1) =>
    match match_children f d p1 ps1 with
    | MNone ps2 => ctx_delete ps2 (sname (nseg d))
    | _ => ps
    end
  end.
Fixpoint loop_params (f : nat) (path : bytes) (l : list node) (ps : params) : params :=
  match l with [] => ps | d :: l' => loop_params f path l' (step_params f path d ps) end.
(* every child of l fails, each one on the parameters as they are when it is tried *)
Fixpoint fails_seq (f : nat) (path : bytes) (l : list node) (ps : params) : Prop :=
  match l with
  | [] => True
  | d :: l' => child_fails f d path ps /\ fails_seq f path l' (step_params f path d ps)
  end.
(* the parameters after the indexed child has been given up (nothing is deleted there) *)
Definition idx_params (f : nat) (n : node) (path : bytes) (ps : params) : params :=
  match idx_child n path with
  | c :: _ =>
    match seg_match (nseg c) path ps with
    | None => ps
    | Some (p1, ps1) => match match_children f c p1 ps1 with MNone ps2 => ps2 | _ => ps end
    end
  | [] => ps
  end.
(* what the search leaves when every child has been given up *)
Definition final_params (f : nat) (n : node) (path : bytes) (ps : params) : params :=
  loop_params f path (tail_of n) (idx_params f n path ps).

Definition all_fail (f : nat) (path : bytes) (l : list node) : Prop :=
  Forall (fun d => exists psd, child_fails f d path psd) l.

(* ================================================================ the outcome does not depend on the parameters *)

Definition mshape (m : mres) : mres :=
  match m with MFound r _ => MFound r [] | MNone _ => MNone [] | MPanic s => MPanic s end.

Lemma seg_match_none_indep : forall seg path ps ps0,
  seg_match seg path ps = None -> seg_match seg path ps0 = None.
Proof.
  intros seg path ps ps0 H. destruct (seg_match seg path ps0) as [[r p]|] eqn:E; [|reflexivity].
  destruct (seg_match_uniform _ _ _ _ _ E) as [v Hv]. rewrite Hv in H. discriminate.
Qed.

Lemma seg_match_some_indep : forall seg path ps rest ps1 ps0,
  seg_match seg path ps = Some (rest, ps1) -> exists ps1', seg_match seg path ps0 = Some (rest, ps1').
Proof.
  intros seg path ps rest ps1 ps0 H. destruct (seg_match_uniform _ _ _ _ _ H) as [v Hv].
  eexists. apply Hv.
Qed.

Lemma mc_loop_nil : forall f n path ps,
  mc_loop f n path [] ps =
  match path with [] => if Nat.ltb O (nsize n) then MFound n ps else MNone ps | _ => MNone ps end.
Proof. reflexivity. Qed.

Lemma mc_loop_cons_eq : forall f n path ch l ps,
  mc_loop f n path (ch :: l) ps =
  match seg_match (nseg ch) path ps with
  | None => mc_loop f n path l ps
  | Some (path', ps') =>
    match match_children f ch path' ps' with
    | MFound r ps'' => MFound r ps''
    | MNone ps'' => mc_loop f n path l (ctx_delete ps'' (sname (nseg ch)))
    | MPanic s => MPanic s
    end
  end.
Proof. reflexivity. Qed.

Theorem match_children_shape : forall f n path ps ps0,
  mshape (match_children f n path ps) = mshape (match_children f n path ps0).
Proof.
  induction f as [|f IH]; intros n path ps ps0; [reflexivity|].
  assert (Hone : forall ch psa psb (Na Nb : mres) (Ka Kb : params -> mres),
            mshape Na = mshape Nb -> (forall a b, mshape (Ka a) = mshape (Kb b)) ->
            mshape (match seg_match (nseg ch) path psa with
                    | None => Na
                    | Some (p', q') => match match_children f ch p' q' with
                                       | MFound r q'' => MFound r q''
                                       | MNone q'' => Ka q''
                                       | MPanic s => MPanic s end end) =
            mshape (match seg_match (nseg ch) path psb with
                    | None => Nb
                    | Some (p', q') => match match_children f ch p' q' with
                                       | MFound r q'' => MFound r q''
                                       | MNone q'' => Kb q''
                                       | MPanic s => MPanic s end end)).
  { intros ch psa psb Na Nb Ka Kb HN HK.
    destruct (seg_match (nseg ch) path psa) as [[p1 ps1]|] eqn:SM.
    - destruct (seg_match_some_indep _ _ _ _ _ psb SM) as [ps1' SM']. rewrite SM'.
      specialize (IH ch p1 ps1 ps1').
      destruct (match_children f ch p1 ps1) as [r1 q1|q1|s1];
        destruct (match_children f ch p1 ps1') as [r2 q2|q2|s2]; simpl in IH; try discriminate IH.
      + exact IH.
      + apply HK.
      + exact IH.
    - rewrite (seg_match_none_indep _ _ _ psb SM). exact HN. }
  assert (Hloop : forall l psa psb, mshape (mc_loop f n path l psa) = mshape (mc_loop f n path l psb)).
  { induction l as [|ch l IHl]; intros psa psb.
    - rewrite !mc_loop_nil. destruct path; [destruct (Nat.ltb 0 (nsize n))|]; reflexivity.
    - rewrite !mc_loop_cons_eq.
      apply (Hone ch psa psb _ _ (fun q => mc_loop f n path l (ctx_delete q (sname (nseg ch))))
                                 (fun q => mc_loop f n path l (ctx_delete q (sname (nseg ch)))));
        [apply IHl | intros a b; apply IHl]. }
  rewrite !match_children_S. cbv zeta.
  destruct (nindexes n) as [|ix0 ixs]; [apply Hloop|].
  destruct path as [|b path]; [apply Hloop|].
  destruct (nth_error (nchildren n) (idx_get b (ix0 :: ixs))) as [ch|]; [|reflexivity].
  apply (Hone ch ps ps0 _ _ (fun q => mc_loop f n (b :: path) _ q) (fun q => mc_loop f n (b :: path) _ q));
    [apply Hloop | intros a b0; apply Hloop].
Qed.

Lemma shape_found : forall f n path ps ps0 r q,
  match_children f n path ps = MFound r q -> exists q0, match_children f n path ps0 = MFound r q0.
Proof.
  intros f n path ps ps0 r q H. pose proof (match_children_shape f n path ps ps0) as S.
  rewrite H in S. destruct (match_children f n path ps0) as [r0 q0|q0|s0]; simpl in S; try discriminate S.
  injection S as <-. now exists q0.
Qed.
Lemma shape_none : forall f n path ps ps0 q,
  match_children f n path ps = MNone q -> exists q0, match_children f n path ps0 = MNone q0.
Proof.
  intros f n path ps ps0 q H. pose proof (match_children_shape f n path ps ps0) as S.
  rewrite H in S. destruct (match_children f n path ps0) as [r0 q0|q0|s0]; simpl in S; try discriminate S.
  now exists q0.
Qed.

(* failing is a property of the child and the path alone *)
Lemma child_fails_indep : forall f d path psa psb, child_fails f d path psa -> child_fails f d path psb.
Proof.
  intros f d path psa psb [N | [p1 [ps1 [ps2 [SM MC]]]]].
  - left. now apply (seg_match_none_indep _ _ psa).
  - right. destruct (seg_match_some_indep _ _ _ _ _ psb SM) as [ps1' SM'].
    destruct (shape_none _ _ _ _ ps1' _ MC) as [q0 MC']. now exists p1, ps1', q0.
Qed.

Lemma child_fails_not_found : forall f d path ps p1 ps1 r q,
  child_fails f d path ps -> seg_match (nseg d) path ps = Some (p1, ps1) ->
  match_children f d p1 ps1 = MFound r q -> False.
Proof.
  intros f d path ps p1 ps1 r q [N | [p1' [ps1' [ps2 [SM' MC']]]]] SM MC.
  - rewrite N in SM. discriminate.
  - rewrite SM in SM'. injection SM' as <- <-. rewrite MC in MC'. discriminate.
Qed.

(* a child whose subtree matches on some parameters does not fail on any *)
Lemma succeeds_not_fails : forall f d path ps psd p1 ps1 r q,
  seg_match (nseg d) path ps = Some (p1, ps1) -> match_children f d p1 ps1 = MFound r q ->
  child_fails f d path psd -> False.
Proof.
  intros f d path ps psd p1 ps1 r q SM MC F.
  exact (child_fails_not_found _ _ _ _ _ _ _ _ (child_fails_indep _ _ _ _ ps F) SM MC).
Qed.

(* ================================================================ the loop over an arbitrary list *)

Lemma mc_loop_cons : forall f n path ch l ps,
  (child_fails f ch path ps /\
   mc_loop f n path (ch :: l) ps = mc_loop f n path l (step_params f path ch ps)) \/
  (exists p1 ps1 r q, seg_match (nseg ch) path ps = Some (p1, ps1) /\
     match_children f ch p1 ps1 = MFound r q /\ mc_loop f n path (ch :: l) ps = MFound r q) \/
  (exists s, mc_loop f n path (ch :: l) ps = MPanic s).
Proof.
  intros f n path ch l ps. rewrite mc_loop_cons_eq. unfold step_params, child_fails.
  destruct (seg_match (nseg ch) path ps) as [[p1 ps1]|] eqn:SM.
  - destruct (match_children f ch p1 ps1) as [r q|q|s] eqn:MC.
    + right; left. exists p1, ps1, r, q. split; [reflexivity|]. split; [exact MC | reflexivity].
    + left. split; [|reflexivity]. right. exists p1, ps1, q. split; [reflexivity | exact MC].
    + right; right. now exists s.
  - left. split; [now left | reflexivity].
Qed.

Lemma loop_params_app : forall f path l1 l2 ps,
  loop_params f path (l1 ++ l2) ps = loop_params f path l2 (loop_params f path l1 ps).
Proof. intros f path l1. induction l1 as [|d l1 IH]; intros l2 ps; simpl; [reflexivity | apply IH]. Qed.

Lemma fails_seq_app : forall f path l1 l2 ps,
  fails_seq f path (l1 ++ l2) ps <->
  fails_seq f path l1 ps /\ fails_seq f path l2 (loop_params f path l1 ps).
Proof.
  intros f path l1. induction l1 as [|d l1 IH]; intros l2 ps; simpl; [tauto|].
  rewrite IH. tauto.
Qed.

Lemma fails_seq_all_fail : forall f path l ps, fails_seq f path l ps -> all_fail f path l.
Proof.
  intros f path l. induction l as [|d l IH]; intros ps H; [constructor|].
  destruct H as [Hd Hl]. constructor; [now exists ps | exact (IH _ Hl)].
Qed.

Lemma all_fail_fails_seq : forall f path l, all_fail f path l -> forall ps, fails_seq f path l ps.
Proof.
  intros f path l H. induction H as [|d l [psd Hd] _ IH]; intro ps; simpl; [exact I|].
  split; [exact (child_fails_indep _ _ _ _ ps Hd) | apply IH].
Qed.

Lemma all_fail_app : forall f path l1 l2, all_fail f path (l1 ++ l2) <-> all_fail f path l1 /\ all_fail f path l2.
Proof. intros f path l1 l2. apply Forall_app. Qed.

(* the loop finds something: either the node itself after every child failed, or the first
   child of the list that does not fail *)
Lemma mc_loop_found : forall f n path l ps r q, mc_loop f n path l ps = MFound r q ->
  (r = n /\ path = [] /\ q = loop_params f path l ps /\ 0 < nsize n /\ fails_seq f path l ps) \/
  (exists pre c post p1 ps1, l = pre ++ c :: post /\ fails_seq f path pre ps /\
     seg_match (nseg c) path (loop_params f path pre ps) = Some (p1, ps1) /\
     match_children f c p1 ps1 = MFound r q).
Proof.
  intros f n path l. induction l as [|ch l IHl]; intros ps r q H.
  - rewrite mc_loop_nil in H. destruct path as [|b p]; [|discriminate].
    destruct (Nat.ltb 0 (nsize n)) eqn:SZ; [|discriminate]. injection H as <- <-.
    apply Nat.ltb_lt in SZ. left. simpl. auto 10.
  - destruct (mc_loop_cons f n path ch l ps) as [[Hf E] | [[p1 [ps1 [r0 [q0 [SM [MC E]]]]]] | [s E]]];
      rewrite E in H.
    + apply IHl in H.
      destruct H as [[Hr [Hp [Hq [Hs Hfs]]]] | [pre [c [post [p1 [ps1 [Hl [Hfs [SM MC]]]]]]]]].
      * left. simpl. auto 10.
      * right. exists (ch :: pre), c, post, p1, ps1. simpl. rewrite Hl. auto 10.
    + injection H as <- <-. right. exists [], ch, l, p1, ps1. simpl. auto 10.
    + discriminate.
Qed.

Lemma mc_loop_none : forall f n path l ps q, mc_loop f n path l ps = MNone q ->
  fails_seq f path l ps /\ q = loop_params f path l ps /\ (path <> [] \/ nsize n = 0).
Proof.
  intros f n path l. induction l as [|ch l IHl]; intros ps q H.
  - rewrite mc_loop_nil in H. simpl. destruct path as [|b p].
    + destruct (Nat.ltb 0 (nsize n)) eqn:SZ; [discriminate|]. injection H as <-.
      apply Nat.ltb_ge in SZ. split; [exact I|]. split; [reflexivity|]. right. lia.
    + injection H as <-. split; [exact I|]. split; [reflexivity|]. left. discriminate.
  - destruct (mc_loop_cons f n path ch l ps) as [[Hf E] | [[p1 [ps1 [r0 [q0 [SM [MC E]]]]]] | [s E]]];
      rewrite E in H; try discriminate.
    apply IHl in H. destruct H as [Hfs [Hq Hz]]. simpl. auto 10.
Qed.

Lemma mc_loop_all_fail : forall f n path l ps, fails_seq f path l ps -> (path <> [] \/ nsize n = 0) ->
  mc_loop f n path l ps = MNone (loop_params f path l ps).
Proof.
  intros f n path l. induction l as [|ch l IHl]; intros ps H Hz.
  - rewrite mc_loop_nil. simpl. destruct path as [|b p]; [|reflexivity].
    destruct Hz as [Hz|Hz]; [now elim Hz|]. rewrite Hz. reflexivity.
  - destruct H as [Hd Hl]. rewrite mc_loop_cons_eq. cbn [loop_params]. unfold step_params in *.
    destruct Hd as [N | [p1 [ps1 [ps2 [SM MC]]]]].
    + rewrite N in *. now apply IHl.
    + rewrite SM, MC in *. now apply IHl.
Qed.

(* ================================================================ the whole search *)

Lemma match_children_cases : forall f n path ps,
  (exists s, match_children (S f) n path ps = MPanic s) \/
  (idx_child n path = [] /\ idx_params f n path ps = ps /\
   match_children (S f) n path ps = mc_loop f n path (tail_of n) ps) \/
  (exists c, idx_child n path = [c] /\
     ((child_fails f c path ps /\
       match_children (S f) n path ps = mc_loop f n path (tail_of n) (idx_params f n path ps)) \/
      (exists p1 ps1 r q, seg_match (nseg c) path ps = Some (p1, ps1) /\
         match_children f c p1 ps1 = MFound r q /\ match_children (S f) n path ps = MFound r q))).
Proof.
  intros f n path ps. rewrite match_children_S. cbv zeta. unfold idx_params, idx_child, tail_of, child_fails.
  destruct (nindexes n) as [|ix0 ixs]; [right; left; auto|].
  destruct path as [|b p]; [right; left; auto|].
  destruct (nth_error (nchildren n) (idx_get b (ix0 :: ixs))) as [c|]; [|left; eexists; reflexivity].
  destruct (seg_match (nseg c) (b :: p) ps) as [[p1 ps1]|] eqn:SM.
  - destruct (match_children f c p1 ps1) as [r q|q|s] eqn:MC.
    + right; right. exists c. split; [reflexivity|]. right. exists p1, ps1, r, q. auto.
    + right; right. exists c. split; [reflexivity|]. left. split; [|reflexivity].
      right. exists p1, ps1, q. auto.
    + left. now exists s.
  - right; right. exists c. split; [reflexivity|]. left. split; [now left | reflexivity].
Qed.

Lemma Forall_one : forall (A : Type) (P : A -> Prop) x, P x -> Forall P [x].
Proof. intros A P x H. constructor; [exact H | constructor]. Qed.

(* precise form: who wins, and on which parameters every child was tried *)
Theorem match_children_found_cases : forall f n path ps r q,
  match_children (S f) n path ps = MFound r q ->
  (r = n /\ path = [] /\ q = final_params f n path ps /\ 0 < nsize n /\
   Forall (fun d => child_fails f d path ps) (idx_child n path) /\
   fails_seq f path (tail_of n) (idx_params f n path ps)) \/
  (exists c p1 ps1, idx_child n path = [c] /\ seg_match (nseg c) path ps = Some (p1, ps1) /\
     match_children f c p1 ps1 = MFound r q) \/
  (exists pre c post p1 ps1, tail_of n = pre ++ c :: post /\
     Forall (fun d => child_fails f d path ps) (idx_child n path) /\
     fails_seq f path pre (idx_params f n path ps) /\
     seg_match (nseg c) path (loop_params f path pre (idx_params f n path ps)) = Some (p1, ps1) /\
     match_children f c p1 ps1 = MFound r q).
Proof.
  intros f n path ps r q H.
  assert (Hloop : forall psi, Forall (fun d => child_fails f d path ps) (idx_child n path) ->
            idx_params f n path ps = psi -> mc_loop f n path (tail_of n) psi = MFound r q ->
            (r = n /\ path = [] /\ q = final_params f n path ps /\ 0 < nsize n /\
             Forall (fun d => child_fails f d path ps) (idx_child n path) /\
             fails_seq f path (tail_of n) (idx_params f n path ps)) \/
            (exists c p1 ps1, idx_child n path = [c] /\ seg_match (nseg c) path ps = Some (p1, ps1) /\
               match_children f c p1 ps1 = MFound r q) \/
            (exists pre c post p1 ps1, tail_of n = pre ++ c :: post /\
               Forall (fun d => child_fails f d path ps) (idx_child n path) /\
               fails_seq f path pre (idx_params f n path ps) /\
               seg_match (nseg c) path (loop_params f path pre (idx_params f n path ps)) = Some (p1, ps1) /\
               match_children f c p1 ps1 = MFound r q)).
  { intros psi HF Hpsi HL. apply mc_loop_found in HL. unfold final_params. rewrite Hpsi.
    destruct HL as [[Hr [Hp [Hq [Hs Hfs]]]] | [pre [c [post [p1 [ps1 [Hl [Hfs [SM MC]]]]]]]]].
    - left. auto 10.
    - right; right. exists pre, c, post, p1, ps1. auto 10. }
  destruct (match_children_cases f n path ps) as
    [[s E] | [[Hi [Hp E]] | [c [Hi [[Hf E] | [p1 [ps1 [r0 [q0 [SM [MC E]]]]]]]]]]]; rewrite E in H.
  - discriminate.
  - apply (Hloop ps); [rewrite Hi; constructor | exact Hp | exact H].
  - apply (Hloop (idx_params f n path ps)); [rewrite Hi; now apply Forall_one | reflexivity | exact H].
  - injection H as <- <-. right; left. exists c, p1, ps1. auto.
Qed.

Theorem match_children_none_cases : forall f n path ps q,
  match_children (S f) n path ps = MNone q ->
  Forall (fun d => child_fails f d path ps) (idx_child n path) /\
  fails_seq f path (tail_of n) (idx_params f n path ps) /\
  q = final_params f n path ps /\ (path <> [] \/ nsize n = 0).
Proof.
  intros f n path ps q H. unfold final_params.
  destruct (match_children_cases f n path ps) as
    [[s E] | [[Hi [Hp E]] | [c [Hi [[Hf E] | [p1 [ps1 [r0 [q0 [SM [MC E]]]]]]]]]]]; rewrite E in H;
    try discriminate.
  - apply mc_loop_none in H. rewrite Hp, Hi. destruct H as [H1 [H2 H3]]. split; [constructor | auto].
  - apply mc_loop_none in H. rewrite Hi. destruct H as [H1 [H2 H3]].
    split; [now apply Forall_one | auto].
Qed.

Lemma Forall_weaken_fails : forall f path ps l,
  Forall (fun d => child_fails f d path ps) l -> all_fail f path l.
Proof.
  intros f path ps l H. induction H as [|d l Hd _ IH]; constructor; [now exists ps | exact IH].
Qed.

(* the statement of the task *)
Theorem first_successful_child : forall f n path ps r ps',
  (forall s, match_children (S f) n path ps <> MPanic s) ->
  match_children (S f) n path ps = MFound r ps' ->
  (r = n /\ path = [] /\ ps' = final_params f n path ps /\ (0 < nsize n)%nat) \/
  exists pre c post path1 ps0 ps1, search_order n path = pre ++ c :: post /\
    seg_match (nseg c) path ps0 = Some (path1, ps1) /\ match_children f c path1 ps1 = MFound r ps' /\
    Forall (fun d => exists psd, child_fails f d path psd) pre.
Proof.
  intros f n path ps r ps' _ H. rewrite search_order_eq.
  destruct (match_children_found_cases _ _ _ _ _ _ H) as
    [[Hr [Hp [Hq [Hs _]]]] | [[c [p1 [ps1 [Hi [SM MC]]]]] | [pre [c [post [p1 [ps1 [Hl [HF [Hfs [SM MC]]]]]]]]]]].
  - left. auto.
  - right. exists [], c, (tail_of n), p1, ps, ps1. rewrite Hi. split; [reflexivity|]. auto.
  - right. exists (idx_child n path ++ pre), c, post, p1, (loop_params f path pre (idx_params f n path ps)), ps1.
    rewrite Hl, app_assoc. split; [reflexivity|]. split; [exact SM|]. split; [exact MC|].
    apply Forall_app. split; [exact (Forall_weaken_fails _ _ _ _ HF) | exact (fails_seq_all_fail _ _ _ _ Hfs)].
Qed.

Theorem no_widening : forall seg path ps rest ps', seg_match seg path ps = Some (rest, ps') ->
  forall rest2 ps2, seg_match seg path ps = Some (rest2, ps2) -> rest2 = rest /\ ps2 = ps'.
Proof. intros seg path ps rest ps' H rest2 ps2 H2. rewrite H in H2. injection H2 as <- <-. now split. Qed.

Theorem none_all_fail : forall f n path ps ps',
  (forall s, match_children (S f) n path ps <> MPanic s) ->
  match_children (S f) n path ps = MNone ps' ->
  Forall (fun d => exists psd, child_fails f d path psd) (search_order n path) /\ (path <> [] \/ nsize n = O).
Proof.
  intros f n path ps ps' _ H. apply match_children_none_cases in H. destruct H as [HF [Hfs [_ Hz]]].
  split; [|exact Hz]. rewrite search_order_eq. apply Forall_app.
  split; [exact (Forall_weaken_fails _ _ _ _ HF) | exact (fails_seq_all_fail _ _ _ _ Hfs)].
Qed.

(* converse: if every child in the search order fails and the node cannot answer itself, 404 *)
Theorem all_fail_none : forall f n path ps,
  (forall s, match_children (S f) n path ps <> MPanic s) ->
  Forall (fun d => exists psd, child_fails f d path psd) (search_order n path) ->
  (path <> [] \/ nsize n = O) ->
  match_children (S f) n path ps = MNone (final_params f n path ps).
Proof.
  intros f n path ps NP HF Hz. rewrite search_order_eq in HF. apply Forall_app in HF.
  destruct HF as [HFi HFt]. unfold final_params.
  destruct (match_children_cases f n path ps) as
    [[s E] | [[Hi [Hp E]] | [c [Hi [[Hf E] | [p1 [ps1 [r0 [q0 [SM [MC E]]]]]]]]]]].
  - elim (NP s E).
  - rewrite E, Hp. apply mc_loop_all_fail; [now apply all_fail_fails_seq | exact Hz].
  - rewrite E. apply mc_loop_all_fail; [now apply all_fail_fails_seq | exact Hz].
  - exfalso. rewrite Hi in HFi. inversion HFi as [|x l [psd Hd] _]; subst.
    exact (succeeds_not_fails _ _ _ _ _ _ _ _ _ SM MC Hd).
Qed.

(* ================================================================ the parameters a child is tried on *)

Lemma idx_child_spec : forall n path c t, idx_child n path = c :: t ->
  t = [] /\ exists b p, path = b :: p /\ nindexes n <> [] /\
    nth_error (nchildren n) (idx_get b (nindexes n)) = Some c.
Proof.
  intros n path c t H. unfold idx_child in H.
  destruct (nindexes n) as [|ix0 ixs] eqn:IX; [discriminate|].
  destruct path as [|b p]; [discriminate|].
  destruct (nth_error (nchildren n) (idx_get b (ix0 :: ixs))) as [c0|] eqn:NTH; [|discriminate].
  injection H as <- <-. split; [reflexivity|]. exists b, p. split; [reflexivity|]. split; [discriminate | exact NTH].
Qed.

Lemma idx_child_In : forall n path c, In c (idx_child n path) -> In c (nchildren n).
Proof.
  intros n path c H. destruct (idx_child n path) as [|c0 t] eqn:E; [destruct H|].
  destruct (idx_child_spec _ _ _ _ E) as [-> [b [p [_ [_ NTH]]]]].
  destruct H as [<-|[]]. eapply nth_error_In; eassumption.
Qed.

Lemma tail_of_incl : forall n, incl (tail_of n) (nchildren n).
Proof. intro n. apply incl_skipn. Qed.

Lemma search_order_incl : forall n path, incl (search_order n path) (nchildren n).
Proof.
  intros n path c H. rewrite search_order_eq in H. apply in_app_or in H.
  destruct H as [H|H]; [now apply (idx_child_In n path) | now apply tail_of_incl].
Qed.

(* in general: the original parameters minus names used below the node *)
Lemma step_params_dels : forall f n path d ps, all_nodes idx_lit n -> In d (nchildren n) ->
  exists ks, names_below n ks /\ step_params f path d ps = adeletes ks ps.
Proof.
  intros f n path d ps Hall Id. unfold step_params.
  assert (Hnil : exists ks, names_below n ks /\ ps = adeletes ks ps).
  { exists []. split; [intros k []| reflexivity]. }
  destruct (seg_match (nseg d) path ps) as [[p1 ps1]|] eqn:SM; [|exact Hnil].
  destruct (match_children f d p1 ps1) as [r q|q|s] eqn:MC; [exact Hnil | | exact Hnil].
  apply match_children_none_dels in MC; [|now apply (all_nodes_child _ n)].
  destruct MC as [ks1 [Hk1 ->]]. destruct (seg_match_shape _ _ _ _ _ SM) as [v [-> _]].
  rewrite abandon_child. exists (sname (nseg d) :: ks1). split; [|reflexivity].
  apply names_below_cons; [exact Id | now apply (names_below_child n d)].
Qed.

Lemma loop_params_dels : forall f n path l ps, all_nodes idx_lit n -> incl l (nchildren n) ->
  exists ks, names_below n ks /\ loop_params f path l ps = adeletes ks ps.
Proof.
  intros f n path l. induction l as [|d l IH]; intros ps Hall Hin; simpl.
  - exists []. split; [intros k []| reflexivity].
  - destruct (step_params_dels f n path d ps Hall) as [ks1 [Hk1 E1]]; [apply Hin; now left|].
    destruct (IH (step_params f path d ps) Hall) as [ks2 [Hk2 E2]]; [intros x Ix; apply Hin; now right|].
    exists (ks1 ++ ks2). split; [now apply names_below_app|]. now rewrite E2, E1, adeletes_app.
Qed.

Lemma idx_params_dels : forall f n path ps, all_nodes idx_lit n ->
  exists ks, names_below n ks /\ idx_params f n path ps = adeletes ks ps.
Proof.
  intros f n path ps Hall. unfold idx_params.
  assert (Hnil : exists ks, names_below n ks /\ ps = adeletes ks ps).
  { exists []. split; [intros k []| reflexivity]. }
  destruct (idx_child n path) as [|c t] eqn:Hi; [exact Hnil|].
  destruct (idx_child_spec _ _ _ _ Hi) as [-> [b [p [Hp [Hne NTH]]]]].
  assert (Ic : In c (nchildren n)) by (eapply nth_error_In; eassumption).
  destruct (seg_match (nseg c) path ps) as [[p1 ps1]|] eqn:SM; [|exact Hnil].
  destruct (match_children f c p1 ps1) as [r q|q|s] eqn:MC; [exact Hnil | | exact Hnil].
  apply match_children_none_dels in MC; [|now apply (all_nodes_child _ n)].
  destruct MC as [ks1 [Hk1 ->]]. destruct (seg_match_shape _ _ _ _ _ SM) as [v [-> _]].
  rewrite (all_nodes_here _ _ Hall b c Hne NTH).
  exists ks1. split; [now apply (names_below_child n c) | reflexivity].
Qed.

(* the parameters on which a child of the tail is tried *)
Theorem tried_params_dels : forall f n path pre ps, all_nodes idx_lit n -> incl pre (nchildren n) ->
  exists ks, names_below n ks /\ loop_params f path pre (idx_params f n path ps) = adeletes ks ps.
Proof.
  intros f n path pre ps Hall Hin.
  destruct (idx_params_dels f n path ps Hall) as [ks1 [Hk1 E1]].
  destruct (loop_params_dels f n path pre (idx_params f n path ps) Hall Hin) as [ks2 [Hk2 E2]].
  exists (ks1 ++ ks2). split; [now apply names_below_app|]. now rewrite E2, E1, adeletes_app.
Qed.

(* the incoming parameters use no name of the subtree: nothing is ever deleted *)
Definition params_fresh (n : node) (ps : params) : Prop :=
  forall d, desc n d -> ctx_get ps (sname (nseg d)) = None.

Lemma fresh_adeletes : forall n ps ks, params_fresh n ps -> names_below n ks -> adeletes ks ps = ps.
Proof.
  intros n ps ks Hf Hk. apply adeletes_absent. intros k Ik. destruct (Hk k Ik) as [d [Hd <-]].
  exact (Hf d Hd).
Qed.

Lemma loop_params_fresh : forall f n path l ps, all_nodes idx_lit n -> params_fresh n ps ->
  incl l (nchildren n) -> loop_params f path l ps = ps.
Proof.
  intros f n path l ps Hall Hf Hin. destruct (loop_params_dels f n path l ps Hall Hin) as [ks [Hk ->]].
  exact (fresh_adeletes n ps ks Hf Hk).
Qed.

Lemma idx_params_fresh : forall f n path ps, all_nodes idx_lit n -> params_fresh n ps ->
  idx_params f n path ps = ps.
Proof.
  intros f n path ps Hall Hf. destruct (idx_params_dels f n path ps Hall) as [ks [Hk ->]].
  exact (fresh_adeletes n ps ks Hf Hk).
Qed.

Lemma fails_seq_fresh : forall f n path l ps, all_nodes idx_lit n -> params_fresh n ps ->
  incl l (nchildren n) -> fails_seq f path l ps -> Forall (fun d => child_fails f d path ps) l.
Proof.
  intros f n path l ps Hall Hf. induction l as [|d l IH]; intros Hin H; [constructor|].
  destruct H as [Hd Hl]. constructor; [exact Hd|].
  assert (E : step_params f path d ps = ps).
  { apply (loop_params_fresh f n path [d] ps Hall Hf). intros x [<-|[]]. apply Hin. now left. }
  rewrite E in Hl. apply IH; [intros x Ix; apply Hin; now right | exact Hl].
Qed.

Lemma incl_app_cons_l : forall (A : Type) (pre post l : list A) c, incl (pre ++ c :: post) l -> incl pre l.
Proof. intros A pre post l c H x Ix. apply H. apply in_or_app. now left. Qed.

(* with fresh parameters every child is tried on the ORIGINAL parameters *)
Theorem first_successful_child_fresh : forall f n path ps r ps',
  all_nodes idx_lit n -> params_fresh n ps ->
  match_children (S f) n path ps = MFound r ps' ->
  (r = n /\ path = [] /\ ps' = ps /\ (0 < nsize n)%nat /\
   Forall (fun d => child_fails f d path ps) (search_order n path)) \/
  exists pre c post path1 ps1, search_order n path = pre ++ c :: post /\
    seg_match (nseg c) path ps = Some (path1, ps1) /\ match_children f c path1 ps1 = MFound r ps' /\
    Forall (fun d => child_fails f d path ps) pre.
Proof.
  intros f n path ps r ps' Hall Hf H. rewrite search_order_eq.
  pose proof (idx_params_fresh f n path ps Hall Hf) as Ei.
  destruct (match_children_found_cases _ _ _ _ _ _ H) as
    [[Hr [Hp [Hq [Hs [HF Hfs]]]]] | [[c [p1 [ps1 [Hi [SM MC]]]]] | [pre [c [post [p1 [ps1 [Hl [HF [Hfs [SM MC]]]]]]]]]]].
  - left. unfold final_params in Hq. rewrite Ei in Hq, Hfs.
    rewrite (loop_params_fresh f n path _ ps Hall Hf (tail_of_incl n)) in Hq.
    split; [exact Hr|]. split; [exact Hp|]. split; [exact Hq|]. split; [exact Hs|].
    apply Forall_app. split; [exact HF|].
    exact (fails_seq_fresh f n path _ ps Hall Hf (tail_of_incl n) Hfs).
  - right. exists [], c, (tail_of n), p1, ps1. rewrite Hi. split; [reflexivity|]. auto.
  - right. exists (idx_child n path ++ pre), c, post, p1, ps1.
    assert (Hin : incl pre (nchildren n)).
    { apply (incl_app_cons_l _ pre post _ c). rewrite <- Hl. apply tail_of_incl. }
    rewrite Ei in SM, Hfs. rewrite (loop_params_fresh f n path pre ps Hall Hf Hin) in SM.
    rewrite Hl, app_assoc. split; [reflexivity|]. split; [exact SM|]. split; [exact MC|].
    apply Forall_app. split; [exact HF | exact (fails_seq_fresh f n path pre ps Hall Hf Hin Hfs)].
Qed.

(* ================================================================ kind priority *)

Lemma is_lit_styp : forall c, is_lit c = true -> styp (nseg c) = TString.
Proof. intros c L. apply is_lit_rk in L. now apply rank0_string. Qed.

Lemma lit_seg_match : forall c path ps p1 ps1, is_lit c = true ->
  seg_match (nseg c) path ps = Some (p1, ps1) ->
  ps1 = ps /\ has_prefix path (sval (nseg c)) = true /\ p1 = skipn (length (sval (nseg c))) path.
Proof.
  intros c path ps p1 ps1 L SM. unfold seg_match in SM. rewrite (is_lit_styp c L) in SM.
  destruct (has_prefix path (sval (nseg c))); [|discriminate]. injection SM as <- <-. auto.
Qed.

Lemma sorted_after : forall pre c post x, nsorted (ranks (pre ++ c :: post)) -> In x post -> rk c <= rk x.
Proof.
  induction pre as [|a pre IH]; intros c post x Hs Ix.
  - destruct Hs as [Hc _]. apply Hc. unfold ranks. now apply in_map.
  - destruct Hs as [_ Hs]. exact (IH c post x Hs Ix).
Qed.

Lemma fails_seq_In : forall f path l ps d, fails_seq f path l ps -> In d l ->
  exists psd, child_fails f d path psd.
Proof.
  intros f path l ps d H Id. apply fails_seq_all_fail in H. unfold all_fail in H.
  rewrite Forall_forall in H. now apply H.
Qed.

Lemma no_index_parts : forall f n path ps, nindexes n = [] ->
  idx_child n path = [] /\ tail_of n = nchildren n /\ idx_params f n path ps = ps /\
  search_order n path = nchildren n.
Proof.
  intros f n path ps IX. unfold search_order, idx_params, idx_child, tail_of. rewrite IX. simpl. auto.
Qed.

(* no index: a child whose subtree matches is not passed over; the winner stands at or before it *)
Lemma no_index_winner : forall f n path ps r ps', nindexes n = [] ->
  match_children (S f) n path ps = MFound r ps' ->
  forall c p1 ps1 r2 q2, In c (nchildren n) -> seg_match (nseg c) path ps = Some (p1, ps1) ->
    match_children f c p1 ps1 = MFound r2 q2 ->
  exists pre cw post pw psw, nchildren n = pre ++ cw :: post /\ fails_seq f path pre ps /\
    seg_match (nseg cw) path (loop_params f path pre ps) = Some (pw, psw) /\
    match_children f cw pw psw = MFound r ps' /\ (cw = c \/ In c post).
Proof.
  intros f n path ps r ps' IX H c p1 ps1 r2 q2 Ic SM MC.
  destruct (no_index_parts f n path ps IX) as [Hi [Ht [Hp _]]].
  destruct (match_children_found_cases _ _ _ _ _ _ H) as
    [[Hr [Hpath [Hq [Hs [HF Hfs]]]]] | [[cw [pw [psw [Hi' _]]]] | [pre [cw [post [pw [psw [Hl [HF [Hfs [SMw MCw]]]]]]]]]]].
  - exfalso. rewrite Ht, Hp in Hfs. destruct (fails_seq_In _ _ _ _ c Hfs Ic) as [psd Hd].
    exact (succeeds_not_fails _ _ _ _ _ _ _ _ _ SM MC Hd).
  - rewrite Hi in Hi'. discriminate.
  - rewrite Ht in Hl. rewrite Hp in Hfs, SMw. exists pre, cw, post, pw, psw.
    split; [exact Hl|]. split; [exact Hfs|]. split; [exact SMw|]. split; [exact MCw|].
    rewrite Hl in Ic. apply in_app_or in Ic. destruct Ic as [Ic | [Ic | Ic]]; [|now left | now right].
    exfalso. destruct (fails_seq_In _ _ _ _ c Hfs Ic) as [psd Hd].
    exact (succeeds_not_fails _ _ _ _ _ _ _ _ _ SM MC Hd).
Qed.

(* "interceptor before regexp before named" (and literal before all): without an index, if a
   child c1 has a matching subtree, the winner's kind rank is at most c1's; in particular no
   child c2 of a higher rank wins *)
Theorem kind_priority_no_index : forall f n path ps r ps' c1 c2,
  order_ok n -> nindexes n = [] ->
  (forall s, match_children (S f) n path ps <> MPanic s) ->
  match_children (S f) n path ps = MFound r ps' ->
  In c1 (nchildren n) -> In c2 (nchildren n) -> (rk c1 < rk c2)%nat ->
  (exists p1 ps1 r1 q1, seg_match (nseg c1) path ps = Some (p1, ps1) /\ match_children f c1 p1 ps1 = MFound r1 q1) ->
  exists pre c post path1 ps0 ps1, search_order n path = pre ++ c :: post /\
    seg_match (nseg c) path ps0 = Some (path1, ps1) /\ match_children f c path1 ps1 = MFound r ps' /\
    Forall (fun d => exists psd, child_fails f d path psd) pre /\
    (rk c <= rk c1)%nat /\ c <> c2.
Proof.
  intros f n path ps r ps' c1 c2 [Hks _] IX _ H I1 I2 Hlt [p1 [ps1 [r1 [q1 [SM MC]]]]].
  destruct (no_index_winner _ _ _ _ _ _ IX H c1 p1 ps1 r1 q1 I1 SM MC) as
    [pre [cw [post [pw [psw [Hl [Hfs [SMw [MCw Hpos]]]]]]]]].
  destruct (no_index_parts f n path ps IX) as [_ [_ [_ Hso]]].
  exists pre, cw, post, pw, (loop_params f path pre ps), psw.
  rewrite Hso. split; [exact Hl|]. split; [exact SMw|]. split; [exact MCw|].
  split; [exact (fails_seq_all_fail _ _ _ _ Hfs)|].
  assert (Hle : rk cw <= rk c1).
  { destruct Hpos as [->|Ipost]; [lia|]. apply kind_sorted_nsorted in Hks. rewrite Hl in Hks.
    exact (sorted_after _ _ _ _ Hks Ipost). }
  split; [exact Hle|]. intros ->. lia.
Qed.

(* ---------------------------------------------------------------- literal before parameters *)

(* the index maps a first byte to a literal child starting with it whenever there is one *)
Definition idx_complete (n : node) : Prop :=
  nindexes n <> [] -> forall c i, nth_error (nchildren n) i = Some c -> is_lit c = true ->
  forall b rest, sval (nseg c) = b :: rest ->
  exists c', nth_error (nchildren n) (idx_get b (nindexes n)) = Some c' /\ is_lit c' = true /\
             exists rest', sval (nseg c') = b :: rest'.
(* literal children start with pairwise different bytes *)
Definition lfd (cs : list node) : Prop :=
  forall i j ci cj b ri rj, nth_error cs i = Some ci -> nth_error cs j = Some cj ->
    is_lit ci = true -> is_lit cj = true -> sval (nseg ci) = b :: ri -> sval (nseg cj) = b :: rj -> i = j.
Definition lit_first_distinct (n : node) : Prop := lfd (nchildren n).
(* under an index no literal child has an empty label *)
Definition lit_nonempty (n : node) : Prop :=
  nindexes n <> [] -> forall c, In c (nchildren n) -> is_lit c = true -> sval (nseg c) <> [].

(* no index: literal children are tried first, on parameters that may have lost names *)
Theorem literal_before_parameters_no_index_partial : forall f n path ps r ps' c,
  order_ok n -> nindexes n = [] ->
  match_children (S f) n path ps = MFound r ps' -> In c (nchildren n) -> is_lit c = true ->
  (exists path1, seg_match (nseg c) path ps = Some (path1, ps) /\
     exists r2 ps2, match_children f c path1 ps = MFound r2 ps2) ->
  exists c' pre post, nchildren n = pre ++ c' :: post /\ is_lit c' = true /\
    exists path1, seg_match (nseg c') path (loop_params f path pre ps) = Some (path1, loop_params f path pre ps) /\
      match_children f c' path1 (loop_params f path pre ps) = MFound r ps'.
Proof.
  intros f n path ps r ps' c [Hks _] IX H Ic L [p1 [SM [r2 [q2 MC]]]].
  destruct (no_index_winner _ _ _ _ _ _ IX H c p1 ps r2 q2 Ic SM MC) as
    [pre [cw [post [pw [psw [Hl [Hfs [SMw [MCw Hpos]]]]]]]]].
  assert (Lw : is_lit cw = true).
  { destruct Hpos as [->|Ipost]; [exact L|]. apply is_lit_rk. apply is_lit_rk in L.
    apply kind_sorted_nsorted in Hks. rewrite Hl in Hks.
    pose proof (sorted_after _ _ _ _ Hks Ipost) as Hle. lia. }
  exists cw, pre, post. split; [exact Hl|]. split; [exact Lw|]. exists pw.
  destruct (lit_seg_match _ _ _ _ _ Lw SMw) as [-> _]. split; [exact SMw | exact MCw].
Qed.

Theorem literal_before_parameters_no_index_fresh : forall f n path ps r ps' c,
  order_ok n -> nindexes n = [] -> all_nodes idx_lit n -> params_fresh n ps ->
  match_children (S f) n path ps = MFound r ps' -> In c (nchildren n) -> is_lit c = true ->
  (exists path1, seg_match (nseg c) path ps = Some (path1, ps) /\
     exists r2 ps2, match_children f c path1 ps = MFound r2 ps2) ->
  exists c', In c' (nchildren n) /\ is_lit c' = true /\
    exists path1, seg_match (nseg c') path ps = Some (path1, ps) /\ match_children f c' path1 ps = MFound r ps'.
Proof.
  intros f n path ps r ps' c Ho IX Hall Hf H Ic L Hc.
  destruct (literal_before_parameters_no_index_partial _ _ _ _ _ _ _ Ho IX H Ic L Hc) as
    [c' [pre [post [Hl [L' [pw [SMw MCw]]]]]]].
  assert (Hin : incl pre (nchildren n)).
  { apply (incl_app_cons_l _ pre post _ c'). rewrite <- Hl. apply incl_refl. }
  rewrite (loop_params_fresh f n path pre ps Hall Hf Hin) in SMw, MCw.
  exists c'. split; [rewrite Hl; apply in_or_app; right; now left|]. split; [exact L'|].
  exists pw. now split.
Qed.

(* with an index: the indexed child IS the literal child that matches *)
Lemma literal_indexed : forall f n path ps c p1 r2 q2,
  nindexes n <> [] -> idx_complete n -> lit_first_distinct n -> lit_nonempty n ->
  In c (nchildren n) -> is_lit c = true ->
  seg_match (nseg c) path ps = Some (p1, ps) -> match_children f c p1 ps = MFound r2 q2 ->
  match_children (S f) n path ps = MFound r2 q2.
Proof.
  intros f n path ps c p1 r2 q2 Hne Hic Hfd Hnn Ic L SM MC.
  destruct (lit_seg_match _ _ _ _ _ L SM) as [_ [HP _]].
  destruct (sval (nseg c)) as [|b rest] eqn:SV; [elim (Hnn Hne c Ic L SV)|].
  apply has_prefix_spec in HP. destruct HP as [tl Hpath]. simpl in Hpath.
  destruct (In_nth_error _ _ Ic) as [i NTH].
  destruct (Hic Hne c i NTH L b rest SV) as [c0 [NTH0 [L0 [rest0 SV0]]]].
  assert (Ei : i = idx_get b (nindexes n)) by exact (Hfd _ _ _ _ _ _ _ NTH NTH0 L L0 SV SV0).
  rewrite <- Ei, NTH in NTH0. injection NTH0 as <-.
  rewrite match_children_S. cbv zeta. rewrite Hpath in SM |- *.
  destruct (nindexes n) as [|ix0 ixs] eqn:IX; [now elim Hne|]. cbv beta iota.
  rewrite <- Ei, NTH, SM, MC. reflexivity.
Qed.

(* the statement of the task, with the parameters of the winning literal child existential
   (it is FALSE with the original parameters, see [cx_lit_*] below) and the three index
   hypotheses *)
Theorem literal_before_parameters_partial : forall f n path ps r ps' c,
  order_ok n -> idx_complete n -> lit_first_distinct n -> lit_nonempty n ->
  (forall s, match_children (S f) n path ps <> MPanic s) ->
  match_children (S f) n path ps = MFound r ps' -> In c (nchildren n) -> is_lit c = true ->
  (exists path1, seg_match (nseg c) path ps = Some (path1, ps) /\
     exists r2 ps2, match_children f c path1 ps = MFound r2 ps2) ->
  exists c' ps0, In c' (nchildren n) /\ is_lit c' = true /\
    exists path1, seg_match (nseg c') path ps0 = Some (path1, ps0) /\ match_children f c' path1 ps0 = MFound r ps'.
Proof.
  intros f n path ps r ps' c Ho Hic Hfd Hnn _ H Ic L Hc.
  destruct (nindexes n) as [|ix0 ixs] eqn:IX.
  - destruct (literal_before_parameters_no_index_partial _ _ _ _ _ _ _ Ho IX H Ic L Hc) as
      [c' [pre [post [Hl [L' [pw [SMw MCw]]]]]]].
    exists c', (loop_params f path pre ps). split; [rewrite Hl; apply in_or_app; right; now left|].
    split; [exact L'|]. exists pw. now split.
  - destruct Hc as [p1 [SM [r2 [q2 MC]]]].
    assert (Hne : nindexes n <> []) by (rewrite IX; discriminate).
    pose proof (literal_indexed _ _ _ _ _ _ _ _ Hne Hic Hfd Hnn Ic L SM MC) as E.
    rewrite E in H. injection H as <- <-.
    exists c, ps. split; [exact Ic|]. split; [exact L|]. exists p1. now split.
Qed.

(* the statement of the task, exactly, for incoming parameters that use no name of the subtree *)
Theorem literal_before_parameters_fresh : forall f n path ps r ps' c,
  order_ok n -> idx_complete n -> lit_first_distinct n -> lit_nonempty n ->
  all_nodes idx_lit n -> params_fresh n ps ->
  (forall s, match_children (S f) n path ps <> MPanic s) ->
  match_children (S f) n path ps = MFound r ps' -> In c (nchildren n) -> is_lit c = true ->
  (exists path1, seg_match (nseg c) path ps = Some (path1, ps) /\
     exists r2 ps2, match_children f c path1 ps = MFound r2 ps2) ->
  exists c', In c' (nchildren n) /\ is_lit c' = true /\
    exists path1, seg_match (nseg c') path ps = Some (path1, ps) /\ match_children f c' path1 ps = MFound r ps'.
Proof.
  intros f n path ps r ps' c Ho Hic Hfd Hnn Hall Hf _ H Ic L Hc.
  destruct (nindexes n) as [|ix0 ixs] eqn:IX.
  - exact (literal_before_parameters_no_index_fresh _ _ _ _ _ _ _ Ho IX Hall Hf H Ic L Hc).
  - destruct Hc as [p1 [SM [r2 [q2 MC]]]].
    assert (Hne : nindexes n <> []) by (rewrite IX; discriminate).
    pose proof (literal_indexed _ _ _ _ _ _ _ _ Hne Hic Hfd Hnn Ic L SM MC) as E.
    rewrite E in H. injection H as <- <-.
    exists c. split; [exact Ic|]. split; [exact L|]. exists p1. now split.
Qed.

(* ================================================================ build_indexes establishes idx_complete *)

Lemma styp_is_lit : forall x, styp (nseg x) = TString -> is_lit x = true.
Proof. intros x T. unfold is_lit. now rewrite T. Qed.

Lemma is_lit_false : forall x, styp (nseg x) <> TString -> is_lit x = false.
Proof.
  intros x T. destruct (is_lit x) eqn:L; [|reflexivity]. elim T. now apply is_lit_styp.
Qed.

(* a byte that starts no literal label keeps its entry *)
Lemma build_from_other : forall c i0 acc ix b, build_indexes_from c i0 acc = Some ix ->
  (forall x r, In x c -> is_lit x = true -> sval (nseg x) <> b :: r) ->
  idx_get b ix = idx_get b acc.
Proof.
  induction c as [|x c IHc]; intros i0 acc ix b H Hno; simpl in H.
  - now injection H as <-.
  - assert (Hno' : forall y r, In y c -> is_lit y = true -> sval (nseg y) <> b :: r).
    { intros y r Iy. apply Hno. now right. }
    destruct (styp (nseg x)) eqn:T; try exact (IHc _ _ _ _ H Hno').
    destruct (sval (nseg x)) as [|b0 r0] eqn:SV; [discriminate|].
    rewrite (IHc _ _ _ _ H Hno'), idx_get_set.
    destruct (N.eqb_spec b b0) as [->|Nb]; [|reflexivity].
    elim (Hno x r0 (or_introl eq_refl) (styp_is_lit x T)). exact SV.
Qed.

Lemma lfd_tail : forall x c, lfd (x :: c) -> lfd c.
Proof.
  intros x c H i j ci cj b ri rj Hi Hj Li Lj Si Sj.
  assert (E : S i = S j) by exact (H (S i) (S j) ci cj b ri rj Hi Hj Li Lj Si Sj). now injection E.
Qed.

Lemma build_from_complete : forall c i0 acc ix, build_indexes_from c i0 acc = Some ix -> lfd c ->
  forall j x b r, nth_error c j = Some x -> is_lit x = true -> sval (nseg x) = b :: r ->
  idx_get b ix = i0 + j.
Proof.
  induction c as [|a c IHc]; intros i0 acc ix H Hd j x b r Hj L SV.
  - destruct j; discriminate.
  - simpl in H. destruct j as [|j]; simpl in Hj.
    + injection Hj as ->. rewrite (is_lit_styp x L), SV in H.
      rewrite (build_from_other _ _ _ _ b H).
      * rewrite idx_get_set, N.eqb_refl. lia.
      * intros y r' Iy Ly SVy. destruct (In_nth_error _ _ Iy) as [k Hk].
        assert (E : 0 = S k) by exact (Hd 0 (S k) x y b r r' eq_refl Hk L Ly SV SVy). discriminate.
    + assert (Hnext : exists acc', build_indexes_from c (S i0) acc' = Some ix).
      { destruct (styp (nseg a)); try (now exists acc).
        destruct (sval (nseg a)) as [|b0 r0]; [discriminate|]. eexists; exact H. }
      destruct Hnext as [acc' H']. rewrite (IHc _ _ _ H' (lfd_tail _ _ Hd) j x b r Hj L SV). lia.
Qed.

Lemma build_from_nonempty : forall c i0 acc ix, build_indexes_from c i0 acc = Some ix ->
  forall x, In x c -> is_lit x = true -> sval (nseg x) <> [].
Proof.
  induction c as [|a c IHc]; intros i0 acc ix H x Ix L; [destruct Ix|]. simpl in H.
  destruct Ix as [->|Ix].
  - rewrite (is_lit_styp x L) in H. intro E. rewrite E in H. discriminate.
  - assert (Hnext : exists acc', build_indexes_from c (S i0) acc' = Some ix).
    { destruct (styp (nseg a)); try (now exists acc).
      destruct (sval (nseg a)) as [|b0 r0]; [discriminate|]. eexists; exact H. }
    destruct Hnext as [acc' H']. exact (IHc _ _ _ H' x Ix L).
Qed.

(* the index built for a child list whose literal children start with different bytes sends
   every such byte to THE literal child starting with it *)
Theorem build_indexes_complete : forall cs ix, build_indexes cs = Ok ix -> lfd cs -> ix <> [] ->
  (forall i c b r, nth_error cs i = Some c -> is_lit c = true -> sval (nseg c) = b :: r ->
     idx_get b ix = i) /\
  (forall c, In c cs -> is_lit c = true -> sval (nseg c) <> []).
Proof.
  intros cs ix H Hd Hne. unfold build_indexes in H.
  destruct (Nat.ltb (length cs) indexes_size); [injection H as <-; now elim Hne|].
  destruct (build_indexes_from cs 0 []) as [x|] eqn:B; [|discriminate]. injection H as <-.
  split.
  - intros i c b r Hi L SV. exact (build_from_complete _ _ _ _ B Hd i c b r Hi L SV).
  - intros c Ic L. exact (build_from_nonempty _ _ _ _ B c Ic L).
Qed.

Theorem build_indexes_idx_complete : forall n, build_indexes (nchildren n) = Ok (nindexes n) ->
  lit_first_distinct n -> idx_complete n /\ lit_nonempty n.
Proof.
  intros n H Hd. split.
  - intros Hne c i Hi L b rest SV.
    destruct (build_indexes_complete _ _ H Hd Hne) as [Hix _].
    exists c. rewrite (Hix i c b rest Hi L SV). split; [exact Hi|]. split; [exact L|]. now exists rest.
  - intros Hne c Ic L. destruct (build_indexes_complete _ _ H Hd Hne) as [_ Hnn]. now apply Hnn.
Qed.

Theorem sort_node_idx_complete : forall n keyed n', sort_node n keyed = Ok n' ->
  lit_first_distinct n' -> idx_complete n' /\ lit_nonempty n'.
Proof.
  intros n keyed n' H Hd. apply build_indexes_idx_complete; [|exact Hd].
  unfold sort_node in H. destruct (build_indexes (ssort keyed)) as [ix|e|s|] eqn:B; simpl in H; try discriminate.
  injection H as <-. destruct n as [s p i h x c]. simpl. exact B.
Qed.

(* ================================================================ examples *)

Definition ex_seg (r : res segment) : segment := match r with Ok s => s | _ => string_seg [] end.
Definition ex_x : node := Node (string_seg (bs "/x")) (bs "/x") 0 [(GET, HUser (bs "hx"))] [] [].
Definition ex_digit : node :=
  Node (ex_seg (new_segment [(bs "digit", match_digit)] (bs "{id:digit}"))) (bs "{id:digit}") 0
       [(GET, HUser (bs "hd"))] [] [].
Definition ex_name : node :=
  Node (ex_seg (new_segment [] (bs "{name}"))) (bs "{name}") 0 [(GET, HUser (bs "hn"))] [] [].
Definition ex_top : node := Node (string_seg []) [] 0 [] [] [ex_x; ex_digit; ex_name].

Example ex_top_kinds : map rk (nchildren ex_top) = [0; 1; 3] /\
  search_order ex_top (bs "7") = [ex_x; ex_digit; ex_name].
Proof. vm_compute. split; reflexivity. Qed.

Example ex_top_order_ok : order_ok ex_top.
Proof. split; [simpl; lia | intros b i []]. Qed.

(* "7" is served by the interceptor child although "{name}" would take it too; "ab" falls
   through to the named child; "/x" is the literal *)
Example ex_top_digit : match_children 2 ex_top (bs "7") [] = MFound ex_digit [(bs "id", bs "7")].
Proof. vm_compute. reflexivity. Qed.
Example ex_top_name : match_children 2 ex_top (bs "ab") [] = MFound ex_name [(bs "name", bs "ab")].
Proof. vm_compute. reflexivity. Qed.
Example ex_top_lit : match_children 2 ex_top (bs "/x") [] = MFound ex_x [].
Proof. vm_compute. reflexivity. Qed.
Definition ex_top2 : node := Node (string_seg []) [] 0 [] [] [ex_x; ex_digit].
Example ex_top_404 : match_children 2 ex_top2 (bs "ab") [(bs "q", bs "1")] = MNone [(bs "q", bs "1")].
Proof. vm_compute. reflexivity. Qed.
Example ex_name_takes_7 : exists p1 ps1 r1 q1,
  seg_match (nseg ex_name) (bs "7") [] = Some (p1, ps1) /\ match_children 1 ex_name p1 ps1 = MFound r1 q1.
Proof. exists [], [(bs "name", bs "7")], ex_name, [(bs "name", bs "7")]. vm_compute. split; reflexivity. Qed.
Example ex_digit_takes_7 : exists p1 ps1 r1 q1,
  seg_match (nseg ex_digit) (bs "7") [] = Some (p1, ps1) /\ match_children 1 ex_digit p1 ps1 = MFound r1 q1.
Proof. exists [], [(bs "id", bs "7")], ex_digit, [(bs "id", bs "7")]. vm_compute. split; reflexivity. Qed.

Lemma found_no_panic : forall f n path ps r q, match_children f n path ps = MFound r q ->
  forall s, match_children f n path ps <> MPanic s.
Proof. intros f n path ps r q H s E. rewrite H in E. discriminate. Qed.

(* the theorems applied to the example *)
Example ex_top_priority : exists pre c post path1 ps0 ps1,
  search_order ex_top (bs "7") = pre ++ c :: post /\
  seg_match (nseg c) (bs "7") ps0 = Some (path1, ps1) /\
  match_children 1 c path1 ps1 = MFound ex_digit [(bs "id", bs "7")] /\
  Forall (fun d => exists psd, child_fails 1 d (bs "7") psd) pre /\ (rk c <= rk ex_digit)%nat /\ c <> ex_name.
Proof.
  apply (kind_priority_no_index 1 ex_top (bs "7") [] _ _ ex_digit ex_name ex_top_order_ok eq_refl
           (found_no_panic _ _ _ _ _ _ ex_top_digit) ex_top_digit).
  - right; now left.
  - right; right; now left.
  - vm_compute. lia.
  - exact ex_digit_takes_7.
Qed.

Example ex_top_fallback :
  (ex_name = ex_top /\ bs "ab" = [] /\ [(bs "name", bs "ab")] = final_params 1 ex_top (bs "ab") [] /\ (0 < nsize ex_top)%nat) \/
  exists pre c post path1 ps0 ps1, search_order ex_top (bs "ab") = pre ++ c :: post /\
    seg_match (nseg c) (bs "ab") ps0 = Some (path1, ps1) /\
    match_children 1 c path1 ps1 = MFound ex_name [(bs "name", bs "ab")] /\
    Forall (fun d => exists psd, child_fails 1 d (bs "ab") psd) pre.
Proof.
  exact (first_successful_child 1 ex_top (bs "ab") [] _ _ (found_no_panic _ _ _ _ _ _ ex_top_name) ex_top_name).
Qed.

Example ex_top_404_all_fail :
  Forall (fun d => exists psd, child_fails 1 d (bs "ab") psd) (search_order ex_top2 (bs "ab")) /\
  (bs "ab" <> [] \/ nsize ex_top2 = O).
Proof.
  apply (none_all_fail 1 ex_top2 (bs "ab") [(bs "q", bs "1")] [(bs "q", bs "1")]); [|exact ex_top_404].
  intros s E. rewrite ex_top_404 in E. discriminate.
Qed.

(* the indexed example of MatchSound ([ex_five]): the index is complete *)
Example ex_five_complete : forall n, ex_five = Ok n -> lit_first_distinct n -> idx_complete n /\ lit_nonempty n.
Proof. intros n H. exact (sort_node_idx_complete _ _ _ H). Qed.

(* an indexed node: five literal children and one parameter; all hypotheses of
   [literal_before_parameters_fresh] hold *)
Lemma lfd_nil : lfd [].
Proof. intros i j ci cj b ri rj Hi. destruct i; discriminate. Qed.

Lemma lfd_cons : forall x c,
  (forall y b r r', In y c -> is_lit x = true -> is_lit y = true ->
     sval (nseg x) = b :: r -> sval (nseg y) = b :: r' -> False) ->
  lfd c -> lfd (x :: c).
Proof.
  intros x c Hx Hc i j ci cj b ri rj Hi Hj Li Lj Si Sj.
  destruct i as [|i]; destruct j as [|j]; simpl in Hi, Hj.
  - reflexivity.
  - injection Hi as <-. elim (Hx cj b ri rj (nth_error_In _ _ Hj) Li Lj Si Sj).
  - injection Hj as <-. elim (Hx ci b rj ri (nth_error_In _ _ Hi) Lj Li Sj Si).
  - f_equal. exact (Hc i j ci cj b ri rj Hi Hj Li Lj Si Sj).
Qed.

Definition ex_six : res node :=
  sort_node (Node (string_seg []) [] 0 [] [] [])
            (with_prio [ex_lit "a"; ex_lit "b"; ex_lit "c"; ex_lit "d"; ex_lit "e"; ex_name]).
Definition ex_six_node : node := match ex_six with Ok n => n | _ => ex_top end.
Lemma ex_six_ok : ex_six = Ok ex_six_node.
Proof. vm_compute. reflexivity. Qed.
Lemma ex_six_children :
  nchildren ex_six_node = [ex_lit "a"; ex_lit "b"; ex_lit "c"; ex_lit "d"; ex_lit "e"; ex_name] /\
  length (nindexes ex_six_node) = 5.
Proof. vm_compute. split; reflexivity. Qed.

Ltac lfd_side :=
  let y := fresh "y" in let b := fresh "b" in let r := fresh "r" in let r' := fresh "r'" in
  let Iy := fresh "Iy" in let Lx := fresh "Lx" in let Ly := fresh "Ly" in
  let Sx := fresh "Sx" in let Sy := fresh "Sy" in
  intros y b r r' Iy Lx Ly Sx Sy; try (vm_compute in Lx; discriminate Lx);
  vm_compute in Sx; injection Sx as <- <-; simpl in Iy;
  repeat (destruct Iy as [<-|Iy]; [first [vm_compute in Sy; discriminate Sy | vm_compute in Ly; discriminate Ly]|]);
  destruct Iy.

Example ex_six_lfd : lit_first_distinct ex_six_node.
Proof.
  unfold lit_first_distinct. rewrite (proj1 ex_six_children).
  repeat (apply lfd_cons; [lfd_side|]). apply lfd_nil.
Qed.

Example ex_six_hyps : order_ok ex_six_node /\ idx_complete ex_six_node /\ lit_nonempty ex_six_node /\
  all_nodes idx_lit ex_six_node /\ params_fresh ex_six_node [(bs "q", bs "1")].
Proof.
  assert (Ho : order_ok ex_six_node).
  { apply (sort_node_sorted _ _ _ (with_prio_keys _) ex_six_ok). }
  split; [exact Ho|].
  destruct (sort_node_idx_complete _ _ _ ex_six_ok ex_six_lfd) as [Hc Hn].
  split; [exact Hc|]. split; [exact Hn|]. split.
  - constructor; [now apply order_ok_idx_lit|]. intros ch Ich. rewrite (proj1 ex_six_children) in Ich.
    assert (Hleaf : nchildren ch = [] /\ nindexes ch = []).
    { simpl in Ich. repeat (destruct Ich as [<-|Ich]; [split; reflexivity|]). destruct Ich. }
    destruct Hleaf as [Hl Hx]. constructor.
    + intros b c Hne. now elim Hne.
    + intros c Ic. rewrite Hl in Ic. destruct Ic.
  - intros d Hd.
    assert (Hch : In d (nchildren ex_six_node)).
    { inversion Hd as [n0 c0 I0|n0 c0 d0 I0 D0]; subst; [exact I0|]. exfalso.
      rewrite (proj1 ex_six_children) in I0. simpl in I0.
      repeat (destruct I0 as [<-|I0];
              [inversion D0 as [n1 c1 I1|n1 c1 d1 I1 _]; subst; destruct I1|]). destruct I0. }
    rewrite (proj1 ex_six_children) in Hch. simpl in Hch.
    repeat (destruct Hch as [<-|Hch]; [vm_compute; reflexivity|]). destruct Hch.
Qed.

Example ex_six_match :
  match_children 2 ex_six_node (bs "c") [(bs "q", bs "1")] = MFound (ex_lit "c") [(bs "q", bs "1")] /\
  match_children 2 ex_six_node (bs "zz") [(bs "q", bs "1")] = MFound ex_name [(bs "q", bs "1"); (bs "name", bs "zz")].
Proof. vm_compute. split; reflexivity. Qed.

(* ================================================================ counterexample *)

(* C02_literal_before_parameters with the ORIGINAL parameters in the conclusion is false for
   incoming parameters that use a name of the subtree: the abandoned literal child "a" (below
   which "{id}/" was tried) deletes "id", so the winning literal child "ab" is searched on
   parameters that differ from the original ones.  (No index, so the index hypotheses are not
   the issue.) *)
Definition cxL_N : node := Node (named_seg (bs "{id}/") (bs "id") (bs "/") false) [] 0 [] [] [].
Definition cxL_A : node := Node (string_seg (bs "a")) [] 0 [] [] [cxL_N].
Definition cxL_C : node := Node (string_seg (bs "/")) [] 0 [(GET, HUser [])] [] [].
Definition cxL_B : node := Node (string_seg (bs "ab")) [] 0 [] [] [cxL_C].
Definition cxL_root : node := Node (string_seg []) [] 0 [] [] [cxL_A; cxL_B].
Definition cxL_ps : params := [(bs "id", bs "x")].

Lemma cxL_result : match_children 3 cxL_root (bs "ab/") cxL_ps = MFound cxL_C [].
Proof. vm_compute. reflexivity. Qed.
Lemma cxL_B_matches : seg_match (nseg cxL_B) (bs "ab/") cxL_ps = Some (bs "/", cxL_ps) /\
  match_children 2 cxL_B (bs "/") cxL_ps = MFound cxL_C cxL_ps.
Proof. vm_compute. split; reflexivity. Qed.
Lemma cxL_order_ok : order_ok cxL_root.
Proof. split; [simpl; lia | intros b i []]. Qed.

Lemma literal_before_parameters_false :
  ~ (forall f n path ps r ps' c, order_ok n ->
       (forall s, match_children (S f) n path ps <> MPanic s) ->
       match_children (S f) n path ps = MFound r ps' -> In c (nchildren n) -> is_lit c = true ->
       (exists path1, seg_match (nseg c) path ps = Some (path1, ps) /\
          exists r2 ps2, match_children f c path1 ps = MFound r2 ps2) ->
       exists c', In c' (nchildren n) /\ is_lit c' = true /\
         exists path1, seg_match (nseg c') path ps = Some (path1, ps) /\ match_children f c' path1 ps = MFound r ps').
Proof.
  intro H.
  destruct (H 2 cxL_root (bs "ab/") cxL_ps cxL_C [] cxL_B cxL_order_ok
              (found_no_panic _ _ _ _ _ _ cxL_result) cxL_result) as [c' [Ic' [_ [p1 [SM MC]]]]].
  - right; now left.
  - reflexivity.
  - exists (bs "/"). split; [exact (proj1 cxL_B_matches)|]. exists cxL_C, cxL_ps. exact (proj2 cxL_B_matches).
  - destruct Ic' as [<-|[<-|[]]]; vm_compute in SM; injection SM as <-; vm_compute in MC; discriminate.
Qed.

(* the same counterexample refutes the no-index statement with the original parameters *)
Lemma literal_before_parameters_no_index_false :
  ~ (forall f n path ps r ps' c, order_ok n -> nindexes n = [] ->
       match_children (S f) n path ps = MFound r ps' -> In c (nchildren n) -> is_lit c = true ->
       (exists path1, seg_match (nseg c) path ps = Some (path1, ps) /\
          exists r2 ps2, match_children f c path1 ps = MFound r2 ps2) ->
       exists c', In c' (nchildren n) /\ is_lit c' = true /\
         exists path1, seg_match (nseg c') path ps = Some (path1, ps) /\ match_children f c' path1 ps = MFound r ps').
Proof.
  intro H.
  destruct (H 2 cxL_root (bs "ab/") cxL_ps cxL_C [] cxL_B cxL_order_ok eq_refl cxL_result)
    as [c' [Ic' [_ [p1 [SM MC]]]]].
  - right; now left.
  - reflexivity.
  - exists (bs "/"). split; [exact (proj1 cxL_B_matches)|]. exists cxL_C, cxL_ps. exact (proj2 cxL_B_matches).
  - destruct Ic' as [<-|[<-|[]]]; vm_compute in SM; injection SM as <-; vm_compute in MC; discriminate.
Qed.
