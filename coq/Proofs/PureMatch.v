(* Tree.match (internal/tree/tree.go), translated in "returns mode" by tools/srcfacts (returns.go) to
   the index and text of the return statement reached (Gen/PureFuns.v: src_tree_match), is the
   dispatch decision of the model's tree_handler. *)
From Coq Require Import String List ZArith Bool Lia.
From Mux Require Import Model.Bytes Model.Syntax Model.Context Model.Tree Gen.PureFuns.
Import ListNotations.
Open Scope string_scope.

Definition is_some {A} (o : option A) : bool := match o with Some _ => true | None => false end.

(* what the model's matcher answers for a request path: the matched node (the root for "*" and ""),
   the parameters after the match, whether the source's `node` is nil *)
Definition tm_root_path (path : bytes) : bool := beqb path (bs "*") || beqb path [].
Definition tm_mres (t : tree) (path : bytes) (ps : params) : mres :=
  if tm_root_path path then MFound (troot t) ps else match_children (tree_fuel t) (troot t) path ps.
Definition tm_node (t : tree) (path : bytes) (ps : params) : node :=
  match tm_mres t path ps with MFound n _ => n | _ => troot t end.
Definition tm_params (t : tree) (path : bytes) (ps : params) : params :=
  match tm_mres t path ps with MFound _ p | MNone p => p | MPanic _ => ps end.
Definition tm_nil (r : mres) : bool := match r with MNone _ => true | _ => false end.

(* the translated source function, its atoms instantiated with the model's values.
   NOTE on the two atoms of `exists && method != methodNotAllowed`: the model's lookup_handler already
   folds the test `method != methodNotAllowed` in (it answers None for the empty method), so the
   instantiation that is TRUE of the source's `exists` alone is the raw map lookup `alookup`, and
   "method == methodNotAllowed" is `beqb method M405`; lookup_handler is their conjunction
   (tm_lookup_handler below). *)
Definition tm_source (t : tree) (method path : bytes) (ps : params) : mret :=
  let child := match_children (tree_fuel t) (troot t) path ps in
  let cn := match child with MFound n _ => n | _ => troot t end in
  src_tree_match
    (* tree.hasTrace *)                          (match ttrace t with Some _ => true | None => false end)
    (* method == http.MethodTrace *)             (beqb method TRACE)
    (* ctx.Path == "*" *)                        (beqb path (bs "*"))
    (* ctx.Path == "" *)                         (beqb path [])
    (* tree.node == nil *)                       false
    (* tree.node.size() *)                       (Z.of_nat (nsize (troot t)))
    (* _, exists := tree.node.handlers[method] *)(is_some (alookup method (nhandlers (troot t))))
    (* method == methodNotAllowed *)             (beqb method M405)
    (* tree.node.matchChildren(ctx) == nil *)    (tm_nil child)
    (* tree.node.matchChildren(ctx).size() *)    (Z.of_nat (nsize cn))
    (* _, exists := ...matchChildren(ctx).handlers[method] *) (is_some (alookup method (nhandlers cn))).

Lemma tm_lookup_handler : forall method hs,
  is_some (lookup_handler method hs) = is_some (alookup method hs) && negb (beqb method M405).
Proof. intros. unfold lookup_handler. destruct (beqb method M405); [rewrite andb_false_r|rewrite andb_true_r]; reflexivity. Qed.

(* the meaning of each return statement of the source, by its index *)
Definition tm_hres (t : tree) (method path : bytes) (ps : params) (r : mret) : hres :=
  let n := tm_node t path ps in
  let ps' := tm_params t path ps in
  let 'MRet i _ := r in
  if (i =? 0)%Z then        (* return tree.node, tree.trace, true *)
    match ttrace t with Some h => HFound true (Some (troot t)) h ps | None => HPanic (bs "match:no-trace") end
  else if (i =? 1)%Z then   (* return nil, tree.notFound, false *)
    HFound false None (tnotfound t) ps'
  else if (i =? 2)%Z then   (* return node, h, true *)
    match alookup method (nhandlers n) with Some h => HFound true (Some n) h ps' | None => HPanic (bs "match:no-handler") end
  else                      (* return node, node.handlers[methodNotAllowed], false: a nil handler when the node has no 405 entry *)
    match alookup M405 (nhandlers n) with Some h => HFound false (Some n) h ps' | None => HPanic (bs "Handler:nil-405") end.

(* the text of the returned expressions, by index; `node` is tree.node or the result of matchChildren *)
Definition tm_exprs (root_path : bool) (i : Z) : list string :=
  let node := if root_path then "tree.node" else "tree.node.matchChildren(ctx)" in
  if (i =? 0)%Z then ["tree.node"; "tree.trace"; "true"]
  else if (i =? 1)%Z then ["nil"; "tree.notFound"; "false"]
  else if (i =? 2)%Z then [node; node ++ ".handlers[method]"; "true"]
  else [node; node ++ ".handlers[methodNotAllowed]"; "false"].

Definition mret_index (r : mret) : Z := let 'MRet i _ := r in i.
Definition mret_exprs (r : mret) : list string := let 'MRet _ e := r in e.

Lemma tm_size0 : forall n : nat, (Z.of_nat n =? 0)%Z = Nat.eqb n 0.
Proof. intros [|n]; reflexivity. Qed.

Lemma tree_match_is_source :
  src_tree_match_atoms =
    ["tree.hasTrace"; "method == http.MethodTrace"; "ctx.Path == ""*"""; "ctx.Path == """"";
     "tree.node == nil"; "tree.node.size()"; "_, exists := tree.node.handlers[method]";
     "method == methodNotAllowed";
     "tree.node.matchChildren(ctx) == nil"; "tree.node.matchChildren(ctx).size()";
     "_, exists := tree.node.matchChildren(ctx).handlers[method]"] /\
  forall t method path ps,
    (forall s, tm_mres t path ps <> MPanic s) ->     (* fuel exhaustion exists in the model only *)
    let r := tm_source t method path ps in
    tree_handler t method path ps = tm_hres t method path ps r /\
    (0 <= mret_index r <= 3)%Z /\
    mret_exprs r = tm_exprs (tm_root_path path) (mret_index r).
Proof.
  split; [reflexivity|]. intros t method path ps NP r. subst r.
  unfold tm_source, tm_hres, tm_node, tm_params, tm_mres, tm_root_path, tree_handler, src_tree_match in *.
  rewrite !tm_size0.
  destruct (ttrace t) as [ht|]; destruct (beqb method TRACE); cbn [andb];
    try (cbn; split; [reflexivity|split; [lia|reflexivity]]);
  (destruct (beqb path (bs "*")); destruct (beqb path []); cbn [orb] in *;
   [ | | |destruct (match_children (tree_fuel t) (troot t) path ps) as [n ps'|ps'|s]; [ | |exfalso; exact (NP s eq_refl)]];
   cbn [tm_nil orb];
   try (cbn; split; [reflexivity|split; [lia|reflexivity]]);
   match goal with |- context [Nat.eqb (nsize ?n) 0] => destruct (Nat.eqb (nsize n) 0) end;
   try (cbn; split; [reflexivity|split; [lia|reflexivity]]);
   match goal with |- context [lookup_handler ?m ?hs] =>
     pose proof (tm_lookup_handler m hs) as LH; unfold lookup_handler in *;
     destruct (beqb m M405); destruct (alookup m hs); cbn in LH |- *;
     try discriminate LH; (split; [reflexivity|split; [lia|reflexivity]])
   end).
Qed.
