(* The text of a registered pattern and the text of a matched request path:
   - Part A: what a segment label looks like (new_segment, seg_split);
   - Part B: a node's pattern is the concatenation of the labels above it (I2), on every
     tree reached from new_tree by Add / Remove / Clean / Use (proved once for I2 together with
     any segment property that new_segment establishes; instantiated with True and with
     label_ok_pre);
   - Part C: a successful match spells the request path as the pattern of the node found
     with every "{...}" replaced by the value its segment accepted.
   Theorems are re-exported by Props/C01text.v. *)
From Coq Require Import String.
From Mux Require Import Model.Bytes Model.Regex Model.Context Model.Syntax Model.Tree
  Proofs.BytesFacts Proofs.MatchSound.

(* ================================================================ definitions *)

(* I2: a child's pattern is its parent's pattern followed by its own label *)
Definition pat_ok (n : node) : Prop :=
  forall ch, In ch (nchildren n) -> npat ch = npat n ++ sval (nseg ch).
Definition tree_pat_ok (t : tree) : Prop := all_nodes pat_ok (troot t) /\ npat (troot t) = [].

(* the text of a label: literal, or one brace token followed by the segment's literal suffix *)
Definition label_ok (s : segment) : Prop :=
  match styp s with
  | TString => True
  | _ => exists tok, sval s = tok ++ ssuffix s /\ (exists body, tok = 123 :: body ++ [125])
  end.

(* the general shape produced by new_segment: brace-free text may precede the token *)
Definition label_ok_pre (s : segment) : Prop :=
  match styp s with
  | TString => True
  | _ => exists pre tok, sval s = pre ++ tok ++ ssuffix s /\ ~ In 123 pre /\ ~ In 125 pre /\
           (exists body, tok = 123 :: body ++ [125] /\ ~ In 125 body)
  end.

(* ================================================================ Part A : labels *)

Lemma index_byte_split : forall s c i, index_byte s c = Some i ->
  s = firstn i s ++ c :: skipn (S i) s /\ ~ In c (firstn i s) /\ length (firstn i s) = i.
Proof.
  induction s as [|x s IH]; intros c i H; simpl in H; [discriminate|].
  destruct (N.eqb_spec x c) as [->|Nx].
  - injection H as <-. simpl. split; [reflexivity|]. split; [intros []|reflexivity].
  - destruct (index_byte s c) as [j|] eqn:E; [|discriminate]. injection H as <-.
    destruct (IH c j E) as [Hs [Hn Hl]]. cbn [firstn skipn].
    split; [simpl; f_equal; exact Hs|]. split; [|simpl; now rewrite Hl].
    intros [Hx|Hin]; [congruence | contradiction].
Qed.

Lemma index_byte_nth : forall s c i, index_byte s c = Some i -> nth_error s i = Some c.
Proof.
  induction s as [|x s IH]; intros c i H; simpl in H; [discriminate|].
  destruct (N.eqb_spec x c) as [->|Nx].
  - injection H as <-. reflexivity.
  - destruct (index_byte s c) as [j|] eqn:E; [|discriminate]. injection H as <-.
    simpl. now apply IH.
Qed.

Lemma index_byte_skipn : forall s c i j, index_byte s c = Some j -> (i <= j)%nat ->
  index_byte (skipn i s) c = Some (j - i)%nat.
Proof.
  induction s as [|x s IH]; intros c i j H Hle; simpl in H; [discriminate|].
  destruct i as [|i]; [simpl; rewrite Nat.sub_0_r; exact H|].
  destruct (N.eqb_spec x c) as [->|Nx]; [injection H as <-; lia|].
  destruct (index_byte s c) as [j'|] eqn:E; [|discriminate]. injection H as <-.
  simpl. apply IH; [exact E | lia].
Qed.

Lemma firstn_le_In : forall (A : Type) (l : list A) a b x, (a <= b)%nat ->
  In x (firstn a l) -> In x (firstn b l).
Proof.
  intros A l. induction l as [|y l IH]; intros a b x Hle Hin.
  - rewrite firstn_nil in Hin. destruct Hin.
  - destruct a as [|a]; [destruct Hin|]. destruct b as [|b]; [lia|].
    simpl in *. destruct Hin as [->|Hin]; [now left | right]. apply (IH a b); [lia | exact Hin].
Qed.

Lemma skipn_skipn_add : forall (A : Type) b a (l : list A), skipn a (skipn b l) = skipn (b + a) l.
Proof.
  intros A b. induction b as [|b IH]; intros a l; [reflexivity|].
  destruct l as [|y l]; [simpl; now rewrite skipn_nil | simpl; apply IH].
Qed.

Lemma gslice_to_end : forall s lo x, gslice s lo (length s) = Some x -> x = skipn lo s.
Proof.
  intros s lo x H. unfold gslice in H.
  destruct (Nat.leb lo (length s) && Nat.leb (length s) (length s)); [|discriminate].
  injection H as <-. apply firstn_all2. rewrite skipn_length. lia.
Qed.

Lemma gslice_from_start : forall s hi x, gslice s O hi = Some x -> x = firstn hi s.
Proof.
  intros s hi x H. unfold gslice in H.
  destruct (Nat.leb 0 hi && Nat.leb hi (length s)); [|discriminate].
  injection H as <-. simpl. now rewrite Nat.sub_0_r.
Qed.

Lemma slice_or_panic_ok : forall site s lo hi x,
  slice_or_panic site s lo hi = Ok x -> gslice s lo hi = Some x.
Proof.
  intros site s lo hi x H. unfold slice_or_panic in H.
  destruct (gslice s lo hi); [now injection H as -> | discriminate].
Qed.

(* one step of case analysis on a hypothesis [... = Ok _] *)
Ltac res_step H :=
  match type of H with
  | bind ?r _ = Ok _ =>
    let E := fresh "E" in destruct r eqn:E; cbn [bind] in H; [|discriminate H ..]
  | match ?x with _ => _ end = Ok _ =>
    let E := fresh "E" in destruct x eqn:E; try discriminate H
  end.

(* every way new_segment can succeed *)
Lemma new_segment_inv : forall ic val seg, new_segment ic val = Ok seg ->
  seg = string_seg val \/
  (exists start end_, index_byte val 123 = Some start /\ index_byte val 125 = Some end_ /\
     (start <= end_)%nat /\ sval seg = val /\ ssuffix seg = skipn (S end_) val /\
     styp seg <> TString).
Proof.
  intros ic val seg H. unfold new_segment in H.
  destruct (N.ltb max_int16 (N.of_nat (length val))); [discriminate|].
  destruct (index_byte val 123) as [start|] eqn:I1; [|injection H as <-; now left].
  destruct (index_byte val 125) as [end_|] eqn:I2; [|injection H as <-; now left].
  right. exists start, end_. split; [reflexivity|]. split; [reflexivity|].
  destruct (Nat.ltb end_ start || Nat.eqb (S start) end_ || _) eqn:C; [discriminate|].
  apply orb_false_iff in C. destruct C as [C _]. apply orb_false_iff in C. destruct C as [C _].
  apply Nat.ltb_ge in C. split; [exact C|].
  cbv zeta in H.
  repeat res_step H;
    injection H as <-; cbn [sval ssuffix styp];
    (split; [reflexivity|]); (split; [|discriminate]);
    match goal with
    | Hs : slice_or_panic _ val (S end_) (length val) = Ok ?sf |- ?sf = _ =>
      apply slice_or_panic_ok in Hs; exact (gslice_to_end _ _ _ Hs)
    end.
Qed.

Theorem new_segment_value : forall ic val seg, new_segment ic val = Ok seg -> sval seg = val.
Proof.
  intros ic val seg H. apply new_segment_inv in H.
  destruct H as [-> | [start [end_ [_ [_ [_ [Hv _]]]]]]]; [reflexivity | exact Hv].
Qed.

(* a parameter segment: brace-free text (up to the first '{'), one token, the suffix *)
Lemma new_segment_shape : forall ic val seg, new_segment ic val = Ok seg -> styp seg <> TString ->
  exists start body, index_byte val 123 = Some start /\
    sval seg = firstn start val ++ (123 :: body ++ [125]) ++ ssuffix seg /\
    ~ In 123 (firstn start val) /\ ~ In 125 (firstn start val) /\ ~ In 125 body.
Proof.
  intros ic val seg H T. apply new_segment_inv in H.
  destruct H as [-> | [start [end_ [I1 [I2 [Hle [Hv [Hs _]]]]]]]]; [now elim T|].
  rewrite Hv, Hs.
  destruct (index_byte_split _ _ _ I1) as [S1 [N1 L1]].
  assert (Hne : start <> end_).
  { intros ->. apply index_byte_nth in I1. apply index_byte_nth in I2. congruence. }
  assert (I3 : index_byte (skipn (S start) val) 125 = Some (end_ - S start)%nat)
    by (apply index_byte_skipn; [exact I2 | lia]).
  destruct (index_byte_split _ _ _ I3) as [S3 [N3 L3]].
  destruct (index_byte_split _ _ _ I2) as [S2 [N2 L2]].
  exists start, (firstn (end_ - S start) (skipn (S start) val)).
  split; [exact I1|]. split.
  - replace (skipn (S end_) val) with (skipn (S (end_ - S start)) (skipn (S start) val))
      by (rewrite skipn_skipn_add; f_equal; lia).
    rewrite S1 at 1. f_equal. cbn [app]. f_equal. rewrite <- app_assoc. cbn [app].
    exact S3.
  - split; [exact N1|]. split; [|exact N3].
    intro Hin. apply N2. apply (firstn_le_In _ _ start end_); [lia | exact Hin].
Qed.

(* the general shape: text without braces, one token, the suffix *)
Theorem new_segment_label_pre : forall ic val seg, new_segment ic val = Ok seg -> label_ok_pre seg.
Proof.
  intros ic val seg H. unfold label_ok_pre.
  assert (G : styp seg <> TString ->
           exists pre tok, sval seg = pre ++ tok ++ ssuffix seg /\ ~ In 123 pre /\ ~ In 125 pre /\
           (exists body, tok = 123 :: body ++ [125] /\ ~ In 125 body)).
  { intro T. destruct (new_segment_shape _ _ _ H T) as [start [body [_ [Hv [N1 [N2 N3]]]]]].
    exists (firstn start val), (123 :: body ++ [125]). split; [exact Hv|].
    split; [exact N1|]. split; [exact N2|]. exists body. now split. }
  destruct (styp seg); [exact I | | |]; apply G; discriminate.
Qed.

(* when the label starts with '{' (every piece of split_string but the first) nothing
   precedes the token *)
Theorem new_segment_label_partial : forall ic val seg, index_byte val 123 = Some O ->
  new_segment ic val = Ok seg -> label_ok seg.
Proof.
  intros ic val seg H0 H. unfold label_ok.
  assert (G : styp seg <> TString ->
           exists tok, sval seg = tok ++ ssuffix seg /\ (exists body, tok = 123 :: body ++ [125])).
  { intro T. destruct (new_segment_shape _ _ _ H T) as [start [body [I1 [Hv _]]]].
    rewrite H0 in I1. injection I1 as <-. exists (123 :: body ++ [125]).
    split; [exact Hv | now exists body]. }
  destruct (styp seg); [exact I | | |]; apply G; discriminate.
Qed.

(* the unconditional statement is false: "a{b}" is a parameter label that starts with text *)
Theorem new_segment_label_refuted :
  ~ (forall ic val seg, new_segment ic val = Ok seg -> label_ok seg).
Proof.
  intro H.
  destruct (new_segment [] (bs "a{b}")) as [seg| | |] eqn:E; try (vm_compute in E; discriminate E).
  specialize (H _ _ _ E). vm_compute in E. injection E as <-.
  unfold label_ok in H. cbn [styp sval ssuffix] in H.
  destruct H as [tok [Hv [body ->]]]. discriminate Hv.
Qed.

Theorem seg_split_value : forall ic seg pos s1 s2,
  seg_split ic seg pos = Ok (s1, s2) -> sval s1 ++ sval s2 = sval seg.
Proof.
  intros ic seg pos s1 s2 H. unfold seg_split in H.
  repeat res_step H. injection H as <- <-.
  rewrite (new_segment_value _ _ _ E1), (new_segment_value _ _ _ E2).
  apply slice_or_panic_ok in E, E0.
  rewrite (gslice_from_start _ _ _ E), (gslice_to_end _ _ _ E0). apply firstn_skipn.
Qed.

Example ex_label_named : match new_segment [] (bs "{id}/author") with
                         | Ok s => sval s = bs "{id}/author" /\ ssuffix s = bs "/author" /\ styp s = TNamed
                         | _ => False end.
Proof. vm_compute. repeat split. Qed.
Example ex_label_hyp : index_byte (bs "{id:\d+}.html") 123 = Some O.
Proof. reflexivity. Qed.
Example ex_seg_split : match new_segment [] (bs "{id}/author") with
                       | Ok s => match seg_split [] s 6 with
                                 | Ok (s1, s2) => sval s1 = bs "{id}/a" /\ sval s2 = bs "uthor"
                                 | _ => False end
                       | _ => False end.
Proof. vm_compute. repeat split. Qed.

(* ================================================================ Part B : the pattern invariant *)

Lemma In_replace_nth : forall (A : Type) i (y : A) l x, In x (replace_nth i y l) -> x = y \/ In x l.
Proof.
  intros A i y l. revert i. induction l as [|z l IH]; intros i x H; [destruct i; destruct H|].
  destruct i as [|i]; simpl in H.
  - destruct H as [<-|H]; [now left | right; now right].
  - destruct H as [<-|H]; [right; now left|]. destruct (IH i x H) as [->|Hin]; [now left | right; now right].
Qed.

Lemma In_remove_nth : forall (A : Type) i (l : list A) x, In x (remove_nth i l) -> In x l.
Proof.
  intros A i l. revert i. induction l as [|z l IH]; intros i x H; [destruct i; destruct H|].
  destruct i as [|i]; simpl in H; [now right|].
  destruct H as [<-|H]; [now left | right; exact (IH i x H)].
Qed.

Lemma In_sinsert : forall x y l, In x (sinsert y l) -> x = y \/ In x l.
Proof.
  intros x y l. induction l as [|z l IH]; simpl; intro H.
  - destruct H as [<-|[]]. now left.
  - destruct (Nat.ltb (fst z) (fst y)).
    + destruct H as [<-|H]; [right; now left|]. destruct (IH H) as [->|Hin]; [now left | right; now right].
    + destruct H as [<-|H]; [now left | now right].
Qed.

Lemma In_ssort : forall l x, In x (ssort l) -> In x (map snd l).
Proof.
  intros l x H. unfold ssort in H. apply in_map_iff in H. destruct H as [p [<- Hp]].
  apply in_map. induction l as [|z l IH]; simpl in Hp; [destruct Hp|].
  apply In_sinsert in Hp. destruct Hp as [->|Hp]; [now left | right; now apply IH].
Qed.

Lemma map_snd_with_prio : forall c, map snd (with_prio c) = c.
Proof. intro c. unfold with_prio. rewrite map_map. simpl. apply map_id. Qed.

Lemma set_children_facts : forall n c ix,
  npat (set_children n c ix) = npat n /\ nseg (set_children n c ix) = nseg n /\
  nchildren (set_children n c ix) = c.
Proof. intros [s p i h x c0] c ix. simpl. now split. Qed.
Lemma set_handlers_facts : forall n h i,
  npat (set_handlers n h i) = npat n /\ nseg (set_handlers n h i) = nseg n /\
  nchildren (set_handlers n h i) = nchildren n.
Proof. intros [s p i0 h0 x c] h i. simpl. now split. Qed.
Lemma set_seg_facts : forall n s,
  npat (set_seg n s) = npat n /\ nseg (set_seg n s) = s /\ nchildren (set_seg n s) = nchildren n.
Proof. intros [s0 p i h x c] s. simpl. now split. Qed.

(* ---------------------------------------------------------------- the invariant, generically
   [inv Q] = I2 together with a property [Q] of the node's segment.  Everything is proved for
   any [Q] that holds of whatever new_segment returns; [Q := fun _ => True] gives I2 alone,
   [Q := label_ok_pre] adds the shape of every label in the tree. *)
Section Inv.
Variable Q : segment -> Prop.
Hypothesis Qnew : forall ic val seg, new_segment ic val = Ok seg -> Q seg.

Definition inv (n : node) : Prop := pat_ok n /\ Q (nseg n).

(* the result keeps the text of the node it replaces *)
Definition keeps (n n' : node) : Prop := all_nodes inv n' /\ npat n' = npat n /\ nseg n' = nseg n.

Lemma Q_string_nil : Q (string_seg []).
Proof. apply (Qnew [] []). reflexivity. Qed.

Lemma all_pat_intro : forall n, Q (nseg n) ->
  (forall ch, In ch (nchildren n) -> npat ch = npat n ++ sval (nseg ch) /\ all_nodes inv ch) ->
  all_nodes inv n.
Proof.
  intros n HQ H. constructor; [split; [|exact HQ]; intros ch Hch; exact (proj1 (H ch Hch)) |
                               intros ch Hch; exact (proj2 (H ch Hch))].
Qed.

Lemma all_pat_child : forall n ch, all_nodes inv n -> In ch (nchildren n) ->
  npat ch = npat n ++ sval (nseg ch) /\ all_nodes inv ch.
Proof.
  intros n ch H Hch. split; [exact (proj1 (all_nodes_here _ _ H) ch Hch) | exact (all_nodes_child _ _ _ H Hch)].
Qed.

Lemma all_pat_Q : forall n, all_nodes inv n -> Q (nseg n).
Proof. intros n H. exact (proj2 (all_nodes_here _ _ H)). Qed.

Lemma same_shape : forall n n', npat n' = npat n -> nchildren n' = nchildren n -> Q (nseg n') ->
  all_nodes inv n -> all_nodes inv n'.
Proof.
  intros n n' Hp Hc HQ H. apply all_pat_intro; [exact HQ|]. rewrite Hc, Hp. intros ch Hch. now apply all_pat_child.
Qed.

Lemma keeps_refl : forall n, all_nodes inv n -> keeps n n.
Proof. intros n H. split; [exact H | now split]. Qed.

Lemma set_handlers_keeps : forall n h i, all_nodes inv n -> keeps n (set_handlers n h i).
Proof.
  intros n h i H. destruct (set_handlers_facts n h i) as [Hp [Hs Hc]].
  split; [|now split]. apply (same_shape _ _ Hp Hc); [rewrite Hs; now apply all_pat_Q | exact H].
Qed.

Lemma set_children_keeps : forall n c ix, Q (nseg n) ->
  (forall x, In x c -> npat x = npat n ++ sval (nseg x) /\ all_nodes inv x) ->
  keeps n (set_children n c ix).
Proof.
  intros n c ix HQ H. destruct (set_children_facts n c ix) as [Hp [Hs Hc]].
  split; [|now split]. apply all_pat_intro; [now rewrite Hs|]. rewrite Hc, Hp. exact H.
Qed.

Lemma replace_child_keeps : forall n i ch ch' ix, all_nodes inv n -> In ch (nchildren n) ->
  keeps ch ch' -> keeps n (set_children n (replace_nth i ch' (nchildren n)) ix).
Proof.
  intros n i ch ch' ix H Hch [Ha [Hp Hs]]. apply set_children_keeps; [now apply all_pat_Q|]. intros x Hx.
  apply In_replace_nth in Hx. destruct Hx as [->|Hx]; [|now apply all_pat_child].
  split; [|exact Ha]. rewrite Hp, Hs. exact (proj1 (all_pat_child _ _ H Hch)).
Qed.

Lemma sort_node_keeps : forall n keyed n', sort_node n keyed = Ok n' -> Q (nseg n) ->
  (forall x, In x (map snd keyed) -> npat x = npat n ++ sval (nseg x) /\ all_nodes inv x) ->
  keeps n n'.
Proof.
  intros n keyed n' H HQ Hk. unfold sort_node in H. res_step H. injection H as <-.
  apply set_children_keeps; [exact HQ|]. intros y Hy. apply Hk. now apply In_ssort.
Qed.

Definition kcond (k : node -> res node) : Prop :=
  forall ch ch', all_nodes inv ch -> k ch = Ok ch' -> keeps ch ch'.

Definition add_continue (f : nat) (ic : icpts) (seg : segment) (l : nat) (k : node -> res node)
    (parent : node) : res node :=
  if Nat.eqb (length (sval seg)) l then k parent
  else
    do rest <- slice_or_panic "addSegment:slice" (sval seg) l (length (sval seg));
    do s <- new_segment ic rest;
    add_segment f ic parent s k.

Lemma add_segment_S : forall f ic n seg k,
  add_segment (S f) ic n seg k =
  let c := nchildren n in
  match scan_sim seg c O None with
  | (Some i, _) =>
    match nth_error c i with
    | Some ch => do ch' <- k ch; Ok (set_children n (replace_nth i ch' c) (nindexes n))
    | None => Panic (bs "addSegment:nth")
    end
  | (None, None) =>
    let nn := new_node n seg in
    do nn' <- k nn;
    sort_node n (with_prio c ++ [(priority nn, nn')])
  | (None, Some (i, l)) =>
    let l := Z.to_nat l in
    match nth_error c i with
    | None => Panic (bs "addSegment:nth")
    | Some ch =>
      if Nat.leb (length (sval (nseg ch))) l then
        do ch' <- add_continue f ic seg l k ch; Ok (set_children n (replace_nth i ch' c) (nindexes n))
      else
        do '(s1, s2) <- seg_split ic (nseg ch) l;
        let others := remove_nth i c in
        let lower := set_seg ch s2 in
        let ret0 := Node s1 (npat n ++ sval s1) 0 [] [] [] in
        do ret <- sort_node ret0 (with_prio [lower]);
        do ret' <- add_continue f ic seg l k ret;
        sort_node n (with_prio others ++ [(priority ret, ret')])
    end
  end.
Proof. reflexivity. Qed.

Lemma seg_split_Q : forall ic seg pos s1 s2, seg_split ic seg pos = Ok (s1, s2) -> Q s1 /\ Q s2.
Proof.
  intros ic seg pos s1 s2 H. unfold seg_split in H. repeat res_step H. injection H as <- <-.
  split; [exact (Qnew _ _ _ E1) | exact (Qnew _ _ _ E2)].
Qed.

Lemma add_segment_keeps : forall fuel ic n seg k n', all_nodes inv n -> Q seg -> kcond k ->
  add_segment fuel ic n seg k = Ok n' -> keeps n n'.
Proof.
  induction fuel as [|f IH]; intros ic n seg k n' Hn Qseg Hk H; [discriminate|].
  rewrite add_segment_S in H. cbv zeta in H.
  pose proof (all_pat_Q _ Hn) as Qn.
  (* the continuation of the split branches is again a good continuation *)
  assert (Hcont : forall l, kcond (add_continue f ic seg l k)).
  { intros l ch ch' Hch Hc. unfold add_continue in Hc.
    destruct (Nat.eqb (length (sval seg)) l); [exact (Hk _ _ Hch Hc)|].
    repeat res_step Hc. exact (IH _ _ _ _ _ Hch (Qnew _ _ _ E0) Hk Hc). }
  destruct (scan_sim seg (nchildren n) 0 None) as [[i|] best] eqn:SC.
  - (* identical child *)
    destruct (nth_error (nchildren n) i) as [ch|] eqn:NTH; [|discriminate].
    assert (Ich : In ch (nchildren n)) by (eapply nth_error_In; eassumption).
    res_step H. injection H as <-.
    apply (replace_child_keeps n i ch); [exact Hn | exact Ich|].
    apply Hk; [exact (proj2 (all_pat_child _ _ Hn Ich)) | exact E].
  - destruct best as [[i l]|].
    + (* a child shares a prefix *)
      destruct (nth_error (nchildren n) i) as [ch|] eqn:NTH; [|discriminate].
      assert (Ich : In ch (nchildren n)) by (eapply nth_error_In; eassumption).
      destruct (all_pat_child _ _ Hn Ich) as [Pch Ach].
      destruct (Nat.leb (length (sval (nseg ch))) (Z.to_nat l)).
      * res_step H. injection H as <-.
        apply (replace_child_keeps n i ch); [exact Hn | exact Ich|].
        exact (Hcont _ _ _ Ach E).
      * res_step H. destruct x as [s1 s2]. destruct (seg_split_Q _ _ _ _ _ E) as [Q1 Q2].
        apply seg_split_value in E.
        res_step H. rename x into ret. res_step H. rename x into ret'.
        (* the new upper half with the old node below it *)
        assert (Hret : keeps (Node s1 (npat n ++ sval s1) 0 [] [] []) ret).
        { apply (sort_node_keeps _ _ _ E0); [exact Q1|]. rewrite map_snd_with_prio. intros y [<-|[]].
          destruct (set_seg_facts ch s2) as [Hp [Hs Hc]]. rewrite Hp, Hs. cbn [npat].
          split; [rewrite Pch, <- E; now rewrite app_assoc|].
          apply (same_shape ch _ Hp Hc); [now rewrite Hs | exact Ach]. }
        destruct Hret as [Aret [Pret Sret]]. cbn [npat nseg] in Pret, Sret.
        destruct (Hcont _ _ _ Aret E1) as [Aret' [Pret' Sret']].
        apply (sort_node_keeps _ _ _ H); [exact Qn|]. rewrite map_app, map_snd_with_prio. cbn [map snd].
        intros y Hy. apply in_app_or in Hy. destruct Hy as [Hy|[<-|[]]].
        -- apply In_remove_nth in Hy. now apply all_pat_child.
        -- split; [|exact Aret']. now rewrite Pret', Sret', Pret, Sret.
    + (* a new child *)
      res_step H. rename x into nn'.
      assert (Hnn : all_nodes inv (new_node n seg)) by (apply all_pat_intro; [exact Qseg | intros ch []]).
      destruct (Hk _ _ Hnn E) as [Ann [Pnn Snn]]. cbn [new_node npat nseg] in Pnn, Snn.
      apply (sort_node_keeps _ _ _ H); [exact Qn|]. rewrite map_app, map_snd_with_prio. cbn [map snd].
      intros y Hy. apply in_app_or in Hy. destruct Hy as [Hy|[<-|[]]].
      * now apply all_pat_child.
      * split; [|exact Ann]. now rewrite Pnn, Snn.
Qed.

Lemma get_node_keeps : forall fuel ic segs n upd n', all_nodes inv n -> Forall Q segs -> kcond upd ->
  get_node fuel ic n segs upd = Ok n' -> keeps n n'.
Proof.
  intros fuel ic segs. induction segs as [|seg rest IH]; intros n upd n' Hn HQ Hk H; [discriminate|].
  inversion HQ as [|s0 r0 Qseg Qrest]; subst.
  destruct rest as [|seg2 rest].
  - exact (add_segment_keeps _ _ _ _ _ _ Hn Qseg Hk H).
  - cbn [get_node] in H. refine (add_segment_keeps _ _ _ _ _ _ Hn Qseg _ H).
    intros ch ch' Hch Hc. exact (IH _ _ _ Hch Qrest Hk Hc).
Qed.

Lemma add_methods_kcond : forall trace router h pattern mws ms,
  kcond (add_methods trace router h pattern mws ms).
Proof.
  intros trace router h pattern mws ms ch ch' Hch H. unfold add_methods in H.
  res_step H. injection H as <-. now apply set_handlers_keeps.
Qed.

Lemma split_pieces_Q : forall ic ss flag names segs,
  split_pieces ic ss flag names = Ok segs -> Forall Q segs.
Proof.
  intros ic ss. induction ss as [|s ss IH]; intros flag names segs H; simpl in H.
  - injection H as <-. constructor.
  - destruct (first_byte s) as [c0|]; [|discriminate].
    destruct (flag && N.eqb c0 123); [discriminate|].
    res_step H. rename x into seg.
    destruct (negb (stype_eqb (styp seg) TString) && mem (sname seg) names); [discriminate|].
    res_step H. injection H as <-. constructor; [exact (Qnew _ _ _ E) | exact (IH _ _ _ E0)].
Qed.

Lemma split_Q : forall ic p segs, split ic p = Ok segs -> Forall Q segs.
Proof.
  intros ic p segs H. unfold split in H. destruct p; [discriminate|].
  exact (split_pieces_Q _ _ _ _ _ H).
Qed.

Definition tree_inv (t : tree) : Prop := all_nodes inv (troot t) /\ npat (troot t) = [].

Lemma build_methods_inv : forall t root num ms, all_nodes inv root -> npat root = [] ->
  tree_inv (tree_build_methods t root num ms).
Proof.
  intros t root num ms Ha Hp. unfold tree_inv, tree_build_methods. cbn [troot].
  destruct (set_handlers_keeps root (nhandlers root)
              (root_midx (has_trace t) (counts_add num ms (tcounts t))) Ha) as [Ha' [Hp' _]].
  split; [exact Ha' | now rewrite Hp'].
Qed.

Lemma inv_new_tree : forall name ic trace, tree_inv (new_tree name ic trace).
Proof.
  intros name ic trace. unfold new_tree. apply build_methods_inv; [|reflexivity].
  apply all_pat_intro; [exact Q_string_nil | intros ch []].
Qed.

Lemma inv_add : forall t p h mws ms t', tree_inv t -> tree_add t p h mws ms = Ok t' -> tree_inv t'.
Proof.
  intros t p h mws ms t' [Ha Hp] H. unfold tree_add in H. cbv zeta in H.
  res_step H.
  assert (G : forall ms0,
    (do segs <- split (tic t) p;
     do _ <- check_methods (has_trace t)
               (match find (tree_fuel t + length p + 2) (troot t) p with Some n => nhandlers n | None => [] end) [] ms0;
     do root' <- get_node (tree_fuel t + length p + 2) (tic t) (troot t) segs
                   (add_methods (has_trace t) (tname t) h p mws ms0);
     Ok (tree_build_methods t root' 1 ms0)) = Ok t' -> tree_inv t').
  { intros ms0 H0. repeat res_step H0. injection H0 as <-.
    destruct (get_node_keeps _ _ _ _ _ _ Ha (split_Q _ _ _ E0) (add_methods_kcond _ _ _ _ _ _) E2)
      as [Ha' [Hp' _]].
    apply build_methods_inv; [exact Ha' | now rewrite Hp']. }
  destruct x as [[amb [|]]|]; [discriminate | exact (G _ H) | exact (G _ H)].
Qed.

(* ---------------------------------------------------------------- Remove *)
Definition rm_go (f : nat) (trace : bool) (ms : list bytes) (n : node) (pattern : bytes) :=
  fix go (c : list node) (i : nat) : res (option (node * list bytes)) :=
    match c with
    | [] => Ok None
    | ch :: c' =>
      let finish (ch' : node) (removed : list bytes) : res (option (node * list bytes)) :=
        if prunable ch' then
          let cs := remove_nth i (nchildren n) in
          do ix <- build_indexes cs; Ok (Some (set_children n cs ix, removed))
        else Ok (Some (set_children n (replace_nth i ch' (nchildren n)) (nindexes n), removed)) in
      if beqb (sval (nseg ch)) pattern then
        let '(ch', removed) := remove_at_node trace ms ch in finish ch' removed
      else if has_prefix pattern (sval (nseg ch)) then
        do r <- remove_in f trace ms ch (skipn (length (sval (nseg ch))) pattern);
        match r with
        | Some (ch', removed) => finish ch' removed
        | None => go c' (S i)
        end
      else go c' (S i)
    end.

Lemma remove_in_S : forall f trace ms n pattern,
  remove_in (S f) trace ms n pattern = rm_go f trace ms n pattern (nchildren n) O.
Proof. reflexivity. Qed.

Lemma remove_at_node_keeps : forall trace ms n n' rm, all_nodes inv n ->
  remove_at_node trace ms n = (n', rm) -> keeps n n'.
Proof.
  intros trace ms n n' rm Hn H. unfold remove_at_node in H.
  destruct (match ms with [] => _ | _ => _ end) as [hs removed].
  injection H as <- _. now apply set_handlers_keeps.
Qed.

Lemma remove_in_keeps : forall fuel trace ms n pattern n' rm, all_nodes inv n ->
  remove_in fuel trace ms n pattern = Ok (Some (n', rm)) -> keeps n n'.
Proof.
  induction fuel as [|f IH]; intros trace ms n pattern n' rm Hn H; [discriminate|].
  rewrite remove_in_S in H.
  pose proof (all_pat_Q _ Hn) as Qn.
  assert (Hfin : forall i ch ch' removed, In ch (nchildren n) -> keeps ch ch' ->
            (if prunable ch' then
               do ix <- build_indexes (remove_nth i (nchildren n));
               Ok (Some (set_children n (remove_nth i (nchildren n)) ix, removed))
             else Ok (Some (set_children n (replace_nth i ch' (nchildren n)) (nindexes n), removed)))
            = Ok (Some (n', rm)) -> keeps n n').
  { intros i ch ch' removed Ich Hk Hf. destruct (prunable ch').
    - res_step Hf. injection Hf as <- _. apply set_children_keeps; [exact Qn|]. intros y Hy.
      apply In_remove_nth in Hy. now apply all_pat_child.
    - injection Hf as <- _. now apply (replace_child_keeps n i ch). }
  assert (Hgo : forall c i, incl c (nchildren n) ->
            rm_go f trace ms n pattern c i = Ok (Some (n', rm)) -> keeps n n').
  { induction c as [|ch c IHc]; intros i Hin Hg; [discriminate|].
    assert (Ich : In ch (nchildren n)) by (apply Hin; now left).
    assert (Hin' : incl c (nchildren n)) by (intros y Hy; apply Hin; now right).
    destruct (all_pat_child _ _ Hn Ich) as [_ Ach].
    cbn [rm_go] in Hg. cbv zeta in Hg.
    destruct (beqb (sval (nseg ch)) pattern).
    - destruct (remove_at_node trace ms ch) as [ch' removed] eqn:RA.
      exact (Hfin i ch ch' removed Ich (remove_at_node_keeps _ _ _ _ _ Ach RA) Hg).
    - destruct (has_prefix pattern (sval (nseg ch))); [|exact (IHc _ Hin' Hg)].
      res_step Hg. destruct x as [[ch' removed]|]; [|exact (IHc _ Hin' Hg)].
      exact (Hfin i ch ch' removed Ich (IH _ _ _ _ _ _ Ach E) Hg). }
  exact (Hgo _ _ (incl_refl _) H).
Qed.

Lemma inv_remove : forall t p ms t', tree_inv t -> tree_remove t p ms = Ok t' -> tree_inv t'.
Proof.
  intros t p ms t' [Ha Hp] H. unfold tree_remove in H. res_step H.
  destruct x as [[root' removed]|]; injection H as <-; [|now split].
  destruct (remove_in_keeps _ _ _ _ _ _ _ Ha E) as [Ha' [Hp' _]].
  apply build_methods_inv; [exact Ha' | now rewrite Hp'].
Qed.

(* ---------------------------------------------------------------- Clean *)
Definition cl_go (f : nat) (prefix : bytes) :=
  fix go (c : list node) : res (list node) :=
    match c with
    | [] => Ok []
    | ch :: c' =>
      let v := sval (nseg ch) in
      do ch' <- (if Nat.ltb (length v) (length prefix) && has_prefix prefix v
                 then clean_in f ch (skipn (length v) prefix) else Ok ch);
      do rest <- go c';
      if has_prefix v prefix then Ok rest else Ok (ch' :: rest)
    end.

Lemma clean_in_S : forall f n prefix,
  clean_in (S f) n prefix =
  match prefix with
  | [] => Ok (set_children n [] [])
  | _ => do cs <- cl_go f prefix (nchildren n); do ix <- build_indexes cs; Ok (set_children n cs ix)
  end.
Proof. intros f n prefix. destruct prefix; reflexivity. Qed.

Lemma clean_in_keeps : forall fuel n prefix n', all_nodes inv n ->
  clean_in fuel n prefix = Ok n' -> keeps n n'.
Proof.
  induction fuel as [|f IH]; intros n prefix n' Hn H; [discriminate|].
  rewrite clean_in_S in H.
  pose proof (all_pat_Q _ Hn) as Qn.
  assert (Hgo : forall c cs, incl c (nchildren n) -> cl_go f prefix c = Ok cs ->
            forall y, In y cs -> npat y = npat n ++ sval (nseg y) /\ all_nodes inv y).
  { induction c as [|ch c IHc]; intros cs Hin Hg y Hy; [injection Hg as <-; destruct Hy|].
    assert (Ich : In ch (nchildren n)) by (apply Hin; now left).
    assert (Hin' : incl c (nchildren n)) by (intros z Hz; apply Hin; now right).
    destruct (all_pat_child _ _ Hn Ich) as [Pch Ach].
    cbn [cl_go] in Hg. cbv zeta in Hg. res_step Hg. rename x into ch'. res_step Hg. rename x into rest.
    assert (Hk : keeps ch ch').
    { destruct (Nat.ltb _ _ && has_prefix _ _); [exact (IH _ _ _ Ach E)|].
      injection E as <-. now apply keeps_refl. }
    destruct (has_prefix (sval (nseg ch)) prefix); injection Hg as <-.
    - exact (IHc _ Hin' eq_refl y Hy).
    - destruct Hy as [<-|Hy]; [|exact (IHc _ Hin' eq_refl y Hy)].
      destruct Hk as [Ak [Pk Sk]]. split; [now rewrite Pk, Sk | exact Ak]. }
  destruct prefix as [|b prefix].
  - injection H as <-. apply set_children_keeps; [exact Qn | intros y []].
  - repeat res_step H. injection H as <-. apply set_children_keeps; [exact Qn|].
    exact (Hgo _ _ (incl_refl _) E).
Qed.

Lemma inv_clean : forall t prefix t', tree_inv t -> tree_clean t prefix = Ok t' -> tree_inv t'.
Proof.
  intros t prefix t' [Ha Hp] H. unfold tree_clean in H. res_step H. injection H as <-.
  destruct (clean_in_keeps _ _ _ _ Ha E) as [Ha' [Hp' _]].
  apply build_methods_inv; [exact Ha' | now rewrite Hp'].
Qed.

(* ---------------------------------------------------------------- Use *)
Lemma apply_mw_node_facts : forall f router mws n,
  npat (apply_mw_node f router mws n) = npat n /\ nseg (apply_mw_node f router mws n) = nseg n.
Proof. intros [|f] router mws [s p i h x c]; simpl; now split. Qed.

Lemma apply_mw_node_children : forall f router mws n,
  nchildren (apply_mw_node (S f) router mws n) = map (apply_mw_node f router mws) (nchildren n).
Proof. intros f router mws [s p i h x c]. reflexivity. Qed.

Lemma apply_mw_node_keeps : forall f router mws n, all_nodes inv n ->
  all_nodes inv (apply_mw_node f router mws n).
Proof.
  induction f as [|f IH]; intros router mws n Hn; [exact Hn|].
  destruct (apply_mw_node_facts (S f) router mws n) as [P2 S2].
  apply all_pat_intro; [rewrite S2; now apply all_pat_Q|].
  rewrite apply_mw_node_children. intros y Hy.
  apply in_map_iff in Hy. destruct Hy as [ch [<- Ich]].
  destruct (all_pat_child _ _ Hn Ich) as [Pch Ach].
  destruct (apply_mw_node_facts f router mws ch) as [P1 S1].
  split; [now rewrite P1, S1, P2 | now apply IH].
Qed.

Lemma inv_use : forall t mws, tree_inv t -> tree_inv (tree_apply_mw t mws).
Proof.
  intros t mws [Ha Hp]. unfold tree_inv, tree_apply_mw. cbn [troot].
  split; [now apply apply_mw_node_keeps|].
  now rewrite (proj1 (apply_mw_node_facts _ _ _ _)).
Qed.

End Inv.

(* ---------------------------------------------------------------- I2 alone: Q := True *)
Definition QT (s : segment) : Prop := True.
Lemma QT_new : forall ic val seg, new_segment ic val = Ok seg -> QT seg.
Proof. intros ic val seg _. exact I. Qed.

Lemma all_nodes_impl : forall (P P' : node -> Prop) n, (forall m, P m -> P' m) ->
  all_nodes P n -> all_nodes P' n.
Proof.
  intros P P' n HPP H. induction H as [n Hn _ IH]. constructor; [now apply HPP | exact IH].
Qed.

Lemma pat_inv_QT : forall n, all_nodes pat_ok n <-> all_nodes (inv QT) n.
Proof.
  intro n. split; apply all_nodes_impl; intros m Hm; [split; [exact Hm | exact I] | exact (proj1 Hm)].
Qed.
Lemma tree_pat_inv_QT : forall t, tree_pat_ok t <-> tree_inv QT t.
Proof.
  intro t. unfold tree_pat_ok, tree_inv. split; intros [Ha Hp]; (split; [now apply pat_inv_QT | exact Hp]).
Qed.

(* the statement of the task (continuations that keep npat and the invariant); the segment of
   the child handed to [k] must be kept as well, otherwise [pat_ok] of the parent breaks *)
Lemma add_segment_pat : forall fuel ic n seg k n', all_nodes pat_ok n ->
  (forall ch ch', all_nodes pat_ok ch -> k ch = Ok ch' ->
     all_nodes pat_ok ch' /\ npat ch' = npat ch /\ nseg ch' = nseg ch) ->
  add_segment fuel ic n seg k = Ok n' -> all_nodes pat_ok n' /\ npat n' = npat n.
Proof.
  intros fuel ic n seg k n' Hn Hk H. apply pat_inv_QT in Hn.
  assert (Hk' : kcond QT k).
  { intros ch ch' Hch Hc. apply pat_inv_QT in Hch. destruct (Hk _ _ Hch Hc) as [Ha [Hp Hs]].
    split; [now apply pat_inv_QT | now split]. }
  destruct (add_segment_keeps QT QT_new _ _ _ _ _ _ Hn I Hk' H) as [Ha [Hp _]].
  split; [now apply pat_inv_QT | exact Hp].
Qed.

Theorem pat_new_tree : forall name ic trace, tree_pat_ok (new_tree name ic trace).
Proof. intros name ic trace. apply tree_pat_inv_QT. exact (inv_new_tree QT QT_new name ic trace). Qed.

Theorem pat_add : forall t p h mws ms t', tree_pat_ok t -> tree_add t p h mws ms = Ok t' -> tree_pat_ok t'.
Proof.
  intros t p h mws ms t' Ht H. apply tree_pat_inv_QT. apply tree_pat_inv_QT in Ht.
  exact (inv_add QT QT_new _ _ _ _ _ _ Ht H).
Qed.

Theorem pat_remove : forall t p ms t', tree_pat_ok t -> tree_remove t p ms = Ok t' -> tree_pat_ok t'.
Proof.
  intros t p ms t' Ht H. apply tree_pat_inv_QT. apply tree_pat_inv_QT in Ht.
  exact (inv_remove QT _ _ _ _ Ht H).
Qed.

Theorem pat_clean : forall t prefix t', tree_pat_ok t -> tree_clean t prefix = Ok t' -> tree_pat_ok t'.
Proof.
  intros t prefix t' Ht H. apply tree_pat_inv_QT. apply tree_pat_inv_QT in Ht.
  exact (inv_clean QT _ _ _ Ht H).
Qed.

Theorem pat_use : forall t mws, tree_pat_ok t -> tree_pat_ok (tree_apply_mw t mws).
Proof.
  intros t mws Ht. apply tree_pat_inv_QT. apply tree_pat_inv_QT in Ht. exact (inv_use QT _ _ Ht).
Qed.

(* ---------------------------------------------------------------- every history *)
Module TT.
  Inductive top :=
  | OAdd (p : bytes) (h : hterm) (mws ms : list bytes)
  | ORemove (p : bytes) (ms : list bytes)
  | OClean (prefix : bytes)
  | OUse (mws : list bytes).
  Definition keep (t : tree) (r : res tree) : tree := match r with Ok t' => t' | _ => t end.
  Definition tstep (t : tree) (op : top) : tree :=
    match op with
    | OAdd p h mws ms => keep t (tree_add t p h mws ms)
    | ORemove p ms => keep t (tree_remove t p ms)
    | OClean prefix => keep t (tree_clean t prefix)
    | OUse mws => tree_apply_mw t mws
    end.
End TT.
Import TT.

Section InvHist.
Variable Q : segment -> Prop.
Hypothesis Qnew : forall ic val seg, new_segment ic val = Ok seg -> Q seg.

Lemma inv_tstep : forall t op, tree_inv Q t -> tree_inv Q (tstep t op).
Proof.
  intros t op Ht. destruct op as [p h mws ms|p ms|prefix|mws]; cbn [tstep].
  - destruct (tree_add t p h mws ms) as [t'| | |] eqn:E; cbn [keep]; try exact Ht.
    exact (inv_add Q Qnew _ _ _ _ _ _ Ht E).
  - destruct (tree_remove t p ms) as [t'| | |] eqn:E; cbn [keep]; try exact Ht.
    exact (inv_remove Q _ _ _ _ Ht E).
  - destruct (tree_clean t prefix) as [t'| | |] eqn:E; cbn [keep]; try exact Ht.
    exact (inv_clean Q _ _ _ Ht E).
  - now apply inv_use.
Qed.

Lemma inv_fold : forall hist t, tree_inv Q t -> tree_inv Q (fold_left tstep hist t).
Proof.
  induction hist as [|op hist IH]; intros t Ht; [exact Ht|].
  cbn [fold_left]. apply IH. now apply inv_tstep.
Qed.

Lemma inv_reachable : forall name ic trace hist,
  tree_inv Q (fold_left tstep hist (new_tree name ic trace)).
Proof. intros name ic trace hist. apply inv_fold. now apply inv_new_tree. Qed.
End InvHist.

Theorem pat_reachable : forall name ic trace hist,
  tree_pat_ok (fold_left tstep hist (new_tree name ic trace)).
Proof. intros name ic trace hist. apply tree_pat_inv_QT. exact (inv_reachable QT QT_new name ic trace hist). Qed.

(* every label of a reached tree is literal text or text + "{...}" + suffix *)
Definition node_label_ok (n : node) : Prop := label_ok_pre (nseg n).

Theorem labels_reachable : forall name ic trace hist,
  all_nodes node_label_ok (troot (fold_left tstep hist (new_tree name ic trace))).
Proof.
  intros name ic trace hist.
  destruct (inv_reachable label_ok_pre new_segment_label_pre name ic trace hist) as [Ha _].
  revert Ha. apply all_nodes_impl. intros m Hm. exact (proj2 Hm).
Qed.

(* ================================================================ Part C : the text of a match *)

(* what one label consumed of the request path *)
Definition piece_ok (c : node) (piece : bytes) : Prop :=
  match styp (nseg c) with
  | TString => piece = sval (nseg c)
  | _ => seg_wf (nseg c) -> exists v, piece = v ++ ssuffix (nseg c) /\ smatch (nseg c) v = true
  end.

Lemma seg_match_piece : forall seg path ps rest ps',
  seg_match seg path ps = Some (rest, ps') ->
  exists piece, path = piece ++ rest /\
    match styp seg with
    | TString => piece = sval seg
    | _ => seg_wf seg -> exists v, piece = v ++ ssuffix seg /\ smatch seg v = true
    end.
Proof.
  intros seg path ps rest ps' H. apply seg_match_cases in H.
  destruct H as [[T [Hp _]] | [T [v [Hm [_ Hc]]]]].
  - exists (sval seg). rewrite T. now split.
  - assert (G : exists piece, path = piece ++ rest /\
                 (seg_wf seg -> exists v, piece = v ++ ssuffix seg /\ smatch seg v = true)).
    { destruct Hc as [[Hr [Hv He]] | [_ [_ F]]].
      - subst rest v. exists path. split; [now rewrite app_nil_r|]. intro Hwf.
        assert (Hs : ssuffix seg = []).
        { destruct He as [He | [_ He]]; [now apply Hwf | exact He]. }
        exists path. rewrite Hs, app_nil_r. now split.
      - apply find_split_shortest in F. destruct F as [Hp _].
        exists (v ++ ssuffix seg). split; [now rewrite <- app_assoc|].
        intros _. exists v. now split. }
    destruct G as [piece [Hp Hk]]. exists piece. split; [exact Hp|].
    destruct (styp seg); [congruence | exact Hk | exact Hk | exact Hk].
Qed.

(* the chain of nodes walked, with any property [P] that holds of all nodes below [n] *)
Lemma walk_pattern_gen : forall (P : node -> Prop) n path ps r ps',
  all_nodes P n -> all_nodes pat_ok n -> walk n path ps r ps' ->
  exists chain : list node, Forall P chain /\
    npat r = npat n ++ concat (map (fun c => sval (nseg c)) chain) /\
    exists pieces : list bytes, length pieces = length chain /\ path = concat pieces /\
      Forall2 piece_ok chain pieces.
Proof.
  intros P n path ps r ps' HP Hn W.
  induction W as [n ps Hs | n ch path ps path1 ps1 r ps' Ich SM W IH].
  - exists []. split; [constructor|]. split; [simpl; now rewrite app_nil_r|]. exists [].
    split; [reflexivity|]. split; [reflexivity | constructor].
  - pose proof (all_nodes_here _ _ Hn ch Ich) as Pch.
    destruct (IH (all_nodes_child _ _ _ HP Ich) (all_nodes_child _ _ _ Hn Ich))
      as [chain [HPc [Hp [pieces [Hl [Hpath HF]]]]]].
    destruct (seg_match_piece _ _ _ _ _ SM) as [piece [Hpp Hpk]].
    exists (ch :: chain). split; [constructor; [exact (all_nodes_here _ _ (all_nodes_child _ _ _ HP Ich)) | exact HPc]|].
    split.
    + rewrite Hp, Pch. cbn [map concat]. now rewrite <- app_assoc.
    + exists (piece :: pieces). split; [simpl; now rewrite Hl|].
      split; [cbn [concat]; now rewrite <- Hpath|]. constructor; [exact Hpk | exact HF].
Qed.

Theorem walk_pattern : forall n path ps r ps', all_nodes pat_ok n -> walk n path ps r ps' ->
  exists chain : list node, npat r = npat n ++ concat (map (fun c => sval (nseg c)) chain) /\
    exists pieces : list bytes, length pieces = length chain /\ path = concat pieces /\
      Forall2 (fun c piece => match styp (nseg c) with
                              | TString => piece = sval (nseg c)
                              | _ => seg_wf (nseg c) ->
                                     exists v, piece = v ++ ssuffix (nseg c) /\ smatch (nseg c) v = true
                              end) chain pieces.
Proof.
  intros n path ps r ps' Hn W.
  destruct (walk_pattern_gen pat_ok _ _ _ _ _ Hn Hn W) as [chain [_ [Hp Hrest]]].
  exists chain. split; [exact Hp | exact Hrest].
Qed.

(* the full reading of a successful dispatch on a reached tree: the walk itself, the pattern
   as the concatenation of the labels walked, the shape of every label, the path as the
   concatenation of what every label consumed *)
Theorem dispatch_text_strong : forall name ic trace hist method path n h ps ok,
  let t := fold_left tstep hist (new_tree name ic trace) in
  tree_handler t method path [] = HFound ok (Some n) h ps ->
  ttrace t = None \/ method <> TRACE -> path <> bs "*" -> path <> [] ->
  all_nodes idx_lit (troot t) -> all_nodes names_fresh_at (troot t) ->
  walk (troot t) path [] n ps /\
  exists chain pieces, npat n = concat (map (fun c => sval (nseg c)) chain) /\
    path = concat pieces /\ length pieces = length chain /\
    Forall node_label_ok chain /\ Forall2 piece_ok chain pieces.
Proof.
  intros name ic trace hist method path n h ps ok t H Htr Hstar Hnil H1 H2.
  destruct (pat_reachable name ic trace hist) as [Ha Hp]. fold t in Ha, Hp.
  pose proof (labels_reachable name ic trace hist) as Hlab. fold t in Hlab.
  unfold tree_handler in H.
  assert (TH : match ttrace t with
               | Some h0 => if beqb method TRACE then Some h0 else None
               | None => None end = None).
  { destruct Htr as [->|Hm]; [reflexivity|]. destruct (ttrace t); [|reflexivity].
    apply beqb_neq in Hm. now rewrite Hm. }
  rewrite TH in H. apply beqb_neq in Hstar, Hnil. rewrite Hstar, Hnil in H. cbn [orb] in H.
  destruct (match_children (tree_fuel t) (troot t) path []) as [r ps1|ps1|s] eqn:MC; try discriminate H.
  assert (Hr : r = n /\ ps1 = ps).
  { destruct (Nat.eqb (nsize r) 0); [discriminate H|].
    destruct (lookup_handler method (nhandlers r)); [injection H as _ -> _ ->; now split|].
    destruct (alookup M405 (nhandlers r)); [injection H as _ -> _ ->; now split | discriminate H]. }
  destruct Hr as [-> ->].
  destruct (match_children_sound_partial _ _ _ _ _ _ H1 H2 MC) as [ps0 [Hsub W]].
  apply sub_params_nil in Hsub. subst ps0. split; [exact W|].
  destruct (walk_pattern_gen _ _ _ _ _ _ Hlab Ha W) as [chain [HL [Hpat [pieces [Hl [Hpath HF]]]]]].
  exists chain, pieces. rewrite Hp in Hpat. split; [exact Hpat|]. split; [exact Hpath|].
  split; [exact Hl|]. split; [exact HL | exact HF].
Qed.

Theorem dispatch_text : forall name ic trace hist method path n h ps ok,
  tree_handler (fold_left tstep hist (new_tree name ic trace)) method path [] = HFound ok (Some n) h ps ->
  method <> TRACE -> path <> bs "*" -> path <> [] ->
  all_nodes idx_lit (troot (fold_left tstep hist (new_tree name ic trace))) ->
  all_nodes names_fresh_at (troot (fold_left tstep hist (new_tree name ic trace))) ->
  exists chain pieces, npat n = concat (map (fun c => sval (nseg c)) chain) /\
    path = concat pieces /\ length pieces = length chain.
Proof.
  intros name ic trace hist method path n h ps ok H Hm Hstar Hnil H1 H2.
  destruct (dispatch_text_strong name ic trace hist method path n h ps ok H (or_intror Hm) Hstar Hnil H1 H2)
    as [_ [chain [pieces [Hp [Hpath [Hl _]]]]]].
  exists chain, pieces. split; [exact Hp|]. split; [exact Hpath | exact Hl].
Qed.

(* ================================================================ examples *)

Definition ex_hist : list top :=
  [OAdd (bs "/posts/{id}/author") (HUser (bs "author")) [] [GET];
   OAdd (bs "/posts/{id:\d+}.html") (HUser (bs "html")) [] [GET]].
Definition ex_tree : tree := fold_left tstep ex_hist (new_tree (bs "r") [] false).

Example ex_dispatch_author :
  match tree_handler ex_tree GET (bs "/posts/5/author") [] with
  | HFound true (Some n) h ps =>
    npat n = bs "/posts/{id}/author" /\ ps = [(bs "id", bs "5")] /\ h = HUser (bs "author")
  | _ => False
  end.
Proof. vm_compute. repeat split. Qed.

Example ex_dispatch_html :
  match tree_handler ex_tree GET (bs "/posts/5.html") [] with
  | HFound true (Some n) h ps =>
    npat n = bs "/posts/{id:\d+}.html" /\ ps = [(bs "id", bs "5")] /\ h = HUser (bs "html")
  | _ => False
  end.
Proof. vm_compute. repeat split. Qed.

(* a sufficient boolean check of the two side conditions: no first-byte index anywhere, and a
   node that writes a parameter is a leaf *)
Fixpoint side_ok (fuel : nat) (n : node) : bool :=
  match fuel with
  | O => false
  | S f =>
    match nindexes n with [] => true | _ => false end &&
    (negb (seg_sets (nseg n)) || match nchildren n with [] => true | _ => false end) &&
    forallb (side_ok f) (nchildren n)
  end.

Lemma side_ok_sound : forall fuel n, side_ok fuel n = true ->
  all_nodes idx_lit n /\ all_nodes names_fresh_at n.
Proof.
  induction fuel as [|f IH]; intros n H; [discriminate|]. cbn [side_ok] in H.
  apply andb_true_iff in H. destruct H as [H Hc]. apply andb_true_iff in H. destruct H as [Hi Hl].
  rewrite forallb_forall in Hc.
  split; constructor; try (intros ch Ich; exact (proj1 (IH _ (Hc _ Ich))) || exact (proj2 (IH _ (Hc _ Ich)))).
  - intros b ch Hne. destruct (nindexes n); [now elim Hne | discriminate Hi].
  - intros Hs d Hd. rewrite Hs in Hl. cbn [negb orb] in Hl.
    destruct (nchildren n) eqn:C; [|discriminate Hl].
    inversion Hd as [n0 c0 I0|n0 c0 d0 I0 _]; subst; rewrite C in I0; destruct I0.
Qed.

Example ex_side : all_nodes idx_lit (troot ex_tree) /\ all_nodes names_fresh_at (troot ex_tree).
Proof. apply (side_ok_sound 4). vm_compute. reflexivity. Qed.

Example ex_pat_ok : tree_pat_ok ex_tree.
Proof. exact (pat_reachable (bs "r") [] false ex_hist). Qed.

(* the dispatch theorem applied to the concrete history *)
Example ex_dispatch_text : forall n h ps ok,
  tree_handler ex_tree GET (bs "/posts/5/author") [] = HFound ok (Some n) h ps ->
  exists chain pieces, npat n = concat (map (fun c => sval (nseg c)) chain) /\
    bs "/posts/5/author" = concat pieces /\ length pieces = length chain.
Proof.
  intros n h ps ok H.
  refine (dispatch_text (bs "r") [] false ex_hist GET _ n h ps ok H _ _ _ (proj1 ex_side) (proj2 ex_side));
    intro E; vm_compute in E; discriminate E.
Qed.
