(* C03 (frame / non-interference half): "removing or cleaning routes never changes the handling
   of a request that was previously dispatched to a different route or method", on every tree
   reached by a history of registrations, removals, cleans and middleware applications whose
   registered patterns are accepted by the specification's tokenizer ([hist_tokens]).
   - Part 0: a new invariant of reachable trees, [sync]: the first-byte index of every node IS
     [build_indexes] of its children (it is only ever rebuilt from scratch or kept when the labels
     of the children are kept);
   - Part 1: with [sync] and the invariants of TreeLit / TreeOrder / TreeNames the indexed search
     is the plain ordered scan of all the children ([mc_full]);
   - Part 2: a simulation between the search on a node and on a "shrunk" image of it ([shr]:
     children only disappear - when nothing that must be kept can be found below them - or are
     shrunk themselves; handlers change only as allowed by [hrel]);
   - Part 3: [remove_in] and [clean_in] produce shrunk images;
   - Part 4: the frame theorems.
   Theorems are re-exported by Props/C03frame.v. *)
From Coq Require Import String.
From Mux Require Import Model.Bytes Model.Regex Model.Context Model.Syntax Model.Tree
  Proofs.BytesFacts Proofs.MatchSound Proofs.TreeSafe Proofs.TreeOrder Proofs.MatchOrder.
From Mux Require Spec.Table Proofs.TreeText Proofs.TreeNames Proofs.TokensSplit Proofs.TreeFind Proofs.TreeLit.

Local Open Scope nat_scope.

(* ================================================================ Part 0 : the index is in sync *)

Definition sync (n : node) : Prop := build_indexes (nchildren n) = Ok (nindexes n).
Definition syn (n : node) : Prop := all_nodes sync n.

Lemma bif_ext : forall c c' i acc, map nseg c = map nseg c' ->
  build_indexes_from c i acc = build_indexes_from c' i acc.
Proof.
  induction c as [|x c IH]; intros c' i acc E; destruct c' as [|x' c']; try discriminate E; [reflexivity|].
  cbn [map] in E. injection E as Ex Ec. cbn [build_indexes_from]. rewrite <- Ex.
  destruct (styp (nseg x)); try (apply IH; exact Ec).
  destruct (sval (nseg x)); [reflexivity | apply IH; exact Ec].
Qed.

Lemma build_indexes_ext : forall c c', map nseg c = map nseg c' -> build_indexes c = build_indexes c'.
Proof.
  intros c c' E. unfold build_indexes.
  assert (L : length c = length c').
  { rewrite <- (map_length nseg c), E. apply map_length. }
  rewrite L, (bif_ext c c' 0 [] E). reflexivity.
Qed.

Lemma sync_ext : forall n n', map nseg (nchildren n') = map nseg (nchildren n) ->
  nindexes n' = nindexes n -> sync n -> sync n'.
Proof.
  intros n n' Ec Ex H. unfold sync in *. now rewrite (build_indexes_ext _ _ Ec), Ex.
Qed.

Lemma sync_build : forall n cs ix, build_indexes cs = Ok ix -> sync (set_children n cs ix).
Proof.
  intros n cs ix B. unfold sync. now rewrite nchildren_set_children, nindexes_set_children.
Qed.

Lemma syn_set_children : forall n cs ix, sync (set_children n cs ix) ->
  (forall ch, In ch cs -> syn ch) -> syn (set_children n cs ix).
Proof.
  intros n cs ix Ho Hc. apply all_nodes_intro; [exact Ho|].
  rewrite nchildren_set_children. exact Hc.
Qed.

Lemma syn_same_children : forall n n', syn n -> nchildren n' = nchildren n ->
  nindexes n' = nindexes n -> syn n'.
Proof.
  intros n n' Hn Hc Hx. apply all_nodes_intro.
  - apply (sync_ext n); [now rewrite Hc | exact Hx | now apply all_nodes_here].
  - rewrite Hc. intros ch Ich. now apply (all_nodes_child _ n).
Qed.

Lemma syn_set_handlers : forall n hs i, syn n -> syn (set_handlers n hs i).
Proof.
  intros n hs i Hn.
  apply (syn_same_children n); [exact Hn | apply nchildren_set_handlers | apply nindexes_set_handlers].
Qed.

Lemma syn_set_seg : forall n sg, syn n -> syn (set_seg n sg).
Proof.
  intros n sg Hn.
  apply (syn_same_children n); [exact Hn | apply nchildren_set_seg | apply nindexes_set_seg].
Qed.

Lemma syn_leaf : forall sg p i hs, syn (Node sg p i hs [] []).
Proof.
  intros sg p i hs. apply all_nodes_intro; [reflexivity | intros ch []].
Qed.

Lemma map_nseg_replace : forall (l : list node) i ch',
  (forall ch, nth_error l i = Some ch -> nseg ch' = nseg ch) ->
  map nseg (replace_nth i ch' l) = map nseg l.
Proof.
  induction l as [|x l IHl]; intros i ch' H; [now destruct i|].
  destruct i as [|i]; cbn [replace_nth map].
  - f_equal. now apply H.
  - f_equal. apply IHl. intros ch Hn. now apply H.
Qed.

Lemma syn_replace : forall n i ch', syn n -> syn ch' ->
  (forall ch, nth_error (nchildren n) i = Some ch -> nseg ch' = nseg ch) ->
  syn (set_children n (replace_nth i ch' (nchildren n)) (nindexes n)).
Proof.
  intros n i ch' Hn Hc Hseg. apply syn_set_children.
  - apply (sync_ext n); [| apply nindexes_set_children | now apply all_nodes_here].
    rewrite nchildren_set_children. now apply map_nseg_replace.
  - intros x Ix. apply In_replace_nth in Ix. destruct Ix as [->|Ix]; [exact Hc|].
    now apply (all_nodes_child _ n).
Qed.

Lemma syn_build : forall n cs ix, build_indexes cs = Ok ix -> (forall ch, In ch cs -> syn ch) ->
  syn (set_children n cs ix).
Proof. intros n cs ix B Hc. apply syn_set_children; [now apply sync_build | exact Hc]. Qed.

Lemma syn_sort : forall n keyed n', (forall ch, In ch (map snd keyed) -> syn ch) ->
  sort_node n keyed = Ok n' -> syn n'.
Proof.
  intros n keyed n' Hc H. apply sort_node_inv in H. destruct H as [ix [B ->]].
  apply syn_build; [exact B|]. intros ch Ich. apply Hc. now apply In_ssort.
Qed.

Definition syn_k (k : node -> res node) : Prop :=
  forall ch ch', syn ch -> k ch = Ok ch' -> syn ch' /\ nseg ch' = nseg ch.

Lemma add_segment_syn : forall fuel ic n seg k n', syn n -> syn_k k ->
  add_segment fuel ic n seg k = Ok n' -> syn n' /\ nseg n' = nseg n.
Proof.
  induction fuel as [|f IH]; intros ic n seg k n' Hn Hk H; [discriminate|].
  rewrite add_segment_S in H. cbv zeta in H.
  destruct (scan_sim seg (nchildren n) 0 None) as [[i|] best] eqn:SC.
  - destruct (nth_error (nchildren n) i) as [ch|] eqn:NTH; [|discriminate].
    apply bind_ok in H. destruct H as [ch' [K H]]. injection H as <-.
    assert (Hch : syn ch).
    { apply (all_nodes_child _ n); [exact Hn | now apply (nth_error_In _ i)]. }
    destruct (Hk ch ch' Hch K) as [Hch' Hseg].
    split; [|apply nseg_set_children].
    apply syn_replace; [exact Hn | exact Hch' |].
    intros ch0 E. rewrite NTH in E. injection E as <-. exact Hseg.
  - destruct best as [[i l]|].
    + destruct (nth_error (nchildren n) i) as [ch|] eqn:NTH; [|discriminate].
      assert (Hch : syn ch).
      { apply (all_nodes_child _ n); [exact Hn | now apply (nth_error_In _ i)]. }
      assert (Hcont : syn_k (cont_of f ic seg (Z.to_nat l) k)).
      { intros p p' Hp Hc. unfold cont_of in Hc.
        destruct (Nat.eqb (length (sval seg)) (Z.to_nat l)); [now apply (Hk p p')|].
        apply bind_ok in Hc. destruct Hc as [rest [_ Hc]].
        apply bind_ok in Hc. destruct Hc as [s [_ Hc]].
        exact (IH ic p s k p' Hp Hk Hc). }
      destruct (Nat.leb (length (sval (nseg ch))) (Z.to_nat l)).
      * apply bind_ok in H. destruct H as [ch' [K H]]. injection H as <-.
        destruct (Hcont ch ch' Hch K) as [Hch' Hseg].
        split; [|apply nseg_set_children].
        apply syn_replace; [exact Hn | exact Hch' |].
        intros ch0 E. rewrite NTH in E. injection E as <-. exact Hseg.
      * apply bind_ok in H. destruct H as [[s1 s2] [_ H]].
        apply bind_ok in H. destruct H as [ret [SR H]].
        apply bind_ok in H. destruct H as [ret' [K H]].
        assert (Hret : syn ret).
        { apply (syn_sort _ _ ret) in SR; [exact SR|].
          intros x Ix. rewrite map_snd_with_prio in Ix. destruct Ix as [<-|[]].
          now apply syn_set_seg. }
        destruct (Hcont ret ret' Hret K) as [Hret' Hseg].
        split; [|exact (sort_node_nseg _ _ _ H)].
        apply (syn_sort _ _ n') in H; [exact H|].
        intros x Ix. apply In_keyed_app in Ix. destruct Ix as [Ix| ->]; [|exact Hret'].
        apply In_remove_nth in Ix. now apply (all_nodes_child _ n).
    + apply bind_ok in H. destruct H as [nn' [K H]].
      destruct (Hk (new_node n seg) nn' (syn_leaf _ _ _ _) K) as [Hnn' Hseg].
      split; [|exact (sort_node_nseg _ _ _ H)].
      apply (syn_sort _ _ n') in H; [exact H|].
      intros x Ix. apply In_keyed_app in Ix. destruct Ix as [Ix| ->]; [|exact Hnn'].
      now apply (all_nodes_child _ n).
Qed.

Lemma get_node_syn : forall segs fuel ic n upd n', syn n -> syn_k upd ->
  get_node fuel ic n segs upd = Ok n' -> syn n' /\ nseg n' = nseg n.
Proof.
  induction segs as [|seg rest IH]; intros fuel ic n upd n' Hn Hk H; simpl in H; [discriminate|].
  destruct rest as [|seg2 rest].
  - exact (add_segment_syn _ _ _ _ _ _ Hn Hk H).
  - apply (add_segment_syn _ _ _ _ _ _ Hn) in H; [exact H|].
    intros ch ch' Hch Hc. exact (IH fuel ic ch upd ch' Hch Hk Hc).
Qed.

Lemma add_methods_syn : forall trace router h pattern mws ms,
  syn_k (add_methods trace router h pattern mws ms).
Proof.
  intros trace router h pattern mws ms n n' Hn H. unfold add_methods in H.
  apply bind_ok in H. destruct H as [u [_ H]]. injection H as <-.
  split; [now apply syn_set_handlers | apply nseg_set_handlers].
Qed.

Definition tree_sync (t : tree) : Prop := syn (troot t).

Lemma tree_build_methods_syn : forall t root num ms, syn root ->
  tree_sync (tree_build_methods t root num ms).
Proof.
  intros t root num ms Hr. unfold tree_sync, tree_build_methods. cbn [troot].
  now apply syn_set_handlers.
Qed.

Lemma sync_new_tree : forall name ic trace, tree_sync (new_tree name ic trace).
Proof.
  intros name ic trace. unfold new_tree. apply tree_build_methods_syn. apply syn_leaf.
Qed.

Lemma sync_add : forall t p h mws ms t', tree_sync t -> tree_add t p h mws ms = Ok t' -> tree_sync t'.
Proof.
  intros t p h mws ms t' Hall H. unfold tree_add in H.
  apply bind_ok in H. destruct H as [amb [_ H]].
  assert (H' : (do segs <- split (tic t) p;
                do _ <- check_methods (has_trace t)
                  (match find (tree_fuel t + length p + 2) (troot t) p with
                   | Some n => nhandlers n | None => [] end) []
                  (match ms with [] => any_methods | _ => ms end);
                do root' <- get_node (tree_fuel t + length p + 2) (tic t) (troot t) segs
                  (add_methods (has_trace t) (tname t) h p mws (match ms with [] => any_methods | _ => ms end));
                Ok (tree_build_methods t root' 1 (match ms with [] => any_methods | _ => ms end))) = Ok t').
  { destruct amb as [[p0 [|]]|]; [discriminate | exact H | exact H]. }
  clear H. apply bind_ok in H'. destruct H' as [segs [_ H]].
  apply bind_ok in H. destruct H as [u [_ H]].
  apply bind_ok in H. destruct H as [root' [G H]]. injection H as <-.
  apply get_node_syn in G; [|exact Hall|apply add_methods_syn].
  apply tree_build_methods_syn. exact (proj1 G).
Qed.

Lemma remove_at_node_syn : forall trace ms n n' rm, syn n ->
  remove_at_node trace ms n = (n', rm) -> syn n' /\ nseg n' = nseg n.
Proof.
  intros trace ms n n' rm Hn H. unfold remove_at_node in H.
  destruct (match ms with [] => _ | _ => _ end) as [hs removed].
  injection H as <- _. split; [now apply syn_set_handlers | apply nseg_set_handlers].
Qed.

Lemma remove_finish_syn : forall n i ch' rm n' rm', syn n -> syn ch' ->
  (forall ch, nth_error (nchildren n) i = Some ch -> nseg ch' = nseg ch) ->
  remove_finish n i ch' rm = Ok (Some (n', rm')) -> syn n' /\ nseg n' = nseg n.
Proof.
  intros n i ch' rm n' rm' Hn Hc Hseg H. unfold remove_finish in H.
  destruct (prunable ch').
  - cbv zeta in H. apply bind_ok in H. destruct H as [ix [B H]]. injection H as <- _.
    split; [|apply nseg_set_children].
    apply syn_build; [exact B|].
    intros x Ix. apply In_remove_nth in Ix. now apply (all_nodes_child _ n).
  - injection H as <- _. split; [now apply syn_replace | apply nseg_set_children].
Qed.

Lemma remove_in_syn : forall fuel trace ms n pattern n' rm, syn n ->
  remove_in fuel trace ms n pattern = Ok (Some (n', rm)) -> syn n' /\ nseg n' = nseg n.
Proof.
  induction fuel as [|f IH]; intros trace ms n pattern n' rm Hn H; [discriminate|].
  rewrite remove_in_S in H.
  assert (Hgo : forall c i,
            (forall j ch, nth_error c j = Some ch -> nth_error (nchildren n) (i + j) = Some ch) ->
            remove_go f trace ms n pattern c i = Ok (Some (n', rm)) ->
            syn n' /\ nseg n' = nseg n).
  { induction c as [|ch c IHc]; intros i Hc G; simpl in G; [discriminate|].
    assert (Hpos : nth_error (nchildren n) i = Some ch).
    { rewrite <- (Nat.add_0_r i). now apply Hc. }
    assert (Hch : syn ch).
    { apply (all_nodes_child _ n); [exact Hn | now apply (nth_error_In _ i)]. }
    assert (Hc' : forall j x, nth_error c j = Some x -> nth_error (nchildren n) (S i + j) = Some x).
    { intros j x Hj. replace (S i + j) with (i + S j) by lia. now apply Hc. }
    assert (Hfin : forall ch' removed, syn ch' /\ nseg ch' = nseg ch ->
              remove_finish n i ch' removed = Ok (Some (n', rm)) -> syn n' /\ nseg n' = nseg n).
    { intros ch' removed [Ho Hs] F. apply (remove_finish_syn _ _ _ _ _ _ Hn Ho) in F; [exact F|].
      intros ch0 E. rewrite Hpos in E. injection E as <-. exact Hs. }
    destruct (beqb (sval (nseg ch)) pattern).
    - destruct (remove_at_node trace ms ch) as [ch' removed] eqn:RA.
      apply (Hfin ch' removed); [|exact G].
      exact (remove_at_node_syn _ _ _ _ _ Hch RA).
    - destruct (has_prefix pattern (sval (nseg ch))); [|now apply (IHc (S i))].
      apply bind_ok in G. destruct G as [r [R G]].
      destruct r as [[ch' removed]|]; [|now apply (IHc (S i))].
      apply (Hfin ch' removed); [|exact G].
      exact (IH _ _ _ _ _ _ Hch R). }
  apply (Hgo (nchildren n) O); [|exact H].
  intros j ch Hj. exact Hj.
Qed.

Lemma sync_remove : forall t p ms t', tree_sync t -> tree_remove t p ms = Ok t' -> tree_sync t'.
Proof.
  intros t p ms t' Hall H. unfold tree_remove in H.
  apply bind_ok in H. destruct H as [r [R H]].
  destruct r as [[root' removed]|].
  - injection H as <-. apply remove_in_syn in R; [|exact Hall].
    apply tree_build_methods_syn. exact (proj1 R).
  - injection H as <-. exact Hall.
Qed.

Lemma clean_in_syn : forall fuel n prefix n', syn n ->
  clean_in fuel n prefix = Ok n' -> syn n' /\ nseg n' = nseg n.
Proof.
  induction fuel as [|f IH]; intros n prefix n' Hn H; [discriminate|].
  rewrite clean_in_S in H.
  destruct prefix as [|b prefix].
  - injection H as <-. split; [|apply nseg_set_children].
    apply syn_build; [reflexivity | intros ch []].
  - remember (b :: prefix) as pf eqn:Epf. clear Epf.
    assert (Hgo : forall c cs, (forall ch, In ch c -> syn ch) ->
              clean_go f pf c = Ok cs -> forall x, In x cs -> syn x).
    { induction c as [|ch c IHc]; intros cs Hc G; simpl in G.
      - injection G as <-. intros x [].
      - assert (Hch : syn ch) by (apply Hc; now left).
        assert (Hc' : forall y, In y c -> syn y) by (intros y Iy; apply Hc; now right).
        apply bind_ok in G. destruct G as [ch' [C G]].
        apply bind_ok in G. destruct G as [rest [R G]].
        assert (Hch' : syn ch').
        { destruct (Nat.ltb (length (sval (nseg ch))) (length pf) && has_prefix pf (sval (nseg ch))).
          - exact (proj1 (IH _ _ _ Hch C)).
          - injection C as <-. exact Hch. }
        destruct (has_prefix (sval (nseg ch)) pf); injection G as <-.
        + exact (IHc rest Hc' R).
        + intros x [<-|Ix]; [exact Hch' | exact (IHc rest Hc' R x Ix)]. }
    apply bind_ok in H. destruct H as [cs [G H]].
    apply bind_ok in H. destruct H as [ix [B H]]. injection H as <-.
    split; [|apply nseg_set_children].
    apply syn_build; [exact B|]. apply (Hgo (nchildren n) cs); [|exact G].
    intros ch Ich. now apply (all_nodes_child _ n).
Qed.

Lemma sync_clean : forall t prefix t', tree_sync t -> tree_clean t prefix = Ok t' -> tree_sync t'.
Proof.
  intros t prefix t' Hall H. unfold tree_clean in H.
  apply bind_ok in H. destruct H as [root' [C H]]. injection H as <-.
  apply clean_in_syn in C; [|exact Hall].
  apply tree_build_methods_syn. exact (proj1 C).
Qed.

Lemma apply_mw_node_syn : forall fuel router mws n, syn n -> syn (apply_mw_node fuel router mws n).
Proof.
  induction fuel as [|f IH]; intros router mws n Hn; [exact Hn|].
  pose proof (all_nodes_here _ _ Hn) as Ho.
  destruct n as [s p i h x c]. simpl. apply all_nodes_intro.
  - apply (sync_ext (Node s p i h x c)); [|reflexivity|exact Ho].
    simpl. rewrite map_map. apply map_ext.
    intro ch. now rewrite apply_mw_node_nseg.
  - simpl. intros ch Ich. apply in_map_iff in Ich. destruct Ich as [ch0 [<- Ich]].
    apply IH. apply (all_nodes_child _ _ _ Hn). exact Ich.
Qed.

Lemma sync_use : forall t mws, tree_sync t -> tree_sync (tree_apply_mw t mws).
Proof.
  intros t mws Hall. unfold tree_sync, tree_apply_mw. cbn [troot].
  now apply apply_mw_node_syn.
Qed.

Lemma tstep_sync : forall t op, tree_sync t -> tree_sync (tstep t op).
Proof.
  intros t op Ht. destruct op as [p h mws ms|p ms|prefix|mws]; simpl.
  - destruct (tree_add t p h mws ms) as [t'|e|s0|] eqn:E; simpl; try exact Ht.
    exact (sync_add _ _ _ _ _ _ Ht E).
  - destruct (tree_remove t p ms) as [t'|e|s0|] eqn:E; simpl; try exact Ht.
    exact (sync_remove _ _ _ _ Ht E).
  - destruct (tree_clean t prefix) as [t'|e|s0|] eqn:E; simpl; try exact Ht.
    exact (sync_clean _ _ _ Ht E).
  - now apply sync_use.
Qed.

Lemma hist_sync : forall hist t, tree_sync t -> tree_sync (fold_left tstep hist t).
Proof.
  induction hist as [|op hist IH]; intros t Ht; simpl; [exact Ht|].
  apply IH. now apply tstep_sync.
Qed.

(* the index of every node of every reachable tree is [build_indexes] of its children *)
Theorem sync_reachable : forall name ic trace hist,
  all_nodes sync (troot (fold_left tstep hist (new_tree name ic trace))).
Proof. intros name ic trace hist. apply hist_sync, sync_new_tree. Qed.

(* ================================================================ Part 1 : the indexed search is the ordered scan *)

Notation good := TreeLit.good.
Notation heads := TreeLit.heads.

(* the local invariants of a node of a reachable tree used below *)
Definition inv1 (ic : icpts) (n : node) : Prop :=
  order_ok n /\ good ic n /\ sync n /\ idx_ok n /\ names_fresh_at n.
Definition INV (ic : icpts) (n : node) : Prop := all_nodes (inv1 ic) n.

Lemma INV_idx_lit : forall ic n, INV ic n -> all_nodes idx_lit n.
Proof.
  intros ic n H. apply (all_nodes_impl (inv1 ic) idx_lit); [|exact H].
  intros m Hm. apply order_ok_idx_lit. exact (proj1 Hm).
Qed.

Lemma INV_child : forall ic n c, INV ic n -> In c (nchildren n) -> INV ic c.
Proof. intros ic n c H I. exact (all_nodes_child _ n c H I). Qed.

(* children sorted by kind: the literal ones come first *)
Lemma kind_split : forall cs, nsorted (ranks cs) ->
  exists lits rest, cs = lits ++ rest /\ (forall x, In x lits -> is_lit x = true) /\
    (forall x, In x rest -> is_lit x = false).
Proof.
  induction cs as [|a cs IH]; intro Hs.
  - exists [], []. split; [reflexivity|]. split; intros x [].
  - destruct Hs as [Ha Hs]. destruct (is_lit a) eqn:La.
    + destruct (IH Hs) as [lits [rest [E [Hl Hr]]]]. exists (a :: lits), rest.
      split; [now rewrite E|]. split; [|exact Hr]. intros x [<-|Ix]; [exact La | now apply Hl].
    + exists [], (a :: cs). split; [reflexivity|]. split; [intros x []|].
      intros x [<-|Ix]; [exact La|].
      destruct (is_lit x) eqn:Lx; [|reflexivity]. exfalso.
      apply is_lit_rk in Lx.
      assert (Hle : rk a <= rk x) by (apply Ha; unfold ranks; now apply in_map).
      assert (Ha0 : rk a = 0) by lia. apply is_lit_rk in Ha0. congruence.
Qed.

Lemma idx_set_keys_fresh : forall l k v, ~ In k (map fst l) ->
  map fst (idx_set k v l) = map fst l ++ [k].
Proof.
  induction l as [|[k' v'] l IH]; intros k v H; [reflexivity|].
  cbn [idx_set]. destruct (N.eqb_spec k k') as [->|Nk]; [elim H; now left|].
  cbn [map fst app]. f_equal. apply IH. intro I. apply H. now right.
Qed.

Lemma bif_keys : forall c i acc ix, build_indexes_from c i acc = Some ix ->
  NoDup (map fst acc ++ heads c) -> map fst ix = map fst acc ++ heads c.
Proof.
  induction c as [|x c IH]; intros i acc ix H ND; cbn [build_indexes_from] in H.
  - injection H as <-. cbn. now rewrite app_nil_r.
  - rewrite TreeLit.heads_cons in *. unfold TreeLit.hd1, TreeNames.isparam in *.
    destruct (styp (nseg x)) eqn:T; cbn [stype_eqb stype_rank Nat.eqb negb app] in *;
      try (now apply (IH _ _ _ H)).
    destruct (sval (nseg x)) as [|b r]; [discriminate H|]. cbn [app] in *.
    assert (Nb : ~ In b (map fst acc)).
    { intro I. apply NoDup_remove_2 in ND. apply ND. apply in_or_app. now left. }
    rewrite (IH _ _ _ H); rewrite (idx_set_keys_fresh acc b i Nb), <- app_assoc; [reflexivity | exact ND].
Qed.

Lemma heads_all_lit : forall l, (forall x, In x l -> is_lit x = true /\ sval (nseg x) <> []) ->
  length (heads l) = length l.
Proof.
  induction l as [|x l IH]; intro H; [reflexivity|]. rewrite TreeLit.heads_cons, app_length.
  destruct (H x (or_introl eq_refl)) as [L Hne].
  destruct (sval (nseg x)) as [|b r] eqn:S; [now elim Hne|].
  rewrite (TreeLit.hd1_lit x b r L S). cbn [length Nat.add]. f_equal. apply IH. intros y Iy. apply H. now right.
Qed.

Lemma heads_no_lit : forall l, (forall x, In x l -> is_lit x = false) -> heads l = [].
Proof.
  induction l as [|x l IH]; intro H; [reflexivity|]. rewrite TreeLit.heads_cons.
  rewrite IH by (intros y Iy; apply H; now right). rewrite app_nil_r.
  unfold TreeLit.hd1. pose proof (H x (or_introl eq_refl)) as L.
  rewrite TreeLit.is_lit_isparam in L. apply negb_false_iff in L. now rewrite L.
Qed.

(* the shape of the children and of the index of a node of a reachable tree *)
Lemma node_shape : forall ic n, inv1 ic n ->
  exists lits rest, nchildren n = lits ++ rest /\
    (forall x, In x lits -> is_lit x = true /\ sval (nseg x) <> []) /\
    (forall x, In x rest -> is_lit x = false) /\
    (nindexes n = [] \/ (length (nindexes n) = length lits /\ lits <> [])).
Proof.
  intros ic n [Ho [Hg [Hs _]]].
  destruct (proj1 (order_ok_iff n) Ho) as [Hsort _].
  destruct (kind_split _ Hsort) as [lits [rest [E [Hl Hr]]]].
  exists lits, rest. split; [exact E|].
  assert (Hl' : forall x, In x lits -> is_lit x = true /\ sval (nseg x) <> []).
  { intros x Ix. split; [now apply Hl|].
    apply (TreeLit.good_lit_nonempty_all ic n Hg). rewrite E. apply in_or_app. now left. }
  split; [exact Hl'|]. split; [exact Hr|].
  unfold sync, build_indexes in Hs.
  destruct (Nat.ltb (length (nchildren n)) indexes_size); [left; now injection Hs as <-|].
  destruct (build_indexes_from (nchildren n) 0 []) as [ix|] eqn:B; [|discriminate Hs].
  injection Hs as Hs. destruct Hg as [_ [ND _]].
  pose proof (bif_keys _ _ _ _ B ND) as K. cbn [map app] in K.
  assert (Len : length (nindexes n) = length lits).
  { rewrite <- Hs, <- (map_length fst ix), K, E, TreeLit.heads_app, app_length.
    rewrite (heads_all_lit lits Hl'), (heads_no_lit rest Hr). cbn [length]. lia. }
  destruct lits as [|l0 lits]; [left | right; split; [exact Len | discriminate]].
  cbn [length] in Len. now apply length_zero_iff_nil.
Qed.

Lemma skipn_len_app : forall (A : Type) (a b : list A), skipn (length a) (a ++ b) = b.
Proof. intros A a b. induction a as [|x a IH]; [reflexivity | exact IH]. Qed.

(* giving up a child restores the parameters *)
Lemma fail_restore : forall f n c path ps p1 ps1 q, all_nodes idx_lit n -> params_fresh n ps ->
  In c (nchildren n) -> seg_match (nseg c) path ps = Some (p1, ps1) ->
  match_children f c p1 ps1 = MNone q -> ctx_delete q (sname (nseg c)) = ps.
Proof.
  intros f n c path ps p1 ps1 q Hall Hf Ic SM MC.
  assert (Hin : incl [c] (nchildren n)) by (intros x [<-|[]]; exact Ic).
  pose proof (loop_params_fresh f n path [c] ps Hall Hf Hin) as E.
  cbn [loop_params] in E. unfold step_params in E. now rewrite SM, MC in E.
Qed.

Lemma fresh_step : forall n c path ps p1 ps1, params_fresh n ps -> names_fresh_at c ->
  In c (nchildren n) -> seg_match (nseg c) path ps = Some (p1, ps1) -> params_fresh c ps1.
Proof.
  intros n c path ps p1 ps1 Hf Hn Ic SM d Dd.
  assert (Dn : desc n d) by exact (desc_step n c d Ic Dd).
  destruct (seg_match_shape _ _ _ _ _ SM) as [v [-> _]].
  destruct (seg_sets (nseg c)) eqn:Ss; [|exact (Hf d Dn)].
  unfold ctx_get, ctx_set. rewrite alookup_aset.
  destruct (beqb_spec (sname (nseg d)) (sname (nseg c))) as [E|_]; [elim (Hn Ss d Dd E)|].
  exact (Hf d Dn).
Qed.

Lemma lit_fresh_child : forall n c ps, params_fresh n ps -> In c (nchildren n) -> params_fresh c ps.
Proof. intros n c ps Hf Ic d Dd. exact (Hf d (desc_step n c d Ic Dd)). Qed.

(* the search with the first-byte index = the scan of all the children in their order *)
Lemma mc_full : forall ic f n path ps, INV ic n -> params_fresh n ps ->
  match_children (S f) n path ps = mc_loop f n path (nchildren n) ps.
Proof.
  intros ic f n path ps Hinv Hf.
  pose proof (all_nodes_here _ _ Hinv) as H1.
  pose proof (INV_idx_lit ic n Hinv) as Hil.
  destruct (node_shape ic n H1) as [lits [rest [E [Hl [Hr Hix]]]]].
  destruct H1 as [Ho [Hg [Hs [Hok Hnf]]]].
  rewrite match_children_S. cbv zeta.
  destruct (nindexes n) as [|ix0 ixs] eqn:IX; [reflexivity|].
  destruct Hix as [Hix|[Hlen Hne]]; [discriminate Hix|].
  assert (Htail : skipn (length (ix0 :: ixs)) (nchildren n) = rest).
  { rewrite Hlen, E. apply skipn_len_app. }
  rewrite Htail.
  assert (Hskip : forall b p l psx pre, incl pre lits -> ~ In b (heads pre) ->
            mc_loop f n (b :: p) (pre ++ l) psx = mc_loop f n (b :: p) l psx).
  { intros b p l psx pre Hin Nb. apply TreeLit.mc_loop_skip. intros d Id.
    destruct (Hl d (Hin d Id)) as [Ld Hd].
    destruct (sval (nseg d)) as [|b' r'] eqn:Sd; [now elim Hd|].
    apply (TreeLit.lit_no_match d b' r' b p psx Ld Sd). intros ->.
    apply Nb. exact (TreeLit.heads_In pre d b r' Id Ld Sd). }
  destruct path as [|b p].
  - rewrite E, TreeLit.mc_loop_skip; [reflexivity|].
    intros d Id. destruct (Hl d Id) as [Ld Hd]. exact (TreeLit.lit_no_match_nil d ps Ld Hd).
  - assert (Hne' : nindexes n <> []) by (rewrite IX; discriminate).
    destruct (nth_error (nchildren n) (idx_get b (ix0 :: ixs))) as [c0|] eqn:NTH.
    2:{ apply nth_error_None in NTH. specialize (Hok b Hne'). rewrite IX in Hok. lia. }
    destruct Hg as [Hlab [ND Hex]].
    destruct (in_dec N.eq_dec b (heads (nchildren n))) as [Ib|Nb].
    + (* a literal child starts with b: it is the indexed child *)
      destruct (TreeLit.In_heads _ _ Ib) as [x [r [Ix [Lx Sx]]]].
      destruct (In_nth_error _ _ Ix) as [i Hi].
      pose proof (Hex Hne' i x b r Hi Lx Sx) as Ei. rewrite IX in Ei. rewrite Ei, Hi in NTH.
      injection NTH as <-.
      assert (Ixl : In x lits).
      { rewrite E in Ix. apply in_app_or in Ix. destruct Ix as [Ix|Ix]; [exact Ix|].
        rewrite (Hr x Ix) in Lx. discriminate Lx. }
      destruct (in_split x lits Ixl) as [pre [post Elits]].
      rewrite E, Elits in ND. rewrite !TreeLit.heads_app, TreeLit.heads_cons in ND.
      rewrite (TreeLit.hd1_lit x b r Lx Sx) in ND.
      rewrite <- app_assoc in ND. cbn [app] in ND. apply NoDup_remove_2 in ND.
      assert (Npre : ~ In b (heads pre)).
      { intro I. apply ND. apply in_or_app. now left. }
      assert (Npost : ~ In b (heads post)).
      { intro I. apply ND. apply in_or_app. right. apply in_or_app. now left. }
      assert (Ipre : incl pre lits) by (intros y Iy; rewrite Elits; apply in_or_app; now left).
      assert (Ipost : incl post lits) by (intros y Iy; rewrite Elits; apply in_or_app; right; now right).
      rewrite E, Elits, <- !app_assoc. cbn [app].
      rewrite (Hskip b p _ ps pre Ipre Npre), mc_loop_cons_eq.
      destruct (seg_match (nseg x) (b :: p) ps) as [[p1 ps1]|] eqn:SM.
      * destruct (match_children f x p1 ps1) as [r0 q0|q0|s0] eqn:MC; [reflexivity| |reflexivity].
        rewrite (fail_restore f n x (b :: p) ps p1 ps1 q0 Hil Hf Ix SM MC).
        destruct (lit_seg_match _ _ _ _ _ Lx SM) as [-> _].
        rewrite (match_children_none_exact f x p1 ps q0 (all_nodes_child _ n x Hil Ix)
                   (lit_fresh_child n x ps Hf Ix) MC).
        now rewrite (Hskip b p _ ps post Ipost Npost).
      * now rewrite (Hskip b p _ ps post Ipost Npost).
    + (* no literal child starts with b: the indexed child is a literal one that does not match *)
      assert (L0 : is_lit c0 = true).
      { destruct Ho as [_ Hpt]. destruct (idx_get_In (nindexes n) b) as [Iin|E0].
        - destruct (Hpt _ _ Iin) as [ch [Hch Lch]]. rewrite IX in Hch. rewrite Hch in NTH.
          now injection NTH as <-.
        - rewrite IX in E0. rewrite E0, E in NTH. destruct lits as [|l0 lits]; [now elim Hne|].
          cbn in NTH. injection NTH as <-. exact (proj1 (Hl l0 (or_introl eq_refl))). }
      assert (I0 : In c0 (nchildren n)) by exact (nth_error_In _ _ NTH).
      assert (Nlits : ~ In b (heads lits)).
      { intro I. apply Nb. rewrite E, TreeLit.heads_app. apply in_or_app. now left. }
      assert (SM0 : seg_match (nseg c0) (b :: p) ps = None).
      { pose proof (TreeLit.good_lit_nonempty_all ic n (conj Hlab (conj ND Hex)) c0 I0) as Hd.
        destruct (sval (nseg c0)) as [|b' r'] eqn:Sd; [now elim Hd|].
        apply (TreeLit.lit_no_match c0 b' r' b p ps L0 Sd). intros ->.
        apply Nb. exact (TreeLit.heads_In _ c0 b r' I0 L0 Sd). }
      rewrite SM0, E. symmetry. apply (Hskip b p rest ps lits (incl_refl _) Nlits).
Qed.

(* ================================================================ Part 2 : shrunk images and the simulation *)

Section Sim.
Variable ic : icpts.
(* the results that must survive *)
Variable keep : node -> Prop.
(* how the handlers of the image of a node may differ *)
Variable hrel : node -> list (bytes * hterm) -> Prop.
Hypothesis hrel_refl : forall x, hrel x (nhandlers x).
Hypothesis hrel_zero : forall x hs, hrel x hs -> nsize x = 0 -> hs = [].
Hypothesis hrel_keep : forall x hs, hrel x hs -> keep x -> 0 < nsize x -> 0 < length hs.

(* nothing that must survive can be found in the subtree of c *)
Definition dead (c : node) : Prop :=
  forall f path ps r q, match_children f c path ps = MFound r q -> ~ keep r.

Inductive shr : node -> node -> Prop :=
| shr_intro : forall n n', nseg n' = nseg n -> npat n' = npat n -> hrel n (nhandlers n') ->
    subch (nchildren n) (nchildren n') -> shr n n'
with subch : list node -> list node -> Prop :=
| sub_nil : subch [] []
| sub_drop : forall c cs cs', dead c -> subch cs cs' -> subch (c :: cs) cs'
| sub_keep : forall c c' cs cs', shr c c' -> subch cs cs' -> subch (c :: cs) (c' :: cs').

Lemma shr_inv : forall n n', shr n n' ->
  nseg n' = nseg n /\ npat n' = npat n /\ hrel n (nhandlers n') /\ subch (nchildren n) (nchildren n').
Proof. intros n n' H. inversion H as [n0 n0' H1 H2 H3 H4]; subst. auto. Qed.

Lemma subch_In : forall cs cs', subch cs cs' -> forall c', In c' cs' -> exists c, In c cs /\ shr c c'.
Proof.
  intros cs cs' H. induction H as [|c cs cs' Hd Hs IH|c c' cs cs' Hc Hs IH]; intros x Ix.
  - destruct Ix.
  - destruct (IH x Ix) as [y [Iy Sy]]. exists y. split; [now right | exact Sy].
  - destruct Ix as [<-|Ix]; [exists c; split; [now left | exact Hc]|].
    destruct (IH x Ix) as [y [Iy Sy]]. exists y. split; [now right | exact Sy].
Qed.

Lemma shr_desc : forall n' d', desc n' d' -> forall n, shr n n' ->
  exists d, desc n d /\ nseg d' = nseg d.
Proof.
  intros n' d' D. induction D as [n' ch' Ich|n' ch' d' Ich D IH]; intros n S.
  - destruct (shr_inv _ _ S) as [_ [_ [_ Hs]]].
    destruct (subch_In _ _ Hs ch' Ich) as [ch [Ic Sc]]. exists ch.
    split; [now apply desc_child | exact (proj1 (shr_inv _ _ Sc))].
  - destruct (shr_inv _ _ S) as [_ [_ [_ Hs]]].
    destruct (subch_In _ _ Hs ch' Ich) as [ch [Ic Sc]].
    destruct (IH ch Sc) as [d [Dd Ed]]. exists d. split; [exact (desc_step n ch d Ic Dd) | exact Ed].
Qed.

Lemma shr_fresh : forall n n' ps, shr n n' -> params_fresh n ps -> params_fresh n' ps.
Proof.
  intros n n' ps S Hf d' D'. destruct (shr_desc _ _ D' n S) as [d [D E]]. rewrite E. exact (Hf d D).
Qed.

Lemma subch_refl : forall cs, (forall c, In c cs -> shr c c) -> subch cs cs.
Proof.
  induction cs as [|c cs IH]; intro H; [constructor|].
  apply sub_keep; [apply H; now left | apply IH; intros x Ix; apply H; now right].
Qed.

Lemma shr_refl_fuel : forall f n, height n <= f -> shr n n.
Proof.
  induction f as [|f IH]; intros n Hh; [rewrite height_eq in Hh; lia|].
  apply shr_intro; [reflexivity | reflexivity | apply hrel_refl|].
  apply subch_refl. intros c Ic. apply IH. pose proof (height_child n c Ic). lia.
Qed.

Lemma shr_refl : forall n, shr n n.
Proof. intro n. exact (shr_refl_fuel (height n) n (le_n _)). Qed.

Lemma subch_same : forall cs, subch cs cs.
Proof. intro cs. apply subch_refl. intros c _. apply shr_refl. Qed.

Lemma subch_nil_dead : forall cs cs', subch cs cs' -> cs' = [] -> forall c, In c cs -> dead c.
Proof.
  intros cs cs' H. induction H as [|c cs cs' Hd Hs IH|c c' cs cs' Hc Hs IH]; intros E x Ix.
  - destruct Ix.
  - destruct Ix as [<-|Ix]; [exact Hd | exact (IH E x Ix)].
  - discriminate E.
Qed.

(* a child whose image would be pruned hides nothing that must survive *)
Lemma prun_dead : forall c c', shr c c' -> prunable c' = true -> dead c.
Proof.
  intros c c' S P f path ps r q MC Hk.
  destruct (TreeFind.prunable_facts c' P) as [Hh Hc].
  destruct (shr_inv _ _ S) as [_ [_ [Hr Hs]]].
  pose proof (subch_nil_dead _ _ Hs Hc) as Hd.
  destruct f as [|f]; [discriminate MC|].
  destruct (match_children_found_cases _ _ _ _ _ _ MC) as
    [[Er [_ [_ [Hsz _]]]] | [[d [p1 [ps1 [Hi [_ MCd]]]]] | [pre [d [post [p1 [ps1 [Hl [_ [_ [_ MCd]]]]]]]]]]].
  - subst r. pose proof (hrel_keep c _ Hr Hk Hsz) as Hpos. rewrite Hh in Hpos. cbn in Hpos. lia.
  - assert (Id : In d (nchildren c)) by (apply (idx_child_In c path); rewrite Hi; now left).
    exact (Hd d Id _ _ _ _ _ MCd Hk).
  - assert (Id : In d (nchildren c)).
    { apply tail_of_incl. rewrite Hl. apply in_or_app. right. now left. }
    exact (Hd d Id _ _ _ _ _ MCd Hk).
Qed.

Lemma subch_remove_nth : forall cs i c, nth_error cs i = Some c -> dead c -> subch cs (remove_nth i cs).
Proof.
  induction cs as [|x cs IH]; intros i c Hi Hd; [destruct i; discriminate Hi|].
  destruct i as [|i]; cbn [nth_error remove_nth] in *.
  - injection Hi as ->. apply sub_drop; [exact Hd | apply subch_same].
  - apply sub_keep; [apply shr_refl | exact (IH i c Hi Hd)].
Qed.

Lemma subch_replace_nth : forall cs i c c', nth_error cs i = Some c -> shr c c' ->
  subch cs (replace_nth i c' cs).
Proof.
  induction cs as [|x cs IH]; intros i c c' Hi Hs; [destruct i; discriminate Hi|].
  destruct i as [|i]; cbn [nth_error replace_nth] in *.
  - injection Hi as ->. apply sub_keep; [exact Hs | apply subch_same].
  - apply sub_keep; [apply shr_refl | exact (IH i c c' Hi Hs)].
Qed.

(* the image after dropping / replacing child i, whatever the new index is *)
Lemma shr_set_children : forall n cs ix, subch (nchildren n) cs -> shr n (set_children n cs ix).
Proof.
  intros n cs ix H. destruct (TreeText.set_children_facts n cs ix) as [Hp [Hs Hc]].
  apply shr_intro; [exact Hs | exact Hp | rewrite nhandlers_set_children; apply hrel_refl | now rewrite Hc].
Qed.

(* the simulation: a search that fails still fails; a search that finds a node that must survive
   finds its image, with the same parameters *)
Lemma sim : forall f f' n n' path ps, shr n n' -> INV ic n -> INV ic n' -> params_fresh n ps ->
  height n' <= f' ->
  (forall q, match_children f n path ps = MNone q -> match_children f' n' path ps = MNone ps) /\
  (forall r q, match_children f n path ps = MFound r q -> keep r ->
     exists r', match_children f' n' path ps = MFound r' q /\ shr r r').
Proof.
  induction f as [|f IH]; intros f' n n' path ps S Hinv Hinv' Hf Hh; [split; intros; discriminate|].
  destruct f' as [|f']; [rewrite height_eq in Hh; lia|].
  pose proof (shr_fresh _ _ _ S Hf) as Hf'.
  rewrite (mc_full ic f n path ps Hinv Hf), (mc_full ic f' n' path ps Hinv' Hf').
  pose proof (INV_idx_lit ic n Hinv) as Hil. pose proof (INV_idx_lit ic n' Hinv') as Hil'.
  destruct (shr_inv _ _ S) as [Eseg [Epat [Hrel Hsub]]].
  assert (Hloop : forall cs cs', subch cs cs' -> incl cs (nchildren n) -> incl cs' (nchildren n') ->
    (forall q, mc_loop f n path cs ps = MNone q -> mc_loop f' n' path cs' ps = MNone ps) /\
    (forall r q, mc_loop f n path cs ps = MFound r q -> keep r ->
       exists r', mc_loop f' n' path cs' ps = MFound r' q /\ shr r r')).
  { intros cs cs' Hs. induction Hs as [|c cs cs' Hd Hs IHs|c c' cs cs' Hc Hs IHs]; intros Hin Hin'.
    - rewrite !mc_loop_nil. destruct path as [|b p]; [|split; [intros q _; reflexivity | intros; discriminate]].
      destruct (Nat.ltb 0 (nsize n)) eqn:SZ.
      + split; [intros; discriminate|]. intros r q E Hk. injection E as <- <-.
        apply Nat.ltb_lt in SZ. pose proof (hrel_keep n _ Hrel Hk SZ) as Hpos.
        exists n'. split; [|exact S]. unfold nsize. apply Nat.ltb_lt in Hpos. now rewrite Hpos.
      + split; [|intros; discriminate]. intros q _. apply Nat.ltb_ge in SZ.
        assert (Z : nsize n = 0) by lia. unfold nsize. now rewrite (hrel_zero n _ Hrel Z).
    - assert (Ic : In c (nchildren n)) by (apply Hin; now left).
      assert (Hin2 : incl cs (nchildren n)) by (intros x Ix; apply Hin; now right).
      rewrite mc_loop_cons_eq.
      destruct (seg_match (nseg c) path ps) as [[p1 ps1]|] eqn:SM; [|exact (IHs Hin2 Hin')].
      destruct (match_children f c p1 ps1) as [r0 q0|q0|s0] eqn:MC.
      + split; [intros; discriminate|]. intros r q E Hk. injection E as <- <-.
        elim (Hd _ _ _ _ _ MC Hk).
      + rewrite (fail_restore f n c path ps p1 ps1 q0 Hil Hf Ic SM MC). exact (IHs Hin2 Hin').
      + split; intros; discriminate.
    - assert (Ic : In c (nchildren n)) by (apply Hin; now left).
      assert (Hin2 : incl cs (nchildren n)) by (intros x Ix; apply Hin; now right).
      assert (Ic' : In c' (nchildren n')) by (apply Hin'; now left).
      assert (Hin2' : incl cs' (nchildren n')) by (intros x Ix; apply Hin'; now right).
      rewrite !mc_loop_cons_eq. rewrite (proj1 (shr_inv _ _ Hc)).
      destruct (seg_match (nseg c) path ps) as [[p1 ps1]|] eqn:SM; [|exact (IHs Hin2 Hin2')].
      assert (SM' : seg_match (nseg c') path ps = Some (p1, ps1)) by (now rewrite (proj1 (shr_inv _ _ Hc))).
      assert (Hfc : params_fresh c ps1).
      { apply (fresh_step n c path ps p1 ps1 Hf); [|exact Ic | exact SM].
        exact (proj2 (proj2 (proj2 (proj2 (all_nodes_here _ _ (INV_child ic n c Hinv Ic)))))). }
      assert (Hhc : height c' <= f') by (pose proof (height_child n' c' Ic'); lia).
      destruct (IH f' c c' p1 ps1 Hc (INV_child ic n c Hinv Ic) (INV_child ic n' c' Hinv' Ic') Hfc Hhc)
        as [IHn IHf].
      destruct (match_children f c p1 ps1) as [r0 q0|q0|s0] eqn:MC.
      + split; [intros; discriminate|]. intros r q E Hk. injection E as <- <-.
        destruct (IHf r0 q0 eq_refl Hk) as [r' [E' S']]. rewrite E'. now exists r'.
      + pose proof (IHn q0 eq_refl) as MC'. rewrite MC'.
        rewrite (fail_restore f n c path ps p1 ps1 q0 Hil Hf Ic SM MC).
        pose proof (fail_restore f' n' c' path ps p1 ps1 ps1 Hil' Hf' Ic' SM' MC') as R'.
        rewrite (proj1 (shr_inv _ _ Hc)) in R'. rewrite R'.
        exact (IHs Hin2 Hin2').
      + split; intros; discriminate. }
  exact (Hloop _ _ Hsub (incl_refl _) (incl_refl _)).
Qed.

End Sim.

Lemma shr_set_handlers_gen : forall keep hrel n n' i, shr keep hrel n n' ->
  shr keep hrel n (set_handlers n' (nhandlers n') i).
Proof.
  intros keep hrel n n' i S. destruct (shr_inv _ _ _ _ S) as [E1 [E2 [E3 E4]]].
  destruct (TreeText.set_handlers_facts n' (nhandlers n') i) as [Hp [Hs Hc]].
  apply shr_intro; [now rewrite Hs | now rewrite Hp | now rewrite nhandlers_set_handlers | now rewrite Hc].
Qed.

(* ================================================================ Part 3 : the dispatch on a shrunk image *)

Lemma all_nodes_and : forall (P Q : node -> Prop) n, all_nodes P n -> all_nodes Q n ->
  all_nodes (fun x => P x /\ Q x) n.
Proof.
  intros P Q n HP. induction HP as [n Hn _ IH]. intro HQ.
  apply all_nodes_intro; [split; [exact Hn | exact (all_nodes_here _ _ HQ)]|].
  intros ch Ich. apply (IH ch Ich). exact (all_nodes_child _ n ch HQ Ich).
Qed.

(* what [tree_handler] answers from a handler list: (ok, handler) *)
Definition hsel (method : bytes) (hs : list (bytes * hterm)) : option (bool * hterm) :=
  if Nat.eqb (length hs) O then None
  else match lookup_handler method hs with
       | Some h => Some (true, h)
       | None => match alookup M405 hs with Some h => Some (false, h) | None => None end
       end.

Lemma hsel_handler : forall t method r q ok h, hsel method (nhandlers r) = Some (ok, h) ->
  handler_of t method (MFound r q) = HFound ok (Some r) h q.
Proof.
  intros t method r q ok h H. unfold hsel in H. unfold handler_of, nsize.
  destruct (Nat.eqb (length (nhandlers r)) 0); [discriminate H|].
  destruct (lookup_handler method (nhandlers r)) as [h0|]; [now injection H as <- <-|].
  destruct (alookup M405 (nhandlers r)) as [h0|]; [now injection H as <- <-|discriminate H].
Qed.

Lemma handler_hsel : forall t method r q ok n h ps,
  handler_of t method (MFound r q) = HFound ok (Some n) h ps ->
  n = r /\ ps = q /\ hsel method (nhandlers r) = Some (ok, h).
Proof.
  intros t method r q ok n h ps H. unfold handler_of, nsize in H. unfold hsel.
  destruct (Nat.eqb (length (nhandlers r)) 0); [discriminate H|].
  destruct (lookup_handler method (nhandlers r)) as [h0|]; [injection H as <- <- <- <-; auto|].
  destruct (alookup M405 (nhandlers r)) as [h0|]; [injection H as <- <- <- <-; auto | discriminate H].
Qed.

Section Dispatch.
Variable ic : icpts.
Variable keep : node -> Prop.
Variable hrel : node -> list (bytes * hterm) -> Prop.
Hypothesis hrel_zero : forall x hs, hrel x hs -> nsize x = 0 -> hs = [].
Hypothesis hrel_keep : forall x hs, hrel x hs -> keep x -> 0 < nsize x -> 0 < length hs.
Variables t t' : tree.
Hypothesis Hshr : shr keep hrel (troot t) (troot t').
Hypothesis Hinv : INV ic (troot t).
Hypothesis Hinv' : INV ic (troot t').
Hypothesis Hnf : tnotfound t' = tnotfound t.
Hypothesis Htr : ttrace t' = ttrace t.
Hypothesis Hrh : nhandlers (troot t') = nhandlers (troot t).

Lemma root_fresh : forall n, params_fresh n [].
Proof. intros n d _. reflexivity. Qed.

Lemma frame_found : forall method path ok n h ps,
  tree_handler t method path [] = HFound ok (Some n) h ps ->
  (hsel method (nhandlers n) = Some (ok, h) -> keep n) ->
  (forall hs', hrel n hs' -> hsel method (nhandlers n) = Some (ok, h) -> hsel method hs' = Some (ok, h)) ->
  exists n', tree_handler t' method path [] = HFound ok (Some n') h ps /\ npat n' = npat n /\
    hrel n (nhandlers n').
Proof.
  intros method path ok n h ps H Hk Hsel. rewrite tree_handler_eq in H. rewrite tree_handler_eq, Htr.
  destruct (shr_inv _ _ _ _ Hshr) as [_ [Epat [Hroot _]]].
  destruct (match ttrace t with Some h0 => if beqb method TRACE then Some h0 else None | None => None end)
    as [ht|].
  - injection H as <- <- <- <-. exists (troot t'). split; [reflexivity | split; [exact Epat | exact Hroot]].
  - destruct (beqb path (bs "*") || beqb path []).
    + destruct (handler_hsel _ _ _ _ _ _ _ _ H) as [-> [-> Hs]]. exists (troot t').
      split; [|split; [exact Epat | exact Hroot]]. apply hsel_handler. now rewrite Hrh.
    + destruct (match_children (tree_fuel t) (troot t) path []) as [r q|q|s] eqn:MC;
        [|discriminate H|discriminate H].
      destruct (handler_hsel _ _ _ _ _ _ _ _ H) as [-> [-> Hs]].
      destruct (sim ic keep hrel hrel_zero hrel_keep (tree_fuel t) (tree_fuel t') (troot t) (troot t') path []
                  Hshr Hinv Hinv' (root_fresh _)) as [_ Hfound]; [unfold tree_fuel; lia|].
      destruct (Hfound r q MC (Hk Hs)) as [r' [MC' Sr]]. rewrite MC'. exists r'.
      destruct (shr_inv _ _ _ _ Sr) as [_ [Ep [Hr _]]].
      split; [|split; [exact Ep | exact Hr]]. apply hsel_handler. exact (Hsel _ Hr Hs).
Qed.

Lemma frame_404 : forall method path h ps,
  tree_handler t method path [] = HFound false None h ps ->
  tree_handler t' method path [] = HFound false None h ps.
Proof.
  intros method path h ps H. rewrite tree_handler_eq in H. rewrite tree_handler_eq, Htr.
  destruct (match ttrace t with Some h0 => if beqb method TRACE then Some h0 else None | None => None end)
    as [ht|]; [discriminate H|].
  destruct (beqb path (bs "*") || beqb path []).
  - unfold handler_of, nsize in *. rewrite Hrh, Hnf.
    destruct (Nat.eqb (length (nhandlers (troot t))) 0); [exact H|].
    destruct (lookup_handler method (nhandlers (troot t))); [discriminate H|].
    destruct (alookup M405 (nhandlers (troot t))); discriminate H.
  - destruct (match_children (tree_fuel t) (troot t) path []) as [r q|q|s] eqn:MC; [| |discriminate H].
    + exfalso. destruct (TreeLit.match_found_below _ _ _ _ _ _ MC) as [_ Hs].
      unfold handler_of in H. destruct (Nat.eqb_spec (nsize r) 0) as [E|_]; [lia|].
      destruct (lookup_handler method (nhandlers r)); [discriminate H|].
      destruct (alookup M405 (nhandlers r)); discriminate H.
    + destruct (sim ic keep hrel hrel_zero hrel_keep (tree_fuel t) (tree_fuel t') (troot t) (troot t') path []
                  Hshr Hinv Hinv' (root_fresh _)) as [Hnone _]; [unfold tree_fuel; lia|].
      rewrite (Hnone q MC). cbn [handler_of] in *. rewrite Hnf.
      rewrite (match_children_none_exact _ _ _ _ _ (INV_idx_lit ic _ Hinv) (root_fresh _) MC) in H.
      exact H.
Qed.

End Dispatch.

(* ================================================================ Part 4 : Remove *)

(* the handlers of the image: unchanged, or those left by [remove_at_node] at a node spelling p *)
Definition hrelR (p : bytes) (trace : bool) (ms : list bytes) (x : node) (hs : list (bytes * hterm)) : Prop :=
  hs = nhandlers x \/ (npat x = p /\ hs = nhandlers (fst (remove_at_node trace ms x))).

Lemma remove_at_node_facts : forall trace ms n,
  npat (fst (remove_at_node trace ms n)) = npat n /\ nseg (fst (remove_at_node trace ms n)) = nseg n /\
  nchildren (fst (remove_at_node trace ms n)) = nchildren n.
Proof.
  intros trace ms n. unfold remove_at_node.
  destruct (match ms with [] => _ | _ => _ end) as [hs removed]. cbn [fst].
  apply TreeText.set_handlers_facts.
Qed.

Lemma remove_nil_handlers : forall trace ms n, nhandlers n = [] ->
  nhandlers (fst (remove_at_node trace ms n)) = [].
Proof.
  intros trace ms n E. unfold remove_at_node. destruct ms as [|m ms].
  - cbn [fst]. apply nhandlers_set_handlers.
  - rewrite E. pose proof (remove_methods_nil (m :: ms) []) as Z.
    destruct (remove_methods (m :: ms) [] []) as [hs1 rm1]. cbn [fst] in Z. subst hs1.
    cbn. apply nhandlers_set_handlers.
Qed.

Lemma remove_methods_lookup : forall method ms hs rm, ~ In method ms -> (In GET ms -> method <> HEAD) ->
  alookup method (fst (remove_methods ms hs rm)) = alookup method hs.
Proof.
  intros method ms. induction ms as [|m ms IH]; intros hs rm Nin Hg; [reflexivity|].
  assert (Nin' : ~ In method ms) by (intro I; apply Nin; now right).
  assert (Hg' : In GET ms -> method <> HEAD) by (intro I; apply Hg; now right).
  assert (Nm : beqb method m = false) by (apply beqb_neq; intro E; apply Nin; now left).
  cbn [remove_methods]. destruct (is_auto m); [now apply IH|].
  assert (E1 : alookup method (if beqb m GET then adelete HEAD hs else hs) = alookup method hs).
  { destruct (beqb_spec m GET) as [->|_]; [|reflexivity].
    rewrite alookup_adelete.
    assert (Nh : beqb method HEAD = false) by (apply beqb_neq; apply Hg; now left).
    now rewrite Nh. }
  destruct (ahas m (if beqb m GET then adelete HEAD hs else hs)).
  - rewrite (IH _ _ Nin' Hg'), alookup_adelete, Nm. exact E1.
  - rewrite (IH _ _ Nin' Hg'). exact E1.
Qed.

Lemma adelete_shorter : forall (l : list (bytes * hterm)) k, ahas k l = true ->
  length (adelete k l) < length l.
Proof.
  assert (Hle : forall (l : list (bytes * hterm)) k, length (adelete k l) <= length l).
  { induction l as [|[k0 v0] l IH]; intro k; cbn; [lia|].
    destruct (beqb k k0); cbn; specialize (IH k); lia. }
  induction l as [|[k0 v0] l IH]; intros k H; [discriminate H|].
  unfold ahas in H. cbn in H. cbn [adelete]. destruct (beqb k k0).
  - cbn [length]. specialize (Hle l k). lia.
  - cbn [length]. specialize (IH k H). lia.
Qed.

Lemma three_keys : forall (hs : list (bytes * hterm)) a b c, a <> b -> a <> c -> b <> c ->
  ahas a hs = true -> ahas b hs = true -> ahas c hs = true -> 3 <= length hs.
Proof.
  intros hs a b c Nab Nac Nbc Ha Hb Hc.
  pose proof (adelete_shorter hs a Ha) as L1.
  assert (Hb1 : ahas b (adelete a hs) = true).
  { rewrite ahas_adelete_other; [exact Hb | apply beqb_neq; congruence]. }
  assert (Hc1 : ahas c (adelete a hs) = true).
  { rewrite ahas_adelete_other; [exact Hc | apply beqb_neq; congruence]. }
  pose proof (adelete_shorter _ b Hb1) as L2.
  assert (Hc2 : ahas c (adelete b (adelete a hs)) = true).
  { rewrite ahas_adelete_other; [exact Hc1 | apply beqb_neq; congruence]. }
  destruct (adelete b (adelete a hs)) as [|x l] eqn:E; [discriminate Hc2|]. cbn [length] in L2. lia.
Qed.

(* a method that is not removed keeps its handler *)
Lemma remove_keeps_method : forall trace ms n method h,
  lookup_handler method (nhandlers n) = Some h -> ms <> [] -> ~ In method ms ->
  (In GET ms -> method <> HEAD) -> method <> OPTIONS ->
  lookup_handler method (nhandlers (fst (remove_at_node trace ms n))) = Some h.
Proof.
  intros trace ms n method h H Hne Nin Hg No. unfold lookup_handler in *.
  destruct (beqb method M405) eqn:E405; [discriminate H|].
  unfold remove_at_node. destruct ms as [|m ms]; [now elim Hne|].
  remember (m :: ms) as ms0 eqn:Ems. clear Ems Hne.
  pose proof (remove_methods_lookup method ms0 (nhandlers n) [] Nin Hg) as L.
  destruct (remove_methods ms0 (nhandlers n) []) as [hs1 rm1]. cbn [fst] in L.
  destruct (Nat.eqb (length hs1) 2 && ahas OPTIONS hs1 && ahas M405 hs1) eqn:C.
  - exfalso. apply andb_true_iff in C. destruct C as [C C3]. apply andb_true_iff in C.
    destruct C as [C1 C2]. apply Nat.eqb_eq in C1.
    assert (Hm : ahas method hs1 = true) by (unfold ahas; now rewrite L, H).
    apply beqb_neq in E405.
    assert (N3 : OPTIONS <> M405) by discriminate.
    pose proof (three_keys hs1 method OPTIONS M405 No E405 N3 Hm C2 C3). lia.
  - cbn [fst]. rewrite nhandlers_set_handlers, L. exact H.
Qed.

Section RemoveShr.
Variable keep : node -> Prop.
Variables (p : bytes) (trace : bool) (ms : list bytes).
Notation hrel := (hrelR p trace ms).
Hypothesis HK : forall x hs, hrel x hs -> keep x -> 0 < nsize x -> 0 < length hs.

Lemma hrelR_refl : forall x, hrel x (nhandlers x).
Proof. intro x. now left. Qed.

Lemma hrelR_zero : forall x hs, hrel x hs -> nsize x = 0 -> hs = [].
Proof.
  intros x hs [->|[_ ->]] Z; unfold nsize in Z; apply length_zero_iff_nil in Z; [exact Z|].
  now apply remove_nil_handlers.
Qed.

Lemma finished_shr : forall n i ch ch' n', nth_error (nchildren n) i = Some ch ->
  shr keep hrel ch ch' -> TreeFind.finished n i ch' n' -> shr keep hrel n n'.
Proof.
  intros n i ch ch' n' NTH S [[P [ix ->]]|[_ ->]]; apply (shr_set_children keep hrel hrelR_refl).
  - apply (subch_remove_nth keep hrel hrelR_refl _ i ch NTH). exact (prun_dead keep hrel HK ch ch' S P).
  - exact (subch_replace_nth keep hrel hrelR_refl _ i ch ch' NTH S).
Qed.

Lemma one_changed_shr : forall r r' n n', shr keep hrel r r' -> TreeFind.one_changed r r' n n' ->
  shr keep hrel n n'.
Proof.
  intros r r' n n' S OC. induction OC as [n i n' NTH Hf|n i ch ch' n' NTH OC IH Hf].
  - exact (finished_shr n i r r' n' NTH S Hf).
  - exact (finished_shr n i ch ch' n' NTH IH Hf).
Qed.

Lemma remove_in_shr : forall fuel n n' rm, all_nodes TreeText.pat_ok n -> npat n = [] ->
  remove_in fuel trace ms n p = Ok (Some (n', rm)) ->
  shr keep hrel n n' /\ nhandlers n' = nhandlers n.
Proof.
  intros fuel n n' rm Hp Hroot H.
  destruct (TreeFind.C03_remove_effect_l _ _ _ _ _ _ _ H) as [r [F [_ OC]]].
  destruct (TreeFind.C03_find_sound_l _ _ _ _ Hp F) as [_ Er]. rewrite Hroot in Er. cbn [app] in Er.
  split.
  - apply (one_changed_shr r (fst (remove_at_node trace ms r)) n n'); [|exact OC].
    destruct (remove_at_node_facts trace ms r) as [E1 [E2 E3]].
    apply shr_intro; [exact E2 | exact E1 | right; now split|].
    rewrite E3. apply (subch_same keep hrel hrelR_refl).
  - destruct (TreeFind.one_changed_shape _ _ _ _ OC) as [c [ix ->]]. apply nhandlers_set_children.
Qed.

Lemma shr_set_handlers_same : forall n n' i, shr keep hrel n n' ->
  shr keep hrel n (set_handlers n' (nhandlers n') i).
Proof.
  intros n n' i S. destruct (shr_inv _ _ _ _ S) as [E1 [E2 [E3 E4]]].
  destruct (TreeText.set_handlers_facts n' (nhandlers n') i) as [Hp [Hs Hc]].
  apply shr_intro; [now rewrite Hs | now rewrite Hp | now rewrite nhandlers_set_handlers | now rewrite Hc].
Qed.

Lemma remove_tree_shr : forall t t', trace = has_trace t -> TreeText.tree_pat_ok t ->
  tree_remove t p ms = Ok t' ->
  shr keep hrel (troot t) (troot t') /\ tnotfound t' = tnotfound t /\ ttrace t' = ttrace t /\
  nhandlers (troot t') = nhandlers (troot t).
Proof.
  intros t t' Et [Hp Hroot] H. unfold tree_remove in H.
  apply bind_ok in H. destruct H as [r [R H]]. rewrite <- Et in R.
  destruct r as [[root' removed]|]; injection H as <-.
  - destruct (remove_in_shr _ _ _ _ Hp Hroot R) as [S Eh]. cbn [tree_build_methods troot tnotfound ttrace].
    split; [now apply shr_set_handlers_same|]. split; [reflexivity|]. split; [reflexivity|].
    now rewrite nhandlers_set_handlers.
  - split; [apply (shr_refl keep hrel hrelR_refl) | auto].
Qed.

End RemoveShr.

(* ---------------------------------------------------------------- reachable trees *)

Lemma reach_INV : forall name ic trace hist, TokensSplit.hist_tokens hist = true ->
  INV ic (troot (fold_left tstep hist (new_tree name ic trace))).
Proof.
  intros name ic trace hist W.
  destruct (TreeLit.reach_facts name ic trace hist W) as [Hg [Ho [_ [_ [Hsafe _]]]]].
  pose proof (sync_reachable name ic trace hist) as Hs.
  pose proof (TokensSplit.names_fresh_tokens name ic trace hist W) as Hn.
  assert (Hi : all_nodes idx_ok (troot (fold_left tstep hist (new_tree name ic trace)))).
  { apply (all_nodes_impl node_safe idx_ok); [intros x Hx; exact (proj1 Hx) | exact Hsafe]. }
  exact (all_nodes_and _ _ _ Ho (all_nodes_and _ _ _ Hg (all_nodes_and _ _ _ Hs (all_nodes_and _ _ _ Hi Hn)))).
Qed.

Lemma reach_snoc : forall name ic trace hist op, TokensSplit.hist_tokens hist = true ->
  TokensSplit.op_tokens op = true ->
  TokensSplit.hist_tokens (hist ++ [op]) = true /\
  fold_left tstep (hist ++ [op]) (new_tree name ic trace) =
  tstep (fold_left tstep hist (new_tree name ic trace)) op.
Proof.
  intros name ic trace hist op W Wo. split.
  - unfold TokensSplit.hist_tokens in *. rewrite forallb_app, W. cbn. now rewrite Wo.
  - now rewrite fold_left_app.
Qed.

Section RemoveFrame.
Variables (name : bytes) (ic : icpts) (trace : bool) (hist : list top).
Hypothesis W : TokensSplit.hist_tokens hist = true.
Notation t := (fold_left tstep hist (new_tree name ic trace)).
Variables (p : bytes) (ms : list bytes) (t' : tree).
Hypothesis HR : tree_remove t p ms = Ok t'.

Lemma remove_INV' : INV ic (troot t').
Proof.
  destruct (reach_snoc name ic trace hist (ORemove p ms) W eq_refl) as [W' E].
  pose proof (reach_INV name ic trace _ W') as H. rewrite E in H. cbn [tstep] in H.
  rewrite HR in H. exact H.
Qed.

Lemma remove_pat : TreeText.tree_pat_ok t.
Proof. rewrite <- TreeNames.fold_tt. apply TreeText.pat_reachable. Qed.

(* a request dispatched to another route: the answering node keeps its pattern and its whole
   handler table *)
Theorem remove_frame_strong : forall method path ok n h ps,
  tree_handler t method path [] = HFound ok (Some n) h ps -> npat n <> p ->
  exists n', tree_handler t' method path [] = HFound ok (Some n') h ps /\ npat n' = npat n /\
    nhandlers n' = nhandlers n.
Proof.
  intros method path ok n h ps H Np.
  set (keep := fun r : node => npat r <> p).
  assert (HK : forall x hs, hrelR p (has_trace t) ms x hs -> keep x -> 0 < nsize x -> 0 < length hs).
  { intros x hs [->|[E _]] Hk Hs; [exact Hs | elim (Hk E)]. }
  destruct (remove_tree_shr keep p (has_trace t) ms HK t t' eq_refl remove_pat HR) as [S [E1 [E2 E3]]].
  destruct (frame_found ic keep (hrelR p (has_trace t) ms) (hrelR_zero p (has_trace t) ms) HK t t' S
           (reach_INV name ic trace hist W) remove_INV' E2 E3 method path ok n h ps H) as [n' [A [B C]]].
  - intros _. exact Np.
  - intros hs' [->|[E _]] Hs; [exact Hs | elim (Np E)].
  - exists n'. split; [exact A|]. split; [exact B|]. destruct C as [C|[E _]]; [exact C | elim (Np E)].
Qed.

Theorem remove_frame : forall method path ok n h ps,
  tree_handler t method path [] = HFound ok (Some n) h ps -> npat n <> p ->
  exists n', tree_handler t' method path [] = HFound ok (Some n') h ps /\ npat n' = npat n.
Proof.
  intros method path ok n h ps H Np.
  destruct (remove_frame_strong method path ok n h ps H Np) as [n' [A [B _]]]. now exists n'.
Qed.

(* the same route, a method that is not removed *)
Theorem remove_frame_method : forall method path n h ps,
  tree_handler t method path [] = HFound true (Some n) h ps -> npat n = p ->
  ms <> [] -> ~ In method ms -> (In GET ms -> method <> HEAD) -> method <> OPTIONS ->
  exists n', tree_handler t' method path [] = HFound true (Some n') h ps /\ npat n' = npat n.
Proof.
  intros method path n h ps H _ Hne Nin Hg No.
  set (keep := fun r : node => exists h0, lookup_handler method (nhandlers r) = Some h0).
  assert (Hpos : forall hs h0, lookup_handler method hs = Some h0 -> 0 < length hs).
  { intros hs h0 E. destruct hs; [|cbn; lia]. unfold lookup_handler in E.
    destruct (beqb method M405); discriminate E. }
  assert (HK : forall x hs, hrelR p (has_trace t) ms x hs -> keep x -> 0 < nsize x -> 0 < length hs).
  { intros x hs [->|[_ ->]] [h0 Hk] Hs; [exact Hs|].
    exact (Hpos _ h0 (remove_keeps_method _ _ _ _ _ Hk Hne Nin Hg No)). }
  assert (Hlk : forall hs h0, hsel method hs = Some (true, h0) -> lookup_handler method hs = Some h0).
  { intros hs h0 E. unfold hsel in E. destruct (Nat.eqb (length hs) 0); [discriminate E|].
    destruct (lookup_handler method hs) as [h1|]; [now injection E as <-|].
    destruct (alookup M405 hs); discriminate E. }
  assert (Hsl : forall hs h0, lookup_handler method hs = Some h0 -> hsel method hs = Some (true, h0)).
  { intros hs h0 E. unfold hsel. pose proof (Hpos _ _ E) as L.
    destruct (Nat.eqb_spec (length hs) 0) as [Z|_]; [lia|]. now rewrite E. }
  destruct (remove_tree_shr keep p (has_trace t) ms HK t t' eq_refl remove_pat HR) as [S [E1 [E2 E3]]].
  destruct (frame_found ic keep (hrelR p (has_trace t) ms) (hrelR_zero p (has_trace t) ms) HK t t' S
           (reach_INV name ic trace hist W) remove_INV' E2 E3 method path true n h ps H) as [n' [A [B _]]].
  - intro Hs. exists h. exact (Hlk _ _ Hs).
  - intros hs' [->|[_ ->]] Hs; [exact Hs|]. apply Hsl.
    exact (remove_keeps_method _ _ _ _ _ (Hlk _ _ Hs) Hne Nin Hg No).
  - now exists n'.
Qed.

(* a request that was not found *)
Theorem remove_frame_404 : forall method path h ps,
  tree_handler t method path [] = HFound false None h ps ->
  tree_handler t' method path [] = HFound false None h ps.
Proof.
  intros method path h ps H.
  set (keep := fun _ : node => False).
  assert (HK : forall x hs, hrelR p (has_trace t) ms x hs -> keep x -> 0 < nsize x -> 0 < length hs).
  { intros x hs _ []. }
  destruct (remove_tree_shr keep p (has_trace t) ms HK t t' eq_refl remove_pat HR) as [S [E1 [E2 E3]]].
  exact (frame_404 ic keep (hrelR p (has_trace t) ms) (hrelR_zero p (has_trace t) ms) HK t t' S
           (reach_INV name ic trace hist W) remove_INV' E1 E2 E3 method path h ps H).
Qed.

End RemoveFrame.

(* ================================================================ Part 5 : Clean *)

Definition hrelC (x : node) (hs : list (bytes * hterm)) : Prop := hs = nhandlers x.
Definition keepC (full : bytes) (r : node) : Prop := has_prefix (npat r) full = false.

Lemma hrelC_refl : forall x, hrelC x (nhandlers x).
Proof. intro x. reflexivity. Qed.
Lemma hrelC_zero : forall x hs, hrelC x hs -> nsize x = 0 -> hs = [].
Proof. intros x hs -> Z. unfold nsize in Z. now apply length_zero_iff_nil. Qed.
Lemma hrelC_keep : forall full x hs, hrelC x hs -> keepC full x -> 0 < nsize x -> 0 < length hs.
Proof. intros full x hs -> _ Hs. exact Hs. Qed.

(* every pattern below a node whose pattern starts with the prefix starts with the prefix *)
Lemma dead_prefix : forall full c, all_nodes TreeText.pat_ok c -> has_prefix (npat c) full = true ->
  dead (keepC full) c.
Proof.
  intros full c Hp Hpre f path ps r q MC Hk. unfold keepC in Hk.
  destruct (TreeLit.match_found_below _ _ _ _ _ _ MC) as [[->|D] _]; [congruence|].
  destruct (TreeFind.desc_pat c r Hp D) as [q' Eq].
  apply has_prefix_spec in Hpre. destruct Hpre as [tl Et].
  assert (X : has_prefix (npat r) full = true).
  { apply has_prefix_spec. exists (tl ++ q'). now rewrite Eq, Et, app_assoc. }
  congruence.
Qed.

Lemma subch_all_dead : forall keep hrel cs, (forall c, In c cs -> dead keep c) -> subch keep hrel cs [].
Proof.
  intros keep hrel cs. induction cs as [|c cs IH]; intro H; [constructor|].
  apply sub_drop; [apply H; now left | apply IH; intros x Ix; apply H; now right].
Qed.

Lemma clean_in_shr : forall full fuel n pf n', all_nodes TreeText.pat_ok n -> full = npat n ++ pf ->
  clean_in fuel n pf = Ok n' -> shr (keepC full) hrelC n n'.
Proof.
  intros full. induction fuel as [|f IH]; intros n pf n' Hp Ef H; [discriminate H|].
  rewrite clean_in_S in H. pose proof (all_nodes_here _ _ Hp) as Hpn.
  destruct pf as [|b pf0].
  - injection H as <-. apply (shr_set_children (keepC full) hrelC hrelC_refl).
    apply subch_all_dead. intros c Ic. apply dead_prefix; [exact (all_nodes_child _ n c Hp Ic)|].
    rewrite (Hpn c Ic), Ef, app_nil_r. apply has_prefix_app.
  - remember (b :: pf0) as pf eqn:Epf. clear Epf b pf0.
    assert (Hgo : forall c cs, (forall ch, In ch c -> In ch (nchildren n)) ->
              clean_go f pf c = Ok cs -> subch (keepC full) hrelC c cs).
    { induction c as [|ch c IHc]; intros cs Hc G; cbn [clean_go] in G.
      - injection G as <-. constructor.
      - assert (Ich : In ch (nchildren n)) by (apply Hc; now left).
        assert (Hc' : forall y, In y c -> In y (nchildren n)) by (intros y Iy; apply Hc; now right).
        assert (Hpc : all_nodes TreeText.pat_ok ch) by exact (all_nodes_child _ n ch Hp Ich).
        cbv zeta in G. apply bind_ok in G. destruct G as [ch' [C G]].
        apply bind_ok in G. destruct G as [rest [R G]].
        pose proof (IHc rest Hc' R) as Hrest.
        destruct (has_prefix (sval (nseg ch)) pf) eqn:HP; injection G as <-.
        + apply sub_drop; [|exact Hrest]. apply dead_prefix; [exact Hpc|].
          apply has_prefix_spec in HP. destruct HP as [tl Et].
          apply has_prefix_spec. exists tl. now rewrite (Hpn ch Ich), Et, Ef, app_assoc.
        + apply sub_keep; [|exact Hrest].
          destruct (Nat.ltb (length (sval (nseg ch))) (length pf) && has_prefix pf (sval (nseg ch))) eqn:CD.
          * apply andb_true_iff in CD. destruct CD as [_ HP2].
            apply (IH ch (skipn (length (sval (nseg ch))) pf) ch' Hpc); [|exact C].
            rewrite (Hpn ch Ich), <- app_assoc, <- (has_prefix_skipn _ _ HP2). exact Ef.
          * injection C as <-. apply (shr_refl (keepC full) hrelC hrelC_refl). }
    apply bind_ok in H. destruct H as [cs [G H]].
    apply bind_ok in H. destruct H as [ix [B H]]. injection H as <-.
    apply (shr_set_children (keepC full) hrelC hrelC_refl).
    apply (Hgo (nchildren n) cs); [intros ch Ich; exact Ich | exact G].
Qed.

Lemma clean_tree_shr : forall t prefix t', TreeText.tree_pat_ok t -> tree_clean t prefix = Ok t' ->
  shr (keepC prefix) hrelC (troot t) (troot t') /\ tnotfound t' = tnotfound t /\ ttrace t' = ttrace t /\
  nhandlers (troot t') = nhandlers (troot t).
Proof.
  intros t prefix t' [Hp Hroot] H. unfold tree_clean in H.
  apply bind_ok in H. destruct H as [root' [C H]]. injection H as <-.
  assert (S : shr (keepC prefix) hrelC (troot t) root').
  { apply (clean_in_shr prefix (tree_fuel t) (troot t) prefix root' Hp); [now rewrite Hroot | exact C]. }
  unfold tree_build_methods. cbn [troot tnotfound ttrace].
  destruct (shr_inv _ _ _ _ S) as [_ [_ [E3 _]]].
  split; [now apply shr_set_handlers_gen|]. split; [reflexivity|]. split; [reflexivity|].
  rewrite nhandlers_set_handlers. exact E3.
Qed.

Section CleanFrame.
Variables (name : bytes) (ic : icpts) (trace : bool) (hist : list top).
Hypothesis W : TokensSplit.hist_tokens hist = true.
Notation t := (fold_left tstep hist (new_tree name ic trace)).
Variables (prefix : bytes) (t' : tree).
Hypothesis HC : tree_clean t prefix = Ok t'.

Lemma clean_INV' : INV ic (troot t').
Proof.
  destruct (reach_snoc name ic trace hist (OClean prefix) W eq_refl) as [W' E].
  pose proof (reach_INV name ic trace _ W') as H. rewrite E in H. cbn [tstep] in H.
  rewrite HC in H. exact H.
Qed.

Lemma clean_pat : TreeText.tree_pat_ok t.
Proof. rewrite <- TreeNames.fold_tt. apply TreeText.pat_reachable. Qed.

(* a request dispatched to a route outside the cleaned prefix *)
Theorem clean_frame_strong : forall method path ok n h ps,
  tree_handler t method path [] = HFound ok (Some n) h ps -> has_prefix (npat n) prefix = false ->
  exists n', tree_handler t' method path [] = HFound ok (Some n') h ps /\ npat n' = npat n /\
    nhandlers n' = nhandlers n.
Proof.
  intros method path ok n h ps H Np.
  destruct (clean_tree_shr t prefix t' clean_pat HC) as [S [E1 [E2 E3]]].
  destruct (frame_found ic (keepC prefix) hrelC hrelC_zero (hrelC_keep prefix) t t' S
           (reach_INV name ic trace hist W) clean_INV' E2 E3 method path ok n h ps H) as [n' [A [B C]]].
  - intros _. exact Np.
  - intros hs' -> Hs. exact Hs.
  - exists n'. split; [exact A|]. split; [exact B | exact C].
Qed.

Theorem clean_frame : forall method path ok n h ps,
  tree_handler t method path [] = HFound ok (Some n) h ps -> has_prefix (npat n) prefix = false ->
  exists n', tree_handler t' method path [] = HFound ok (Some n') h ps /\ npat n' = npat n.
Proof.
  intros method path ok n h ps H Np.
  destruct (clean_frame_strong method path ok n h ps H Np) as [n' [A [B _]]]. now exists n'.
Qed.

Theorem clean_frame_404 : forall method path h ps,
  tree_handler t method path [] = HFound false None h ps ->
  tree_handler t' method path [] = HFound false None h ps.
Proof.
  intros method path h ps H.
  destruct (clean_tree_shr t prefix t' clean_pat HC) as [S [E1 [E2 E3]]].
  exact (frame_404 ic (keepC prefix) hrelC hrelC_zero (hrelC_keep prefix) t t' S
           (reach_INV name ic trace hist W) clean_INV' E1 E2 E3 method path h ps H).
Qed.

End CleanFrame.

(* ================================================================ Part 6 : the statements of Props/C03frame.v *)

Notation hist_tokens := TokensSplit.hist_tokens.

Theorem C03_remove_frame_l : forall name ic trace hist p ms method path ok n h ps t',
  hist_tokens hist = true ->
  let t := fold_left tstep hist (new_tree name ic trace) in
  tree_handler t method path [] = HFound ok (Some n) h ps ->
  npat n <> p ->
  tree_remove t p ms = Ok t' ->
  exists n', tree_handler t' method path [] = HFound ok (Some n') h ps /\ npat n' = npat n.
Proof.
  intros name ic trace hist p ms method path ok n h ps t' W t H Np HR.
  exact (remove_frame name ic trace hist W p ms t' HR method path ok n h ps H Np).
Qed.

(* stronger: the answering node keeps its whole handler table *)
Theorem C03_remove_frame_handlers_l : forall name ic trace hist p ms method path ok n h ps t',
  hist_tokens hist = true ->
  let t := fold_left tstep hist (new_tree name ic trace) in
  tree_handler t method path [] = HFound ok (Some n) h ps ->
  npat n <> p ->
  tree_remove t p ms = Ok t' ->
  exists n', tree_handler t' method path [] = HFound ok (Some n') h ps /\ npat n' = npat n /\
    nhandlers n' = nhandlers n.
Proof.
  intros name ic trace hist p ms method path ok n h ps t' W t H Np HR.
  exact (remove_frame_strong name ic trace hist W p ms t' HR method path ok n h ps H Np).
Qed.

Theorem C03_remove_frame_method_l : forall name ic trace hist p ms method path n h ps t',
  hist_tokens hist = true ->
  let t := fold_left tstep hist (new_tree name ic trace) in
  tree_handler t method path [] = HFound true (Some n) h ps ->
  npat n = p ->
  ms <> [] -> ~ In method ms -> (In GET ms -> method <> HEAD) -> method <> OPTIONS ->
  tree_remove t p ms = Ok t' ->
  exists n', tree_handler t' method path [] = HFound true (Some n') h ps /\ npat n' = npat n.
Proof.
  intros name ic trace hist p ms method path n h ps t' W t H Ep Hne Nin Hg No HR.
  exact (remove_frame_method name ic trace hist W p ms t' HR method path n h ps H Ep Hne Nin Hg No).
Qed.

Theorem C03_remove_frame_404_l : forall name ic trace hist p ms method path h ps t',
  hist_tokens hist = true ->
  let t := fold_left tstep hist (new_tree name ic trace) in
  tree_handler t method path [] = HFound false None h ps ->
  tree_remove t p ms = Ok t' ->
  tree_handler t' method path [] = HFound false None h ps.
Proof.
  intros name ic trace hist p ms method path h ps t' W t H HR.
  exact (remove_frame_404 name ic trace hist W p ms t' HR method path h ps H).
Qed.

Theorem C03_clean_frame_l : forall name ic trace hist prefix method path ok n h ps t',
  hist_tokens hist = true ->
  let t := fold_left tstep hist (new_tree name ic trace) in
  tree_handler t method path [] = HFound ok (Some n) h ps ->
  has_prefix (npat n) prefix = false ->
  tree_clean t prefix = Ok t' ->
  exists n', tree_handler t' method path [] = HFound ok (Some n') h ps /\ npat n' = npat n.
Proof.
  intros name ic trace hist prefix method path ok n h ps t' W t H Np HC.
  exact (clean_frame name ic trace hist W prefix t' HC method path ok n h ps H Np).
Qed.

Theorem C03_clean_frame_handlers_l : forall name ic trace hist prefix method path ok n h ps t',
  hist_tokens hist = true ->
  let t := fold_left tstep hist (new_tree name ic trace) in
  tree_handler t method path [] = HFound ok (Some n) h ps ->
  has_prefix (npat n) prefix = false ->
  tree_clean t prefix = Ok t' ->
  exists n', tree_handler t' method path [] = HFound ok (Some n') h ps /\ npat n' = npat n /\
    nhandlers n' = nhandlers n.
Proof.
  intros name ic trace hist prefix method path ok n h ps t' W t H Np HC.
  exact (clean_frame_strong name ic trace hist W prefix t' HC method path ok n h ps H Np).
Qed.

(* Clean takes no method list: "another method of a surviving route" is the case ok = true above *)
Theorem C03_clean_frame_method_l : forall name ic trace hist prefix method path n h ps t',
  hist_tokens hist = true ->
  let t := fold_left tstep hist (new_tree name ic trace) in
  tree_handler t method path [] = HFound true (Some n) h ps ->
  has_prefix (npat n) prefix = false ->
  tree_clean t prefix = Ok t' ->
  exists n', tree_handler t' method path [] = HFound true (Some n') h ps /\ npat n' = npat n.
Proof.
  intros name ic trace hist prefix method path n h ps t' W t H Np HC.
  exact (clean_frame name ic trace hist W prefix t' HC method path true n h ps H Np).
Qed.

Theorem C03_clean_frame_404_l : forall name ic trace hist prefix method path h ps t',
  hist_tokens hist = true ->
  let t := fold_left tstep hist (new_tree name ic trace) in
  tree_handler t method path [] = HFound false None h ps ->
  tree_clean t prefix = Ok t' ->
  tree_handler t' method path [] = HFound false None h ps.
Proof.
  intros name ic trace hist prefix method path h ps t' W t H HC.
  exact (clean_frame_404 name ic trace hist W prefix t' HC method path h ps H).
Qed.

(* ================================================================ Part 7 : examples *)

Definition ex_add (p : String.string) (ms : list bytes) : top := OAdd (bs p) (HUser (bs p)) [] ms.
(* six literal siblings and one parameter sibling under "/", nested routes below "/a" and "/c" *)
Definition ex_hist : list top :=
  [ex_add "/a" [GET]; ex_add "/b" [GET; POST]; ex_add "/c" [GET]; ex_add "/d" [GET]; ex_add "/e" [GET];
   ex_add "/f" [GET]; ex_add "/{id}" [GET]; ex_add "/a/x" [GET]; ex_add "/a/{id}/y" [GET; PUT];
   ex_add "/c/z" [GET]].
Notation ex_t := (fold_left tstep ex_hist (new_tree (bs "r") [] true)).
Definition ex_t1 : tree := keep ex_t (tree_remove ex_t (bs "/d") []).
Definition ex_t2 : tree := keep ex_t (tree_remove ex_t (bs "/b") [POST]).
Definition ex_t3 : tree := keep ex_t (tree_clean ex_t (bs "/a/")).
(* five children under "/" (index of 4 entries); removing one more drops the index *)
Definition ex_hist4 : list top := ex_hist ++ [ORemove (bs "/d") []; ORemove (bs "/e") []].
Notation ex_t4 := (fold_left tstep ex_hist4 (new_tree (bs "r") [] true)).
Definition ex_t5 : tree := keep ex_t4 (tree_remove ex_t4 (bs "/f") []).

Definition ex_slash (t : tree) : node := TreeNames.kid 0 (troot t).

Example ex_frame_accepted :
  hist_tokens ex_hist = true /\ all_accepted (new_tree (bs "r") [] true) ex_hist = true /\
  hist_tokens ex_hist4 = true /\ all_accepted (new_tree (bs "r") [] true) ex_hist4 = true /\
  (* the index exists before, is rebuilt (d removed: 6 children) or dropped (f removed: 4 children) *)
  length (nchildren (ex_slash ex_t)) = 7 /\ length (nindexes (ex_slash ex_t)) = 6 /\
  length (nchildren (ex_slash ex_t1)) = 6 /\ length (nindexes (ex_slash ex_t1)) = 5 /\
  length (nchildren (ex_slash ex_t4)) = 5 /\ length (nindexes (ex_slash ex_t4)) = 4 /\
  length (nchildren (ex_slash ex_t5)) = 4 /\ length (nindexes (ex_slash ex_t5)) = 0.
Proof. vm_compute. repeat split. Qed.

Lemma ex_remove_ok1 : tree_remove ex_t (bs "/d") [] = Ok ex_t1.
Proof.
  unfold ex_t1. destruct (tree_remove ex_t (bs "/d") []) as [t'| | |] eqn:E;
    [reflexivity | vm_compute in E; discriminate E ..].
Qed.
Lemma ex_remove_ok2 : tree_remove ex_t (bs "/b") [POST] = Ok ex_t2.
Proof.
  unfold ex_t2. destruct (tree_remove ex_t (bs "/b") [POST]) as [t'| | |] eqn:E;
    [reflexivity | vm_compute in E; discriminate E ..].
Qed.
Lemma ex_clean_ok3 : tree_clean ex_t (bs "/a/") = Ok ex_t3.
Proof.
  unfold ex_t3. destruct (tree_clean ex_t (bs "/a/")) as [t'| | |] eqn:E;
    [reflexivity | vm_compute in E; discriminate E ..].
Qed.
Lemma ex_remove_ok5 : tree_remove ex_t4 (bs "/f") [] = Ok ex_t5.
Proof.
  unfold ex_t5. destruct (tree_remove ex_t4 (bs "/f") []) as [t'| | |] eqn:E;
    [reflexivity | vm_compute in E; discriminate E ..].
Qed.

(* the premises: who answers before the removal *)
Example ex_frame_premises :
  (exists n, tree_handler ex_t GET (bs "/a/7/y") [] =
             HFound true (Some n) (HUser (bs "/a/{id}/y")) [(bs "id", bs "7")] /\ npat n = bs "/a/{id}/y") /\
  (exists n, tree_handler ex_t PUT (bs "/b") [] = HFound false (Some n) HNotAllowed [] /\ npat n = bs "/b") /\
  (exists n, tree_handler ex_t GET (bs "/q") [] =
             HFound true (Some n) (HUser (bs "/{id}")) [(bs "id", bs "q")] /\ npat n = bs "/{id}") /\
  (exists n, tree_handler ex_t GET (bs "/b") [] = HFound true (Some n) (HUser (bs "/b")) [] /\ npat n = bs "/b") /\
  tree_handler ex_t GET (bs "nope") [] = HFound false None HNotFound [] /\
  (exists n, tree_handler ex_t4 GET (bs "/c/z") [] = HFound true (Some n) (HUser (bs "/c/z")) [] /\
             npat n = bs "/c/z").
Proof.
  split; [eexists; split; vm_compute; reflexivity|].
  split; [eexists; split; vm_compute; reflexivity|].
  split; [eexists; split; vm_compute; reflexivity|].
  split; [eexists; split; vm_compute; reflexivity|].
  split; [vm_compute; reflexivity|].
  eexists; split; vm_compute; reflexivity.
Qed.

(* the conclusions, computed *)
Example ex_frame_computed :
  match tree_handler ex_t1 GET (bs "/a/7/y") [] with
  | HFound true (Some n) (HUser u) ps => npat n = bs "/a/{id}/y" /\ u = bs "/a/{id}/y" /\ ps = [(bs "id", bs "7")]
  | _ => False end /\
  match tree_handler ex_t1 PUT (bs "/b") [] with
  | HFound false (Some n) HNotAllowed [] => npat n = bs "/b" | _ => False end /\
  match tree_handler ex_t1 GET (bs "/q") [] with
  | HFound true (Some n) (HUser u) ps => npat n = bs "/{id}" /\ ps = [(bs "id", bs "q")] | _ => False end /\
  match tree_handler ex_t2 GET (bs "/b") [] with
  | HFound true (Some n) (HUser u) [] => npat n = bs "/b" /\ u = bs "/b" | _ => False end /\
  tree_handler ex_t1 GET (bs "nope") [] = HFound false None HNotFound [] /\
  tree_handler ex_t3 GET (bs "nope") [] = HFound false None HNotFound [] /\
  match tree_handler ex_t3 GET (bs "/q") [] with
  | HFound true (Some n) (HUser u) ps => npat n = bs "/{id}" /\ ps = [(bs "id", bs "q")] | _ => False end /\
  match tree_handler ex_t5 GET (bs "/c/z") [] with
  | HFound true (Some n) (HUser u) [] => npat n = bs "/c/z" | _ => False end.
Proof. vm_compute. repeat split. Qed.

(* the theorems applied to the example *)
Example ex_frame_applied :
  (exists n', tree_handler ex_t1 GET (bs "/a/7/y") [] =
              HFound true (Some n') (HUser (bs "/a/{id}/y")) [(bs "id", bs "7")] /\ npat n' = bs "/a/{id}/y") /\
  (exists n', tree_handler ex_t1 PUT (bs "/b") [] = HFound false (Some n') HNotAllowed [] /\ npat n' = bs "/b") /\
  (exists n', tree_handler ex_t2 GET (bs "/b") [] = HFound true (Some n') (HUser (bs "/b")) [] /\ npat n' = bs "/b") /\
  tree_handler ex_t1 GET (bs "nope") [] = HFound false None HNotFound [] /\
  (exists n', tree_handler ex_t3 GET (bs "/q") [] =
              HFound true (Some n') (HUser (bs "/{id}")) [(bs "id", bs "q")] /\ npat n' = bs "/{id}") /\
  tree_handler ex_t3 GET (bs "nope") [] = HFound false None HNotFound [] /\
  (exists n', tree_handler ex_t5 GET (bs "/c/z") [] = HFound true (Some n') (HUser (bs "/c/z")) [] /\
              npat n' = bs "/c/z").
Proof.
  destruct ex_frame_accepted as [W [_ [W4 _]]].
  destruct ex_frame_premises as [[n1 [H1 P1]] [[n2 [H2 P2]] [[n3 [H3 P3]] [[n4 [H4 P4]] [H5 [n6 [H6 P6]]]]]]].
  split.
  { destruct (C03_remove_frame_l (bs "r") [] true ex_hist (bs "/d") [] GET (bs "/a/7/y") true n1 _ _ ex_t1
                W H1) as [n' [A B]]; [rewrite P1; vm_compute; discriminate | exact ex_remove_ok1|].
    exists n'. split; [exact A | now rewrite B]. }
  split.
  { destruct (C03_remove_frame_l (bs "r") [] true ex_hist (bs "/d") [] PUT (bs "/b") false n2 _ _ ex_t1
                W H2) as [n' [A B]]; [rewrite P2; vm_compute; discriminate | exact ex_remove_ok1|].
    exists n'. split; [exact A | now rewrite B]. }
  split.
  { destruct (C03_remove_frame_method_l (bs "r") [] true ex_hist (bs "/b") [POST] GET (bs "/b") n4 _ _ ex_t2
                W H4 P4) as [n' [A B]].
    - discriminate.
    - intros [E|[]]. vm_compute in E. discriminate E.
    - intros _. vm_compute. discriminate.
    - vm_compute. discriminate.
    - exact ex_remove_ok2.
    - exists n'. split; [exact A | now rewrite B]. }
  split.
  { exact (C03_remove_frame_404_l (bs "r") [] true ex_hist (bs "/d") [] GET (bs "nope") _ _ ex_t1 W H5 ex_remove_ok1). }
  split.
  { destruct (C03_clean_frame_l (bs "r") [] true ex_hist (bs "/a/") GET (bs "/q") true n3 _ _ ex_t3
                W H3) as [n' [A B]]; [rewrite P3; vm_compute; reflexivity | exact ex_clean_ok3|].
    exists n'. split; [exact A | now rewrite B]. }
  split.
  { exact (C03_clean_frame_404_l (bs "r") [] true ex_hist (bs "/a/") GET (bs "nope") _ _ ex_t3 W H5 ex_clean_ok3). }
  destruct (C03_remove_frame_l (bs "r") [] true ex_hist4 (bs "/f") [] GET (bs "/c/z") true n6 _ _ ex_t5
              W4 H6) as [n' [A B]]; [rewrite P6; vm_compute; discriminate | exact ex_remove_ok5|].
  exists n'. split; [exact A | now rewrite B].
Qed.

(* the side conditions of the method statement are needed: removing GET also removes HEAD, and
   removing the last user method removes the node's OPTIONS handler *)
Example ex_method_conditions_needed :
  (exists n, tree_handler ex_t HEAD (bs "/c") [] = HFound true (Some n) (HUser (bs "/c")) [] /\ npat n = bs "/c") /\
  match tree_remove ex_t (bs "/c") [GET] with
  | Ok t' => match tree_handler t' HEAD (bs "/c") [] with
             | HFound true (Some n) (HUser u) ps => npat n = bs "/{id}"      (* now answered by "/{id}" *)
             | _ => False end
  | _ => False end /\
  (exists n, tree_handler ex_t OPTIONS (bs "/c") [] = HFound true (Some n) HOptions [] /\ npat n = bs "/c") /\
  match tree_remove ex_t (bs "/c") [GET] with
  | Ok t' => match tree_handler t' OPTIONS (bs "/c") [] with
             | HFound true (Some n) HOptions ps => npat n = bs "/{id}"
             | _ => False end
  | _ => False end.
Proof.
  split; [eexists; split; vm_compute; reflexivity|].
  split; [vm_compute; reflexivity|].
  split; [eexists; split; vm_compute; reflexivity|].
  vm_compute; reflexivity.
Qed.
